#!/usr/bin/env python3
"""Regenerates /verif/MANIFEST.json from the table below (keeps it valid and current)."""
import json, subprocess

ALL = ["C%02d" % i for i in range(1, 21)]

# property -> (category, level text, level note, technique, design ref)
CHECKS = {
 "C01": ("model_checking",
  "bounded exhaustive enumeration of (schema, value, presentation, observation mode, input path) over a small-scope alphabet that contains every varint/length boundary, every logical type and every union-lookup collision; each case is executed on the real serializer and deserializer and compared with an independent reference codec; thorough adds all 2^32 f32 bit patterns",
  "trusted: vmodel codec; the table of expected observations; bounds: schemas of <= 2 (quick) / 3 (thorough) composition levels, collections <= 2/3 items",
  "small-scope exhaustive enumeration (stateless DFS over the choice tree) against a reference model", "DESIGN.md §4 C01"),
 "C02": ("model_checking",
  "exhaustive enumeration of the matrix (schema node kind in context) x (serde presentation): every Serializer method, every integer width at its boundaries, strs/bytes/sequences around every fixed size, wrong length hints, field sets exact/missing/unknown/duplicated/permuted, named and type-directed union selection; every Ok result is decoded by the reference decoder and judged by a denotation relation that does not depend on the branch the crate chose",
  "trusted: vmodel decoder; the denotation relation den() (DESIGN.md §4 C02); abstains on documented-lossy conversions (f64->float, decimal rescale, f64->decimal); bounds: one (quick) / two (thorough) levels of context around each node kind",
  "small-scope exhaustive enumeration of a (schema x presentation) matrix against a reference decoder", "DESIGN.md §4 C02"),
 "C03": ("model_checking",
  "small-scope exhaustive enumeration: every schema of the shared alphabet x values (sweep A: every boundary value with collections <= 2 items; sweep B: deterministic wide values with n = 3-5 items) x ALL block layouts of every array/map occurrence (every composition of the items into blocks x every sign assignment, negative counts carrying byte sizes; nested occurrences jointly up to a product cap with one plan per start collection) x single-point malformations (boolean byte 2/0x80/0xff; string, uuid, map-key bytes -> 0xff/0xc0/lone 0xe2; union and enum index -> len, len+1, -1; length -> -1, remaining+1, 2^62; every block count incl. the terminator -> i64::MIN; truncation at every prefix (<= 32 bytes) or every token boundary +-1); every byte string is judged by the reference decoder: Valid(v, n) => the crate delivers v and consumes n in modes Any / Hinted / Optioned from slice, whole-buffer reader and 1-byte-chunk reader; Invalid => Err; Unspecified or outside the documented decimal limits => no comparison",
  "trusted: vmodel decoder as the judge of every input; bounds as stated (quick: full malformation set on canonical layouts only); typed Rust targets are C01's",
  "small-scope exhaustive enumeration of encodings (all block layouts) and one-point malformations against a reference decoder", "DESIGN.md §4 C03"),
 "C04": ("model_checking",
  "explicit-state search over the decoder's input-consumption tree: a byte-string prefix is expanded over a 10-symbol byte alphabet only if decoding it ended because the input ran out (so the depth budget of 8 / 12 bytes goes to the prefixes that keep the decoder hungry: huge counts, huge lengths, nested block headers), for 17 hostile schemas (array<null>, map<null>, recursive records, big-decimal, ...) plus the shared alphabet; 39-45 decodes per node: slice, 1-byte-refill reader, whole-buffer reader x targets (observation, IgnoredAny, non-allocating fold, typed Rust types) x limits tightened one at a time (allowed_depth 0/1/2, max_seq_size 0/1/3, max_alloc_size 0/1/8); oracle: no panic/abort/hang (worker subprocesses under an address-space limit), the reference decoder's nesting / longest collection / largest field above a limit => Err, slice path with a non-allocating target and Ok => 0 heap allocations (counting allocator), peak heap <= 2048 + max_alloc_size + |input|, fill_buf/read calls <= 4|input| + 2 values + 16; plus ~440 literal adversarial seeds under default limits (i64::MIN counts, 2^62 lengths, 10^9 zero-byte elements, 10^5-deep recursion)",
  "trusted: vmodel decoder (shape of valid datums); the counting allocator; bounds: per-schema node caps (dense trees stop at depth 3-6, reported per schema in the evidence: a capped run is not called exhaustive), limits varied one at a time",
  "explicit-state search over the input-consumption tree of the real decoder, resource oracles per state", "DESIGN.md §4 C04"),
 "C10": ("model_checking",
  "explicit enumeration of API HISTORIES on real objects: every admissible operation sequence (admissible = what the borrow checker accepts: a SerializerConfig dies before the schema handle it borrows, nothing else) over a pool of resources (one SchemaMut, one Schema, two Arc<Schema>, one SerializerConfig, one container Reader, two value slots) with operations parse / build / 5 edits / freeze ok and freeze on 29 bad graphs (dangling key in an unreachable node of each kind at each position, empty graph) / move through Vec realloc, Box and a channel to another thread / Arc new-clone-drop / serialize / deserialize owned, Cow, borrowed, failing / Debug / open reader (slice, Cursor, 5-byte chunks; codecs) / next / schema().clone() / drops in any order: natively ALL histories of the wide alphabet to depth 4 (245 383; thorough: depth 5 and the full alphabet, 10.5 M) with a differential oracle (every result equals a fresh run of the operation's dependency cone), values re-read after every operation and after cleanup, every borrowed str/bytes must point into the value's own input buffer; under MIRI (stacked borrows, uninitialised reads, use-after-free, leaks, data races) the core alphabet to depth 3 + 97 extra histories (thorough: depth 4, 4 974 histories); two-thread cases: all pairs of programs of <= 2 operations over one shared schema, every merge executed on real threads handing a baton, and each pair once FREE-RUNNING under Miri's data-race detector; thorough adds AddressSanitizer and valgrind sweeps for the C codecs",
  "trusted: Miri / ASan / valgrind as per-execution oracles (the deciding step is the exhaustive enumeration of histories and merges); the Miri phases have wall-clock budgets - when a budget fires the number of histories covered is reported and the run is not called exhaustive; interleavings below whole-operation granularity are not explored (the crate has no synchronisation of its own: DESIGN.md §4 C10)",
  "explicit-state enumeration of API histories and thread merges on the real code, memory-error detectors + differential oracle per execution", "DESIGN.md §4 C10"),
 "C11": ("model_checking",
  "for every input (valid encodings of the shared alphabet in 3 block layouts, every truncation and single-byte replacement of them, hostile consumption-tree nodes of 49 schemas, 270 single-object inputs, 96 container files of all six codecs) the slice decode is the reference (value, bytes consumed, a sentinel datum decoded from what follows) and every environment must agree: ALL compositions of the byte string into fill_buf chunks for inputs <= 12 bytes (2^(n-1)), otherwise every uniform chunk size 1..64, one chunk, and deviation-bounded irregular cuts (one extra boundary at every offset on 6 (quick) / 65 (thorough) bases; two extra boundaries for inputs <= 24 / 160 bytes), plus std BufReader capacities 1/2/3/8192; vacuity guards: the byte-wise varint fallback and the scratch-buffer copy must have been taken (recognised from the call pattern)",
  "trusted: the slice path as reference (its own correctness is C03's); max_alloc_size >= |input| assumed; bounds as stated; node caps on some hostile trees are reported (exhaustive: false)",
  "exhaustive enumeration of stream chunkings (all compositions for short inputs, deviation-bounded cuts for long ones) against the slice path", "DESIGN.md §4 C11"),
 "C05": ("model_checking",
  "explicit enumeration of container-writer histories (all operation sequences of length <= 3 quick / <= 5 thorough over serialize, push_serialized, finish_block) x 6 codecs x 5 schemas x approx_block_size incl. 0/1/u32::MAX, plus size families that place uncompressed block lengths on 8/16/32/64/128 KiB and compressed block lengths (located by bisection per codec and level) on the 32/64/128 KiB encoder buffer boundaries; every file is parsed by an independent container parser and read back by the real Reader through slice, BufReader(1/7/8192) and every uniform refill size 1..len (small files); each case runs in a worker subprocess",
  "trusted: vmodel container parser and codec framing (libflate, streaming bzip2/xz, snap + own CRC-32, zstd); bounds: histories <= 3/5 ops, levels {default,1,9,200(clipped),zstd 22}, refill sweeps complete only for files <= 300/400 bytes",
  "explicit enumeration of API histories x configurations on the real writer/reader, independent parser as oracle", "DESIGN.md §4 C05"),
 "C06": ("model_checking",
  "exhaustive enumeration of (W) crate-written files over writer histories x codecs x schemas x user-metadata variants, taken apart by an independent parser that checks magic, metadata keys and values, avro.schema = schema.json(), spec codec names, sync markers, per-block count/size and codec framing (raw deflate via libflate, snappy + big-endian CRC-32 of the uncompressed data); (R) reference-written files over all block partitionings incl. 0-object blocks, all key orders of <= 4 metadata keys, map layouts with negative counts, avro.codec absent, read by the real Reader; thorough adds apache-avro as second implementation in both directions",
  "trusted: vmodel container writer/parser; apache-avro 0.17 (thorough); bounds: <= 4 (quick) / <= 6 (thorough) values per file, whole-buffer readers only (small-refill readers are C05/C11)",
  "small-scope exhaustive enumeration of files against an independent container parser/writer", "DESIGN.md §4 C06"),
 "C07": ("model_checking",
  "small-scope exhaustive enumeration of schema ASTs (all ASTs of a grammar over record/enum/fixed with <= 3 (quick) / 4 (thorough) named types in namespaces {null, a, a.b, b} and names X,Y,Z,W, edges through the wrappers Id/array/map/[null,T]/[T,int]/nested, references to any earlier or enclosing type incl. recursion and shadowing, plus 79 hand-written ASTs with every logical type) x JSON spellings (per-site product of name spellings - dotted fullname / name+namespace / inherited / contradicting namespace / \"namespace\":\"\" - x reference spellings, primitives as string or object, attribute orders, extra attributes, whitespace, scale omitted) x forward-reference variants; oracle: parse Ok, node graph bisimilar to the AST with every reference landing on the node index of its definition, hooked canonical form = reference PCF; invalid documents (single AST edits and JSON edits: unknown / wrong-namespace reference, duplicate definition, missing required attribute, complex type as bare string, unconditional record cycle direct / through 1 / 2 records) must be Err; every document is cross-checked against the reference resolver first",
  "trusted: vmodel AST/spelling/resolver/PCF; hook SchemaMut::verif_canonical_form (H1); bounds as stated (the full spelling product only for <= 2 named types)",
  "small-scope exhaustive enumeration of ASTs x spellings against a reference resolver (bisimulation oracle)", "DESIGN.md §4 C07"),
 "C08": ("model_checking",
  "for every valid AST and spelling of C07: SchemaMut fingerprint = frozen fingerprint = LE64(CRC-64-AVRO(hooked canonical text)), hooked text = reference PCF, hence constant across spellings; all distinct canonical forms have distinct fingerprints; difference pairs: 10 kinds of PCF-changing single edits must change the fingerprint, adding a logical type must not; programmatic graphs of C09; the checksum step is checked against the bit-serial definition on the 73 basis vectors, all 256 table entries, GF(2)-linearity of the table, additivity on all 73^2 basis pairs (which determines all 2^64 x 256 (state, byte) pairs by linearity) and, independently, on every (state, byte) with state < 2^16",
  "trusted: vmodel PCF and bit-serial CRC-64-AVRO; hooks H1, H2 (a hook-free variant drives characters through type names); the linearity argument of DESIGN.md §4 C08",
  "small-scope exhaustive enumeration against a reference model + exhaustive check of a GF(2) basis of the checksum step", "DESIGN.md §4 C08"),
 "C09": ("model_checking",
  "(a) every valid and forward-reference document of C07: Schema::json() = SchemaMut->freeze->json() = the original document minified, compared with an own ordered JSON reader (key order preserved); (b) every programmatically built graph: all node vectors of <= 3 nodes (quick; 4-5 thorough with restrictions) over int/string/array/map/union/record(1-2 fields)/enum/fixed/logical variants with EVERY assignment of in-range keys (all DAG sharings, all cycles), unique fullnames, all namespace arrangements over 4 namespaces: graphs whose cycles all pass through a named node must render, re-parse (reference resolver and the crate's parser) to a bisimilar graph with the same fingerprint and freeze Ok with the same text; graphs with a cycle through unnamed nodes only must give Err from both to_string and freeze; (c) edited graphs (rename, add field) judged like (b); cyclic graphs render in worker subprocesses",
  "trusted: vmodel resolver (leading-dot references allowed), PCF, CRC; bounds as stated",
  "small-scope exhaustive enumeration of node graphs (all key assignments) against a reference resolver", "DESIGN.md §4 C09"),
 "C12": ("model_checking",
  "small-scope exhaustive enumeration: every schema S of the shared alphabet embedded as record{ignored: S, sentinel}, record{a: S, b: S, sentinel}, record{arr: array<S>, sentinel} / record{m: map<S>, sentinel}, record{u: [S, long], sentinel} x values x all block layouts (incl. negative-count blocks with byte sizes, so that the block-skipping fast path is taken: 1.35 M such cases in quick) x ignoring targets: each payload field absent from the target struct, the whole datum or EVERY sub-tree of the payload (every element, map key, map value, union payload) as IgnoredAny, every taken non-null union branch as a unit variant - from slice, whole-buffer reader and 1-byte-chunk reader; oracle: the ignoring decode is Ok, equals the non-ignoring observation with the ignored part blanked (sentinel and every other field identical) and consumes exactly the reference encoding's length",
  "trusted: vmodel encoder (lengths) and the non-ignoring decode as baseline (whose own correctness is C03's); bounds as stated",
  "small-scope exhaustive enumeration of (schema, value, layout, ignored sub-tree) against the non-ignoring decode and a reference encoder", "DESIGN.md §4 C12"),
 "C13": ("model_checking",
  "SAE: the serialization itself is the choice tree - at every record occurrence and step the driver picks any not-yet-presented field (all n! orders, nested occurrences independently), end (all omission subsets) or once per run an unknown / duplicate field at every position, in struct / map-entry / map-split-key-value styles, over all vectors of <= 4 (thorough 5) flat field types and families with nested records, arrays of records, nullable records; oracle: Ok bytes = reference encoding in schema order with omitted nullable fields as null, injections => Err, never a panic; HIST: the real DatumSerializer's serialize_struct state machine driven one call at a time with a shared-handle sink, after every serialize_field the bytes emitted so far must be exactly the encodings of fields 0..j-1 (j = smallest index not yet presented)",
  "trusted: vmodel encoder; bounds: records of <= 4/5 fields, <= 2-3 nested levels; a handle that returned Err is not used further (well-behaved Serialize)",
  "small-scope exhaustive enumeration of presentation orders + explicit-state exploration of the serializer's record state machine", "DESIGN.md §4 C13"),
 "C14": ("model_checking",
  "explicit-state BFS over operations on ONE SerializerConfig: ok(v) for every presentation of fixed datums (orders, nested orders, bytes as serialize_bytes / seq with and without length, struct/map styles, omitted nulls), fail_at(v,k) for every serde call index k, io_fail(v,n) for every n below the encoding length, crate-rejected presentations (unknown/duplicate/missing field with buffers outstanding down to three record levels, bad elements inside a buffered seq->bytes, wrong lengths); exact state key = the (len, capacity) lists of both buffer pools (hook H4); after every operation: no panic, outcome and sink bytes equal the same operation on a fresh config (= reference encoding), every pooled buffer empty; every unit's state space closes (depth <= 7), so the result holds for histories of any length over the alphabet",
  "trusted: vmodel encoder; hook SerializerConfig::verif_pools (H4); bounds: 6 (quick) / 8 (thorough) schema units, the operation alphabet above",
  "explicit-state BFS over API histories with an exact state key, closed state space", "DESIGN.md §4 C14"),
 "C15": ("model_checking",
  "explicit-state BFS over container-writer histories (serialize small/block-sized, serialize failing at every serde call index or by genuine type/length mismatch, push_serialized, finish_block, into_inner, drop) x codec x approx_block_size, the sink inspected after EVERY call (= every point at which the process could stop) by an independent container parser; exact state key = sink bytes + hooked writer bookkeeping; every non-terminal state is additionally closed by into_inner; differential oracle: the history with its failing calls deleted produces byte-identical sink contents after every call",
  "trusted: vmodel container parser and datum decoder; hook Writer::verif_state (H3) for the state key only; bounds: depth 4 (quick) / 6 (thorough), codecs null/deflate/snappy (quick) / all six (thorough)",
  "explicit-state BFS over API histories of the real writer with an exact state key; invariant evaluated in every state", "DESIGN.md §4 C15"),
 "C16": ("fault_enumeration",
  "deviation-bounded exploration of the sink's write schedule: every write/write_vectored call the execution actually makes is a decision point (accept all | accept k in a boundary set | Interrupted | hard error | Ok(0)); all executions with <= 2 (quick) / <= 3-4 (thorough) deviations over 5 writer histories x codecs x transient/permanent faults, plus regular k-bytes-per-call sinks k=1..40 with Interrupted/hard error/Ok(0) injected at every call index; oracle: benign schedules give the byte stream of the Vec run, a fault makes the call in progress return Err (not panic) with a prefix of the reference stream in the sink",
  "trusted: the reference run on a Vec sink; debug-assertions build (the one in which Drop panics are observable); bounds: deviations <= 2/3/4, histories of <= 9 writer calls",
  "deviation-bounded (iterative context bounding style) exploration of environment answers on the real writer", "DESIGN.md §4 C16"),
 "C17": ("fault_enumeration",
  "fault enumeration on valid files of all six codecs: every truncation offset (= every crash point of a writer), single-byte corruption at every offset with 4 (quick) / 255 (thorough, deep files) values, an I/O error injected at every read-call index, truncation x I/O double faults (thorough), and model-located framing damage (sync bytes, declared size +-1, declared count +-1, snappy CRC) x reader kinds (slice, 1-byte chunks, whole buffer; thorough also 3- and 16-byte chunks); oracle: genuine prefix only, no value after the first error/end, I/O and framing errors reported once then end of stream, located framing damage reported; every case in a worker subprocess with a horizon",
  "trusted: vmodel container parser (locates the damage, supplies the written values); bounds: files of 75-460 bytes, <= 3 blocks, <= 4 datums per block",
  "exhaustive single-fault (thorough: double-fault) enumeration over crash points, corruptions and I/O errors", "DESIGN.md §4 C17"),
 "C18": ("model_checking",
  "small-scope exhaustive enumeration: schemas (34 hand-made ASTs with pairs differing only in a name / namespace / symbol / size / order and pairs with equal canonical form but different logical types or spelling, plus the shared alphabet) x boundary values: serialization must equal C3 01 || LE64(CRC-64-AVRO(PCF)) || reference datum; decoding from slice and from every chunking of the stream; each of the 10 header bytes x 8 bit flips and every truncation length must fail identically on both paths; messages written under a schema with a different canonical form are never decoded, those with an equal canonical form are",
  "trusted: vmodel PCF + bit-serial CRC-64-AVRO + datum codec; bounds: all chunk compositions for messages <= 12/13 bytes, uniform + single-cut chunkings above",
  "small-scope exhaustive enumeration against a reference model, all stream chunkings for short messages", "DESIGN.md §4 C18"),
 "C19": ("model_checking",
  "exhaustive enumeration of builder graphs (every vector of 0-3 nodes (thorough: 4, reduced alphabet) over the public node types with every in-range key and the out-of-range keys len, len+1, usize::MAX, 1<<63..., decorated nodes with every logical type incl. wrong ones, extreme decimal/fixed parameters, pathological names) and of texts (JSON shapes to depth 2/3 at the positions the parser reads, near-miss edits of 20 seed schemas, every prefix, nesting ladders to 200 / 10^5) plus scaling ladders (diamond chains n=1..64, reference/array chains to 10^5, wide records/unions/enums to 10^5); operations Debug, to_string, fingerprint, freeze, parse, and use of every frozen schema (hostile inputs, 41 presentations); every case runs in a forked runner on an 8 MiB and a 2 MiB stack with a 10 s CPU horizon, crashes attributed to a single case by cursor + confirmation",
  "trusted: the isolation layer (self-tested each run: it must observe its own stack overflow, loop and panic); bounds as stated; known finding D12 (chains >= 2000 records overflow the stack) listed in KNOWN_FINDINGS.jsonl",
  "small-scope exhaustive enumeration of node graphs and texts with process isolation; scaling ladders enumerated rung by rung", "DESIGN.md §4 C19"),
 "C20": ("model_checking",
  "exhaustive enumeration of all type-definition programs of a grammar of the supported derive shapes up to a node bound (<= 3 nodes full alphabet, <= 4 narrow, quick; 4/5 thorough) plus systematic sweeps (every leaf kind in every position, smart pointers, maps, every logical-type attribute, name/namespace overrides, generics at all argument pairs, 19 recursion shapes, wide shapes); the programs are emitted as a generated workspace compiled against /repo's derive crates at check time; per program: schema builds twice identically, JSON accepted by the reference resolver with one definition per fullname and the expected number of record/enum definitions; per value (exhaustive small domains): to_datum Ok, reference decoder consumes exactly the bytes and the datum denotes the value, from_datum_slice returns an equal value",
  "trusted: vmodel resolver and decoder; the generator's description of each value; rustc (a generated program that fails to compile is a machinery error, not a verdict); bounds as stated",
  "bounded exhaustive enumeration of programs (type definitions) x values against a reference model", "DESIGN.md §4 C20"),
}

# properties deliberately not claimed (reason)
NOT_APPLICABLE = {
}

HOOK_COMMITS = ["94c338b", "1766555", "6478eda", "55fbb5c", "2cfcb93"]

def main():
    checks = []
    for p in ALL:
        if p not in CHECKS:
            continue
        cat, text, note, tech, ref = CHECKS[p]
        checks.append({
            "property_id": p,
            "quick_cmd": f"bin/check {p} --tier quick",
            "thorough_cmd": f"bin/check {p} --tier thorough",
            "evidence_file": f"evidence/{p}.json",
            "replay_cmd_template": f"bin/check {p} --replay {{path}}",
            "engine": "vcheck",
            "level_claimed": {"category": cat, "text": text, "design_ref": ref},
            "level_note": note,
            "technique": tech,
        })
    na = []
    for p in ALL:
        if p in CHECKS:
            continue
        na.append({"property_id": p, "reason": NOT_APPLICABLE.get(p, "check not built yet (work in progress; design in DESIGN.md §4) - not a statement about the technique")})
    m = {
        "version": 1,
        "setup_cmd": "bin/setup",
        "hooks": {
            "guard": "ten0_serde_avro_fast_verif",
            "enable": "RUSTFLAGS=--cfg ten0_serde_avro_fast_verif (set in /verif/harness/.cargo/config.toml; own target dir /verif/target)",
            "baseline_off_cmd": "cd /repo && cargo test --workspace --no-fail-fast --offline",
            "source_commits": HOOK_COMMITS,
            "add_only": True,
        },
        "engines": [
            {"name": "vcheck", "path": "harness/crates/vcheck", "serves_properties": sorted(CHECKS), "kind_free_text": "hand-rolled explorers in Rust: stateless DFS over choice trees (small-scope exhaustive enumeration), deviation-bounded environment exploration, explicit-state BFS over API histories; every case is executed on the real crate and compared with the reference model vmodel"},
            {"name": "vmiri", "path": "harness/crates/vmiri", "serves_properties": ["C10"], "kind_free_text": "history interpreter for C10 (binary vhist): enumerates and executes API histories and two-thread cases on real objects; built natively, under Miri (cargo +nightly miri), with AddressSanitizer and run under valgrind"},
            {"name": "vmodel", "path": "harness/crates/vmodel", "serves_properties": sorted(CHECKS), "kind_free_text": "reference model written from the Avro specification (binary codec, PCF, CRC-64-AVRO, container files); shares no code with the subject"},
        ],
        "checks": checks,
        "not_applicable": na,
        "notes": "exit codes: 0 held / 1 VIOLATION / 2 machinery error. Known findings: KNOWN_FINDINGS.jsonl. See DESIGN.md.",
    }
    json.dump(m, open("/verif/MANIFEST.json", "w"), indent=1)
    print("MANIFEST.json written:", len(checks), "checks,", len(na), "not claimed")

main()
