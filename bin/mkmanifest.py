#!/usr/bin/env python3
"""Regenerates /verif/MANIFEST.json from the table below (keeps it valid and current)."""
import json, subprocess

ALL = ["C%02d" % i for i in range(1, 21)]

# property -> (category, level text, level note, technique, design ref)
CHECKS = {
 "C01": ("model_checking",
  "bounded exhaustive enumeration of (schema, value, presentation, observation mode, input path) over a small-scope alphabet that contains every varint/length boundary, every logical type and every union-lookup collision; each case is executed on the real serializer and deserializer and compared with an independent reference codec; thorough adds all 2^32 f32 bit patterns",
  "trusted: vmodel codec; the table of expected observations; bounds: schemas of <= 2 (quick) / 3 (thorough) composition levels, collections <= 2/3 items",
  "small-scope exhaustive enumeration (stateless DFS over the choice tree) against a reference model", "DESIGN.md §4 C01"),
 "C02": ("model_checking",
  "exhaustive enumeration of the matrix (schema node kind in context) x (serde presentation): every Serializer method, every integer width at its boundaries, strs/bytes/sequences around every fixed size, wrong length hints, field sets exact/missing/unknown/duplicated/permuted, named and type-directed union selection; every Ok result is decoded by the reference decoder and judged by a denotation relation that does not depend on the branch the crate chose",
  "trusted: vmodel decoder; the denotation relation den() (DESIGN.md §4 C02); abstains on documented-lossy conversions (f64->float, decimal rescale, f64->decimal); bounds: one (quick) / two (thorough) levels of context around each node kind",
  "small-scope exhaustive enumeration of a (schema x presentation) matrix against a reference decoder", "DESIGN.md §4 C02"),
}

# properties deliberately not claimed (reason)
NOT_APPLICABLE = {
}

HOOK_COMMITS = ["94c338b", "1766555", "6478eda", "55fbb5c", "2cfcb93"]

def main():
    checks = []
    for p in ALL:
        if p not in CHECKS:
            continue
        cat, text, note, tech, ref = CHECKS[p]
        checks.append({
            "property_id": p,
            "quick_cmd": f"bin/check {p} --tier quick",
            "thorough_cmd": f"bin/check {p} --tier thorough",
            "evidence_file": f"evidence/{p}.json",
            "replay_cmd_template": f"bin/check {p} --replay {{path}}",
            "engine": "vcheck",
            "level_claimed": {"category": cat, "text": text, "design_ref": ref},
            "level_note": note,
            "technique": tech,
        })
    na = []
    for p in ALL:
        if p in CHECKS:
            continue
        na.append({"property_id": p, "reason": NOT_APPLICABLE.get(p, "check not built yet (work in progress; design in DESIGN.md §4) - not a statement about the technique")})
    m = {
        "version": 1,
        "setup_cmd": "bin/setup",
        "hooks": {
            "guard": "ten0_serde_avro_fast_verif",
            "enable": "RUSTFLAGS=--cfg ten0_serde_avro_fast_verif (set in /verif/harness/.cargo/config.toml; own target dir /verif/target)",
            "baseline_off_cmd": "cd /repo && cargo test --workspace --no-fail-fast --offline",
            "source_commits": HOOK_COMMITS,
            "add_only": True,
        },
        "engines": [
            {"name": "vcheck", "path": "harness/crates/vcheck", "serves_properties": sorted(CHECKS), "kind_free_text": "hand-rolled explorers in Rust: stateless DFS over choice trees (small-scope exhaustive enumeration), deviation-bounded environment exploration, explicit-state BFS over API histories; every case is executed on the real crate and compared with the reference model vmodel"},
            {"name": "vmodel", "path": "harness/crates/vmodel", "serves_properties": sorted(CHECKS), "kind_free_text": "reference model written from the Avro specification (binary codec, PCF, CRC-64-AVRO, container files); shares no code with the subject"},
        ],
        "checks": checks,
        "not_applicable": na,
        "notes": "exit codes: 0 held / 1 VIOLATION / 2 machinery error. Known findings: KNOWN_FINDINGS.jsonl. See DESIGN.md.",
    }
    json.dump(m, open("/verif/MANIFEST.json", "w"), indent=1)
    print("MANIFEST.json written:", len(checks), "checks,", len(na), "not claimed")

main()
