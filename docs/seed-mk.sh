#!/bin/bash
# mk.sh <id>: create scratch worktree for a seeder from the fixprep branch
set -eu
id="$1"
mkdir -p /tmp/seed/$id/out
git -C /repo worktree add --detach /tmp/seed/$id/wt main >/dev/null 2>&1
echo /tmp/seed/$id/wt
