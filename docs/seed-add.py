import json, os, shutil, sys
# usage: add.py <id> <prop> <m> <also,comma> <summary> <needs>
sid,prop,m,also,summary,needs=sys.argv[1:7]
src=os.environ.get("SEED_SRC") or f"/tmp/seed/{prop}/out/{m}"
dst=f"/verif/seeded/{sid}"
os.makedirs(dst,exist_ok=True)
for f in ("patch.diff","demo.rs","README.md"):
    shutil.copy(f"{src}/{f}", f"{dst}/{f}")
meta={"id":sid,"property":prop,"also_checks":[a for a in also.split(",") if a],"summary":summary,"needs_to_manifest":needs,"source":f"independent sub-agent (given only the property text and a scratch worktree), change {m}"}
json.dump(meta,open(f"{dst}/meta.json","w"),indent=1)
print("added",sid)
