#!/bin/bash
# One-time preparation of the detectors used by check C10 (offline):
#   1. Miri sysroot, built from the nightly toolchain's rust-src into <root>/target/miri-sysroot
#      (next to the harness' build output, so it survives as long as the target directory does;
#      c10.rs passes it to cargo-miri through MIRI_SYSROOT when it exists, otherwise cargo-miri
#      falls back to its own cache in ~/.cache/miri and builds it on first use);
#   2. the Miri build of crates/vmiri (binary vhist), so that the first `bin/check C10` does not pay for it;
#   3. with `--asan`: the AddressSanitizer build of vhist (all six codecs) used by the thorough tier.
# Usage: harness/miri-setup.sh [--asan]      (VERIF_ROOT overrides the root, default: parent of harness/)
set -eu
HERE="$(cd "$(dirname "$0")" && pwd)"
ROOT="${VERIF_ROOT:-$(cd "$HERE/.." && pwd)}"
export CARGO_NET_OFFLINE=true
export MIRI_SYSROOT="$ROOT/target/miri-sysroot"
cd "$ROOT/harness"
cargo +nightly miri setup
env -u RUSTFLAGS MIRIFLAGS=-Zmiri-disable-isolation cargo +nightly miri run --offline -q -p vmiri --bin vhist -- count core 1
if [ "${1:-}" = "--asan" ]; then
	RUSTFLAGS="-Zsanitizer=address --cfg ten0_serde_avro_fast_verif" \
		cargo +nightly build --offline --release -p vmiri --features ccodecs --target x86_64-unknown-linux-gnu
	test -x "$ROOT/target/x86_64-unknown-linux-gnu/release/vhist"
fi
echo "miri setup ok (sysroot: $MIRI_SYSROOT)"
