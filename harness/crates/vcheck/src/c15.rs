//! C15 — container writer: valid file at every quiescent point; failed values leave nothing.
//!
//! HIST: explicit-state BFS over writer histories on real `Writer` objects over an accept-all
//! `ScheduledSink` with a shared handle; the sink is inspected by the reference container
//! parser + reference datum decoder after the last call of every explored history (every prefix
//! of an explored history is itself an explored history, so this is "after every call"), and
//! every non-terminal state is additionally closed with `into_inner` and checked for
//! completeness. Plus the differential enumeration "the history with the failing calls deleted
//! gives a byte-identical file".

use crate::cfw::{self, CallRecord, Datum, Op};
use crate::envs::ScheduledSink;
use crate::explore::{bfs, hash64, Cover};
use crate::report::{hex, truncate, Report, Violation};
use crate::subj::Out;
use rayon::prelude::*;
use serde_json::json;
use std::collections::HashMap;
use vmodel::value::RValue;

#[derive(Clone, Debug)]
struct Unit {
	/// index into the datum table (0 = record-with-array, 1 = null)
	datum: usize,
	datum_id: &'static str,
	codec: &'static str,
	block_size: u32,
}

impl Unit {
	fn label(&self) -> String {
		format!("datum {} codec {} approx_block_size {}", self.datum_id, self.codec, self.block_size)
	}
}

fn replay_token(u: &Unit, mode: &str, h: &[Op]) -> serde_json::Value {
	json!({"check": "C15", "mode": mode, "datum": u.datum_id, "codec": u.codec, "block_size": u.block_size, "history": cfw::hist_names(h)})
}

/// What one executed history looked like: a snapshot after every call.
struct Trace {
	records: Vec<CallRecord>,
	/// sink contents after call i (0 = build)
	sinks: Vec<Vec<u8>>,
	/// pooled buffers of the serializer configuration once the writer is gone (hook H4)
	pools: cfw::PoolShape,
}

fn execute(d: &Datum, u: &Unit, h: &[Op], keep_all_sinks: bool) -> Trace {
	let (sink, state) = ScheduledSink::accept_all();
	let mut t = Trace { records: Vec::new(), sinks: Vec::new(), pools: cfw::PoolShape::default() };
	let n = h.len();
	let pools = cfw::run_history(
		d,
		u.codec,
		u.block_size,
		sink,
		h,
		&mut |i, rec| {
			t.records.push(rec.clone());
			// the last two snapshots are always kept (state + close-out)
			if keep_all_sinks || i + 2 >= n {
				t.sinks.push(state.borrow().bytes.clone());
			} else {
				t.sinks.push(Vec::new());
			}
			true
		},
		&mut || {},
	);
	t.pools = pools;
	t
}

/// A panic of any writer call is a violation of its own class. The executor has dropped the
/// writer under catch_unwind afterwards: what the sink then holds is inspected too (a panic
/// bypasses the writer's truncate-on-error, so a later flush may write stray bytes).
fn panic_verdict(d: &Datum, u: &Unit, t: &Trace) -> Option<(String, String)> {
	let idx = t.records.iter().position(|r| r.result.is_panic() && !r.drop_after_panic)?;
	let rec = &t.records[idx];
	let Out::Panic(msg) = &rec.result else { unreachable!() };
	let expected = expected_after(&t.records[..idx]);
	let mut what = format!("{} panicked on a sink that accepts everything: {msg}", rec.op_name());
	let mut class = "call-panicked";
	let (sink, when) = match t.records.get(idx + 1) {
		Some(dr) if dr.drop_after_panic => {
			if let Out::Panic(m2) = &dr.result {
				what.push_str(&format!("; dropping the writer afterwards panicked too: {m2}"));
			}
			(&t.sinks[idx + 1], "after the writer was dropped")
		}
		_ => (&t.sinks[idx], "after the panic"),
	};
	match cfw::inspect(d, u.codec, sink) {
		Ok(ins) if ins.values == expected => what.push_str(&format!("; {when} the sink holds a valid file with exactly the values accepted before, {}", describe_values(&expected))),
		Ok(ins) => {
			class = "call-panicked-then-wrong-file";
			what.push_str(&format!("; {when} the sink holds {} (blocks {:?}) while the values accepted before the panic are {}", describe_values(&ins.values), ins.block_counts, describe_values(&expected)));
		}
		Err(e) => {
			class = "call-panicked-then-invalid-file";
			what.push_str(&format!("; {when} the sink does not hold a valid container file: {e}; sink = [{}]", truncate(&hex(sink), 1200)));
		}
	}
	Some((class.to_owned(), what))
}

fn describe_values(vs: &[RValue]) -> String {
	let ids: Vec<String> = vs
		.iter()
		.map(|v| match v {
			RValue::Record(f) => match (&f[0], &f[1]) {
				(RValue::Long(a), RValue::Array(xs)) => {
					let kind = match xs.first() {
						Some(RValue::Str(s)) if s == "x" => "small",
						Some(RValue::Str(s)) if s == "p" => "pushed",
						Some(RValue::Str(s)) if s == "h" => "huge",
						_ => "big",
					};
					format!("{kind}#{a}")
				}
				_ => format!("{v:?}"),
			},
			RValue::Null => "null".to_owned(),
			_ => format!("{v:?}"),
		})
		.collect();
	format!("[{}]", ids.join(", "))
}

/// The invariant of the property in the state reached after `rec` (the last call made),
/// `expected` = values of the calls that returned Ok, in order.
fn judge_state(d: &Datum, u: &Unit, rec: &CallRecord, sink: &[u8], expected: &[RValue], cover: &mut Cover) -> Result<(), (String, String)> {
	if let Out::Panic(m) = &rec.result {
		return Err(("call-panicked".into(), format!("{} panicked on a sink that accepts everything: {m}", rec.op_name())));
	}
	if rec.op.map_or(false, |o| o.failing()) && rec.result.is_ok() {
		return Err(("failed-value-reported-ok".into(), format!("{}: the value's Serialize impl failed but the writer call returned Ok", rec.op_name())));
	}
	let ins = match cfw::inspect(d, u.codec, sink) {
		Ok(i) => i,
		Err(e) => return Err(("invalid-file".into(), format!("after {} (returned {}): the sink does not hold a valid container file: {e}; sink = [{}]", rec.op_name(), rec.result.kind(), truncate(&hex(sink), 1200)))),
	};
	if ins.block_counts.iter().any(|&c| c >= 2) {
		cover.count("states_with_multi_object_block", 1);
	}
	if !d.is_record && !ins.block_counts.is_empty() {
		cover.count("states_with_zero_byte_block", 1);
	}
	cover.outcomes.insert(hash64(&(&ins.block_counts, expected.len() - ins.values.len().min(expected.len()))));
	if ins.values.len() > expected.len() || ins.values[..] != expected[..ins.values.len()] {
		return Err((
			"not-a-prefix".into(),
			format!(
				"after {} (returned {}): the file holds {} (blocks {:?}) which is not a prefix of the successfully serialized values {}",
				rec.op_name(),
				rec.result.kind(),
				describe_values(&ins.values),
				ins.block_counts,
				describe_values(expected)
			),
		));
	}
	let must_be_complete = rec.result.is_ok() && matches!(rec.op, Some(Op::Finish | Op::IntoInner | Op::Drop));
	if must_be_complete && ins.values.len() != expected.len() {
		return Err((
			"incomplete-after-flush".into(),
			format!("after {} returned Ok the file holds {} (blocks {:?}) but {} were successfully serialized", rec.op_name(), describe_values(&ins.values), ins.block_counts, describe_values(expected)),
		));
	}
	Ok(())
}

fn expected_after(records: &[CallRecord]) -> Vec<RValue> {
	records.iter().filter(|r| r.result.is_ok()).flat_map(|r| r.values.iter().cloned()).collect()
}

type Key = (Vec<u8>, Option<(u64, bool, usize)>, u64, bool, u8, Vec<usize>);

/// Evaluate one history for the BFS: exact state key, invariant, expandable.
fn eval_history(d: &Datum, u: &Unit, h: &[Op], cover: &mut Cover, verbose: bool) -> (Key, Result<(), (String, String)>, bool) {
	// non-terminal histories are closed with into_inner (the close-out is not part of the state)
	let terminal = h.last().map_or(false, |o| o.terminal());
	let mut run: Vec<Op> = h.to_vec();
	if !terminal {
		run.push(Op::IntoInner);
	}
	let t = execute(d, u, &run, verbose);
	cover.impl_runs += 1;
	cover.evaluations += 1;
	let at = h.len(); // index of the record of the state (0 = build)
	let first_panic = t.records.iter().position(|r| r.result.is_panic() && !r.drop_after_panic);
	if t.records.len() <= at || first_panic.map_or(false, |p| p < at) {
		// an earlier call panicked or the build failed: that history was reported as its own state
		let last = t.records.last().unwrap();
		let key: Key = (t.sinks.last().cloned().unwrap_or_default(), None, 0, true, 2, vec![]);
		let r = if t.records.len() == 1 && !last.result.is_ok() {
			Err(("build-failed".to_owned(), format!("WriterBuilder::build returned {:?} on a sink that accepts everything", last.result)))
		} else {
			Ok(())
		};
		return (key, r, false);
	}
	let rec = &t.records[at];
	let sink = &t.sinks[at];
	let expected = expected_after(&t.records[..=at]);
	if verbose {
		let mut exp_so_far: Vec<RValue> = Vec::new();
		for (i, r) in t.records.iter().enumerate() {
			if r.result.is_ok() {
				exp_so_far.extend(r.values.iter().cloned());
			}
			let ins = cfw::inspect(d, u.codec, &t.sinks[i]);
			println!(
				"  call {i} {:<20} -> {:<5} hook(n_in_block, header_pending, open_len)={:?} sink {} bytes; reference parser: {}",
				r.op_name(),
				r.result.kind(),
				r.hook,
				t.sinks[i].len(),
				match &ins {
					Ok(x) => format!("valid, blocks {:?}, values {}", x.block_counts, describe_values(&x.values)),
					Err(e) => format!("INVALID: {e}"),
				}
			);
			println!("         successfully serialized so far: {}{}", describe_values(&exp_so_far), if i == at + 1 { "   (close-out, not part of the history)" } else { "" });
		}
	}
	// bookkeeping for the vacuity guards
	if let Some(op) = rec.op {
		let grew = at >= 1 && !t.sinks[at - 1].is_empty() && sink.len() > t.sinks[at - 1].len();
		let prev_hook = t.records[at - 1].hook;
		match op {
			Op::Small | Op::Big | Op::SmallRev | Op::BigMix | Op::Huge(_) | Op::Push1 | Op::Push2 => {
				if rec.result.is_ok() {
					cover.count("value_ops_ok", 1);
					if matches!(op, Op::SmallRev | Op::BigMix) {
						cover.count("out_of_order_value_ops_ok", 1);
					}
					if grew {
						cover.count("blocks_cut_by_size", 1);
					}
				} else if rec.result.is_err() {
					cover.count("conforming_value_op_returned_err", 1);
				}
			}
			Op::Fail(_) | Op::FailRev(_) | Op::BadType | Op::BadLen => {
				if rec.result.is_err() {
					cover.count("failing_ops_err", 1);
					if matches!(op, Op::FailRev(k) if k >= 4) {
						cover.count("failing_ops_err_with_side_buffers_outstanding", 1);
					}
					if d.is_record && !matches!(op, Op::Fail(0) | Op::FailRev(_)) {
						cover.count("failing_ops_err_after_emitting_bytes", 1);
					}
					if prev_hook.map_or(false, |h| h.0 > 0) {
						cover.count("failing_ops_with_open_block", 1);
					}
				}
			}
			Op::Finish => {
				if grew {
					cover.count("blocks_flushed_by_finish_block", 1);
				}
				if rec.result.is_err() {
					cover.count("flush_op_returned_err", 1);
				}
			}
			Op::IntoInner => {
				if grew {
					cover.count("blocks_flushed_by_into_inner", 1);
				}
				if rec.result.is_err() {
					cover.count("flush_op_returned_err", 1);
				}
			}
			Op::Drop => {
				if grew {
					cover.count("blocks_flushed_by_drop", 1);
				}
			}
		}
	}
	if rec.hook.map_or(false, |h| h.1) {
		cover.count("states_with_pending_header", 1);
	}
	if rec.hook.map_or(false, |h| h.0 > 0) {
		cover.count("states_with_open_block", 1);
	}
	if !t.pools.buffers.is_empty() {
		cover.count("states_with_pooled_side_buffers", 1);
	}
	if !t.pools.super_buffers.is_empty() {
		cover.count("states_with_pooled_super_buffers", 1);
	}
	if !t.pools.dirty().is_empty() {
		// not judged here (C14's invariant), but part of the exact key: such a state is expanded
		cover.count("states_with_nonempty_pooled_buffer", 1);
	}
	let mut verdict = match panic_verdict(d, u, &t) {
		Some(v) if first_panic == Some(at) => Err(v),
		_ => judge_state(d, u, rec, sink, &expected, cover),
	};
	// close-out: every value accepted so far must be in the file exactly once after into_inner
	if verdict.is_ok() && !terminal && !rec.result.is_panic() {
		if let Some(close) = t.records.get(at + 1) {
			verdict = judge_state(d, u, close, &t.sinks[at + 1], &expected, cover).map_err(|(c, w)| (c, format!("closing the state with into_inner: {w}")));
		}
	}
	if !expected.is_empty() {
		cover.nontrivial.insert(hash64(&("bfs", u.datum, u.codec, u.block_size, h)));
	}
	let dead = rec.result.is_panic();
	let key: Key = (sink.clone(), rec.hook, hash64(&expected), terminal, dead as u8, t.pools.dirty());
	(key, verdict, !terminal && !dead)
}

fn all_ops(d: &Datum) -> Vec<Op> {
	let mut v = cfw::nonterminal_ops(d);
	v.push(Op::IntoInner);
	v.push(Op::Drop);
	v
}

fn violation(u: &Unit, mode: &str, h: &[Op], class: &str, what: &str) -> Violation {
	Violation { class: class.to_owned(), what: format!("{}; history [{}]: {what}", u.label(), cfw::hist_names(h).join(", ")), replay: replay_token(u, mode, h) }
}

// ---------------------------------------------------------------------------------------------
// Large-block templates: blocks whose stored form exceeds the codecs' 32 KiB starting output
// buffer (and 64 KiB, its first doubling), before / between / after small blocks.

/// (approx_block_size, history). `ser_huge(k)` carries k KiB of poorly compressible text
/// (about 7/8 of its size once entropy-coded: 40 -> ~35 KiB, 80 -> ~70 KiB).
fn large_block_templates() -> Vec<(u32, Vec<Op>)> {
	use Op::*;
	vec![
		// small | >32 KiB (buffer grows now) | small, small | >64 KiB cut inside serialize (grows again) | small | >32 KiB by into_inner (grew earlier)
		(64 * 1024, vec![Small, Finish, Huge(40), Finish, Small, SmallRev, Finish, Huge(80), Small, Finish, Huge(40), IntoInner]),
		// the first block needs two doublings in one go; later blocks fit the grown buffer; last block by drop
		(64 * 1024, vec![Huge(80), Small, Finish, Huge(40), Drop]),
		// one block holding small + 40 KiB + 80 KiB + small (>96 KiB stored), then a small block
		(1024 * 1024, vec![Small, Huge(40), Huge(80), Small, Finish, Small, IntoInner]),
		// every huge value cuts its block by size, together with the small values before it
		(16 * 1024, vec![Small, Huge(40), Small, Huge(40), Big, Huge(80), Small, IntoInner]),
	]
}

/// One template on one codec: the file invariant in the state after every call.
fn run_template_unit(d: &Datum, u: &Unit, ops: &[Op]) -> (Cover, Vec<Violation>) {
	let mut cover = Cover::default();
	let mut out = Vec::new();
	let t = execute(d, u, ops, true);
	cover.impl_runs += 1;
	cover.nontrivial.insert(hash64(&("template", u.codec, u.block_size, ops)));
	if let Some((class, what)) = panic_verdict(d, u, &t) {
		out.push(violation(u, "bfs", &ops[..t.records.iter().position(|r| r.result.is_panic()).unwrap_or(ops.len()).min(ops.len())], &class, &what));
		return (cover, out);
	}
	for (i, rec) in t.records.iter().enumerate() {
		cover.states += 1;
		cover.transitions += 1;
		cover.evaluations += 1;
		cover.count("template_states_judged", 1);
		if rec.result.is_err() {
			cover.count("conforming_value_op_returned_err", 1);
		}
		let expected = expected_after(&t.records[..=i]);
		if let Err((class, what)) = judge_state(d, u, rec, &t.sinks[i], &expected, &mut cover) {
			out.push(violation(u, "bfs", &ops[..i], &class, &what));
			return (cover, out);
		}
	}
	// what was written and judged: stored block sizes of the final file
	if let Ok(ins) = cfw::inspect(d, u.codec, t.sinks.last().map_or(&[][..], |s| &s[..])) {
		for &sz in &ins.block_stored_sizes {
			if sz > 32 * 1024 {
				cover.count(&format!("blocks_stored_over_32KiB_{}", u.codec), 1);
			}
			if sz > 64 * 1024 {
				cover.count(&format!("blocks_stored_over_64KiB_{}", u.codec), 1);
			}
		}
		cover.outcomes.insert(hash64(&(u.codec, &ins.block_counts, &ins.block_stored_sizes)));
		if u.codec == "deflate" && cover.samples.is_empty() {
			cover.sample(json!({"unit": u.label(), "template": cfw::hist_names(ops), "block_counts": ins.block_counts, "block_stored_sizes": ins.block_stored_sizes}));
		}
	}
	(cover, out)
}

fn run_bfs_unit(d: &Datum, u: &Unit, depth: usize, max_states: u64) -> (Cover, Vec<Violation>) {
	let mut cover = Cover::default();
	let mut out = Vec::new();
	let ops = all_ops(d);
	let (res, capped) = bfs(&ops, depth, max_states, |h| {
		let (k, v, e) = eval_history(d, u, h, &mut cover, false);
		(k, v.map_err(|(c, w)| format!("{c}|{w}")), e)
	});
	cover.states += res.states;
	cover.transitions += res.transitions;
	cover.count("bfs_distinct_states", res.states);
	cover.count("bfs_transitions", res.transitions);
	if capped {
		cover.caps.push(format!("{}: BFS state cap {max_states} hit at depth {}", u.label(), res.max_depth));
	}
	for (h, msg) in res.violations {
		let (class, what) = msg.split_once('|').unwrap();
		// determinism guard: the violating history must violate again, identically
		let (_, again, _) = eval_history(d, u, &h, &mut Cover::default(), false);
		match again {
			Err((c2, w2)) if c2 == class && w2 == what => {}
			other => {
				eprintln!("MACHINERY: C15 history {:?} ({}) is not reproducible: first {class}: {what}; then {other:?}", cfw::hist_names(&h), u.label());
				std::process::exit(2);
			}
		}
		out.push(violation(u, "bfs", &h, class, what));
	}
	if cover.samples.is_empty() && d.is_record && u.codec == "deflate" && u.block_size as usize == d.small_len + 1 {
		let h = [Op::Small, Op::Fail(4), Op::Push2, Op::Big];
		let t = execute(d, u, &h, true);
		cover.sample(json!({"unit": u.label(), "history": cfw::hist_names(&h), "results": t.records.iter().map(|r| r.result.kind()).collect::<Vec<_>>(), "hook_after_each_call": t.records.iter().map(|r| format!("{:?}", r.hook)).collect::<Vec<_>>(), "sink_len_after_each_call": t.sinks.iter().map(|s| s.len()).collect::<Vec<_>>(), "final_sink": hex(t.sinks.last().unwrap())}));
	}
	(cover, out)
}

// ---------------------------------------------------------------------------------------------
// Differential oracle: deleting the failing calls from a history changes no byte of the file.

/// (sink length, sink hash) after every call that is not a failing-value call, and the final file
#[derive(Clone, PartialEq)]
struct Footprint {
	steps: Vec<(usize, u64)>,
	results: Vec<&'static str>,
	final_file: Vec<u8>,
}

fn footprint(d: &Datum, u: &Unit, h: &[Op]) -> (Footprint, Vec<(Op, Out<()>)>, Option<(String, String)>) {
	let t = execute(d, u, h, true);
	let mut fp = Footprint { steps: Vec::new(), results: Vec::new(), final_file: t.sinks.last().cloned().unwrap_or_default() };
	let mut failing = Vec::new();
	let panicked = panic_verdict(d, u, &t);
	for (i, r) in t.records.iter().enumerate() {
		match r.op {
			_ if r.drop_after_panic => {}
			Some(op) if op.failing() => failing.push((op, r.result.clone())),
			_ => {
				fp.steps.push((t.sinks[i].len(), hash64(&t.sinks[i])));
				fp.results.push(r.result.kind());
			}
		}
	}
	(fp, failing, panicked)
}

fn diff_case(d: &Datum, u: &Unit, h: &[Op], memo: &mut HashMap<Vec<Op>, Footprint>, cover: &mut Cover, verbose: bool) -> Result<(), (String, String)> {
	let (fp, failing, panicked) = footprint(d, u, h);
	cover.impl_runs += 1;
	cover.evaluations += 1;
	if let Some(v) = panicked {
		return Err(v);
	}
	let clean: Vec<Op> = h.iter().copied().filter(|o| !o.failing()).collect();
	if !memo.contains_key(&clean) {
		let (r, _, ref_panicked) = footprint(d, u, &clean);
		cover.impl_runs += 1;
		if let Some((c, w)) = ref_panicked {
			return Err((c, format!("in the history without the failing calls [{}]: {w}", cfw::hist_names(&clean).join(", "))));
		}
		memo.insert(clean.clone(), r);
	}
	let reference = &memo[&clean];
	if verbose {
		println!("  history with failing calls : results {:?}, sink (len, hash) after each non-failing call {:?}", fp.results, fp.steps);
		println!("  history without them       : results {:?}, sink (len, hash) after each call             {:?}", reference.results, reference.steps);
		println!("  final file with    : [{}]", hex(&fp.final_file));
		println!("  final file without : [{}]", hex(&reference.final_file));
	}
	for (op, r) in &failing {
		match r {
			Out::Err(_) => cover.count("diff_failing_calls_err", 1),
			Out::Ok(()) => return Err(("failed-value-reported-ok".into(), format!("{}: the value's Serialize impl failed but the writer call returned Ok", op.name()))),
			Out::Panic(m) => return Err(("call-panicked".into(), format!("{} panicked: {m}", op.name()))),
		}
	}
	if fp.final_file != reference.final_file {
		return Err((
			"failed-call-changed-file".into(),
			format!(
				"the final file differs from the one produced by the same history without its failing calls [{}]: with = [{}], without = [{}]",
				cfw::hist_names(&clean).join(", "),
				truncate(&hex(&fp.final_file), 900),
				truncate(&hex(&reference.final_file), 900)
			),
		));
	}
	if fp.steps != reference.steps || fp.results != reference.results {
		return Err((
			"failed-call-changed-sink".into(),
			format!(
				"the sink contents after the non-failing calls differ from those of the same history without its failing calls: with = {:?} {:?}, without = {:?} {:?} (length, hash per call)",
				fp.results, fp.steps, reference.results, reference.steps
			),
		));
	}
	Ok(())
}

/// One work item of the differential enumeration: all histories `first ++ tail` of length
/// 1..=depth (over the full alphabet up to length full_depth, over `cfw::reduced_ops` beyond),
/// closed by into_inner and by drop.
fn run_diff_unit(d: &Datum, u: &Unit, full_depth: usize, depth: usize, max_cases: u64, first: Op) -> (Cover, Vec<Violation>) {
	let mut cover = Cover::default();
	let mut out = Vec::new();
	let full = cfw::nonterminal_ops(d);
	let reduced = cfw::reduced_ops(d);
	let mut memo: HashMap<Vec<Op>, Footprint> = HashMap::new();
	let mut cases = 0u64;
	'outer: for len in 1..=depth {
		// the full alphabet up to length full_depth, the reduced one beyond
		let ops = if len <= full_depth { &full } else { &reduced };
		if !ops.contains(&first) {
			continue;
		}
		let mut idx = vec![0usize; len - 1];
		loop {
			let mut body: Vec<Op> = vec![first];
			body.extend(idx.iter().map(|&i| ops[i]));
			cover.states += 1;
			cover.transitions += 1;
			if body.iter().any(|o| o.failing()) {
				for term in [Op::IntoInner, Op::Drop] {
					let mut h = body.clone();
					h.push(term);
					if cases >= max_cases {
						cover.caps.push(format!("{}: differential enumeration capped at {max_cases} histories (length {len})", u.label()));
						break 'outer;
					}
					cases += 1;
					cover.nontrivial.insert(hash64(&("diff", u.datum, u.codec, u.block_size, &h)));
					if let Err((class, what)) = diff_case(d, u, &h, &mut memo, &mut cover, false) {
						if out.len() < 50 {
							let again = diff_case(d, u, &h, &mut HashMap::new(), &mut Cover::default(), false);
							if again != Err((class.clone(), what.clone())) {
								eprintln!("MACHINERY: C15 differential case {:?} ({}) is not reproducible", cfw::hist_names(&h), u.label());
								std::process::exit(2);
							}
							out.push(violation(u, "diff", &h, &class, &what));
						}
					}
				}
			}
			// advance the odometer
			let mut p = len - 1;
			let mut done = true;
			while p > 0 {
				p -= 1;
				idx[p] += 1;
				if idx[p] < ops.len() {
					done = false;
					break;
				}
				idx[p] = 0;
			}
			if done {
				break;
			}
		}
	}
	cover.count("differential_histories", cases);
	cover.count("differential_reference_histories", memo.len() as u64);
	(cover, out)
}

// ---------------------------------------------------------------------------------------------

fn datums() -> Vec<Datum> {
	vec![Datum::new(), Datum::null()]
}

fn units(ds: &[Datum], thorough: bool) -> Vec<Unit> {
	let codecs: &[&'static str] = if thorough { &cfw::CODECS_ALL } else { &cfw::CODECS_QUICK };
	let mut v = Vec::new();
	for (di, d) in ds.iter().enumerate() {
		for &codec in codecs {
			for bs in d.block_sizes() {
				v.push(Unit { datum: di, datum_id: d.id, codec, block_size: bs });
			}
		}
	}
	v
}

pub fn run(rep: &mut Report) {
	let thorough = rep.thorough();
	cfw::tune_allocator();
	let ds = datums();
	let us = units(&ds, thorough);
	let (bfs_depth, diff_depth) = if thorough { (6, 5) } else { (4, 4) };
	// differential histories: the full alphabet up to this length, `cfw::reduced_ops` beyond
	let diff_full_depth = 3;
	let diff_full_depth_null_codec = if thorough { 4 } else { 3 };
	let (max_states, max_diff) = if thorough { (400_000u64, 2_000_000u64) } else { (60_000u64, 200_000u64) };
	rep.rule = format!(
		"HIST: units = datum x codec x approx_block_size ({} codecs; datum 'record': schema {}, small value {} bytes, big value {} bytes, block sizes {:?}, operations {:?}; datum 'null': schema \"null\", every value zero bytes long, block sizes {:?}, operations {:?}). Per unit an explicit-state BFS to depth {bfs_depth} over the operations on a real Writer over an accept-all ScheduledSink; record values are numbered by acceptance order so every datum in a file is distinct; a state is rebuilt by replaying its history; exact key = sink bytes + hook Writer::verif_state() (n_elements_in_block, header pending, open buffer length) + the list of values accepted so far + the lengths of the non-empty buffers pooled in the SerializerConfig (hook verif_pools(), read once the writer is gone; empty pooled buffers are taken to behave like fresh ones); in every state the sink is parsed by vmodel::container::cf_parse (header schema/codec/pinned sync, whole blocks, sync after every block, codec framing through independent implementations) and every block is decoded datum by datum with vmodel::value::decode (count datums exactly fill the block); oracle: the values in the file are a prefix of the values of the calls that returned Ok, all of them after finish_block / into_inner / drop, and every non-terminal state is additionally closed with into_inner and must then hold all of them exactly once; failing values (injected failure at each nested serialize call of the value, in schema order and in reverse field order — i.e. with fields put aside in pooled side buffers outstanding —, wrong type, array shorter than advertised) must return Err; ser_small_rev / ser_big_mix present the record fields (incl. the nested record's) out of schema order, same expected bytes; a panic of any call is a violation of its own class, the writer is then dropped under catch_unwind and the sink inspected again (classes call-panicked, call-panicked-then-wrong-file, call-panicked-then-invalid-file). Differential: every history of 1..={diff_depth} non-terminal operations (full alphabet up to length {diff_full_depth}, {diff_full_depth_null_codec} for the null codec; the reduced alphabet {:?} beyond) with at least one failing call, closed by into_inner and by drop, must leave the same sink bytes after every non-failing call and the same final file as the history with the failing calls deleted. Large-block templates (all 6 codecs in both tiers): the fixed histories {:?} (approx_block_size, operations; ser_huge(k) = a record carrying k KiB of 7-bit text from a fixed xorshift64 sequence, ~7/8 of its size after entropy coding) put blocks whose stored size exceeds 32 KiB and 64 KiB (the codecs' output buffer starts at 32 KiB and doubles) before, between and after small blocks; the same invariant is evaluated on the sink after every call. Non-trivial: BFS histories with at least one accepted value (distinct on unit + history); every differential history. Accounting: states = distinct exact BFS states (counter bfs_distinct_states) + enumerated differential history bodies; transitions = operations applied by the BFS (bfs_transitions) + differential bodies; executions = histories replayed on the real crate (BFS builds incl. their into_inner close-out, differential histories, their reference histories).",
		if thorough { 6 } else { 3 },
		ds[0].schema_text,
		ds[0].small_len,
		ds[0].big_len,
		ds[0].block_sizes(),
		all_ops(&ds[0]).iter().map(|o| o.name()).collect::<Vec<_>>(),
		ds[1].block_sizes(),
		all_ops(&ds[1]).iter().map(|o| o.name()).collect::<Vec<_>>(),
		cfw::reduced_ops(&ds[0]).iter().map(|o| o.name()).collect::<Vec<_>>(),
		large_block_templates().iter().map(|(bs, ops)| (bs, cfw::hist_names(ops))).collect::<Vec<_>>(),
	);
	rep.assumptions.push("vmodel::container::cf_parse / vmodel::value::decode implement the Avro 1.11 container and binary encodings (codec framing via libflate, snap + own CRC-32, streaming bzip2/xz, zstd decode_all)".into());
	rep.assumptions.push("the writer is deterministic once the sync marker is pinned, so equal exact keys have equal futures".into());
	rep.assumptions.push("push_serialized is only given matching (bytes, count) pairs produced by the reference encoder (mismatching counts are documented misuse)".into());
	rep.extra.insert("units".into(), json!(us.len()));
	rep.extra.insert("bfs_depth".into(), json!(bfs_depth));
	rep.extra.insert("differential_depth".into(), json!(diff_depth));

	// work items, all independent: one BFS per unit, one differential enumeration per (unit, first operation)
	let mut work: Vec<(usize, Option<Op>)> = Vec::new();
	for (i, u) in us.iter().enumerate() {
		work.push((i, None));
		work.extend(cfw::nonterminal_ops(&ds[u.datum]).into_iter().map(|f| (i, Some(f))));
	}
	let per_item_cap = max_diff / 8;
	// large-block templates: every codec in both tiers (units of their own, after the enumerated ones)
	let templates = large_block_templates();
	let template_units: Vec<(Unit, usize)> =
		cfw::CODECS_ALL.iter().flat_map(|&codec| templates.iter().enumerate().map(move |(ti, (bs, _))| (Unit { datum: 0, datum_id: "record", codec, block_size: *bs }, ti))).collect();
	rep.extra.insert("large_block_template_units".into(), json!(template_units.len()));
	enum Work {
		Bfs(usize),
		Diff(usize, Op),
		Template(usize),
	}
	let mut items: Vec<Work> = (0..template_units.len()).map(Work::Template).collect();
	items.extend(work.iter().map(|&(i, first)| match first {
		Some(f) => Work::Diff(i, f),
		None => Work::Bfs(i),
	}));
	let results: Vec<(Cover, Vec<Violation>)> = items
		.par_iter()
		.map(|w| match *w {
			Work::Diff(i, f) => run_diff_unit(&ds[us[i].datum], &us[i], if us[i].codec == "null" { diff_full_depth_null_codec } else { diff_full_depth }, diff_depth, per_item_cap, f),
			Work::Bfs(i) => run_bfs_unit(&ds[us[i].datum], &us[i], bfs_depth, max_states),
			Work::Template(k) => run_template_unit(&ds[0], &template_units[k].0, &templates[template_units[k].1].1),
		})
		.collect();
	for (c, v) in results {
		rep.cover.merge(c);
		rep.violations.extend(v);
	}
	// vacuity guards: behaviours the verdict relies on
	if rep.violations.is_empty() {
		for codec in cfw::CODECS_ALL {
			for k in [format!("blocks_stored_over_32KiB_{codec}"), format!("blocks_stored_over_64KiB_{codec}")] {
				if rep.cover.counters.get(&k).copied().unwrap_or(0) == 0 {
					eprintln!("MACHINERY: C15 vacuity guard: counter {k} is 0 — no block of that stored size was written and judged for this codec");
					std::process::exit(2);
				}
			}
		}
	}
	let need = [
		"value_ops_ok",
		"blocks_cut_by_size",
		"blocks_flushed_by_finish_block",
		"blocks_flushed_by_into_inner",
		"blocks_flushed_by_drop",
		"failing_ops_err",
		"failing_ops_err_after_emitting_bytes",
		"failing_ops_with_open_block",
		"failing_ops_err_with_side_buffers_outstanding",
		"out_of_order_value_ops_ok",
		"states_with_pooled_side_buffers",
		"states_with_pooled_super_buffers",
		"states_with_open_block",
		"states_with_multi_object_block",
		"states_with_zero_byte_block",
		"diff_failing_calls_err",
	];
	if rep.violations.is_empty() {
		for k in need {
			if rep.cover.counters.get(k).copied().unwrap_or(0) == 0 {
				eprintln!("MACHINERY: C15 vacuity guard: counter {k} is 0 — a behaviour the check relies on was never exercised");
				std::process::exit(2);
			}
		}
		for k in ["conforming_value_op_returned_err", "flush_op_returned_err"] {
			let n = rep.cover.counters.get(k).copied().unwrap_or(0);
			if n != 0 {
				eprintln!("MACHINERY: C15: {n} operations of the ok-alphabet returned Err on a sink that accepts everything ({k}); the property does not judge them and the check cannot decide with them");
				std::process::exit(2);
			}
		}
	}
}

pub fn replay(v: &serde_json::Value) -> i32 {
	let r = &v["replay"];
	let datum_s = r["datum"].as_str().unwrap_or("record");
	let Some(d) = Datum::by_id(datum_s) else {
		eprintln!("replay: unknown datum {datum_s:?}");
		return 2;
	};
	let codec_s = r["codec"].as_str().unwrap_or("");
	let Some(codec) = cfw::CODECS_ALL.iter().copied().find(|c| *c == codec_s) else {
		eprintln!("replay: unknown codec {codec_s:?}");
		return 2;
	};
	let Some(h) = cfw::hist_parse(&r["history"]) else {
		eprintln!("replay: cannot parse history");
		return 2;
	};
	let u = Unit { datum: if d.is_record { 0 } else { 1 }, datum_id: d.id, codec, block_size: r["block_size"].as_u64().unwrap_or(0) as u32 };
	println!("C15 replay: {}; history [{}]", u.label(), cfw::hist_names(&h).join(", "));
	let mut cover = Cover::default();
	let res = if r["mode"].as_str() == Some("diff") {
		diff_case(&d, &u, &h, &mut HashMap::new(), &mut cover, true)
	} else {
		// inspect after every call: evaluate every prefix
		let mut first: Result<(), (String, String)> = Ok(());
		for n in 0..=h.len() {
			let (_, verdict, _) = eval_history(&d, &u, &h[..n], &mut cover, n == h.len());
			if first.is_ok() {
				first = verdict.map_err(|(c, w)| (c, format!("after {n} operation(s): {w}")));
			}
		}
		first
	};
	match res {
		Ok(()) => {
			println!("  no violation: the property holds on this history");
			0
		}
		Err((class, what)) => {
			println!("  [{class}] {what}");
			1
		}
	}
}
