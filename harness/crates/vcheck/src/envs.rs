//! Environment objects owned by the harness: chunked `BufRead`, scheduled `Write` sink,
//! counting allocator.

use crate::explore::Chooser;
use std::cell::{Cell, RefCell};
use std::io::{self, BufRead, IoSlice, Read, Write};
use std::rc::Rc;

// ---------------------------------------------------------------------------------------------

/// A `BufRead` over a byte string that hands it out in harness-chosen chunks: `fill_buf`
/// returns the rest of the current chunk; a new chunk starts only when the current one has been
/// consumed entirely.
pub struct ChunkedBufRead<'a> {
	data: &'a [u8],
	pos: usize,
	chunk_end: usize,
	sizes: Vec<usize>,
	next_size: usize,
	/// after `sizes` is exhausted: chunk size (0 = all the rest at once)
	uniform: usize,
	pub fill_calls: usize,
	pub refills: usize,
	pub eof_hit: bool,
	/// fail the k-th fill_buf/read call (0-based) with an I/O error
	pub fail_at_call: Option<usize>,
	pub failed: bool,
	/// Call horizon (the only thing that keeps a decoder that polls forever from hanging the check):
	/// more than `50 * len + 100_000` fill_buf calls in total, or more than 10_000 at end of input,
	/// are answered with an I/O error. No decoder that is bounded by its input comes near it.
	pub horizon_hit: bool,
	eof_polls: usize,
}

impl<'a> ChunkedBufRead<'a> {
	pub fn new(data: &'a [u8], sizes: Vec<usize>, uniform: usize) -> Self {
		ChunkedBufRead { data, pos: 0, chunk_end: 0, sizes, next_size: 0, uniform, fill_calls: 0, refills: 0, eof_hit: false, fail_at_call: None, failed: false, horizon_hit: false, eof_polls: 0 }
	}
	pub fn whole(data: &'a [u8]) -> Self {
		Self::new(data, vec![], 0)
	}
	pub fn uniform(data: &'a [u8], k: usize) -> Self {
		Self::new(data, vec![], k)
	}
	pub fn consumed(&self) -> usize {
		self.pos
	}
	pub fn remaining(&self) -> &'a [u8] {
		&self.data[self.pos..]
	}
}

impl<'a> BufRead for ChunkedBufRead<'a> {
	fn fill_buf(&mut self) -> io::Result<&[u8]> {
		let call = self.fill_calls;
		self.fill_calls += 1;
		if self.fail_at_call == Some(call) {
			self.failed = true;
			return Err(io::Error::new(io::ErrorKind::Other, "injected read error"));
		}
		if self.fill_calls > 50 * self.data.len() + 100_000 {
			self.horizon_hit = true;
			return Err(io::Error::new(io::ErrorKind::Other, "harness horizon: the reader was polled far more often than its input is long"));
		}
		if self.pos == self.chunk_end {
			if self.pos == self.data.len() {
				self.eof_hit = true;
				self.eof_polls += 1;
				if self.eof_polls > 10_000 {
					self.horizon_hit = true;
					return Err(io::Error::new(io::ErrorKind::Other, "harness horizon: the reader was polled 10 000 times after the end of its input"));
				}
				return Ok(&[]);
			}
			let sz = if self.next_size < self.sizes.len() {
				let s = self.sizes[self.next_size];
				self.next_size += 1;
				s
			} else {
				self.uniform
			};
			let left = self.data.len() - self.pos;
			let sz = if sz == 0 { left } else { sz.min(left) };
			self.chunk_end = self.pos + sz;
			self.refills += 1;
		}
		Ok(&self.data[self.pos..self.chunk_end])
	}
	fn consume(&mut self, amt: usize) {
		assert!(self.pos + amt <= self.chunk_end, "consume past the chunk handed out");
		self.pos += amt;
	}
}

impl<'a> Read for ChunkedBufRead<'a> {
	fn read(&mut self, buf: &mut [u8]) -> io::Result<usize> {
		if buf.is_empty() {
			return Ok(0);
		}
		let chunk = self.fill_buf()?;
		let n = chunk.len().min(buf.len());
		buf[..n].copy_from_slice(&chunk[..n]);
		self.consume(n);
		Ok(n)
	}
}

/// `&[u8]` as `Read` with the same end-of-input call horizon as [`ChunkedBufRead`]: meant to sit
/// inside a `std::io::BufReader`, so that a decoder polling an exhausted std reader forever gets an
/// I/O error instead of hanging the check.
pub struct HorizonRead<'a> {
	data: &'a [u8],
	eof_reads: usize,
}
impl<'a> HorizonRead<'a> {
	pub fn new(data: &'a [u8]) -> Self {
		HorizonRead { data, eof_reads: 0 }
	}
}
impl Read for HorizonRead<'_> {
	fn read(&mut self, buf: &mut [u8]) -> io::Result<usize> {
		if self.data.is_empty() && !buf.is_empty() {
			self.eof_reads += 1;
			if self.eof_reads > 10_000 {
				return Err(io::Error::new(io::ErrorKind::Other, "harness horizon: the reader was polled 10 000 times after the end of its input"));
			}
		}
		self.data.read(buf)
	}
}

// ---------------------------------------------------------------------------------------------

#[derive(Default)]
pub struct SinkState {
	pub bytes: Vec<u8>,
	pub calls: usize,
	pub plain_calls: usize,
	pub vectored_calls: usize,
	pub flush_calls: usize,
	/// call index at which a hard error / Ok(0) was injected
	pub hard_fault_at: Option<usize>,
	pub interrupts: usize,
	pub short_writes: usize,
	/// split positions observed (slice index in the vectored call where a short write ended)
	pub split_in_slice: [usize; 4],
}

/// Decision taken by the environment for one write call.
#[derive(Clone, Copy, Debug, PartialEq, Eq)]
pub enum SinkAnswer {
	All,
	Accept(usize),
	Interrupted,
	HardError,
	/// a hard error of kind `WouldBlock` (not `Interrupted`: it must surface, not be retried)
	WouldBlock,
	Zero,
}

/// A sink whose answers are decided by `decide(call_index, slice_lengths)`.
pub struct ScheduledSink<'d> {
	pub state: Rc<RefCell<SinkState>>,
	pub decide: Box<dyn FnMut(usize, &[usize]) -> SinkAnswer + 'd>,
}

impl<'d> ScheduledSink<'d> {
	pub fn accept_all() -> (Self, Rc<RefCell<SinkState>>) {
		let st = Rc::new(RefCell::new(SinkState::default()));
		(ScheduledSink { state: st.clone(), decide: Box::new(|_, _| SinkAnswer::All) }, st)
	}
	pub fn with(decide: impl FnMut(usize, &[usize]) -> SinkAnswer + 'd) -> (Self, Rc<RefCell<SinkState>>) {
		let st = Rc::new(RefCell::new(SinkState::default()));
		(ScheduledSink { state: st.clone(), decide: Box::new(decide) }, st)
	}
	fn answer(&mut self, lens: &[usize], copy: &mut dyn FnMut(&mut Vec<u8>, usize)) -> io::Result<usize> {
		let total: usize = lens.iter().sum();
		let call = {
			let mut st = self.state.borrow_mut();
			let c = st.calls;
			st.calls += 1;
			c
		};
		if total == 0 {
			return Ok(0);
		}
		let a = (self.decide)(call, lens);
		let mut st = self.state.borrow_mut();
		match a {
			SinkAnswer::All => {
				copy(&mut st.bytes, total);
				Ok(total)
			}
			SinkAnswer::Accept(k) => {
				let k = k.clamp(1, total);
				copy(&mut st.bytes, k);
				if k < total {
					st.short_writes += 1;
					let mut acc = 0;
					for (i, l) in lens.iter().enumerate() {
						acc += l;
						if k < acc || (k == acc && i + 1 < lens.len()) {
							st.split_in_slice[i.min(3)] += 1;
							break;
						}
					}
				}
				Ok(k)
			}
			SinkAnswer::Interrupted => {
				st.interrupts += 1;
				Err(io::Error::new(io::ErrorKind::Interrupted, "injected interrupt"))
			}
			SinkAnswer::HardError => {
				st.hard_fault_at = Some(call);
				Err(io::Error::new(io::ErrorKind::Other, "injected sink error"))
			}
			SinkAnswer::WouldBlock => {
				st.hard_fault_at = Some(call);
				Err(io::Error::new(io::ErrorKind::WouldBlock, "injected sink error (would block)"))
			}
			SinkAnswer::Zero => {
				st.hard_fault_at = Some(call);
				Ok(0)
			}
		}
	}
}

impl<'d> Write for ScheduledSink<'d> {
	fn write(&mut self, buf: &[u8]) -> io::Result<usize> {
		self.state.borrow_mut().plain_calls += 1;
		self.answer(&[buf.len()], &mut |out, k| out.extend_from_slice(&buf[..k]))
	}
	fn write_vectored(&mut self, bufs: &[IoSlice<'_>]) -> io::Result<usize> {
		self.state.borrow_mut().vectored_calls += 1;
		let lens: Vec<usize> = bufs.iter().map(|b| b.len()).collect();
		self.answer(&lens, &mut |out, mut k| {
			for b in bufs {
				let n = b.len().min(k);
				out.extend_from_slice(&b[..n]);
				k -= n;
				if k == 0 {
					break;
				}
			}
		})
	}
	fn flush(&mut self) -> io::Result<()> {
		self.state.borrow_mut().flush_calls += 1;
		Ok(())
	}
}

/// The menu of environment answers for a write call with these slice lengths; index 0 is the
/// default (accept everything).
pub fn sink_menu(lens: &[usize], with_faults: bool) -> Vec<SinkAnswer> {
	let total: usize = lens.iter().sum();
	let first = lens.iter().copied().find(|&l| l > 0).unwrap_or(0);
	let mut m = vec![SinkAnswer::All];
	let mut ks: Vec<usize> = vec![1, 2, first, first + 1, total.saturating_sub(1)];
	if lens.len() >= 2 {
		let two: usize = lens[..2].iter().sum();
		ks.push(two);
		ks.push(two + 1);
	}
	ks.retain(|&k| k >= 1 && k < total);
	ks.sort();
	ks.dedup();
	m.extend(ks.into_iter().map(SinkAnswer::Accept));
	m.push(SinkAnswer::Interrupted);
	if with_faults {
		m.push(SinkAnswer::HardError);
		m.push(SinkAnswer::WouldBlock);
		m.push(SinkAnswer::Zero);
	}
	m
}

/// A sink driven by a shared chooser: every write call is a deviation point.
pub fn chooser_sink<'d>(ch: &'d RefCell<&mut Chooser>, with_faults: bool) -> (ScheduledSink<'d>, Rc<RefCell<SinkState>>) {
	ScheduledSink::with(move |_call, lens| {
		let menu = sink_menu(lens, with_faults);
		let i = ch.borrow_mut().dev(menu.len());
		menu[i]
	})
}

// ---------------------------------------------------------------------------------------------

thread_local! {
	static ALLOCS: Cell<u64> = const { Cell::new(0) };
	static LIVE: Cell<i64> = const { Cell::new(0) };
	static PEAK: Cell<i64> = const { Cell::new(0) };
	static BIGGEST: Cell<u64> = const { Cell::new(0) };
}

pub struct CountingAlloc;

unsafe impl std::alloc::GlobalAlloc for CountingAlloc {
	unsafe fn alloc(&self, layout: std::alloc::Layout) -> *mut u8 {
		let _ = ALLOCS.try_with(|c| c.set(c.get() + 1));
		let _ = BIGGEST.try_with(|c| c.set(c.get().max(layout.size() as u64)));
		let _ = LIVE.try_with(|c| {
			let v = c.get() + layout.size() as i64;
			c.set(v);
			let _ = PEAK.try_with(|p| p.set(p.get().max(v)));
		});
		std::alloc::System.alloc(layout)
	}
	unsafe fn dealloc(&self, ptr: *mut u8, layout: std::alloc::Layout) {
		let _ = LIVE.try_with(|c| c.set(c.get() - layout.size() as i64));
		std::alloc::System.dealloc(ptr, layout)
	}
	unsafe fn realloc(&self, ptr: *mut u8, layout: std::alloc::Layout, new_size: usize) -> *mut u8 {
		let _ = ALLOCS.try_with(|c| c.set(c.get() + 1));
		let _ = BIGGEST.try_with(|c| c.set(c.get().max(new_size as u64)));
		let _ = LIVE.try_with(|c| {
			let v = c.get() + new_size as i64 - layout.size() as i64;
			c.set(v);
			let _ = PEAK.try_with(|p| p.set(p.get().max(v)));
		});
		std::alloc::System.realloc(ptr, layout, new_size)
	}
}

#[derive(Clone, Copy, Debug, Default)]
pub struct AllocStats {
	pub allocs: u64,
	/// peak of live bytes above the level at the start of the measurement
	pub peak_extra: i64,
	pub biggest: u64,
}

/// Measure allocations made by `f` on this thread.
pub fn measure_allocs<R>(f: impl FnOnce() -> R) -> (R, AllocStats) {
	let a0 = ALLOCS.with(|c| c.get());
	let live0 = LIVE.with(|c| c.get());
	PEAK.with(|c| c.set(live0));
	BIGGEST.with(|c| c.set(0));
	let r = f();
	let stats = AllocStats { allocs: ALLOCS.with(|c| c.get()) - a0, peak_extra: PEAK.with(|c| c.get()) - live0, biggest: BIGGEST.with(|c| c.get()) };
	(r, stats)
}
