//! C02 — encoder soundness over all presentations: `Ok` means spec-exact bytes of the value the
//! presentation denotes; unrepresentable values fail.
//!
//! SAE over the matrix (schema node kind x context) x (presentation). The oracle is the
//! *denotation* relation `den(pres, value, schema)`: the serde-data-model reading of the
//! presentation at that node. It is independent of which union branch the crate picks.

use crate::explore::{hash64, Cover};
use crate::gen::{self, Names, RecordStyle, UnionStyle};
use crate::pres::{intern, Pres};
use crate::report::{hex, Report, Violation};
use crate::subj::{self, Out};
use rayon::prelude::*;
use serde_json::json;
use std::collections::BTreeMap;
use vmodel::schema::{split_fullname, Env, Logical, RSchema};
use vmodel::value::{be_to_i128, parse_big_decimal, RValue, Verdict};

// ---------------------------------------------------------------------------------------------
// The generic presentation alphabet (tried on every node)

fn int_boundaries() -> Vec<i128> {
	vec![
		i128::MIN,
		-(1i128 << 96),
		i64::MIN as i128 - 1,
		i64::MIN as i128,
		i32::MIN as i128 - 1,
		i32::MIN as i128,
		-32769,
		-32768,
		-129,
		-128,
		-1,
		0,
		1,
		2,
		3,
		12,
		127,
		128,
		255,
		256,
		500,
		32767,
		32768,
		65535,
		65536,
		i32::MAX as i128,
		i32::MAX as i128 + 1,
		u32::MAX as i128,
		u32::MAX as i128 + 1,
		i64::MAX as i128,
		i64::MAX as i128 + 1,
		u64::MAX as i128,
		u64::MAX as i128 + 1,
		(1i128 << 96) - 1,
		1i128 << 96,
		i128::MAX,
	]
}

fn ints_all_widths() -> Vec<Pres> {
	let mut out = Vec::new();
	for n in int_boundaries() {
		if let Ok(v) = i8::try_from(n) {
			out.push(Pres::I8(v));
		}
		if let Ok(v) = i16::try_from(n) {
			out.push(Pres::I16(v));
		}
		if let Ok(v) = i32::try_from(n) {
			out.push(Pres::I32(v));
		}
		if let Ok(v) = i64::try_from(n) {
			out.push(Pres::I64(v));
		}
		out.push(Pres::I128(n));
		if let Ok(v) = u8::try_from(n) {
			out.push(Pres::U8(v));
		}
		if let Ok(v) = u16::try_from(n) {
			out.push(Pres::U16(v));
		}
		if let Ok(v) = u32::try_from(n) {
			out.push(Pres::U32(v));
		}
		if let Ok(v) = u64::try_from(n) {
			out.push(Pres::U64(v));
		}
		if let Ok(v) = u128::try_from(n) {
			out.push(Pres::U128(v));
		}
	}
	out.push(Pres::U128(u128::MAX));
	out
}

fn u8_seq(n: usize) -> Vec<Pres> {
	(0..n).map(|i| Pres::U8((i as u8).wrapping_mul(83).wrapping_add(200))).collect()
}

pub fn generic_alphabet() -> Vec<Pres> {
	let mut a: Vec<Pres> = vec![Pres::Bool(false), Pres::Bool(true)];
	a.extend(ints_all_widths());
	for b in [0u32, 0x3f80_0000, 0x4148_0000 /*12.5*/, 0x7fc0_0001, 0xff80_0000] {
		a.push(Pres::F32(b));
	}
	for f in [0.0f64, 1.0, 12.5, -3.0, 0.1, 1e40, f64::NAN, f64::INFINITY, 16777217.0] {
		a.push(Pres::F64(f.to_bits()));
	}
	a.push(Pres::Char('a'));
	a.push(Pres::Char('é'));
	for s in ["", "A", "B", "only", "x", "zz", "Null", "12.5", "12.50", "-0.05", "1e40", "-1", "0", "128", "340282366920938463463374607431768211455", "79228162514264337593543950336", "ab", "abc", "twelve bytes", "sixteen bytes ok", "seventeen bytes!!", "months", "é"] {
		a.push(Pres::str(s));
	}
	for n in [0usize, 1, 2, 3, 11, 12, 13, 16, 17] {
		a.push(Pres::Bytes((0..n).map(|i| (i as u8).wrapping_mul(7).wrapping_add(0x80)).collect()));
	}
	a.push(Pres::Bytes(vec![0xff, 0xfe]));
	a.push(Pres::Bytes(b"ab".to_vec()));
	a.push(Pres::Unit);
	a.push(Pres::None);
	for x in [Pres::I32(1), Pres::str("a"), Pres::Unit, Pres::None, Pres::Bool(true), Pres::I64(500)] {
		a.push(Pres::Some(Box::new(x)));
	}
	for n in ["A", "only", "zz", "Null"] {
		a.push(Pres::UnitStruct(intern(n)));
	}
	for (v, idx) in [("A", 0u32), ("B", 1), ("only", 0), ("zz", 7), ("Null", 0), ("x", 1), ("A", 9)] {
		a.push(Pres::UnitVariant { name: "E", idx, variant: intern(v) });
	}
	for n in ["zz", "Int", "Long", "String", "Bytes", "Null", "Array", "Map", "Decimal", "Duration", "Date"] {
		for x in [Pres::I32(1), Pres::str("a"), Pres::Unit, Pres::Bytes(vec![1, 2]), Pres::I64(i64::MAX)] {
			a.push(Pres::NewtypeStruct(intern(n), Box::new(x.clone())));
			a.push(Pres::NewtypeVariant { name: "E", idx: 0, variant: intern(n), value: Box::new(x) });
		}
	}
	// sequences
	for n in [0usize, 1, 2, 3, 12, 16, 17] {
		for hint in [None, Some(n), Some(n + 1), n.checked_sub(1)] {
			if hint == n.checked_sub(1) && n == 0 {
				continue;
			}
			a.push(Pres::Seq { len: hint, elems: u8_seq(n) });
		}
	}
	a.push(Pres::seq(vec![Pres::I32(1), Pres::I32(-1), Pres::I32(300)]));
	a.push(Pres::seq(vec![Pres::I32(300)]));
	a.push(Pres::Seq { len: None, elems: vec![Pres::I32(1), Pres::I32(300)] });
	a.push(Pres::seq(vec![Pres::str("a"), Pres::str("")]));
	a.push(Pres::seq(vec![Pres::I64(1 << 40)]));
	a.push(Pres::Seq { len: Some(5), elems: vec![Pres::I64(1), Pres::I64(2)] });
	a.push(Pres::Seq { len: Some(1), elems: vec![Pres::I64(1), Pres::I64(2), Pres::I64(3)] });
	a.push(Pres::Seq { len: None, elems: vec![Pres::I64(1), Pres::I64(2)] });
	a.push(Pres::Tuple(vec![Pres::U32(1), Pres::U32(2), Pres::U32(u32::MAX)]));
	a.push(Pres::Tuple(vec![Pres::U32(1), Pres::U32(2)]));
	a.push(Pres::Tuple(vec![Pres::U32(1), Pres::U32(2), Pres::U32(3), Pres::U32(4)]));
	a.push(Pres::Tuple(vec![Pres::I64(1), Pres::I64(2), Pres::I64(3)]));
	a.push(Pres::Seq { len: None, elems: vec![Pres::U32(5), Pres::U32(6), Pres::U32(7)] });
	a.push(Pres::TupleStruct("zz", vec![Pres::U32(1), Pres::U32(2), Pres::U32(3)]));
	// u32 sequences of every length 0..=4 whose length is not announced (None) or announced as 3: a duration node
	// must end with exactly three parts (a round-11 seeded change weakened the arity check made at `end`)
	for k in 0usize..=4 {
		for hint in [None, Some(3)] {
			a.push(Pres::Seq { len: hint, elems: (0..k).map(|i| Pres::U32(5 + i as u32)).collect() });
		}
	}
	// elements of every integer width, inside and outside the u8 / u32 ranges (sequences offered to
	// bytes / fixed / duration nodes convert each element)
	for x in [0x41i128, 255, 256, -1, 1 << 33] {
		let widths: Vec<Pres> = vec![
			i8::try_from(x).ok().map(Pres::I8),
			i16::try_from(x).ok().map(Pres::I16),
			i32::try_from(x).ok().map(Pres::I32),
			i64::try_from(x).ok().map(Pres::I64),
			Some(Pres::I128(x)),
			u8::try_from(x).ok().map(Pres::U8),
			u16::try_from(x).ok().map(Pres::U16),
			u32::try_from(x).ok().map(Pres::U32),
			u64::try_from(x).ok().map(Pres::U64),
			u128::try_from(x).ok().map(Pres::U128),
		]
		.into_iter()
		.flatten()
		.collect();
		for w in widths {
			a.push(Pres::seq(vec![Pres::U8(7), w.clone()]));
			a.push(Pres::Tuple(vec![w.clone(), Pres::U32(2), w.clone()]));
			a.push(Pres::Seq { len: None, elems: vec![w; 4] });
		}
	}
	a.push(Pres::TupleStruct("zz", vec![Pres::I32(1)]));
	a.push(Pres::TupleVariant { name: "E", idx: 0, variant: "Array", elems: vec![Pres::I32(1), Pres::I32(2)] });
	a.push(Pres::TupleVariant { name: "E", idx: 0, variant: "zz", elems: vec![Pres::I64(1)] });
	// maps / structs (generic field sets; schema-specific ones are added per unit)
	fn dur(a: &'static str, b: &'static str, c: &'static str) -> Vec<(&'static str, Pres)> {
		vec![(a, Pres::U32(1)), (b, Pres::U32(2)), (c, Pres::U32(3))]
	}
	// (hint_delta 99 stands for "no length hint")
	for (split, hint_delta) in [(false, 0i64), (true, 0), (false, 1), (false, -1), (true, 1), (true, -1), (true, -2), (false, 99), (true, 99)] {
		for entries in [
			vec![],
			vec![("a", Pres::I32(1))],
			vec![("a", Pres::I32(1)), ("b", Pres::str("s"))],
			vec![("b", Pres::str("s")), ("a", Pres::I32(1))],
			vec![("a", Pres::I32(1)), ("b", Pres::str("s")), ("c", Pres::I32(2))],
			vec![("a", Pres::I32(1)), ("a", Pres::I32(2)), ("b", Pres::str("s"))],
			vec![("k", Pres::I64(5)), ("", Pres::I64(-5))],
			vec![("k", Pres::I64(5)), ("", Pres::I64(-5)), ("clé", Pres::I64(64))],
			dur("months", "days", "milliseconds"),
			dur("days", "milliseconds", "months"),
			dur("months", "days", "seconds"),
			dur("months", "months", "days"),
			vec![("months", Pres::U32(1)), ("days", Pres::U32(2))],
		] {
			let n = entries.len() as i64 + hint_delta;
			if n < 0 {
				continue;
			}
			let mut m = Pres::map(entries);
			if let Pres::Map { len, split: s, .. } = &mut m {
				*len = if hint_delta == 99 { None } else { Some(n as usize) };
				*s = split;
			}
			a.push(m);
		}
	}
	a.push(Pres::Map { len: None, entries: vec![(Pres::str("a"), Pres::I32(1))], split: false });
	a.push(Pres::Map { len: Some(1), entries: vec![(Pres::I32(1), Pres::I32(1))], split: false });
	for name in ["zz", "Rec", "months"] {
		a.push(Pres::strukt(name, vec![]));
		a.push(Pres::strukt(name, vec![("a", Pres::I32(1))]));
		a.push(Pres::strukt(name, vec![("a", Pres::I32(1)), ("b", Pres::str("s"))]));
		a.push(Pres::strukt(name, vec![("months", Pres::U32(1)), ("days", Pres::U32(2)), ("milliseconds", Pres::U32(3))]));
	}
	a.push(Pres::StructVariant { name: "E", idx: 0, variant: "zz", fields: vec![("a", Pres::I32(1))] });
	a.push(Pres::StructVariant { name: "E", idx: 0, variant: "Map", fields: vec![("a", Pres::I32(1))] });
	a
}

// ---------------------------------------------------------------------------------------------
// Units: schema nodes in contexts

#[derive(Clone, Debug)]
pub struct Unit {
	pub id: usize,
	pub node: RSchema,
	/// 0 bare, 1 record field, 2 array item, 3 map value, 4 union branch of [null, S]
	pub ctx: usize,
	pub schema: RSchema,
}

fn node_schemas(n: &mut Names) -> Vec<RSchema> {
	use RSchema as S;
	let mut v = gen::all_leaves(n);
	v.push(S::array(S::Int));
	v.push(S::array(S::Long));
	v.push(S::array(S::String));
	v.push(S::map(S::Int));
	v.push(S::map(S::Long));
	v.push(S::record(&n.fresh("ns.Rec"), vec![("a", S::Int), ("b", S::String)]));
	v.push(S::record(&n.fresh("Rec"), vec![]));
	v.push(S::record(&n.fresh("Rec"), vec![("a", S::Int), ("b", S::Union(vec![S::Null, S::String])), ("c", S::Null)]));
	v.push(S::record(&n.fresh("Rec"), vec![("a", S::Union(vec![S::Int, S::Null])), ("b", S::String)]));
	v.push(S::Union(vec![S::Null, S::Int]));
	v.push(S::Union(vec![S::String, S::Null]));
	v.push(S::Union(vec![S::Int, S::logical(Logical::TimeMillis, S::Int)]));
	v.push(S::Union(vec![S::Long, S::logical(Logical::TimeMicros, S::Long)]));
	v.push(S::Union(vec![S::Long, S::logical(Logical::TimestampMillis, S::Long)]));
	v.push(S::Union(vec![S::Null, S::enum_(&n.fresh("En"), &["A", "B"])]));
	v.push(S::Union(vec![S::Null, S::fixed(&n.fresh("Fx"), 2)]));
	v.push(S::Union(vec![S::Null, S::decimal_bytes(10, 0), S::String]));
	v.push(S::Union(vec![S::Null, S::decimal_fixed(&n.fresh("Dec"), 2, 4, 0)]));
	// decimals over a fixed wider than the 16 bytes the crate computes with: the encoder pads with the sign
	v.push(S::decimal_fixed(&n.fresh("Dec"), 17, 38, 0));
	v.push(S::decimal_fixed(&n.fresh("ns.Dec"), 20, 40, 2));
	v.push(S::Union(vec![S::Null, S::Boolean, S::Int, S::Long, S::Float, S::Double, S::Bytes, S::String]));
	v.extend(gen::special_unions(n));
	v
}

pub fn units(thorough: bool) -> Vec<Unit> {
	use RSchema as S;
	let mut n = Names(1000);
	let mut out = Vec::new();
	let count = node_schemas(&mut Names(0)).len();
	let ctxs: Vec<usize> = vec![0, 1, 2, 3, 4];
	for i in 0..count {
		for &ctx in &ctxs {
			let node = node_schemas(&mut n).swap_remove(i);
			let schema = match ctx {
				0 => node.clone(),
				1 => S::record(&n.fresh("ctx.Wrap"), vec![("x", node.clone()), ("tail", S::Long)]),
				2 => S::array(node.clone()),
				3 => S::map(node.clone()),
				_ => {
					if matches!(node, S::Null | S::Union(_)) {
						continue;
					}
					S::Union(vec![S::Null, node.clone()])
				}
			};
			out.push(Unit { id: out.len(), node, ctx, schema });
		}
	}
	if thorough {
		// two levels of context
		for i in 0..count {
			for (c1, c2) in [(1usize, 2usize), (2, 1), (2, 2), (3, 2), (1, 1), (2, 4), (1, 4)] {
				let node = node_schemas(&mut n).swap_remove(i);
				let wrap = |s: RSchema, c: usize, n: &mut Names| -> Option<RSchema> {
					Some(match c {
						1 => S::record(&n.fresh("ctx.Wrap"), vec![("x", s), ("tail", S::Long)]),
						2 => S::array(s),
						3 => S::map(s),
						_ => {
							if matches!(s, S::Null | S::Union(_)) {
								return None;
							}
							S::Union(vec![S::Null, s])
						}
					})
				};
				let Some(inner) = wrap(node.clone(), c2, &mut n) else { continue };
				let Some(schema) = wrap(inner, c1, &mut n) else { continue };
				out.push(Unit { id: out.len(), node, ctx: 10 * c1 + c2, schema });
			}
		}
	}
	out
}

/// Wrap a presentation of the node into a presentation of the whole unit schema.
fn wrap_pres(p: &Pres, ctx: usize, schema: &RSchema) -> Pres {
	match ctx {
		0 | 4 => p.clone(),
		1 => {
			let name = match schema {
				RSchema::Record { name, .. } => split_fullname(name).1.to_owned(),
				_ => unreachable!(),
			};
			Pres::strukt(&name, vec![("x", p.clone()), ("tail", Pres::I64(7))])
		}
		2 => Pres::seq(vec![p.clone()]),
		3 => Pres::map(vec![("key", p.clone())]),
		c => {
			// two-level: outer = c / 10, inner = c % 10
			let (c1, c2) = (c / 10, c % 10);
			let inner_schema = match (c1, schema) {
				(1, RSchema::Record { fields, .. }) => &fields[0].1,
				(2, RSchema::Array(i)) | (3, RSchema::Map(i)) => &**i,
				(4, RSchema::Union(b)) => &b[1],
				_ => unreachable!(),
			};
			let inner = wrap_pres(p, c2, inner_schema);
			wrap_pres(&inner, c1, schema)
		}
	}
}

/// Schema-specific presentations: the names, symbols, sizes and fields of this node.
fn specific_alphabet(node: &RSchema, env: &Env) -> Vec<Pres> {
	let mut a = Vec::new();
	let r = env.resolve(node);
	let payloads = |b: &RSchema| -> Vec<Pres> {
		// a natural payload for the branch plus mismatching ones
		let mut ch = crate::explore::Chooser::new(vec![], None);
		let v = gen::gen_value(b, env, &mut ch, false, 1, 1);
		vec![gen::pres_of(&v, b, env, UnionStyle::ByTypeWhereUnambiguous, RecordStyle::Struct), Pres::I32(1), Pres::str("A"), Pres::Unit, Pres::Bytes(vec![1, 2])]
	};
	match r.base() {
		RSchema::Union(branches) => {
			for b in branches {
				let full = gen::branch_name(b, env);
				let mut names = vec![full.clone()];
				let simple = split_fullname(&full).1.to_owned();
				if simple != full {
					names.push(simple);
				}
				for nm in names {
					for x in payloads(b) {
						a.push(Pres::newtype_variant(&nm, x.clone()));
						a.push(Pres::NewtypeStruct(intern(&nm), Box::new(x)));
					}
					a.push(Pres::unit_variant(&nm));
					a.push(Pres::UnitStruct(intern(&nm)));
					a.push(Pres::strukt(&nm, vec![("a", Pres::I32(1))]));
					a.push(Pres::strukt(&nm, vec![("a", Pres::I64(1))]));
					a.push(Pres::StructVariant { name: "E", idx: 0, variant: intern(&nm), fields: vec![("a", Pres::I32(1))] });
					a.push(Pres::TupleVariant { name: "E", idx: 0, variant: intern(&nm), elems: vec![Pres::I64(1), Pres::I64(2)] });
				}
				a.extend(specific_alphabet(b, env));
			}
		}
		RSchema::Enum { symbols, name } => {
			for (i, s) in symbols.iter().enumerate() {
				a.push(Pres::str(s));
				a.push(Pres::UnitVariant { name: intern(split_fullname(name).1), idx: i as u32, variant: intern(s) });
				// variant index disagreeing with the symbol position: the name is what counts
				a.push(Pres::UnitVariant { name: "E", idx: (i as u32 + 1) % 3, variant: intern(s) });
				a.push(Pres::UnitStruct(intern(s)));
			}
			let n = symbols.len() as i64;
			for k in [n - 1, n, n + 1] {
				a.push(Pres::I64(k));
				a.push(Pres::U8(k as u8));
			}
		}
		RSchema::Fixed { size, .. } => {
			for k in [size.saturating_sub(1), *size, size + 1] {
				a.push(Pres::Bytes(vec![0xa5; k]));
				a.push(Pres::Str("q".repeat(k)));
				a.push(Pres::seq(u8_seq(k)));
				a.push(Pres::Seq { len: None, elems: u8_seq(k) });
			}
		}
		RSchema::Record { name, fields } => {
			let simple = split_fullname(name).1;
			// natural field presentations
			let mut ch = crate::explore::Chooser::new(vec![], None);
			let v = gen::gen_value(r, env, &mut ch, false, 1, 1);
			let vals = match &v {
				RValue::Record(vals) => vals.clone(),
				_ => unreachable!(),
			};
			let f: Vec<(&'static str, Pres)> =
				fields.iter().zip(&vals).map(|((fname, fs), fv)| (intern(fname), gen::pres_of(fv, fs, env, UnionStyle::ByTypeWhereUnambiguous, RecordStyle::Struct))).collect();
			let variants = |f: Vec<(&'static str, Pres)>, a: &mut Vec<Pres>| {
				for nm in [simple, name.as_str(), "zz"] {
					a.push(Pres::Struct { name: intern(nm), fields: f.clone() });
				}
				a.push(Pres::Map { len: Some(f.len()), entries: f.iter().map(|(k, v)| (Pres::str(k), v.clone())).collect(), split: false });
				a.push(Pres::Map { len: None, entries: f.iter().map(|(k, v)| (Pres::str(k), v.clone())).collect(), split: true });
				a.push(Pres::StructVariant { name: "E", idx: 0, variant: intern(name), fields: f.clone() });
			};
			variants(f.clone(), &mut a);
			let mut rev = f.clone();
			rev.reverse();
			variants(rev, &mut a);
			for i in 0..f.len() {
				let mut omit = f.clone();
				omit.remove(i);
				variants(omit, &mut a);
				let mut dup = f.clone();
				dup.push(f[i].clone());
				variants(dup, &mut a);
				let mut dup2 = f.clone();
				dup2.insert(0, f[i].clone());
				variants(dup2, &mut a);
				let mut wrong = f.clone();
				wrong[i].1 = Pres::Bool(true);
				variants(wrong, &mut a);
			}
			let mut unk = f.clone();
			unk.insert(f.len() / 2, ("nope", Pres::I32(1)));
			variants(unk, &mut a);
			// every presentation order x a duplicate of every field at every position (a duplicate may
			// arrive while the first occurrence is still held back waiting for earlier fields)
			if (2..=3).contains(&f.len()) {
				let n = f.len();
				let perms: Vec<Vec<usize>> = if n == 2 { vec![vec![0, 1], vec![1, 0]] } else { vec![vec![0, 1, 2], vec![0, 2, 1], vec![1, 0, 2], vec![1, 2, 0], vec![2, 0, 1], vec![2, 1, 0]] };
				for perm in perms {
					let ordered: Vec<(&'static str, Pres)> = perm.iter().map(|&i| f[i].clone()).collect();
					if perm.windows(2).any(|w| w[0] > w[1]) {
						variants(ordered.clone(), &mut a);
					}
					for i in 0..n {
						for pos in 0..=n {
							let mut d = ordered.clone();
							d.insert(pos, f[i].clone());
							variants(d, &mut a);
						}
					}
				}
			}
		}
		RSchema::Array(item) | RSchema::Map(item) => {
			a.extend(specific_alphabet(item, env));
		}
		_ => {}
	}
	a
}

// ---------------------------------------------------------------------------------------------
// Denotation

#[derive(Clone, Copy, PartialEq, Eq, Debug)]
pub enum Den {
	Yes,
	No,
	/// documented-lossy conversion or a reading the property does not define: no verdict
	Abstain,
}
use Den::*;

fn all(it: impl IntoIterator<Item = Den>) -> Den {
	let mut r = Yes;
	for d in it {
		match d {
			No => return No,
			Abstain => r = Abstain,
			Yes => {}
		}
	}
	r
}

fn as_int(p: &Pres) -> Option<i128> {
	Some(match p {
		Pres::I8(v) => *v as i128,
		Pres::I16(v) => *v as i128,
		Pres::I32(v) => *v as i128,
		Pres::I64(v) => *v as i128,
		Pres::I128(v) => *v,
		Pres::U8(v) => *v as i128,
		Pres::U16(v) => *v as i128,
		Pres::U32(v) => *v as i128,
		Pres::U64(v) => *v as i128,
		Pres::U128(v) => i128::try_from(*v).ok()?,
		_ => return None,
	})
}

/// Parse a plain decimal literal `[-]digits[.digits]` -> (unscaled, scale)
fn parse_decimal_literal(s: &str) -> Option<(i128, u32)> {
	let (neg, body) = match s.strip_prefix('-') {
		Some(b) => (true, b),
		None => (false, s.strip_prefix('+').unwrap_or(s)),
	};
	let (int, frac) = match body.split_once('.') {
		Some((i, f)) => (i, f),
		None => (body, ""),
	};
	if int.is_empty() && frac.is_empty() {
		return None;
	}
	if !int.chars().all(|c| c.is_ascii_digit()) || !frac.chars().all(|c| c.is_ascii_digit()) {
		return None;
	}
	let digits = format!("{int}{frac}");
	let u: i128 = digits.parse().ok()?;
	Some((if neg { -u } else { u }, frac.len() as u32))
}

fn pow10(n: u32) -> Option<i128> {
	10i128.checked_pow(n)
}

/// value equality of two decimals given as (unscaled, scale)
fn dec_eq(a: (i128, u32), b: (i128, u32)) -> Option<bool> {
	let l = a.0.checked_mul(pow10(b.1)?)?;
	let r = b.0.checked_mul(pow10(a.1)?)?;
	Some(l == r)
}

fn branch_designated<'a>(name: &str, branches: &'a [RSchema], env: &Env<'a>) -> Option<usize> {
	for (j, b) in branches.iter().enumerate() {
		let full = gen::branch_name(b, env);
		if full == name {
			return Some(j);
		}
		let is_named = env.resolve(b).fullname().is_some();
		if is_named && split_fullname(&full).1 == name {
			return Some(j);
		}
	}
	None
}

fn nullable_null(s: &RSchema, v: &RValue, env: &Env) -> bool {
	match (env.resolve(s), v) {
		(RSchema::Null, RValue::Null) => true,
		(RSchema::Union(b), RValue::Union(i, inner)) => matches!(env.resolve(&b[*i]), RSchema::Null) && **inner == RValue::Null,
		_ => false,
	}
}

pub fn den(p: &Pres, v: &RValue, s: &RSchema, env: &Env) -> Den {
	let r = env.resolve(s);
	// transparent wrappers
	if let Pres::Some(x) = p {
		return den(x, v, s, env);
	}
	// unions
	if let (RSchema::Union(branches), RValue::Union(i, inner)) = (r, v) {
		let b = &branches[*i];
		let named: Option<(&str, Option<&Pres>)> = match p {
			Pres::NewtypeVariant { variant, value, .. } => Some((variant, Some(&**value))),
			Pres::NewtypeStruct(name, value) => Some((name, Some(&**value))),
			Pres::Struct { name, .. } => Some((name, None)),
			Pres::StructVariant { variant, .. } => Some((variant, None)),
			Pres::TupleVariant { variant, .. } => Some((variant, None)),
			_ => None,
		};
		if let Some((name, payload)) = named {
			if let Some(j) = branch_designated(name, branches, env) {
				if j != *i {
					return No;
				}
				return match payload {
					Some(x) => den(x, inner, b, env),
					None => den(&strip_name(p), inner, b, env),
				};
			}
			// the name designates nothing: the payload is presented to the union as it is
			return match payload {
				Some(x) => den(x, v, s, env),
				None => den(&strip_name(p), inner, b, env),
			};
		}
		if let Pres::UnitVariant { variant, .. } = p {
			// a unit variant named after the null branch designates it
			if *variant == "Null" && branches.iter().any(|b| matches!(env.resolve(b), RSchema::Null)) {
				// ... unless an enum branch has that very symbol (inherently ambiguous: abstain)
				let clash = branches.iter().any(|b| matches!(env.resolve(b), RSchema::Enum { symbols, .. } if symbols.iter().any(|s| s == "Null")));
				if clash {
					return Abstain;
				}
				return if **inner == RValue::Null && matches!(env.resolve(b), RSchema::Null) { Yes } else { No };
			}
		}
		return den(p, inner, b, env);
	}
	// logical types
	if let RSchema::Logical(l, base) = r {
		let base = env.resolve(base);
		match l {
			Logical::Decimal { scale, .. } => {
				let raw = match v {
					RValue::Bytes(b) | RValue::Fixed(b) => b,
					_ => return No,
				};
				let Some(unscaled) = be_to_i128(raw) else { return Abstain };
				if let Some(n) = as_int(p) {
					return match pow10(*scale).and_then(|m| n.checked_mul(m)) {
						Some(expect) => {
							if expect == unscaled {
								Yes
							} else {
								No
							}
						}
						None => No,
					};
				}
				return match p {
					Pres::Str(st) => match parse_decimal_literal(st) {
						Some((u, sc)) => {
							if sc > *scale {
								Abstain // rounded by rescale: documented-lossy
							} else {
								match dec_eq((u, sc), (unscaled, *scale)) {
									Some(true) => Yes,
									Some(false) => No,
									None => Abstain,
								}
							}
						}
						None => Abstain, // exponent notation etc.: rust_decimal's parser decides
					},
					Pres::Char(c) => den(&Pres::Str(c.to_string()), v, s, env),
					Pres::F64(_) | Pres::F32(_) => Abstain,
					Pres::NewtypeStruct(_, x) | Pres::NewtypeVariant { value: x, .. } => den(x, v, s, env),
					_ => No,
				};
			}
			Logical::BigDecimal => {
				let RValue::Bytes(raw) = v else { return No };
				let Some((unscaled, sc)) = parse_big_decimal(raw) else { return No };
				if sc < 0 || sc > 40 {
					return Abstain;
				}
				if let Some(n) = as_int(p) {
					return match dec_eq((n, 0), (unscaled, sc as u32)) {
						Some(true) => Yes,
						Some(false) => No,
						None => Abstain,
					};
				}
				return match p {
					Pres::Str(st) => match parse_decimal_literal(st) {
						Some(lit) => match dec_eq(lit, (unscaled, sc as u32)) {
							Some(true) => Yes,
							Some(false) => No,
							None => Abstain,
						},
						None => Abstain,
					},
					Pres::Char(c) => den(&Pres::Str(c.to_string()), v, s, env),
					Pres::F64(_) | Pres::F32(_) => Abstain,
					Pres::NewtypeStruct(_, x) | Pres::NewtypeVariant { value: x, .. } => den(x, v, s, env),
					_ => No,
				};
			}
			Logical::Duration => {
				let RValue::Fixed(raw) = v else { return No };
				if raw.len() != 12 {
					return No;
				}
				let parts: Vec<u32> = raw.chunks(4).map(|c| u32::from_le_bytes(c.try_into().unwrap())).collect();
				return match p {
					Pres::Bytes(b) => {
						if b == raw {
							Yes
						} else {
							No
						}
					}
					Pres::Seq { elems, .. } | Pres::Tuple(elems) | Pres::TupleStruct(_, elems) | Pres::TupleVariant { elems, .. } => {
						if elems.len() == 3 && elems.iter().zip(&parts).all(|(e, x)| as_int(e) == Some(*x as i128)) {
							Yes
						} else {
							No
						}
					}
					Pres::Map { entries, .. } => {
						let mut got = [None; 3];
						for (k, x) in entries {
							let Pres::Str(k) = k else { return No };
							let idx = match k.as_str() {
								"months" => 0,
								"days" => 1,
								"milliseconds" => 2,
								_ => return No,
							};
							if got[idx].is_some() {
								return No;
							}
							got[idx] = as_int(x);
							if got[idx].is_none() {
								return No;
							}
						}
						if (0..3).all(|i| got[i] == Some(parts[i] as i128)) {
							Yes
						} else {
							No
						}
					}
					Pres::Struct { fields, .. } | Pres::StructVariant { fields, .. } => {
						let m = Pres::Map { len: None, entries: fields.iter().map(|(k, x)| (Pres::str(k), x.clone())).collect(), split: false };
						den(&m, v, s, env)
					}
					Pres::NewtypeStruct(_, x) | Pres::NewtypeVariant { value: x, .. } => den(x, v, s, env),
					_ => No,
				};
			}
			Logical::Uuid | Logical::Date | Logical::TimeMillis | Logical::TimeMicros | Logical::TimestampMillis | Logical::TimestampMicros | Logical::Unknown(_) => {
				return den(p, v, base, env);
			}
		}
	}
	// newtype wrappers outside unions are transparent
	match p {
		Pres::NewtypeStruct(_, x) | Pres::NewtypeVariant { value: x, .. } => return den(x, v, s, env),
		_ => {}
	}
	match (r, v) {
		(RSchema::Null, RValue::Null) => match p {
			Pres::Unit | Pres::None | Pres::UnitStruct(_) => Yes,
			Pres::UnitVariant { variant, .. } if *variant == "Null" => Yes,
			_ => No,
		},
		(RSchema::Boolean, RValue::Bool(b)) => match p {
			Pres::Bool(x) if x == b => Yes,
			_ => No,
		},
		(RSchema::Int, RValue::Int(i)) => match as_int(p) {
			Some(n) if n == *i as i128 => Yes,
			_ => No,
		},
		(RSchema::Long, RValue::Long(i)) => match as_int(p) {
			Some(n) if n == *i as i128 => Yes,
			_ => No,
		},
		(RSchema::Float, RValue::Float(bits)) => match p {
			Pres::F32(b) => {
				if b == bits {
					Yes
				} else {
					No
				}
			}
			Pres::F64(b) => {
				let f = f64::from_bits(*b);
				let narrowed = f as f32;
				if f.is_nan() {
					if f32::from_bits(*bits).is_nan() {
						Abstain
					} else {
						No
					}
				} else if (narrowed as f64) == f {
					if narrowed.to_bits() == *bits {
						Yes
					} else {
						No
					}
				} else {
					Abstain // documented lossy narrowing
				}
			}
			_ => No,
		},
		(RSchema::Double, RValue::Double(bits)) => match p {
			Pres::F64(b) => {
				if b == bits {
					Yes
				} else {
					No
				}
			}
			Pres::F32(b) => {
				if (f32::from_bits(*b) as f64).to_bits() == *bits {
					Yes
				} else {
					No
				}
			}
			_ => No,
		},
		(RSchema::String, RValue::Str(st)) => match p {
			Pres::Str(x) => yes_if(x == st),
			Pres::Char(c) => yes_if(&c.to_string() == st),
			Pres::Bytes(b) => yes_if(b == st.as_bytes()),
			Pres::UnitStruct(n) => yes_if(n == st),
			Pres::UnitVariant { variant, .. } => yes_if(variant == st),
			_ => No,
		},
		(RSchema::Bytes, RValue::Bytes(bs)) => match p {
			Pres::Bytes(x) => yes_if(x == bs),
			Pres::Str(x) => yes_if(x.as_bytes() == &bs[..]),
			Pres::Char(c) => yes_if(c.to_string().as_bytes() == &bs[..]),
			Pres::UnitStruct(n) => yes_if(n.as_bytes() == &bs[..]),
			Pres::UnitVariant { variant, .. } => yes_if(variant.as_bytes() == &bs[..]),
			Pres::Seq { elems, .. } | Pres::Tuple(elems) | Pres::TupleStruct(_, elems) | Pres::TupleVariant { elems, .. } => {
				yes_if(elems.len() == bs.len() && elems.iter().zip(bs).all(|(e, b)| as_int(e) == Some(*b as i128)))
			}
			_ => No,
		},
		(RSchema::Fixed { size, .. }, RValue::Fixed(bs)) => match p {
			Pres::Bytes(x) => yes_if(x == bs && x.len() == *size),
			Pres::Str(x) => yes_if(x.as_bytes() == &bs[..] && x.len() == *size),
			Pres::Char(c) => yes_if(c.to_string().as_bytes() == &bs[..]),
			Pres::Seq { elems, .. } | Pres::Tuple(elems) | Pres::TupleStruct(_, elems) | Pres::TupleVariant { elems, .. } => {
				yes_if(elems.len() == *size && elems.iter().zip(bs).all(|(e, b)| as_int(e) == Some(*b as i128)))
			}
			_ => No,
		},
		(RSchema::Enum { symbols, .. }, RValue::Enum(i)) => match p {
			Pres::Str(x) => yes_if(symbols.get(*i) == Some(x)),
			Pres::Char(c) => yes_if(symbols.get(*i) == Some(&c.to_string())),
			Pres::UnitVariant { variant, .. } => yes_if(symbols.get(*i).map(|s| s.as_str()) == Some(*variant)),
			Pres::UnitStruct(n) => yes_if(symbols.get(*i).map(|s| s.as_str()) == Some(*n)),
			_ => match as_int(p) {
				Some(n) => yes_if(n >= 0 && n == *i as i128 && (n as usize) < symbols.len()),
				None => No,
			},
		},
		(RSchema::Array(item), RValue::Array(vs)) => match p {
			Pres::Seq { elems, .. } | Pres::Tuple(elems) | Pres::TupleStruct(_, elems) | Pres::TupleVariant { elems, .. } => {
				if elems.len() != vs.len() {
					return No;
				}
				all(elems.iter().zip(vs).map(|(e, x)| den(e, x, item, env)))
			}
			_ => No,
		},
		(RSchema::Map(item), RValue::Map(vs)) => {
			let entries: Vec<(Pres, Pres)> = match p {
				Pres::Map { entries, .. } => entries.clone(),
				Pres::Struct { fields, .. } | Pres::StructVariant { fields, .. } => fields.iter().map(|(k, x)| (Pres::str(k), x.clone())).collect(),
				_ => return No,
			};
			if entries.len() != vs.len() {
				return No;
			}
			all(entries.iter().zip(vs).map(|((k, e), (vk, x))| match k {
				Pres::Str(k) if k == vk => den(e, x, item, env),
				Pres::Char(c) if &c.to_string() == vk => den(e, x, item, env),
				_ => No,
			}))
		}
		(RSchema::Record { fields, .. }, RValue::Record(vs)) => {
			let entries: Vec<(Pres, Pres)> = match p {
				Pres::Map { entries, .. } => entries.clone(),
				Pres::Struct { fields, .. } | Pres::StructVariant { fields, .. } => fields.iter().map(|(k, x)| (Pres::str(k), x.clone())).collect(),
				_ => return No,
			};
			let mut seen = vec![false; fields.len()];
			let mut res = Yes;
			for (k, e) in &entries {
				let Pres::Str(k) = k else { return No };
				let Some(idx) = fields.iter().position(|(n, _)| n == k) else { return No };
				if seen[idx] {
					return No;
				}
				seen[idx] = true;
				match den(e, &vs[idx], &fields[idx].1, env) {
					No => return No,
					Abstain => res = Abstain,
					Yes => {}
				}
			}
			for (idx, s) in seen.iter().enumerate() {
				if !s && !nullable_null(&fields[idx].1, &vs[idx], env) {
					return No;
				}
			}
			res
		}
		_ => No,
	}
}

fn yes_if(b: bool) -> Den {
	if b {
		Yes
	} else {
		No
	}
}

fn strip_name(p: &Pres) -> Pres {
	match p {
		Pres::Struct { fields, .. } | Pres::StructVariant { fields, .. } => Pres::Map { len: Some(fields.len()), entries: fields.iter().map(|(k, x)| (Pres::str(k), x.clone())).collect(), split: false },
		Pres::TupleVariant { elems, .. } => Pres::Tuple(elems.clone()),
		other => other.clone(),
	}
}

/// Explicit ambiguity list: type-directed presentations for which several branches are equally
/// suitable; the serializer must refuse.
fn must_be_ambiguous(p: &Pres, s: &RSchema, env: &Env) -> bool {
	let RSchema::Union(branches) = env.resolve(s) else { return false };
	let kinds: Vec<&RSchema> = branches.iter().map(|b| env.resolve(b)).collect();
	let count = |f: &dyn Fn(&RSchema) -> bool| kinds.iter().filter(|k| f(k)).count();
	let int4 = |k: &RSchema| matches!(k, RSchema::Int | RSchema::Logical(Logical::Date | Logical::TimeMillis, _));
	let int8 = |k: &RSchema| matches!(k, RSchema::Long | RSchema::Logical(Logical::TimeMicros | Logical::TimestampMillis | Logical::TimestampMicros, _));
	match p {
		Pres::I32(_) => count(&int4) >= 2,
		Pres::I64(_) => count(&int8) >= 2,
		Pres::Str(st) => {
			count(&|k| matches!(k, RSchema::String | RSchema::Logical(Logical::Uuid, _))) >= 2
				// no branch takes strings as such, and several enums have that very symbol
				|| (count(&|k| matches!(k, RSchema::String | RSchema::Bytes | RSchema::Fixed { .. } | RSchema::Logical(..))) == 0
					&& count(&|k| matches!(k, RSchema::Enum { symbols, .. } if symbols.contains(st))) >= 2)
		}
		Pres::Bytes(b) => {
			(count(&|k| matches!(k, RSchema::Bytes)) >= 1 && count(&|k| matches!(k, RSchema::Fixed { size, .. } if *size == b.len())) >= 1)
				|| (count(&|k| matches!(k, RSchema::Bytes | RSchema::String | RSchema::Logical(..))) == 0 && count(&|k| matches!(k, RSchema::Fixed { size, .. } if *size == b.len())) >= 2)
		}
		Pres::Map { entries, .. } => {
			let keys: Vec<&str> = entries.iter().filter_map(|(k, _)| if let Pres::Str(k) = k { Some(k.as_str()) } else { None }).collect();
			count(&|k| matches!(k, RSchema::Record { fields, .. } if fields.len() == keys.len() && fields.iter().all(|(n, _)| keys.contains(&n.as_str())))) >= 2
		}
		_ => false,
	}
}

// ---------------------------------------------------------------------------------------------

fn node_kind(s: &RSchema) -> String {
	match s {
		RSchema::Logical(l, b) => format!("{}({})", l.name(), node_kind(b)),
		RSchema::Null => "null".into(),
		RSchema::Boolean => "boolean".into(),
		RSchema::Int => "int".into(),
		RSchema::Long => "long".into(),
		RSchema::Float => "float".into(),
		RSchema::Double => "double".into(),
		RSchema::Bytes => "bytes".into(),
		RSchema::String => "string".into(),
		RSchema::Array(_) => "array".into(),
		RSchema::Map(_) => "map".into(),
		RSchema::Union(_) => "union".into(),
		RSchema::Record { .. } => "record".into(),
		RSchema::Enum { .. } => "enum".into(),
		RSchema::Fixed { .. } => "fixed".into(),
		RSchema::Ref(_) => "ref".into(),
	}
}

pub fn run_cell(u: &Unit, env: &Env, cs: &serde_avro_fast::Schema, p: &Pres, slow: bool, cover: &mut Cover, matrix: &mut BTreeMap<(String, &'static str), [u64; 3]>, out: &mut Vec<Violation>, pidx: usize) {
	let wp = wrap_pres(p, u.ctx, &u.schema);
	cover.impl_runs += 1;
	cover.evaluations += 1;
	let r = if slow { subj::ser_slow_seq(cs, &wp) } else { subj::ser(cs, &wp) };
	let cell = matrix.entry((node_kind(&u.node), p.kind())).or_insert([0; 3]);
	let schema_text = gen::schema_text(&u.schema);
	let pk = if as_int(p).is_some() { "integer" } else { p.kind() };
	let nk = node_kind(&u.node);
	let mut viol = |class: &str, what: String| {
		out.push(Violation {
			class: format!("{class}:{nk}:{pk}"),
			what: format!("schema {schema_text}, presentation {wp:?}{}: {what}", if slow { " (allow_slow_sequence_to_bytes)" } else { "" }),
			replay: json!({"check": "C02", "unit": u.id, "pres": pidx, "slow": slow, "schema": schema_text, "presentation": format!("{wp:?}")}),
		});
	};
	match r {
		Out::Err(_) => {
			cell[1] += 1;
			cover.outcomes.insert(1);
		}
		Out::Panic(e) => {
			cell[2] += 1;
			viol("ser-panic", format!("serializer panicked: {e}"));
		}
		Out::Ok(bytes) => {
			cell[0] += 1;
			cover.nontrivial.insert(hash64(&(u.id, pidx, slow)));
			cover.outcomes.insert(hash64(&bytes));
			match vmodel::value::decode(&bytes, &u.schema, env) {
				Verdict::Valid(v, n) if n == bytes.len() => {
					if must_be_ambiguous(p, &u.node, env) && u.ctx == 0 {
						viol("ambiguous-accepted", format!("Ok([{}]) = {v:?}, but several union branches are equally suitable for this type-directed presentation", hex(&bytes)));
					}
					match den(&wp, &v, &u.schema, env) {
						Yes => {
							cover.count("ok_verified", 1);
							if cover.samples.len() < 4 && bytes.len() > 2 && pidx % 97 == 0 {
								cover.sample(json!({"schema": schema_text, "presentation": format!("{wp:?}"), "bytes": hex(&bytes), "decoded": format!("{v:?}")}));
							}
						}
						Abstain => cover.count("ok_no_verdict_lossy", 1),
						No => viol("wrong-value", format!("Ok([{}]), which is the encoding of {v:?} - not a value this presentation denotes", hex(&bytes))),
					}
				}
				Verdict::Valid(v, n) => viol("trailing-bytes", format!("Ok([{}]): the encoding of {v:?} ends after {n} bytes", hex(&bytes))),
				Verdict::Invalid(m) => viol("undecodable", format!("Ok([{}]), which is not a valid encoding under the schema: {m}", hex(&bytes))),
				Verdict::Unspecified(m) if m.starts_with("model refuses") => {
					// a limit of the reference model, not a statement about the bytes
					cover.count("ok_model_unspecified", 1);
				}
				// What a *decoder* may do with an over-long varint or an int beyond 32 bits is left open
				// by the specification; an *encoder* must not produce one.
				Verdict::Unspecified(m) => viol("not-spec-exact", format!("Ok([{}]), which is not the specification's encoding of any value of the schema: {m}", hex(&bytes))),
			}
		}
	}
}

fn unit_alphabet(u: &Unit, env: &Env, generic: &[Pres]) -> Vec<Pres> {
	let mut a = generic.to_vec();
	a.extend(specific_alphabet(&u.node, env));
	a
}

pub fn run(rep: &mut Report) {
	let thorough = rep.thorough();
	let us = units(thorough);
	let generic = generic_alphabet();
	rep.rule = format!(
		"SAE over the matrix: {} schema units (every leaf/logical node kind, arrays, maps, records, {} unions incl. every lookup collision; contexts: bare, record field, array item, map value, [null,S]{}) x every presentation of a generic alphabet of {} serde presentations (all 30 Serializer methods, every integer width at its boundaries, strs/bytes/seqs around every fixed size, len hints off by one, field sets exact/missing/unknown/duplicated/permuted) plus schema-specific ones (branch names, symbols, sizes, fields); sequences also with allow_slow_sequence_to_bytes. Oracle: Ok(bytes) => reference decoder accepts all bytes and the decoded value is one the presentation denotes (denotation relation independent of the branch chosen); explicit ambiguity list must be Err; panic is a violation. Non-trivial = distinct (unit, presentation) cells that returned Ok.",
		us.len(),
		gen::special_unions(&mut Names(0)).len() + 10,
		if thorough { "; two nested contexts" } else { "" },
		generic.len()
	);
	rep.assumptions.push("reference decoder (vmodel); the denotation relation den() is the serde-data-model reading stated in DESIGN.md §4 C02; lossy conversions documented by the crate (f64->float, decimal rescale) give no verdict".into());
	type M = BTreeMap<(String, &'static str), [u64; 3]>;
	let results: Vec<(Cover, M, Vec<Violation>)> = us
		.par_iter()
		.map(|u| {
			let mut cover = Cover::default();
			let mut matrix: M = BTreeMap::new();
			let mut out = Vec::new();
			let env = Env::new(&u.schema);
			let cs = match gen::to_crate_schema(&u.schema) {
				Ok(s) => s,
				Err(e) => {
					out.push(Violation { class: "schema-rejected".into(), what: e, replay: json!({"check": "C02", "unit": u.id}) });
					return (cover, matrix, out);
				}
			};
			let alphabet = unit_alphabet(u, &env, &generic);
			for (pidx, p) in alphabet.iter().enumerate() {
				run_cell(u, &env, &cs, p, false, &mut cover, &mut matrix, &mut out, pidx);
				if matches!(p, Pres::Seq { .. } | Pres::Tuple(_) | Pres::TupleStruct(..) | Pres::TupleVariant { .. }) {
					run_cell(u, &env, &cs, p, true, &mut cover, &mut matrix, &mut out, pidx);
				}
			}
			cover.states += alphabet.len() as u64 + 1;
			cover.transitions += alphabet.len() as u64;
			(cover, matrix, out)
		})
		.collect();
	let mut matrix: M = BTreeMap::new();
	for (c, m, v) in results {
		rep.cover.merge(c);
		for (k, x) in m {
			let e = matrix.entry(k).or_insert([0; 3]);
			for i in 0..3 {
				e[i] += x[i];
			}
		}
		rep.violations.extend(v);
	}
	let kinds: std::collections::BTreeSet<&String> = matrix.keys().map(|k| &k.0).collect();
	let calls: std::collections::BTreeSet<&'static str> = matrix.keys().map(|k| k.1).collect();
	let ok_cells = matrix.values().filter(|v| v[0] > 0).count();
	rep.extra.insert("matrix_node_kinds".into(), json!(kinds.len()));
	rep.extra.insert("matrix_presentation_kinds".into(), json!(calls.len()));
	rep.extra.insert("matrix_cells_hit".into(), json!(matrix.len()));
	rep.extra.insert("matrix_cells_with_ok".into(), json!(ok_cells));
	rep.extra.insert("matrix_ok_by_cell".into(), json!(matrix.iter().filter(|(_, v)| v[0] > 0).map(|((k, c), v)| format!("{k} x {c}: ok={} err={}", v[0], v[1])).collect::<Vec<_>>()));
	if ok_cells < 60 || calls.len() < 28 {
		eprintln!("MACHINERY: C02 matrix is vacuous (cells with Ok: {ok_cells}, presentation kinds: {})", calls.len());
		std::process::exit(2);
	}
}

pub fn replay(v: &serde_json::Value) -> i32 {
	let r = &v["replay"];
	let unit = r["unit"].as_u64().unwrap() as usize;
	let pidx = r["pres"].as_u64().unwrap_or(0) as usize;
	let slow = r["slow"].as_bool().unwrap_or(false);
	for thorough in [false, true] {
		let us = units(thorough);
		let Some(u) = us.get(unit) else { continue };
		if gen::schema_text(&u.schema) != r["schema"].as_str().unwrap_or("") {
			continue;
		}
		let env = Env::new(&u.schema);
		let cs = gen::to_crate_schema(&u.schema).unwrap();
		let alphabet = unit_alphabet(u, &env, &generic_alphabet());
		let mut cover = Cover::default();
		let mut m = BTreeMap::new();
		let mut out = Vec::new();
		run_cell(u, &env, &cs, &alphabet[pidx], slow, &mut cover, &mut m, &mut out, pidx);
		println!("replayed unit {unit} presentation #{pidx}: {:?}", alphabet[pidx]);
		for v in &out {
			println!("  [{}] {}", v.class, v.what);
		}
		return if out.is_empty() { 0 } else { 1 };
	}
	eprintln!("unit not found");
	2
}
