//! C20 generator, part 2: enumeration of ALL programs of the grammar up to a node bound
//! (driven by the SAE odometer), and the hand-listed parametrised sweeps beyond the bound.

use crate::c20_gen::*;
use crate::explore::{explore, Chooser, TreeStats};

/// Alphabet of the exhaustive part
#[derive(Clone, Debug)]
pub struct GCfg {
	pub max_nodes: usize,
	pub leaves: Vec<Leaf>,
	/// field-level leaves (size 1)
	pub field_leaves: Vec<FieldTy>,
	pub opt: bool,
	pub vec: bool,
	pub map: bool,
	pub boxed: bool,
	pub max_fields: usize,
	pub max_variants: usize,
	pub newtype: bool,
	pub unit_enum: bool,
	pub union: bool,
	pub generic: bool,
	pub share: bool,
	pub recursion: bool,
	pub label: &'static str,
}

struct Open {
	def: usize,
	is_struct: bool,
	heap: bool,
	emptiable: bool,
}

struct B<'a> {
	ch: &'a mut Chooser,
	cfg: &'a GCfg,
	defs: Vec<Option<Def>>,
	open: Vec<Open>,
	generic0: Option<usize>,
}

#[derive(Clone, Copy, PartialEq)]
enum Opt {
	Leaf(usize),
	FieldLeaf(usize),
	UnitEnum,
	Share(usize),
	SelfRef(usize),
	Option_,
	Vec_,
	Map,
	Box_,
	OptBytes,
	Struct,
	Newtype,
	Union,
	Generic,
}

impl<'a> B<'a> {
	fn closed_kind_nullable(&self, j: usize) -> bool {
		// conservative: decided on the finished def
		match self.defs[j].as_ref() {
			Some(Def::Union { .. }) => true,
			Some(Def::Newtype { field }) => match field {
				FieldTy::OptBytes => true,
				FieldTy::Plain(t) => self.ty_nullable(t),
				_ => false,
			},
			_ => false,
		}
	}
	/// a finished def may refer back to defs that are still open (recursion); using it a second
	/// time is only a finite type if this position is guarded for every one of them
	fn back_refs_guarded(&self, j: usize) -> bool {
		fn named(t: &Ty, out: &mut Vec<usize>) {
			match t {
				Ty::Opt(t) | Ty::Vec(t) | Ty::HMap(t) | Ty::BMap(t) | Ty::Ptr(_, t) => named(t, out),
				Ty::Named(i) => out.push(*i),
				Ty::Gen(_, a) => a.iter().for_each(|t| named(t, out)),
				_ => {}
			}
		}
		let mut todo = vec![j];
		let mut seen = vec![j];
		while let Some(d) = todo.pop() {
			let fs: Vec<&FieldTy> = match self.defs[d].as_ref() {
				Some(Def::Struct { fields, .. }) => fields.iter().collect(),
				Some(Def::Newtype { field }) => vec![field],
				Some(Def::Union { variants, .. }) => variants.iter().collect(),
				_ => vec![],
			};
			let mut succ = Vec::new();
			for f in fs {
				if let FieldTy::Plain(t) = f {
					named(t, &mut succ);
				}
			}
			for k in succ {
				if let Some(o) = self.open.iter().find(|o| o.def == k) {
					if !(o.is_struct && o.heap && o.emptiable) {
						return false;
					}
				} else if !seen.contains(&k) {
					seen.push(k);
					todo.push(k);
				}
			}
		}
		true
	}
	fn ty_nullable(&self, t: &Ty) -> bool {
		match t {
			Ty::Leaf(Leaf::Unit) | Ty::Opt(_) => true,
			Ty::Ptr(_, t) => self.ty_nullable(t),
			Ty::Named(j) => self.closed_kind_nullable(*j),
			_ => false,
		}
	}

	/// a field position (`field` = serde_bytes leaves are allowed here)
	fn gen(&mut self, budget: usize, no_null: bool, field: bool) -> Option<(FieldTy, usize)> {
		let cfg = self.cfg;
		let mut opts: Vec<Opt> = Vec::new();
		for (i, l) in cfg.leaves.iter().enumerate() {
			if !(no_null && *l == Leaf::Unit) {
				opts.push(Opt::Leaf(i));
			}
		}
		if field {
			for i in 0..cfg.field_leaves.len() {
				opts.push(Opt::FieldLeaf(i));
			}
		}
		if cfg.unit_enum {
			opts.push(Opt::UnitEnum);
		}
		if cfg.share {
			for j in 0..self.defs.len() {
				if self.defs[j].is_some() && !matches!(self.defs[j], Some(Def::Generic { .. })) && !self.open.iter().any(|o| o.def == j) && !(no_null && self.closed_kind_nullable(j)) && self.back_refs_guarded(j) {
					opts.push(Opt::Share(j));
				}
			}
		}
		if cfg.recursion {
			for o in &self.open {
				if o.is_struct && o.heap && o.emptiable {
					opts.push(Opt::SelfRef(o.def));
				}
			}
		}
		if budget >= 2 {
			if cfg.opt && !no_null {
				opts.push(Opt::Option_);
				if field && cfg.field_leaves.contains(&FieldTy::Bytes) {
					opts.push(Opt::OptBytes);
				}
			}
			if cfg.vec {
				opts.push(Opt::Vec_);
			}
			if cfg.map {
				opts.push(Opt::Map);
			}
			if cfg.boxed {
				opts.push(Opt::Box_);
			}
			opts.push(Opt::Struct);
			if cfg.newtype {
				opts.push(Opt::Newtype);
			}
			if cfg.union && !no_null {
				opts.push(Opt::Union);
			}
			if cfg.generic {
				opts.push(Opt::Generic);
			}
		}
		let o = opts[self.ch.pick(opts.len())];
		Some(match o {
			Opt::Leaf(i) => (FieldTy::Plain(Ty::Leaf(cfg.leaves[i])), 1),
			Opt::FieldLeaf(i) => (cfg.field_leaves[i].clone(), 1),
			Opt::UnitEnum => {
				self.defs.push(Some(Def::UnitEnum { symbols: 2 }));
				(FieldTy::Plain(Ty::Named(self.defs.len() - 1)), 1)
			}
			Opt::Share(j) | Opt::SelfRef(j) => (FieldTy::Plain(Ty::Named(j)), 1),
			Opt::OptBytes => (FieldTy::OptBytes, 2),
			Opt::Option_ => {
				let saved = self.flags(false, true);
				let inner = self.gen(budget - 1, true, false);
				self.restore(saved);
				match inner? {
					(FieldTy::Plain(t), n) => (FieldTy::Plain(Ty::Opt(Box::new(t))), n + 1),
					_ => return None,
				}
			}
			Opt::Vec_ | Opt::Map | Opt::Box_ => {
				let saved = self.flags(true, o != Opt::Box_);
				let inner = self.gen(budget - 1, no_null && o == Opt::Box_, false);
				self.restore(saved);
				match inner? {
					(FieldTy::Plain(t), n) => (
						FieldTy::Plain(match o {
							Opt::Vec_ => Ty::Vec(Box::new(t)),
							Opt::Map => Ty::BMap(Box::new(t)),
							_ => Ty::Ptr(Ptr::Box, Box::new(t)),
						}),
						n + 1,
					),
					_ => return None,
				}
			}
			Opt::Struct => {
				let (i, n) = self.gen_struct(budget)?;
				(FieldTy::Plain(Ty::Named(i)), n)
			}
			Opt::Newtype => {
				let (i, n) = self.gen_newtype(budget, no_null)?;
				(FieldTy::Plain(Ty::Named(i)), n)
			}
			Opt::Union => {
				let (i, n) = self.gen_union(budget)?;
				(FieldTy::Plain(Ty::Named(i)), n)
			}
			Opt::Generic => {
				let g = match self.generic0 {
					Some(g) => g,
					None => {
						self.defs.push(Some(Def::Generic { shape: 0 }));
						self.generic0 = Some(self.defs.len() - 1);
						self.defs.len() - 1
					}
				};
				// a generic argument is an opaque position: no recursion guard is gained through it
				match self.gen(budget - 1, false, false)? {
					(FieldTy::Plain(t), n) => (FieldTy::Plain(Ty::Gen(g, vec![t])), n + 1),
					_ => return None,
				}
			}
		})
	}

	fn flags(&mut self, heap: bool, emptiable: bool) -> Vec<(bool, bool)> {
		let saved = self.open.iter().map(|o| (o.heap, o.emptiable)).collect();
		for o in &mut self.open {
			o.heap |= heap;
			o.emptiable |= emptiable;
		}
		saved
	}
	fn restore(&mut self, saved: Vec<(bool, bool)>) {
		for (o, (h, e)) in self.open.iter_mut().zip(saved) {
			o.heap = h;
			o.emptiable = e;
		}
	}

	fn begin(&mut self, is_struct: bool) -> usize {
		self.defs.push(None);
		let i = self.defs.len() - 1;
		self.open.push(Open { def: i, is_struct, heap: false, emptiable: false });
		i
	}

	/// budget includes the node of the struct itself; returns (def index, nodes used)
	fn gen_struct(&mut self, budget: usize) -> Option<(usize, usize)> {
		let kmax = self.cfg.max_fields.min(budget - 1);
		let k = 1 + self.ch.pick(kmax);
		let i = self.begin(true);
		let mut left = budget - 1;
		let mut fields = Vec::new();
		let mut ok = true;
		for f in 0..k {
			let b = left - (k - 1 - f);
			match self.gen(b, false, true) {
				Some((ft, n)) => {
					left -= n;
					fields.push(ft);
				}
				None => {
					ok = false;
					break;
				}
			}
		}
		self.open.pop();
		if !ok {
			return None;
		}
		self.defs[i] = Some(plain_struct(fields));
		Some((i, budget - left))
	}
	fn gen_newtype(&mut self, budget: usize, no_null: bool) -> Option<(usize, usize)> {
		let i = self.begin(false);
		let f = self.gen(budget - 1, no_null, true);
		self.open.pop();
		let (f, n) = f?;
		self.defs[i] = Some(Def::Newtype { field: f });
		Some((i, n + 1))
	}
	fn gen_union(&mut self, budget: usize) -> Option<(usize, usize)> {
		let nmax = self.cfg.max_variants.min(budget - 1);
		let n = 1 + self.ch.pick(nmax);
		// unit variant: none / first / last
		let unit_at = match self.ch.pick(3) {
			0 => None,
			1 => Some(0),
			_ => Some(n),
		};
		let i = self.begin(false);
		let mut left = budget - 1;
		let mut variants = Vec::new();
		let mut ok = true;
		for v in 0..n {
			let b = left - (n - 1 - v);
			match self.gen(b, true, true) {
				Some((ft, used)) => {
					left -= used;
					variants.push(ft);
				}
				None => {
					ok = false;
					break;
				}
			}
		}
		self.open.pop();
		if !ok {
			return None;
		}
		self.defs[i] = Some(Def::Union { variants, unit_at });
		Some((i, budget - left))
	}
}

/// One program of the grammar per leaf of the choice tree (None = constraint violated)
fn build(ch: &mut Chooser, cfg: &GCfg) -> Option<Program> {
	let mut b = B { ch, cfg, defs: Vec::new(), open: Vec::new(), generic0: None };
	let mut kinds = vec![0usize]; // struct
	if cfg.newtype {
		kinds.push(1);
	}
	if cfg.unit_enum {
		kinds.push(2);
	}
	if cfg.union {
		kinds.push(3);
	}
	let kind = kinds[b.ch.pick(kinds.len())];
	let n = cfg.max_nodes;
	match kind {
		0 => {
			if n < 2 {
				return None;
			}
			b.gen_struct(n)?;
		}
		1 => {
			if n < 2 {
				return None;
			}
			b.gen_newtype(n, false)?;
		}
		2 => {
			let symbols = [1usize, 3][b.ch.pick(2)];
			b.defs.push(Some(Def::UnitEnum { symbols }));
		}
		_ => {
			if n < 2 {
				return None;
			}
			b.gen_union(n)?;
		}
	}
	let defs: Vec<Def> = b.defs.into_iter().collect::<Option<Vec<_>>>()?;
	Some(Program { defs, lifetime: false, ns_attr: Vec::new(), raw: Vec::new(), enum_skips: Vec::new() })
}

pub struct Enumerated {
	pub programs: Vec<(Program, String)>,
	pub stats: TreeStats,
	pub rejected: u64,
	pub duplicates: u64,
}

/// All valid programs of the grammar with at most `cfg.max_nodes` nodes
pub fn enumerate(cfg: &GCfg, max_programs: u64) -> Enumerated {
	let mut programs: Vec<(Program, String)> = Vec::new();
	let mut seen = std::collections::HashSet::new();
	let mut rejected = 0u64;
	let mut duplicates = 0u64;
	let stats = explore(None, u64::MAX, |ch| {
		match build(ch, cfg) {
			None => rejected += 1,
			Some(p) => {
				let placed = Placed { p: &p, crate_name: "c", family: "f" };
				if placed.validate().is_err() {
					rejected += 1;
				} else if seen.insert(p.clone()) {
					programs.push((p, format!("grammar {} <= {} nodes", cfg.label, cfg.max_nodes)));
				} else {
					duplicates += 1;
				}
			}
		}
		(programs.len() as u64) < max_programs
	});
	Enumerated { programs, stats, rejected, duplicates }
}

// ---------------------------------------------------------------------------------------------
// Sweeps: parametrised patterns over the full alphabets, beyond the node bound

fn st(fields: Vec<FieldTy>) -> Def {
	plain_struct(fields)
}
fn pl(t: Ty) -> FieldTy {
	FieldTy::Plain(t)
}
fn lf(l: Leaf) -> Ty {
	Ty::Leaf(l)
}
fn opt(t: Ty) -> Ty {
	Ty::Opt(Box::new(t))
}
fn vec_(t: Ty) -> Ty {
	Ty::Vec(Box::new(t))
}
fn bmap(t: Ty) -> Ty {
	Ty::BMap(Box::new(t))
}
fn hmap(t: Ty) -> Ty {
	Ty::HMap(Box::new(t))
}
fn ptr(p: Ptr, t: Ty) -> Ty {
	Ty::Ptr(p, Box::new(t))
}
fn bx(t: Ty) -> Ty {
	ptr(Ptr::Box, t)
}
fn nm(i: usize) -> Ty {
	Ty::Named(i)
}
fn prog(defs: Vec<Def>) -> Program {
	Program { defs, lifetime: false, ns_attr: Vec::new(), raw: Vec::new(), enum_skips: Vec::new() }
}

pub fn sweeps(thorough: bool) -> Vec<(Program, String)> {
	let mut out: Vec<(Program, String)> = Vec::new();
	let mut add = |p: Program, what: &str| out.push((p, format!("sweep {what}")));
	let i32_ = || lf(Leaf::I32);
	let str_ = || lf(Leaf::Str);
	let s2 = || st(vec![pl(i32_()), pl(str_())]); // a small record used as payload

	// S1: every leaf in every kind of position
	let mut field_leaves: Vec<FieldTy> = ALL_LEAVES.iter().map(|l| pl(lf(*l))).collect();
	field_leaves.extend([FieldTy::Bytes, FieldTy::Fixed(1), FieldTy::Fixed(4), FieldTy::Fixed(16)]);
	if thorough {
		field_leaves.push(FieldTy::Fixed(0));
	}
	for f in &field_leaves {
		add(prog(vec![st(vec![f.clone()])]), "leaf as struct field");
		add(prog(vec![Def::Newtype { field: f.clone() }]), "leaf as newtype struct");
		add(prog(vec![st(vec![pl(nm(1))]), Def::Newtype { field: f.clone() }]), "newtype struct as field");
		let nullable = matches!(f, FieldTy::Plain(Ty::Leaf(Leaf::Unit)));
		if !nullable {
			add(prog(vec![Def::Union { variants: vec![f.clone()], unit_at: Some(1) }]), "leaf as union variant + Null");
			add(prog(vec![Def::Union { variants: vec![f.clone()], unit_at: None }]), "leaf as single union variant");
		}
		if let FieldTy::Plain(t) = f {
			if !nullable {
				add(prog(vec![st(vec![pl(opt(t.clone()))])]), "Option<leaf>");
			}
			add(prog(vec![st(vec![pl(vec_(t.clone()))])]), "Vec<leaf>");
			add(prog(vec![st(vec![pl(bmap(t.clone()))])]), "BTreeMap<String, leaf>");
			add(prog(vec![st(vec![pl(hmap(t.clone()))])]), "HashMap<String, leaf>");
		}
	}
	add(prog(vec![st(vec![FieldTy::OptBytes])]), "Option<Vec<u8>> as bytes");
	add(prog(vec![st(vec![FieldTy::Fixed(4), FieldTy::Fixed(4), FieldTy::Fixed(16), FieldTy::Bytes])]), "repeated [u8; N] fields");
	add(prog(vec![st(vec![pl(nm(1)), pl(nm(2)), FieldTy::Fixed(4)]), st(vec![FieldTy::Fixed(4)]), Def::Newtype { field: FieldTy::Fixed(4) }]), "[u8; 4] in field, nested record and newtype");

	// S2: pointers and references
	for p in [Ptr::Box, Ptr::Rc, Ptr::Arc] {
		add(prog(vec![st(vec![pl(ptr(p, i32_())), pl(ptr(p, nm(1))), pl(opt(ptr(p, str_())))]), s2()]), "pointer fields");
		add(prog(vec![st(vec![pl(vec_(ptr(p, nm(1)))), pl(ptr(p, vec_(i32_()))), pl(ptr(p, opt(nm(1))))]), s2()]), "pointers around and inside collections");
		add(prog(vec![Def::Union { variants: vec![pl(ptr(p, nm(1))), pl(ptr(p, i32_()))], unit_at: Some(0) }, s2()]), "pointer payloads in union variants");
		add(prog(vec![st(vec![pl(ptr(p, ptr(Ptr::Box, nm(1)))), pl(nm(1))]), s2()]), "pointer to pointer, shared record");
	}
	add(Program { defs: vec![st(vec![pl(Ty::BStr), FieldTy::BBytes, pl(opt(Ty::BStr)), pl(vec_(Ty::BStr))])], lifetime: true, ns_attr: Vec::new(), raw: Vec::new(), enum_skips: Vec::new() }, "borrowed &str / &[u8] fields");
	add(Program { defs: vec![st(vec![pl(bmap(Ty::BStr)), pl(nm(1))]), s2()], lifetime: true, ns_attr: Vec::new(), raw: Vec::new(), enum_skips: Vec::new() }, "borrowed &str in map next to a record");

	// S3: maps
	for mk in [hmap as fn(Ty) -> Ty, bmap as fn(Ty) -> Ty] {
		add(prog(vec![st(vec![pl(mk(nm(1))), pl(mk(vec_(i32_())))]), s2()]), "map of records / of arrays");
		add(prog(vec![st(vec![pl(mk(mk(str_()))), pl(opt(mk(i32_())))])]), "map of maps, optional map");
		add(prog(vec![Def::Union { variants: vec![pl(mk(i32_())), pl(vec_(str_()))], unit_at: None }]), "map and array as union variants");
	}

	// S4: logical types
	let lgs = vec![
		Lg::Uuid,
		Lg::Date,
		Lg::TimeMillis,
		Lg::TimeMicros,
		Lg::TsMillis,
		Lg::TsMicros,
		Lg::DecImplicit { scale: 2, precision: 10 },
		Lg::DecImplicit { scale: 0, precision: 5 },
		Lg::DecBytes { scale: 3, precision: 12 },
		Lg::DecFixed { size: 4, scale: 1, precision: 5 },
		Lg::DecFixed { size: 16, scale: 2, precision: 20 },
		Lg::Duration,
	];
	for l in &lgs {
		add(prog(vec![st(vec![FieldTy::Logical(l.clone())])]), "logical type on a struct field");
		add(prog(vec![st(vec![pl(nm(1)), pl(i32_())]), st(vec![FieldTy::Logical(l.clone()), FieldTy::Logical(l.clone())])]), "same logical type on two fields of a nested record");
	}
	add(prog(vec![st(lgs.iter().take(6).cloned().map(FieldTy::Logical).collect())]), "all int/long/string logical types in one record");
	add(prog(vec![st(lgs.iter().skip(6).cloned().map(FieldTy::Logical).collect())]), "all decimal / duration logical types in one record");
	for l in [Lg::Uuid, Lg::Date, Lg::DecFixed { size: 4, scale: 1, precision: 5 }, Lg::Duration] {
		add(prog(vec![Def::Newtype { field: FieldTy::Logical(l.clone()) }]), "logical type on a newtype struct");
		add(prog(vec![st(vec![pl(nm(1)), pl(nm(1))]), Def::Newtype { field: FieldTy::Logical(l) }]), "newtype struct with logical type used twice");
	}

	// S5: name / namespace overrides
	let named = |ns: Option<&str>, name: Option<&str>| Def::Struct { fields: vec![pl(lf(Leaf::I32))], ns: ns.map(|s| s.to_owned()), name: name.map(|s| s.to_owned()), module: None, ident: None };
	for (ns, name) in [(Some("x.y"), None), (Some(""), None), (None, Some("Other")), (Some("x.y"), Some("Other")), (Some(""), Some("Other")), (Some("x"), Some("T0"))] {
		add(prog(vec![named(ns, name)]), "name/namespace override on the root");
		add(prog(vec![st(vec![pl(nm(1)), pl(vec_(nm(1)))]), named(ns, name)]), "overridden record nested and shared");
		add(prog(vec![Def::Union { variants: vec![pl(nm(1)), pl(i32_())], unit_at: Some(2) }, named(ns, name)]), "overridden record as union variant");
		add(prog(vec![st(vec![pl(nm(1)), pl(nm(2))]), named(ns, name), s2()]), "overridden record next to a plain one");
		let with_fixed = Def::Struct { fields: vec![FieldTy::Fixed(4), FieldTy::Logical(Lg::Duration)], ns: ns.map(|s| s.to_owned()), name: name.map(|s| s.to_owned()), module: None, ident: None };
		add(prog(vec![st(vec![pl(nm(1))]), with_fixed]), "overridden record owning fixed types");
	}

	// S6: same-named types in different modules
	let in_mod = |m: &str, fields: Vec<FieldTy>| Def::Struct { fields, ns: None, name: None, module: Some(m.to_owned()), ident: Some("S".to_owned()) };
	add(prog(vec![st(vec![pl(nm(1)), pl(nm(2))]), in_mod("m1", vec![pl(i32_())]), in_mod("m2", vec![pl(str_())])]), "two types named S in two modules as fields");
	add(prog(vec![st(vec![pl(nm(1)), pl(nm(2))]), in_mod("m1", vec![pl(i32_())]), in_mod("m2", vec![pl(i32_())])]), "two identical types named S in two modules");
	add(prog(vec![Def::Union { variants: vec![pl(nm(1)), pl(nm(2))], unit_at: Some(0) }, in_mod("m1", vec![pl(i32_())]), in_mod("m2", vec![pl(str_())])]), "two types named S in two modules as union variants");
	add(prog(vec![st(vec![pl(vec_(nm(1))), pl(opt(nm(2))), pl(nm(1))]), in_mod("m1", vec![FieldTy::Fixed(4)]), in_mod("m2", vec![FieldTy::Fixed(4)])]), "same-named types owning [u8; 4], shared");

	// S7: generics, two instantiations
	let args: Vec<(Ty, &str)> = vec![
		(i32_(), "i32"),
		(str_(), "String"),
		(lf(Leaf::I64), "i64"),
		(lf(Leaf::U16), "u16"),
		(lf(Leaf::U32), "u32"),
		(vec_(i32_()), "Vec<i32>"),
		(opt(i32_()), "Option<i32>"),
		(nm(2), "record"),
		(nm(3), "enum"),
		(bx(i32_()), "Box<i32>"),
		(Ty::Gen(1, vec![i32_()]), "G<i32>"),
	];
	let n_args = if thorough { args.len() } else { 8 };
	for shape in [0usize, 1, 2] {
		for a in 0..n_args {
			for b in a..n_args {
				if !thorough && shape != 0 && (a > 3 || b > 5) {
					continue;
				}
				let (ta, na) = &args[a];
				let (tb, nb) = &args[b];
				let (x, y) = if shape == 2 { (Ty::Gen(1, vec![ta.clone(), tb.clone()]), Ty::Gen(1, vec![tb.clone(), ta.clone()])) } else { (Ty::Gen(1, vec![ta.clone()]), Ty::Gen(1, vec![tb.clone()])) };
				if shape == 2 && matches!(ta, Ty::Gen(..)) || shape == 2 && matches!(tb, Ty::Gen(..)) {
					continue;
				}
				add(prog(vec![st(vec![pl(x), pl(y)]), Def::Generic { shape }, s2(), Def::UnitEnum { symbols: 2 }]), &format!("generic shape {shape} instantiated at {na} and {nb}"));
			}
		}
	}
	add(prog(vec![st(vec![pl(vec_(Ty::Gen(1, vec![i32_()]))), pl(opt(Ty::Gen(1, vec![str_()]))), pl(bmap(Ty::Gen(1, vec![i32_()])))]), Def::Generic { shape: 0 }]), "generic instantiations inside collections");
	add(prog(vec![st(vec![pl(Ty::Gen(1, vec![Ty::Gen(1, vec![Ty::Gen(1, vec![i32_()])])])), pl(Ty::Gen(1, vec![i32_()]))]), Def::Generic { shape: 0 }]), "generic nested three times");
	add(prog(vec![st(vec![pl(Ty::Gen(1, vec![nm(2)])), pl(Ty::Gen(1, vec![nm(3)]))]), Def::Generic { shape: 0 }, st(vec![pl(i32_())]), st(vec![pl(i32_())])]), "generic at two structurally identical records");

	// S7b: generic structs with a field that OWNS a named sub-node (logical type on [u8; N]: the
	// fixed is named `<record fullname incl. instantiation hash>.<field>`), instantiated at two
	// different arguments under one root, plus the single-instantiation controls
	for shape in [3usize, 4, 5, 6] {
		let g = |t: Ty| Ty::Gen(1, vec![t]);
		let fam = |fields: Vec<FieldTy>| prog(vec![st(fields), Def::Generic { shape }, s2()]);
		add(fam(vec![pl(g(i32_()))]), &format!("generic shape {shape} (owned fixed), one instantiation"));
		add(fam(vec![pl(g(i32_())), pl(g(i32_())), pl(vec_(g(lf(Leaf::U16))))]), &format!("generic shape {shape} (owned fixed), one instantiation used three times"));
		add(fam(vec![pl(g(i32_())), pl(g(str_()))]), &format!("generic shape {shape} (owned fixed) at i32 and String"));
		add(fam(vec![pl(g(i32_())), pl(g(lf(Leaf::I64)))]), &format!("generic shape {shape} (owned fixed) at i32 and i64"));
		add(fam(vec![pl(g(nm(2))), pl(g(str_())), pl(nm(2))]), &format!("generic shape {shape} (owned fixed) at a record and String"));
		add(fam(vec![pl(vec_(g(i32_()))), pl(opt(g(str_())))]), &format!("generic shape {shape} (owned fixed) in Vec and Option"));
		add(fam(vec![pl(bmap(g(str_()))), pl(bx(g(lf(Leaf::Bool))))]), &format!("generic shape {shape} (owned fixed) in map and Box"));
		add(fam(vec![pl(g(g(i32_())))]), &format!("generic shape {shape} (owned fixed) nested in itself"));
		add(fam(vec![pl(g(g(str_()))), pl(g(i32_()))]), &format!("generic shape {shape} (owned fixed) nested and at a third argument"));
		add(prog(vec![st(vec![pl(nm(2)), pl(nm(3))]), Def::Generic { shape }, st(vec![pl(g(i32_()))]), st(vec![pl(g(str_()))])]), &format!("generic shape {shape} (owned fixed) in two sub-records"));
	}
	// other spelling of every logical-type name (`TimeMicros` for `time-micros` ...), i64 logical
	// types over the full i64 domain (values >= 2^31)
	for l in [Lg::Uuid, Lg::Date, Lg::TimeMillis, Lg::TimeMicros, Lg::TsMillis, Lg::TsMicros, Lg::DecBytes { scale: 3, precision: 12 }, Lg::DecFixed { size: 4, scale: 1, precision: 5 }, Lg::Duration] {
		let alt = Lg::Alt(Box::new(l.clone()));
		add(prog(vec![st(vec![FieldTy::Logical(alt.clone())])]), "logical type (other spelling) on a struct field");
		add(prog(vec![st(vec![FieldTy::Logical(l), FieldTy::Logical(alt), pl(lf(Leaf::I64))])]), "logical type in both spellings next to a plain i64");
	}
	add(prog(vec![st(vec![FieldTy::Logical(Lg::CustomFixed(4)), FieldTy::Logical(Lg::CustomFixed(4)), FieldTy::Fixed(4)])]), "custom logical type on [u8; 4], twice, next to a plain [u8; 4]");
	add(prog(vec![st(vec![pl(nm(1)), pl(nm(2))]), st(vec![FieldTy::Logical(Lg::CustomFixed(4))]), st(vec![FieldTy::Logical(Lg::CustomFixed(4)), FieldTy::Logical(Lg::Duration)])]), "records owning custom / duration fixed types under one root");

	// S7c: a logical-type attribute over base type T next to PLAIN uses of T (the logical node is a
	// private patched duplicate; the plain use must get its own, un-annotated node), both orders,
	// logical / plain / logical, and the plain use one level down
	let dec4 = Lg::DecFixed { size: 4, scale: 1, precision: 5 };
	let dec16 = Lg::DecFixed { size: 16, scale: 2, precision: 20 };
	let over: Vec<(Lg, FieldTy, Vec<FieldTy>)> = vec![
		(Lg::DecImplicit { scale: 2, precision: 10 }, FieldTy::Bytes, vec![FieldTy::OptBytes]),
		(Lg::DecBytes { scale: 3, precision: 12 }, FieldTy::Bytes, vec![FieldTy::OptBytes]),
		(dec4.clone(), FieldTy::Fixed(4), vec![]),
		(Lg::CustomFixed(4), FieldTy::Fixed(4), vec![]),
		(dec16, FieldTy::Fixed(16), vec![]),
		(Lg::Duration, FieldTy::Fixed(12), vec![]),
		(Lg::Alt(Box::new(Lg::Duration)), FieldTy::Fixed(12), vec![]),
		(Lg::Uuid, pl(str_()), vec![pl(vec_(str_())), pl(opt(str_())), pl(bmap(str_()))]),
		(Lg::Date, pl(i32_()), vec![pl(vec_(i32_())), pl(opt(i32_())), pl(lf(Leaf::U16))]),
		(Lg::TimeMillis, pl(i32_()), vec![pl(vec_(i32_())), pl(opt(i32_())), pl(lf(Leaf::I8))]),
		(Lg::TimeMicros, pl(lf(Leaf::I64)), vec![pl(vec_(lf(Leaf::I64))), pl(opt(lf(Leaf::I64))), pl(lf(Leaf::U32))]),
		(Lg::TsMillis, pl(lf(Leaf::I64)), vec![pl(vec_(lf(Leaf::I64))), pl(opt(lf(Leaf::I64))), pl(lf(Leaf::U64))]),
		(Lg::TsMicros, pl(lf(Leaf::I64)), vec![pl(vec_(lf(Leaf::I64))), pl(opt(lf(Leaf::I64))), pl(lf(Leaf::Usize))]),
		(Lg::Alt(Box::new(Lg::TimeMicros)), pl(lf(Leaf::I64)), vec![pl(opt(lf(Leaf::I64)))]),
	];
	for (l, plain, nested) in over {
		let lf_ = || FieldTy::Logical(l.clone());
		let n = Placed::logical_name(&l);
		add(prog(vec![st(vec![lf_(), plain.clone()])]), &format!("logical {n} field, then a plain field of its base type"));
		add(prog(vec![st(vec![plain.clone(), lf_()])]), &format!("plain field, then a logical {n} field over the same base type"));
		add(prog(vec![st(vec![lf_(), plain.clone(), lf_()])]), &format!("logical {n} / plain / logical {n}"));
		add(prog(vec![st(vec![lf_(), pl(nm(1))]), st(vec![plain.clone()])]), &format!("logical {n} field, then the plain base type in a sub-record"));
		add(prog(vec![st(vec![pl(nm(1)), plain.clone()]), st(vec![lf_()])]), &format!("logical {n} field in a sub-record, then the plain base type"));
		add(prog(vec![st(vec![pl(nm(1)), pl(nm(2))]), Def::Newtype { field: lf_() }, Def::Newtype { field: plain.clone() }]), &format!("newtype struct with logical {n}, then a newtype struct over the plain base type"));
		for nf in nested {
			add(prog(vec![st(vec![lf_(), nf])]), &format!("logical {n} field, then the plain base type one level down"));
		}
	}

	// S7d: the namespace attribute {absent, "ns1", "a.b", ""} crossed with every kind of type that
	// OWNS named sub-nodes (variant-owned fixed, field-owned logical fixed, newtype-owned fixed)
	let with_ns = |mut p: Program, at: usize, ns: Option<&str>| {
		if let Some(ns) = ns {
			p.ns_attr.push((at, ns.to_owned()));
		}
		p
	};
	let dur = || FieldTy::Logical(Lg::Duration);
	let decf = || FieldTy::Logical(Lg::DecFixed { size: 4, scale: 1, precision: 5 });
	let cust = || FieldTy::Logical(Lg::CustomFixed(4));
	for ns in [None, Some("ns1"), Some("a.b"), Some("")] {
		let tag = match ns {
			None => "no namespace attribute".to_owned(),
			Some(n) => format!("namespace = \"{n}\""),
		};
		let owners: Vec<(Def, &str)> = vec![
			(Def::Union { variants: vec![FieldTy::Fixed(4), FieldTy::Fixed(16), pl(str_())], unit_at: Some(3) }, "union enum with [u8; 4] and [u8; 16] variants"),
			(Def::Union { variants: vec![FieldTy::Fixed(4), FieldTy::Fixed(4)], unit_at: None }, "union enum with two [u8; 4] variants"),
			(Def::Union { variants: vec![FieldTy::Fixed(4), decf(), cust(), dur(), pl(i32_())], unit_at: Some(0) }, "union enum with plain, decimal, custom and duration fixed variants"),
			(st(vec![decf(), pl(i32_())]), "record with a decimal-on-fixed field"),
			(st(vec![dur(), cust(), FieldTy::Fixed(4)]), "record with duration, custom and plain fixed fields"),
			(Def::Newtype { field: FieldTy::Fixed(4) }, "newtype struct over [u8; 4]"),
			(Def::Newtype { field: decf() }, "newtype struct with decimal on fixed"),
			(Def::UnitEnum { symbols: 2 }, "unit-only enum"),
		];
		for (d, what) in owners {
			add(with_ns(prog(vec![d.clone()]), 0, ns), &format!("{what} as root, {tag}"));
			add(with_ns(prog(vec![st(vec![pl(nm(1)), pl(vec_(nm(1)))]), d.clone()]), 1, ns), &format!("{what} nested and shared, {tag}"));
			if !matches!(d, Def::Union { .. }) {
				add(with_ns(prog(vec![Def::Union { variants: vec![pl(nm(1)), pl(str_())], unit_at: Some(0) }, d]), 1, ns), &format!("{what} as union variant, {tag}"));
			}
		}
		for shape in [3usize, 4, 5] {
			let g = |t: Ty| Ty::Gen(1, vec![t]);
			add(with_ns(prog(vec![st(vec![pl(g(i32_()))]), Def::Generic { shape }]), 1, ns), &format!("generic shape {shape} (owned fixed), one instantiation, {tag}"));
			add(with_ns(prog(vec![st(vec![pl(g(i32_())), pl(g(str_()))]), Def::Generic { shape }]), 1, ns), &format!("generic shape {shape} (owned fixed) at i32 and String, {tag}"));
		}
		add(with_ns(prog(vec![st(vec![pl(Ty::Gen(1, vec![i32_()])), pl(Ty::Gen(1, vec![str_()]))]), Def::Generic { shape: 0 }]), 1, ns), &format!("generic shape 0 at i32 and String, {tag}"));
	}

	// S10: paths of the derive macro that no other program reaches
	// (1) logical type inferred from the NAME of the field's type (`Uuid`), schema type forced to string
	let car = |lg: Option<Lg>, carrier: Carrier| FieldTy::Carried { lg, carrier };
	let uu = |q: bool| car(None, Carrier::LocalUuid { qualified: q });
	add(prog(vec![st(vec![uu(false)])]), "inferred uuid: field of a type named Uuid");
	add(prog(vec![st(vec![uu(true), pl(str_())])]), "inferred uuid: field of type rt::Uuid (module path), then a plain String");
	add(prog(vec![st(vec![pl(str_()), uu(false), FieldTy::Logical(Lg::Uuid), uu(true)])]), "inferred uuid: plain String, Uuid-named type, uuid attribute, Uuid-named type");
	add(prog(vec![st(vec![pl(nm(1)), pl(vec_(nm(1)))]), st(vec![uu(false), pl(i32_())])]), "inferred uuid: in a nested, shared record");
	add(prog(vec![Def::Newtype { field: uu(false) }]), "inferred uuid: newtype struct over a type named Uuid");
	add(prog(vec![st(vec![car(Some(Lg::Uuid), Carrier::LocalUuid { qualified: false }), car(Some(Lg::Alt(Box::new(Lg::Uuid))), Carrier::Transparent(Leaf::Str))])]), "inferred uuid: Uuid-named type and transparent string newtype with the explicit attribute");
	// (2) explicit logical type on a field whose Rust type is not the canonical one: the macro
	// substitutes the schema type (transparent newtypes, other integer widths within range)
	let subst: Vec<(Lg, Vec<Carrier>, Leaf)> = vec![
		(Lg::Uuid, vec![Carrier::Transparent(Leaf::Str)], Leaf::Str),
		(Lg::TsMillis, vec![Carrier::Transparent(Leaf::I64), Carrier::Int(Leaf::U32), Carrier::Int(Leaf::I32), Carrier::Int(Leaf::U64)], Leaf::I64),
		(Lg::TsMicros, vec![Carrier::Transparent(Leaf::I64), Carrier::Int(Leaf::U32), Carrier::Int(Leaf::Usize)], Leaf::I64),
		(Lg::TimeMicros, vec![Carrier::Transparent(Leaf::I64), Carrier::Int(Leaf::U16)], Leaf::I64),
		(Lg::TimeMillis, vec![Carrier::Transparent(Leaf::I32), Carrier::Int(Leaf::U16), Carrier::Int(Leaf::I16)], Leaf::I32),
		(Lg::Date, vec![Carrier::Transparent(Leaf::I32), Carrier::Int(Leaf::I8), Carrier::Int(Leaf::U16), Carrier::Int(Leaf::U32)], Leaf::I32),
	];
	for (l, carriers, base) in &subst {
		let n = Placed::logical_name(l);
		for c in carriers {
			add(prog(vec![st(vec![car(Some(l.clone()), c.clone()), pl(lf(*base))])]), &format!("substituted type: logical {n} on a {c:?} field, then the plain base type"));
		}
		let mut all: Vec<FieldTy> = carriers.iter().map(|c| car(Some(l.clone()), c.clone())).collect();
		all.push(FieldTy::Logical(l.clone()));
		add(prog(vec![st(vec![pl(nm(1)), pl(opt(nm(1)))]), st(all)]), &format!("substituted type: every carrier of logical {n} in one nested record"));
	}
	add(prog(vec![Def::Newtype { field: car(Some(Lg::TsMillis), Carrier::Transparent(Leaf::I64)) }]), "substituted type: newtype struct with timestamp-millis over a transparent i64 newtype");
	// (3) const generics and generic newtype structs
	let cg = |n: usize| Ty::Gen(1, vec![Ty::Const(n)]);
	for ns in [None, Some("ns1"), Some("")] {
		let tag = ns.map_or("no namespace attribute".to_owned(), |n| format!("namespace = \"{n}\""));
		add(with_ns(prog(vec![st(vec![pl(cg(4))]), Def::Generic { shape: 7 }]), 1, ns), &format!("const generic struct at one N, {tag}"));
		add(with_ns(prog(vec![st(vec![pl(cg(4)), pl(cg(16))]), Def::Generic { shape: 7 }]), 1, ns), &format!("const generic struct at two N, {tag}"));
		let g = |t: Ty| Ty::Gen(1, vec![t]);
		add(with_ns(prog(vec![st(vec![pl(g(str_())), pl(g(lf(Leaf::I64)))]), Def::Generic { shape: 8 }]), 1, ns), &format!("generic newtype struct with a logical type at String and i64, {tag}"));
		add(with_ns(prog(vec![st(vec![pl(g(nm(2)))]), Def::Generic { shape: 8 }, Def::Newtype { field: FieldTy::Fixed(4) }]), 1, ns), &format!("generic newtype struct with a logical type owning a fixed, one instantiation, {tag}"));
		add(
			with_ns(prog(vec![st(vec![pl(g(nm(2))), pl(g(nm(3)))]), Def::Generic { shape: 8 }, Def::Newtype { field: FieldTy::Fixed(4) }, Def::Newtype { field: FieldTy::Fixed(16) }]), 1, ns),
			&format!("generic newtype struct with a logical type owning a fixed, two instantiations, {tag}"),
		);
	}
	add(prog(vec![st(vec![pl(cg(4)), pl(vec_(cg(16))), pl(opt(cg(4))), pl(cg(0))]), Def::Generic { shape: 7 }]), "const generic struct at three N, shared, in Vec and Option");
	add(prog(vec![st(vec![pl(Ty::Gen(1, vec![i32_()])), pl(Ty::Gen(1, vec![str_()])), pl(vec_(Ty::Gen(1, vec![nm(2)])))]), Def::Generic { shape: 9 }, s2()]), "generic newtype struct over Option<T> at i32, String and a record");
	add(prog(vec![st(vec![pl(Ty::Gen(1, vec![Ty::Gen(2, vec![i32_()])])), pl(Ty::Gen(2, vec![str_()]))]), Def::Generic { shape: 9 }, Def::Generic { shape: 1 }]), "generic newtype structs nested: P<W<i32>> and W<String>");
	// (4) skipped members: the type of a skipped field / variant payload implements neither
	// BuildSchema nor Serialize; serde skips it too, so the values still round-trip
	add(prog(vec![st(vec![FieldTy::Skipped, pl(i32_()), pl(str_())])]), "skip: first field skipped");
	add(prog(vec![st(vec![pl(i32_()), FieldTy::Skipped, pl(str_()), FieldTy::Skipped])]), "skip: middle and last fields skipped");
	add(prog(vec![st(vec![pl(nm(1)), pl(vec_(nm(1)))]), st(vec![FieldTy::Fixed(4), FieldTy::Skipped, FieldTy::Logical(Lg::Duration)])]), "skip: skipped field between fields that own named sub-nodes");
	add(prog(vec![Def::Union { variants: vec![pl(i32_()), FieldTy::Skipped, pl(str_())], unit_at: Some(0) }]), "skip: skipped variant in a union enum");
	add(prog(vec![st(vec![pl(nm(1))]), Def::Union { variants: vec![FieldTy::Skipped, FieldTy::Fixed(4), FieldTy::Fixed(4)], unit_at: None }]), "skip: skipped first variant before variant-owned fixed types");

	// S11: generic union enums. `V(T)` is named after the branch `T` maps to (first instantiation =
	// serde rename, further ones = serde aliases); variants owning a named node keep a constant name
	for ns in [None, Some("ns1"), Some("")] {
		let tag = ns.map_or("no namespace attribute".to_owned(), |n| format!("namespace = \"{n}\""));
		let e = |t: Ty| Ty::Gen(1, vec![t]);
		let owning: Vec<(Def, &str)> = vec![
			(Def::Union { variants: vec![FieldTy::Fixed(4), FieldTy::Param], unit_at: None }, "E<T> { V4([u8; 4]), O(T) }"),
			(Def::Union { variants: vec![FieldTy::Fixed(4), FieldTy::Fixed(16), FieldTy::Param], unit_at: None }, "E<T> { A([u8; 4]), B([u8; 16]), O(T) }"),
			(Def::Union { variants: vec![decf(), dur(), FieldTy::Param], unit_at: Some(0) }, "E<T> { Null, decimal-on-fixed, duration, O(T) }"),
		];
		for (d, what) in owning {
			add(with_ns(prog(vec![st(vec![pl(e(i32_()))]), d.clone()]), 1, ns), &format!("generic enum owning named nodes, one instantiation: {what} at i32, {tag}"));
			add(with_ns(prog(vec![st(vec![pl(e(str_())), pl(vec_(e(str_())))]), d.clone()]), 1, ns), &format!("generic enum owning named nodes, one instantiation: {what} at String, shared, {tag}"));
			add(with_ns(prog(vec![st(vec![pl(e(nm(2)))]), d.clone(), s2()]), 1, ns), &format!("generic enum owning named nodes, one instantiation: {what} at a record, {tag}"));
			add(with_ns(prog(vec![st(vec![pl(e(i32_())), pl(e(str_()))]), d.clone()]), 1, ns), &format!("generic enum owning named nodes, two instantiations: {what} at i32 and String, {tag}"));
			add(with_ns(prog(vec![st(vec![pl(e(vec_(i32_()))), pl(e(vec_(str_())))]), d.clone()]), 1, ns), &format!("generic enum owning named nodes, two instantiations: {what} at Vec<i32> and Vec<String> (one variant name), {tag}"));
		}
		let t_only = || Def::Union { variants: vec![FieldTy::Param], unit_at: Some(0) };
		add(with_ns(prog(vec![st(vec![pl(e(i32_()))]), t_only()]), 1, ns), &format!("generic enum of T-dependent variants only: E<T> {{ N, S(T) }} at i32, {tag}"));
		add(with_ns(prog(vec![st(vec![pl(e(i32_())), pl(e(str_()))]), t_only()]), 1, ns), &format!("generic enum of T-dependent variants only: at i32 and String, {tag}"));
		add(with_ns(prog(vec![st(vec![pl(e(vec_(i32_()))), pl(e(vec_(str_()))), pl(vec_(e(vec_(i32_()))))]), t_only()]), 1, ns), &format!("generic enum of T-dependent variants only: at Vec<i32> and Vec<String> (one variant name), {tag}"));
		add(with_ns(prog(vec![st(vec![pl(e(i32_())), pl(e(str_())), pl(e(nm(2))), pl(bmap(e(lf(Leaf::Bool))))]), t_only(), s2()]), 1, ns), &format!("generic enum of T-dependent variants only: at i32, String, a record and bool, {tag}"));
	}
	add(prog(vec![st(vec![pl(Ty::Gen(1, vec![i32_()])), pl(Ty::Gen(1, vec![lf(Leaf::I64)]))]), Def::Union { variants: vec![pl(str_()), FieldTy::Param], unit_at: None }]), "generic enum of T-dependent variants only: E<T> { String(String), O(T) } at i32 and i64");

	// S12: raw identifiers (`r#type`): the schema / serde name is the identifier without `r#`
	let with_raw = |mut p: Program, raw: Vec<RawName>| {
		p.raw = raw;
		p
	};
	let kw = |s: &str| s.to_owned();
	// (a) unit-only enums
	for (what, raws) in [
		("one raw symbol (r#type, B)", vec![RawName::Symbol(1, 0, kw("type"))]),
		("two raw symbols (r#enum, r#match)", vec![RawName::Symbol(1, 0, kw("enum")), RawName::Symbol(1, 1, kw("match"))]),
		("raw symbol last (A, B, r#struct)", vec![RawName::Symbol(1, 2, kw("struct"))]),
	] {
		let n = if what.contains("last") { 3 } else { 2 };
		let root_raws: Vec<RawName> = raws.iter().map(|r| if let RawName::Symbol(_, k, w) = r { RawName::Symbol(0, *k, w.clone()) } else { r.clone() }).collect();
		add(with_raw(prog(vec![Def::UnitEnum { symbols: n }]), root_raws), &format!("raw identifier: unit-only enum with {what}, alone"));
		add(with_raw(prog(vec![st(vec![pl(nm(1)), pl(opt(nm(1))), pl(vec_(nm(1)))]), Def::UnitEnum { symbols: n }]), raws.clone()), &format!("raw identifier: unit-only enum with {what}, in a field, Option and Vec"));
		add(with_raw(prog(vec![Def::Union { variants: vec![pl(nm(1)), pl(str_())], unit_at: Some(2) }, Def::UnitEnum { symbols: n }]), raws.clone()), &format!("raw identifier: unit-only enum with {what}, as union variant"));
	}
	// (b) union enums with raw-identifier variant names (one of them owning a fixed named after it)
	let raw_union = || Def::Union { variants: vec![pl(i32_()), FieldTy::Fixed(4), pl(str_())], unit_at: Some(3) };
	for ns in [None, Some("ns1"), Some("")] {
		let tag = ns.map_or("no namespace attribute".to_owned(), |n| format!("namespace = \"{n}\""));
		add(with_ns(with_raw(prog(vec![raw_union()]), vec![RawName::Variant(0, 0, kw("type")), RawName::Variant(0, 1, kw("match"))]), 0, ns), &format!("raw identifier: union enum variants r#type(i32), r#match([u8; 4]) as root, {tag}"));
		add(
			with_ns(with_raw(prog(vec![st(vec![pl(nm(1)), pl(vec_(nm(1)))]), raw_union()]), vec![RawName::Variant(1, 0, kw("type")), RawName::Variant(1, 1, kw("match")), RawName::Variant(1, 3, kw("enum"))]), 1, ns),
			&format!("raw identifier: union enum variants r#type(i32), r#match([u8; 4]), unit r#enum, nested and shared, {tag}"),
		);
		add(with_ns(with_raw(prog(vec![raw_union()]), vec![RawName::Type(0, kw("enum")), RawName::Variant(0, 1, kw("match"))]), 0, ns), &format!("raw identifier: union enum named r#enum with variant r#match([u8; 4]), {tag}"));
		// (c) + (d) type names
		add(with_ns(with_raw(prog(vec![st(vec![pl(i32_()), pl(str_())])]), vec![RawName::Type(0, kw("type"))]), 0, ns), &format!("raw identifier: type names: struct r#type as root, {tag}"));
		add(with_ns(with_raw(prog(vec![st(vec![pl(nm(1)), pl(vec_(nm(1))), pl(opt(nm(1)))]), st(vec![pl(i32_()), FieldTy::Fixed(4), dur()])]), vec![RawName::Type(1, kw("type"))]), 1, ns), &format!("raw identifier: type names: struct r#type owning fixed types, nested and shared, {tag}"));
		add(with_ns(with_raw(prog(vec![Def::Union { variants: vec![pl(nm(1)), pl(i32_())], unit_at: Some(0) }, st(vec![pl(i32_())])]), vec![RawName::Type(1, kw("match"))]), 1, ns), &format!("raw identifier: type names: struct r#match as union variant, {tag}"));
		add(with_ns(with_raw(prog(vec![Def::Newtype { field: FieldTy::Fixed(4) }]), vec![RawName::Type(0, kw("struct"))]), 0, ns), &format!("raw identifier: type names: newtype struct r#struct([u8; 4]) as root, {tag}"));
		add(with_ns(with_raw(prog(vec![st(vec![pl(nm(1)), pl(nm(2))]), Def::Newtype { field: FieldTy::Fixed(4) }, Def::Newtype { field: pl(i32_()) }]), vec![RawName::Type(1, kw("struct")), RawName::Type(2, kw("type"))]), 1, ns), &format!("raw identifier: type names: newtype structs r#struct([u8; 4]) and r#type(i32) as fields, {tag}"));
		add(with_ns(with_raw(prog(vec![st(vec![pl(nm(1)), pl(vec_(nm(1)))]), Def::UnitEnum { symbols: 2 }]), vec![RawName::Type(1, kw("enum"))]), 1, ns), &format!("raw identifier: type names: unit-only enum r#enum {{ A, B }}, {tag}"));
	}
	let named_raw = |name: Option<&str>, ns: Option<&str>| Def::Struct { fields: vec![pl(i32_()), FieldTy::Fixed(4)], ns: ns.map(|s| s.to_owned()), name: name.map(|s| s.to_owned()), module: None, ident: None };
	for (name, ns) in [(Some("Other"), None), (Some("Other"), Some("x.y")), (Some("Other"), Some(""))] {
		add(with_raw(prog(vec![st(vec![pl(nm(1)), pl(vec_(nm(1)))]), named_raw(name, ns)]), vec![RawName::Type(1, kw("type")), RawName::Field(1, 0, kw("match"))]), &format!("raw identifier: type names: struct r#type with name = Other, namespace {ns:?}, raw field"));
	}
	// raw field names (the crate's own test covers these: control)
	add(with_raw(prog(vec![st(vec![pl(i32_()), pl(str_()), FieldTy::Fixed(4), dur()])]), vec![RawName::Field(0, 0, kw("type")), RawName::Field(0, 1, kw("match")), RawName::Field(0, 3, kw("enum"))]), "raw identifier: field names r#type, r#match, and r#enum owning a duration fixed");
	add(with_raw(prog(vec![st(vec![pl(nm(1)), pl(opt(nm(1)))]), st(vec![pl(i32_()), decf()])]), vec![RawName::Field(1, 0, kw("type")), RawName::Field(1, 1, kw("struct")), RawName::Field(0, 0, kw("fn"))]), "raw identifier: field names in nested records, one owning a decimal fixed");

	// S13: unit-only enums with skipped variants (with a payload of a type that has no schema, or
	// unit): what remains is still an Avro enum of the remaining symbols
	for ns in [None, Some("ns1")] {
		let tag = ns.map_or("no namespace attribute".to_owned(), |n| format!("namespace = \"{n}\""));
		for (what, symbols, skips) in [
			("{ A, skipped L(NoSchema) }", 1usize, vec![(1usize, true)]),
			("{ A, B, skipped L(NoSchema) }", 2, vec![(2, true)]),
			("{ skipped L(NoSchema), A, B, skipped M(NoSchema) }", 2, vec![(0, true), (2, true)]),
			("{ A, skipped unit B, C }", 2, vec![(1, false)]),
			("{ skipped unit, A, skipped L(NoSchema), B, C }", 3, vec![(0, false), (1, true)]),
		] {
			let mk = |at: usize, defs: Vec<Def>| {
				let mut p = prog(defs);
				p.enum_skips = skips.iter().map(|(k, payload)| (at, *k, *payload)).collect();
				with_ns(p, at, ns)
			};
			add(mk(0, vec![Def::UnitEnum { symbols }]), &format!("skip: unit-only enum {what}, alone, {tag}"));
			add(mk(1, vec![st(vec![pl(nm(1)), pl(opt(nm(1))), pl(vec_(nm(1)))]), Def::UnitEnum { symbols }]), &format!("skip: unit-only enum {what}, in a field, Option and Vec, {tag}"));
			add(mk(1, vec![Def::Union { variants: vec![pl(nm(1)), pl(str_())], unit_at: Some(0) }, Def::UnitEnum { symbols }]), &format!("skip: unit-only enum {what}, as union variant, {tag}"));
		}
	}

	// S14: the same unnamed composite type (one shared schema node per Rust type lookup) reached
	// several times under one root, with no named type defined in between
	let i64_ = || lf(Leaf::I64);
	let shared: Vec<(Vec<FieldTy>, &str)> = vec![
		(vec![pl(hmap(i64_())), pl(bmap(lf(Leaf::U64)))], "map<long> twice as HashMap<String, i64> and BTreeMap<String, u64>"),
		(vec![pl(bmap(i64_())), pl(bmap(i64_()))], "map<long> twice as BTreeMap"),
		(vec![pl(hmap(i64_())), pl(bmap(i64_())), pl(hmap(lf(Leaf::U32)))], "map<long> three times"),
		(vec![pl(bmap(nm(1))), pl(bmap(nm(1))), pl(hmap(nm(1)))], "map of a record three times"),
		(vec![pl(vec_(i32_())), pl(vec_(i32_())), pl(vec_(lf(Leaf::U16)))], "Vec<i32> three times"),
		(vec![pl(opt(str_())), pl(opt(str_())), pl(opt(str_()))], "Option<String> three times"),
		(vec![pl(vec_(vec_(i32_()))), pl(vec_(i32_())), pl(vec_(vec_(i32_())))], "Vec<Vec<i32>>, Vec<i32>, Vec<Vec<i32>>"),
		(vec![pl(vec_(bmap(i64_()))), pl(bmap(i64_())), pl(opt(bmap(i64_())))], "map inside Vec, the bare map, the map inside Option"),
		(vec![pl(bmap(bmap(i32_()))), pl(bmap(i32_())), pl(bmap(bmap(i32_())))], "map of map, the inner map, map of map"),
		(vec![pl(bx(bmap(str_()))), pl(bmap(str_())), pl(ptr(Ptr::Rc, bmap(str_())))], "the same map behind Box, bare and behind Rc"),
	];
	for (fields, what) in &shared {
		add(prog(vec![st(fields.clone()), s2()]), &format!("shared unnamed node: {what}, as sibling fields of the root"));
		add(prog(vec![st(vec![pl(nm(2)), fields[0].clone()]), s2(), st(fields.clone())]), &format!("shared unnamed node: {what}, in a nested record and again in the root"));
		add(prog(vec![st(vec![pl(nm(2)), pl(vec_(nm(2)))]), s2(), st(fields.clone())]), &format!("shared unnamed node: {what}, in a nested, shared record"));
	}
	add(prog(vec![st(vec![pl(nm(1)), pl(bmap(i64_())), pl(vec_(i32_()))]), Def::Union { variants: vec![pl(bmap(i64_())), pl(vec_(i32_())), pl(str_())], unit_at: Some(0) }]), "shared unnamed node: map and Vec as union enum payloads and again as fields");
	add(prog(vec![st(vec![pl(bmap(i64_())), pl(nm(1)), pl(nm(2))]), Def::Union { variants: vec![pl(bmap(i64_())), pl(i32_())], unit_at: None }, Def::Union { variants: vec![pl(hmap(i64_())), pl(str_())], unit_at: Some(2) }]), "shared unnamed node: the same map as payload of two union enums and as a field");
	add(prog(vec![Def::Union { variants: vec![pl(nm(1)), pl(nm(2)), pl(bmap(i64_()))], unit_at: None }, st(vec![pl(bmap(i64_()))]), st(vec![pl(hmap(i64_())), pl(bmap(i64_()))])]), "shared unnamed node: the same map in a union enum's payload and inside two of its record payloads");
	add(prog(vec![st(vec![pl(Ty::Gen(1, vec![i32_()])), pl(vec_(i32_())), pl(Ty::Gen(1, vec![i32_()]))]), Def::Generic { shape: 0 }]), "shared unnamed node: Vec<i32> inside a generic instantiation and as a sibling field");

	// S8: recursion
	let list = |p: Ptr| st(vec![pl(lf(Leaf::I64)), pl(opt(ptr(p, nm(0))))]);
	for p in [Ptr::Box, Ptr::Rc, Ptr::Arc] {
		add(prog(vec![list(p)]), "recursive root: list through Option<ptr>");
	}
	add(prog(vec![st(vec![pl(vec_(nm(0)))])]), "recursive root: tree through Vec");
	add(prog(vec![st(vec![pl(i32_()), pl(bmap(nm(0)))])]), "recursive root: through BTreeMap");
	add(prog(vec![st(vec![pl(opt(bx(nm(0)))), pl(vec_(nm(0)))])]), "recursive root: two recursive fields");
	let list1 = || st(vec![pl(lf(Leaf::I64)), pl(opt(bx(nm(1))))]);
	add(prog(vec![st(vec![pl(nm(1))]), list1()]), "recursive list below the root");
	add(prog(vec![st(vec![pl(nm(1)), pl(vec_(nm(1)))]), list1()]), "recursive list below the root, shared");
	add(prog(vec![st(vec![pl(opt(nm(1)))]), st(vec![pl(vec_(nm(1))), pl(str_())])]), "recursive tree below the root");
	add(prog(vec![st(vec![pl(nm(1))]), st(vec![pl(opt(bx(nm(2))))]), st(vec![pl(vec_(nm(1))), pl(i32_())])]), "mutual recursion below the root");
	add(prog(vec![st(vec![pl(opt(bx(nm(1))))]), st(vec![pl(vec_(nm(0))), pl(i32_())])]), "mutual recursion through the root");
	add(prog(vec![Def::Newtype { field: pl(nm(1)) }, list1()]), "newtype struct over a recursive record");
	add(prog(vec![Def::Union { variants: vec![pl(nm(1)), pl(i32_())], unit_at: Some(0) }, list1()]), "recursive record as union variant");
	add(prog(vec![st(vec![pl(i32_()), pl(nm(1))]), Def::Union { variants: vec![pl(bx(nm(0)))], unit_at: Some(0) }]), "recursion through a union enum (root)");
	add(prog(vec![st(vec![pl(nm(1))]), st(vec![pl(i32_()), pl(nm(2))]), Def::Union { variants: vec![pl(bx(nm(1))), pl(str_())], unit_at: Some(2) }]), "recursion through a union enum below the root");
	add(prog(vec![st(vec![pl(nm(1))]), st(vec![pl(Ty::Gen(2, vec![opt(bx(nm(1)))]))]), Def::Generic { shape: 0 }]), "recursion through a generic argument");

	// S9: wide shapes
	add(prog(vec![st(vec![pl(i32_()), pl(str_()), pl(lf(Leaf::Bool)), pl(lf(Leaf::F64)), FieldTy::Bytes, pl(opt(lf(Leaf::I64))), pl(vec_(str_())), pl(nm(1))]), Def::UnitEnum { symbols: 3 }]), "record of 8 mixed fields");
	for symbols in [1usize, 2, 3, 8] {
		add(prog(vec![Def::UnitEnum { symbols }]), "unit-only enum as root");
		add(prog(vec![st(vec![pl(nm(1)), pl(opt(nm(1))), pl(vec_(nm(1)))]), Def::UnitEnum { symbols }]), "unit-only enum shared in option and array");
	}
	let all_branches = vec![
		pl(i32_()),
		pl(lf(Leaf::I64)),
		pl(lf(Leaf::F32)),
		pl(lf(Leaf::F64)),
		pl(lf(Leaf::Bool)),
		pl(str_()),
		FieldTy::Bytes,
		pl(vec_(i32_())),
		pl(bmap(str_())),
		pl(nm(1)),
		pl(nm(2)),
		FieldTy::Fixed(4),
		FieldTy::Fixed(4),
		pl(nm(3)),
	];
	for unit_at in [None, Some(0), Some(7), Some(14)] {
		add(prog(vec![Def::Union { variants: all_branches.clone(), unit_at }, s2(), Def::UnitEnum { symbols: 2 }, Def::Newtype { field: FieldTy::Fixed(4) }]), "union enum with every kind of branch");
	}
	add(prog(vec![st(vec![pl(nm(1)), pl(vec_(nm(1))), pl(bmap(nm(1)))]), Def::Union { variants: vec![pl(lf(Leaf::U32)), pl(lf(Leaf::U16)), pl(nm(2))], unit_at: Some(1) }, s2()]), "union enum shared in field, array and map");
	add(prog(vec![Def::Union { variants: vec![pl(nm(1)), pl(nm(2)), pl(nm(3))], unit_at: None }, s2(), st(vec![pl(i32_()), pl(str_())]), st(vec![pl(nm(1))])]), "union enum of three records, one containing another");
	add(prog(vec![Def::Union { variants: vec![pl(nm(1)), pl(str_())], unit_at: Some(2) }, Def::UnitEnum { symbols: 3 }]), "union enum with an enum branch next to string and Null");
	add(prog(vec![Def::Union { variants: vec![pl(nm(1)), pl(nm(2)), pl(nm(3))], unit_at: Some(3) }, Def::Newtype { field: pl(i32_()) }, Def::Newtype { field: pl(str_()) }, Def::Newtype { field: pl(nm(4)) }, s2()]), "union enum of newtype structs");
	out
}

/// The exhaustive part of a tier
pub fn grammar_cfgs(thorough: bool) -> Vec<GCfg> {
	let full = GCfg {
		max_nodes: 3,
		leaves: vec![Leaf::I32, Leaf::Str, Leaf::U32],
		field_leaves: vec![FieldTy::Bytes, FieldTy::Fixed(4)],
		opt: true,
		vec: true,
		map: true,
		boxed: true,
		max_fields: 3,
		max_variants: 3,
		newtype: true,
		unit_enum: true,
		union: true,
		generic: true,
		share: true,
		recursion: true,
		label: "full",
	};
	// the deeper, narrower alphabet: one leaf, Option / Vec, structs and unions of <= 2 members
	let narrow = GCfg { leaves: vec![Leaf::I32], field_leaves: vec![], map: false, boxed: false, generic: false, unit_enum: false, max_fields: 2, max_variants: 2, label: "narrow", ..full.clone() };
	if !thorough {
		vec![full, GCfg { max_nodes: 4, ..narrow }]
	} else {
		vec![GCfg { max_nodes: 4, ..full }, GCfg { max_nodes: 5, ..narrow }]
	}
}

#[cfg(test)]
mod tests {
	use super::*;
	/// the enumeration is deterministic, every program satisfies the grammar's constraints, and
	/// the smallest recursive / shared / generic programs are inside the quick bound
	#[test]
	fn c20_enumeration() {
		let cfgs = grammar_cfgs(false);
		let a = enumerate(&cfgs[0], u64::MAX);
		let b = enumerate(&cfgs[0], u64::MAX);
		assert_eq!(a.programs.len(), b.programs.len());
		assert!(a.programs.iter().zip(&b.programs).all(|(x, y)| x.0 == y.0));
		let srcs: Vec<String> = a.programs.iter().map(|(p, _)| Placed { p, crate_name: "c", family: "f" }.type_defs_src()).collect();
		for want in ["struct T0 { a: Vec<T0>, }", "struct T0 { a: T1, b: T1, } enum T1 { A, B, }", "struct T0 { a: G1<i32>, } struct G1<T> { a: T, b: Vec<T>, }"] {
			assert!(srcs.iter().any(|s| s == want), "missing {want}");
		}
		for (p, what) in sweeps(true) {
			assert!(Placed { p: &p, crate_name: "c", family: "f" }.validate().is_ok(), "{what}");
		}
	}
}
