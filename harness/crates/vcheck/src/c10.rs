//! C10 — no undefined behaviour from the self-referential schema / container reader in any history
//! of safe public API calls; shared use of one schema from several threads = sequential use.
//!
//! Deciding step: exhaustive enumeration of HISTORIES (all admissible operation sequences up to a
//! depth over a small pool of resources, see `vmiri::ops`) and of all MERGES of two thread programs
//! over one shared schema, every one executed on the real crate. Oracles per execution:
//!   (1) a memory-error detector is silent: Miri (Stacked Borrows, use-after-free, uninitialised reads,
//!       data races; pure-Rust codecs), AddressSanitizer and valgrind (thorough tier; all six codecs);
//!   (2) differential: every result equals the result of the same operation in a fresh, sequential run
//!       of its dependency cone (only the resources it depends on);
//!   (3) deserialised values read the same after every later operation and after schema, reader and
//!       decompression buffers are gone, and every borrowed str/bytes points into the value's own input.
//!
//! Phases: N native sweep of ALL histories (subprocess workers, oracles 2+3, crash = violation);
//! M the `core` alphabet + the freeze-error-path extras under Miri (`cargo +nightly miri run -p vmiri`);
//! T thread merges natively (baton) and free-running under Miri's data-race detector;
//! A (thorough) AddressSanitizer sweep; V (thorough) valgrind over the C-codec histories.

use crate::explore::{hash64, Cover};
use crate::report::{self, Report};
use rayon::prelude::*;
use serde_json::json;
use std::collections::{BTreeMap, HashSet};
use std::io::Read;
use std::path::{Path, PathBuf};
use std::process::{Command, Stdio};
use std::time::{Duration, Instant};
use vmiri::cli::ThreadCase;
use vmiri::fixtures::Fixtures;
use vmiri::ops::{self, Op, Profile};
use vmiri::threads::{self, Share, TOp};
use vmiri::world::Counters;

const MAX_RESTARTS: usize = 3;

struct Ctx {
	root: PathBuf,
	harness: PathBuf,
	work: PathBuf,
	exe: PathBuf,
	fixtures_text: String,
	fixtures_file: PathBuf,
	nproc: usize,
}

impl Ctx {
	fn new() -> Ctx {
		let root = PathBuf::from(report::verif_root());
		let harness = root.join("harness");
		let work = root.join("target").join("c10-work");
		let _ = std::fs::remove_dir_all(&work);
		std::fs::create_dir_all(&work).unwrap_or_else(|e| machinery(&format!("cannot create {}: {e}", work.display())));
		let exe = std::env::current_exe().unwrap_or_else(|e| machinery(&format!("current_exe: {e}")));
		let nproc = std::thread::available_parallelism().map(|n| n.get()).unwrap_or(8).min(16);
		let fixtures_text = make_fixtures().to_lines();
		let fixtures_file = work.join("fixtures.txt");
		std::fs::write(&fixtures_file, &fixtures_text).unwrap_or_else(|e| machinery(&format!("cannot write {}: {e}", fixtures_file.display())));
		Ctx { root, harness, work, exe, fixtures_text, fixtures_file, nproc }
	}
	fn miri_cmd(&self, args: &[String]) -> Command {
		let mut c = Command::new("cargo");
		c.current_dir(&self.harness);
		c.args(["+nightly", "miri", "run", "--offline", "-q", "-p", "vmiri", "--bin", "vhist", "--"]);
		c.args(args);
		c.env("MIRIFLAGS", "-Zmiri-disable-isolation");
		c.env("CARGO_NET_OFFLINE", "true");
		c.env_remove("RUSTFLAGS");
		let sysroot = self.root.join("target").join("miri-sysroot");
		if sysroot.join("lib").is_dir() {
			c.env("MIRI_SYSROOT", &sysroot);
		}
		c
	}
	fn worker_cmd(&self, args: &[String]) -> Command {
		let mut c = Command::new(&self.exe);
		c.args(["worker", "C10"]);
		c.args(args);
		c
	}
	fn asan_bin(&self) -> PathBuf {
		self.root.join("target").join("x86_64-unknown-linux-gnu").join("release").join("vhist")
	}
}

/// The inputs of every history, produced WITHOUT the crate under test (the orchestrator never executes
/// it in-process: a mutant may crash): datum bytes encoded by hand from the Avro specification, container
/// files written by the reference model (`vmodel::container::cf_write`): block 1 = [value 0], block 2 = [value 1].
fn make_fixtures() -> Fixtures {
	fn long(n: i64, out: &mut Vec<u8>) {
		let mut z = ((n << 1) ^ (n >> 63)) as u64;
		loop {
			let b = (z & 0x7f) as u8;
			z >>= 7;
			if z == 0 {
				out.push(b);
				break;
			}
			out.push(b | 0x80);
		}
	}
	fn rec(r: &vmiri::fixtures::Rec<'_>, out: &mut Vec<u8>) {
		long(r.b.len() as i64, out);
		out.extend_from_slice(r.b.as_bytes());
		long(["X", "Y"].iter().position(|s| *s == r.e).expect("fixture enum symbol") as i64, out);
		if !r.l.is_empty() {
			long(r.l.len() as i64, out);
			for x in &r.l {
				long(*x as i64, out);
			}
		}
		long(0, out);
		match &r.u {
			None => long(0, out),
			Some(inner) => {
				long(1, out);
				rec(inner, out);
			}
		}
	}
	let mut v0 = Vec::new();
	rec(&vmiri::fixtures::value(0), &mut v0);
	let mut v1 = Vec::new();
	rec(&vmiri::fixtures::value(1), &mut v1);
	let mut fx = Fixtures::empty();
	fx.datum = v0.clone();
	for c in vmiri::fixtures::Codec::ALL {
		let name = match c {
			vmiri::fixtures::Codec::Null => "null",
			vmiri::fixtures::Codec::Deflate => "deflate",
			vmiri::fixtures::Codec::Snappy => "snappy",
			vmiri::fixtures::Codec::Bzip2 => "bzip2",
			vmiri::fixtures::Codec::Xz => "xz",
			vmiri::fixtures::Codec::Zstd => "zstandard",
		};
		let meta = vec![("avro.schema".to_owned(), vmiri::fixtures::SCHEMA_TEXT.as_bytes().to_vec()), ("avro.codec".to_owned(), name.as_bytes().to_vec())];
		let layout = vmodel::container::MetaLayout { blocks: vec![2], sized: false };
		let file = vmodel::container::cf_write(&meta, &layout, vmiri::fixtures::SYNC, name, &[(1, v0.clone()), (1, v1.clone())]).unwrap_or_else(|e| machinery(&format!("reference model cannot write the {name} fixture: {e}")));
		fx.set_file(c, 0, file);
		// the "sized" file: one record per block, decompressed block sizes up / down / up beyond the first / up
		let blocks: Vec<(u64, Vec<u8>)> = (0..vmiri::fixtures::SIZED_LENS.len())
			.map(|k| {
				let mut b = Vec::new();
				rec(&vmiri::fixtures::sized_value(k), &mut b);
				(1, b)
			})
			.collect();
		let file = vmodel::container::cf_write(&meta, &layout, vmiri::fixtures::SYNC, name, &blocks).unwrap_or_else(|e| machinery(&format!("reference model cannot write the sized {name} fixture: {e}")));
		fx.set_file(c, 1, file);
		// file 2: strings that make a gathering ReaderRead grow its scratch after an amortised growth
		let blocks: Vec<(u64, Vec<u8>)> = (0..vmiri::fixtures::file_lens(2).len())
			.map(|k| {
				let mut b = Vec::new();
				rec(&vmiri::fixtures::file_value(2, k), &mut b);
				(1, b)
			})
			.collect();
		let file = vmodel::container::cf_write(&meta, &layout, vmiri::fixtures::SYNC, name, &blocks).unwrap_or_else(|e| machinery(&format!("reference model cannot write the {name} fixture (file 2): {e}")));
		fx.set_file(c, 2, file);
	}
	fx
}

fn machinery(msg: &str) -> ! {
	eprintln!("MACHINERY: {msg}");
	std::process::exit(2)
}

struct ProcOut {
	code: Option<i32>,
	signal: Option<i32>,
	stdout: String,
	stderr: String,
	timed_out: bool,
}

fn run_proc(mut cmd: Command, timeout: Duration) -> ProcOut {
	cmd.stdin(Stdio::null()).stdout(Stdio::piped()).stderr(Stdio::piped());
	let mut child = cmd.spawn().unwrap_or_else(|e| machinery(&format!("cannot spawn {cmd:?}: {e}")));
	let mut so = child.stdout.take().unwrap();
	let mut se = child.stderr.take().unwrap();
	let t1 = std::thread::spawn(move || {
		let mut s = String::new();
		let mut b = Vec::new();
		let _ = so.read_to_end(&mut b);
		s.push_str(&String::from_utf8_lossy(&b));
		s
	});
	let t2 = std::thread::spawn(move || {
		let mut b = Vec::new();
		let _ = se.read_to_end(&mut b);
		String::from_utf8_lossy(&b).into_owned()
	});
	let start = Instant::now();
	let mut timed_out = false;
	let status = loop {
		match child.try_wait() {
			Ok(Some(st)) => break st,
			Ok(None) => {
				if start.elapsed() > timeout {
					timed_out = true;
					let _ = child.kill();
					break child.wait().unwrap_or_else(|e| machinery(&format!("wait: {e}")));
				}
				std::thread::sleep(Duration::from_millis(20));
			}
			Err(e) => machinery(&format!("try_wait: {e}")),
		}
	};
	use std::os::unix::process::ExitStatusExt;
	ProcOut { code: status.code(), signal: status.signal(), stdout: t1.join().unwrap_or_default(), stderr: t2.join().unwrap_or_default(), timed_out }
}

// ---------------------------------------------------------------------------------------------
// output of `exec` / `sweep`

#[derive(Default)]
struct ExecOut {
	/// idx -> Ok(hashes) | Err((class, op, detail))
	ended: BTreeMap<usize, Result<String, (String, usize, String)>>,
	in_flight: Option<String>,
	counters: Counters,
	ref_runs: u64,
	z_done: Option<usize>,
	stopped: bool,
	// sweep only
	bad: Vec<(String, String, usize, String)>,
	outcomes: Vec<u64>,
	shapes: Vec<u64>,
	histories: u64,
	nontrivial: u64,
	ops: u64,
}

fn parse_out(stdout: &str) -> ExecOut {
	let mut o = ExecOut::default();
	for line in stdout.lines() {
		let mut it = line.splitn(2, ' ');
		let tag = it.next().unwrap_or("");
		let rest = it.next().unwrap_or("");
		match tag {
			"B" => o.in_flight = Some(rest.to_owned()),
			"E" => {
				let parts: Vec<&str> = rest.splitn(3, ' ').collect();
				if let Some(idx) = parts.first().and_then(|s| s.parse::<usize>().ok()) {
					if parts.get(1) == Some(&"OK") {
						o.ended.insert(idx, Ok(parts.get(2).copied().unwrap_or("-").to_owned()));
					} else {
						let d: Vec<&str> = parts.get(2).copied().unwrap_or("").splitn(3, ' ').collect();
						o.ended.insert(idx, Err((d.first().copied().unwrap_or("?").to_owned(), d.get(1).and_then(|s| s.parse().ok()).unwrap_or(0), d.get(2).copied().unwrap_or("").to_owned())));
					}
				}
				o.in_flight = None;
			}
			"BAD" => {
				let d: Vec<&str> = rest.splitn(4, ' ').collect();
				o.bad.push((d.first().copied().unwrap_or("").to_owned(), d.get(1).copied().unwrap_or("?").to_owned(), d.get(2).and_then(|s| s.parse().ok()).unwrap_or(0), d.get(3).copied().unwrap_or("").to_owned()));
			}
			"O" => {
				if let Ok(h) = u64::from_str_radix(rest.trim(), 16) {
					o.outcomes.push(h)
				}
			}
			"P" => {
				if let Ok(h) = u64::from_str_radix(rest.trim(), 16) {
					o.shapes.push(h)
				}
			}
			"X" => {
				o.counters.absorb_line(rest);
				for kv in rest.split_whitespace() {
					if let Some(v) = kv.strip_prefix("ref_runs=") {
						o.ref_runs += v.parse::<u64>().unwrap_or(0);
					}
				}
			}
			"S" => {
				for kv in rest.split_whitespace() {
					if let Some((k, v)) = kv.split_once('=') {
						let v: u64 = v.parse().unwrap_or(0);
						match k {
							"histories" => o.histories = v,
							"nontrivial" => o.nontrivial = v,
							"ops" => o.ops = v,
							_ => {}
						}
					}
				}
			}
			"Z" => {
				for kv in rest.split_whitespace() {
					if let Some((k, v)) = kv.split_once('=') {
						match k {
							"done" => o.z_done = v.parse().ok(),
							"stopped" => o.stopped = v == "1",
							_ => {}
						}
					}
				}
			}
			_ => {}
		}
	}
	o
}

/// First diagnostic of a detector in a process's stderr: (kind, text). kind: "ub", "race", "leak",
/// "unsupported", "abort", "asan", "valgrind", "deadlock".
fn detector_diag(stderr: &str) -> Option<(&'static str, String)> {
	let lines: Vec<&str> = stderr.lines().collect();
	for (i, l) in lines.iter().enumerate() {
		let ctx = || lines[i..(i + 8).min(lines.len())].join(" | ");
		if l.starts_with("error: Undefined Behavior") {
			let kind = if l.contains("Data race") || l.contains("data race") { "race" } else { "ub" };
			return Some((kind, ctx()));
		}
		if l.starts_with("error: unsupported operation") {
			return Some(("unsupported", ctx()));
		}
		// the interpreted program called abort(): a panic that cannot unwind, e.g. std's check of an unsafe
		// precondition (`Vec::set_len` beyond the capacity, ...)
		if l.starts_with("error: abnormal termination") {
			let why = lines[..i].iter().rev().find(|p| p.contains("unsafe precondition") || p.contains("panicked at")).map(|p| format!("{p} | ")).unwrap_or_default();
			return Some(("abort", format!("{why}{}", ctx())));
		}
		if l.starts_with("error: memory leaked") {
			return Some(("leak", ctx()));
		}
		if l.contains("the evaluated program deadlocked") {
			return Some(("deadlock", ctx()));
		}
		if l.contains("ERROR: AddressSanitizer") {
			return Some(("asan", ctx()));
		}
		if l.starts_with("==") && (l.contains("Invalid read") || l.contains("Invalid write") || l.contains("Invalid free") || l.contains("uninitialised value") || l.contains("Mismatched free")) {
			return Some(("valgrind", ctx()));
		}
	}
	None
}

fn describe_token(tok: &str) -> String {
	match ops::parse_history(tok) {
		Some(h) => format!("{tok} [{}]", ops::describe_history(&h)),
		None => tok.to_owned(),
	}
}

// ---------------------------------------------------------------------------------------------
// phase N / A / V: sweeps

struct SweepTotals {
	histories: u64,
	nontrivial: u64,
	ops: u64,
	ref_runs: u64,
	counters: Counters,
	outcomes: HashSet<u64>,
	shapes: HashSet<u64>,
	nontrivial_hashes: Vec<u64>,
}

#[derive(Clone, Copy, PartialEq)]
enum Detector {
	Native,
	Asan,
	Valgrind,
}
impl Detector {
	fn name(self) -> &'static str {
		match self {
			Detector::Native => "native",
			Detector::Asan => "asan",
			Detector::Valgrind => "valgrind",
		}
	}
}

fn sweep_cmd(ctx: &Ctx, det: Detector, args: &[String]) -> Command {
	match det {
		Detector::Native => ctx.worker_cmd(args),
		Detector::Asan => {
			let mut c = Command::new(ctx.asan_bin());
			c.args(args);
			c.env("ASAN_OPTIONS", "detect_leaks=0:exitcode=98:allocator_may_return_null=1");
			c
		}
		Detector::Valgrind => {
			let mut c = Command::new("valgrind");
			// stop at the first report, so that it is attributed to the history in flight
			c.args(["--error-exitcode=97", "--exit-on-first-error=yes", "--quiet", "--leak-check=no"]);
			c.arg(&ctx.exe);
			c.args(["worker", "C10"]);
			c.args(args);
			c
		}
	}
}

/// Sweep every history of `p` (all units, chunked over worker processes).
fn sweep(ctx: &Ctx, det: Detector, p: &Profile, rep_cover: &mut Cover, viols: &mut Vec<report::Violation>, collect_nt: bool, horizon: Duration) -> SweepTotals {
	let units = vmiri::cli::sweep_units(p);
	// small chunks: sub-tree sizes differ a lot
	let chunk = ((units.len() + ctx.nproc * 8 - 1) / (ctx.nproc * 8)).max(1);
	let chunks: Vec<(usize, usize)> = (0..units.len()).step_by(chunk).map(|lo| (lo, (lo + chunk).min(units.len()))).collect();
	let results: Vec<(ExecOut, Vec<report::Violation>, Vec<String>, Vec<u64>)> = chunks
		.par_iter()
		.map(|(lo, hi)| {
			let nt_path = ctx.work.join(format!("nt-{}-{}-{}-{lo}.bin", det.name(), p.name, p.depth));
			let inflight_path = ctx.work.join(format!("inflight-{}-{}-{}-{lo}.txt", det.name(), p.name, p.depth));
			let mut args: Vec<String> = vec!["sweep".into(), p.name.into(), p.depth.to_string(), lo.to_string(), hi.to_string(), "--fixtures".into(), ctx.fixtures_file.display().to_string(), "--inflight".into(), inflight_path.display().to_string()];
			if collect_nt {
				args.push("--nt-file".into());
				args.push(nt_path.display().to_string());
			}
			let out = run_proc(sweep_cmd(ctx, det, &args), horizon);
			let mut parsed = parse_out(&out.stdout);
			let mut v = Vec::new();
			let mut caps = Vec::new();
			for (tok, class, op, detail) in &parsed.bad {
				v.push(violation_for_history(det.name(), tok, class, *op, detail));
			}
			if out.code == Some(2) && out.stderr.contains("MACHINERY") {
				machinery(&format!("{} sweep worker: {}", det.name(), report::truncate(out.stderr.trim(), 600)));
			}
			let clean = out.code == Some(0) && parsed.z_done.is_some() && !out.timed_out;
			if out.timed_out {
				caps.push(format!("{} sweep {} depth {} units {lo}..{hi}: horizon of {} s fired", det.name(), p.name, p.depth, horizon.as_secs()));
			} else if !clean {
				// attribute: the worker wrote the history in flight to its --inflight file before executing it
				let diag = detector_diag(&out.stderr);
				let tok = std::fs::read_to_string(&inflight_path).ok().map(|s| s.trim().to_owned()).filter(|t| !t.is_empty());
				match tok {
					Some(tok) => {
						let how = match (&diag, out.signal, out.code) {
							(Some((k, text)), _, _) => format!("{k}: {text}"),
							(None, Some(sig), _) => format!("worker killed by signal {sig}; stderr: {}", report::truncate(out.stderr.trim(), 300)),
							(None, None, code) => format!("worker exited with {code:?}; stderr: {}", report::truncate(out.stderr.trim(), 300)),
						};
						if matches!(diag, Some(("unsupported", _))) {
							machinery(&format!("{} worker: {how}", det.name()));
						}
						let class = match det {
							Detector::Native => "native-crash",
							Detector::Asan => "asan-report",
							Detector::Valgrind => "valgrind-report",
						};
						v.push(violation_for_history(det.name(), &tok, class, 0, &how));
						caps.push(format!("{} sweep {} depth {} units {lo}..{hi}: stopped at the first crashing history", det.name(), p.name, p.depth));
					}
					None => machinery(&format!(
						"{} sweep worker for units {lo}..{hi} of {} failed (exit {:?}, signal {:?}) before it executed any history; stderr: {}",
						det.name(),
						p.name,
						out.code,
						out.signal,
						report::truncate(out.stderr.trim(), 600)
					)),
				}
			}
			let _ = std::fs::remove_file(&inflight_path);
			let mut nt = Vec::new();
			if collect_nt {
				if let Ok(b) = std::fs::read(&nt_path) {
					nt = b.chunks_exact(8).map(|c| u64::from_le_bytes(c.try_into().unwrap())).collect();
				}
				let _ = std::fs::remove_file(&nt_path);
			}
			(parsed, v, caps, nt)
		})
		.collect();
	let mut t = SweepTotals { histories: 0, nontrivial: 0, ops: 0, ref_runs: 0, counters: Counters::default(), outcomes: HashSet::new(), shapes: HashSet::new(), nontrivial_hashes: Vec::new() };
	for (o, v, caps, nt) in results {
		t.histories += o.histories;
		t.nontrivial += o.nontrivial;
		t.ops += o.ops;
		t.ref_runs += o.ref_runs;
		t.counters.add(&o.counters);
		t.outcomes.extend(o.outcomes);
		t.shapes.extend(o.shapes);
		t.nontrivial_hashes.extend(nt);
		viols.extend(v);
		rep_cover.caps.extend(caps);
	}
	t
}

fn violation_for_history(detector: &str, tok: &str, class: &str, op: usize, detail: &str) -> report::Violation {
	report::Violation {
		class: class.to_owned(),
		what: format!("history {} ({detector}): at operation #{op}: {detail}", describe_token(tok)),
		replay: json!({"check": "C10", "kind": "history", "history": tok, "detector": detector}),
	}
}

// ---------------------------------------------------------------------------------------------
// explicit batches (native exec for expected hashes, Miri)

fn write_batch(ctx: &Ctx, name: &str, lines: &[String]) -> PathBuf {
	let p = ctx.work.join(name);
	let mut s = ctx.fixtures_text.clone();
	for l in lines {
		s.push_str(l);
		s.push('\n');
	}
	std::fs::write(&p, s).unwrap_or_else(|e| machinery(&format!("cannot write {}: {e}", p.display())));
	p
}

/// Run an explicit list natively (worker subprocesses) and return per case Ok(hashes) / Err(violation).
fn native_exec(ctx: &Ctx, tag: &str, lines: &[(usize, String)], viols: &mut Vec<report::Violation>, what: &dyn Fn(usize) -> (String, serde_json::Value)) -> BTreeMap<usize, String> {
	let n = ctx.nproc.min(lines.len().max(1));
	let per: Vec<Vec<&(usize, String)>> = (0..n).map(|k| lines.iter().skip(k).step_by(n).collect()).collect();
	let outs: Vec<(ProcOut, ExecOut)> = per
		.par_iter()
		.enumerate()
		.map(|(k, part)| {
			let ls: Vec<String> = part.iter().map(|(_, l)| l.clone()).collect();
			let f = write_batch(ctx, &format!("native-{tag}-{k}.txt"), &ls);
			let out = run_proc(ctx.worker_cmd(&["exec".into(), f.display().to_string(), "--ref".into(), "cone".into()]), Duration::from_secs(600));
			let parsed = parse_out(&out.stdout);
			(out, parsed)
		})
		.collect();
	let mut hashes = BTreeMap::new();
	for (out, parsed) in outs {
		if out.code == Some(2) {
			machinery(&format!("native exec worker: {}", report::truncate(out.stderr.trim(), 600)));
		}
		if out.code != Some(0) || parsed.z_done.is_none() {
			match &parsed.in_flight {
				Some(idx) => {
					let i: usize = idx.trim().parse().unwrap_or(usize::MAX);
					let (w, replay) = what(i);
					viols.push(report::Violation {
						class: "native-crash".to_owned(),
						what: format!("{w} (native): worker died (exit {:?}, signal {:?}); stderr: {}", out.code, out.signal, report::truncate(out.stderr.trim(), 300)),
						replay,
					});
				}
				None => machinery(&format!("native exec worker failed (exit {:?}, signal {:?}) outside any case; stderr: {}", out.code, out.signal, report::truncate(out.stderr.trim(), 600))),
			}
		}
		for (idx, r) in parsed.ended {
			match r {
				Ok(h) => {
					hashes.insert(idx, h);
				}
				Err((class, op, detail)) => {
					if class.starts_with("machinery") {
						machinery(&format!("native exec: case {idx}: {class}: {detail}"));
					}
					let (w, replay) = what(idx);
					viols.push(report::Violation { class, what: format!("{w} (native): at operation #{op}: {detail}"), replay });
				}
			}
		}
	}
	hashes
}

struct MiriStats {
	done: HashSet<usize>,
	total: usize,
	processes: u64,
}

/// Run cases under Miri, `nproc` processes, round-robin assignment, each with a deadline. A detector
/// diagnostic is attributed to the case in flight; the batch is then resumed after that case.
fn miri_exec(ctx: &Ctx, tag: &str, lines: &[(usize, String)], deadline: Duration, min_cases: usize, ref_given: bool, cover: &mut Cover, viols: &mut Vec<report::Violation>, what: &(dyn Fn(usize) -> (String, serde_json::Value) + Sync)) -> MiriStats {
	let n = ctx.nproc.min(lines.len().max(1));
	let per: Vec<Vec<&(usize, String)>> = (0..n).map(|k| lines.iter().skip(k).step_by(n).collect()).collect();
	let started = Instant::now();
	let results: Vec<(HashSet<usize>, Vec<report::Violation>, Vec<String>, u64)> = per
		.par_iter()
		.enumerate()
		.map(|(k, part)| {
			let mut done: HashSet<usize> = HashSet::new();
			let mut v = Vec::new();
			let mut caps = Vec::new();
			let mut procs = 0u64;
			let mut rest: Vec<&(usize, String)> = part.clone();
			let mut restarts = 0;
			while !rest.is_empty() {
				let left = deadline.saturating_sub(started.elapsed());
				if left < Duration::from_secs(3) && (restarts > 0 || min_cases == 0) {
					break;
				}
				let ls: Vec<String> = rest.iter().map(|(_, l)| l.clone()).collect();
				let f = write_batch(ctx, &format!("miri-{tag}-{k}-{restarts}.txt"), &ls);
				let mut args: Vec<String> = vec!["exec".into(), f.display().to_string(), "--proto".into(), "--deadline-ms".into(), left.as_millis().to_string(), "--min-cases".into(), (if restarts == 0 { min_cases } else { 0 }).to_string()];
				args.push("--ref".into());
				args.push(if ref_given { "given".into() } else { "none".into() });
				procs += 1;
				let out = run_proc(ctx.miri_cmd(&args), left + Duration::from_secs(180));
				let parsed = parse_out(&out.stdout);
				for (idx, r) in &parsed.ended {
					done.insert(*idx);
					if let Err((class, op, detail)) = r {
						if class.starts_with("machinery") {
							machinery(&format!("Miri exec: case {idx}: {class}: {detail}"));
						}
						let (w, mut replay) = what(*idx);
						replay["detector"] = json!("miri");
						v.push(report::Violation { class: class.clone(), what: format!("{w} (miri): at operation #{op}: {detail}"), replay });
					}
				}
				let diag = detector_diag(&out.stderr);
				let normal_end = out.code == Some(0) && parsed.z_done.is_some();
				if normal_end {
					break; // finished, or stopped on its deadline (the cap is computed by the caller)
				}
				if out.timed_out {
					caps.push(format!("miri {tag} process {k}: killed after its horizon"));
					break;
				}
				match (&diag, &parsed.in_flight) {
					(Some(("leak", text)), None) => machinery(&format!(
						"Miri reported a memory leak at process exit ({tag} batch {k}); a leak is not a memory-safety violation and cannot be attributed to one case: {}",
						report::truncate(text, 400)
					)),
					(Some(("unsupported", text)), _) => machinery(&format!("Miri: {}", report::truncate(text, 600))),
					(Some((kind, text)), Some(idx)) => {
						let i: usize = idx.trim().parse().unwrap_or(usize::MAX);
						let (w, mut replay) = what(i);
						replay["detector"] = json!("miri");
						let class = match *kind {
							"race" => "miri-data-race",
							"deadlock" => "miri-deadlock",
							"abort" => "miri-abort",
							_ => "miri-undefined-behavior",
						};
						v.push(report::Violation { class: class.to_owned(), what: format!("{w} (miri): {}", report::truncate(text, 900)), replay });
						done.insert(i);
						rest.retain(|(j, _)| !done.contains(j));
						restarts += 1;
						if restarts > MAX_RESTARTS {
							caps.push(format!("miri {tag} process {k}: stopped after {MAX_RESTARTS} restarts on detector reports"));
							break;
						}
					}
					_ => machinery(&format!(
						"Miri process ({tag} batch {k}) failed (exit {:?}, signal {:?}) without a diagnostic attributable to a case; stderr tail: {}",
						out.code,
						out.signal,
						report::truncate(&out.stderr.lines().rev().take(12).collect::<Vec<_>>().join(" | "), 900)
					)),
				}
			}
			(done, v, caps, procs)
		})
		.collect();
	let mut st = MiriStats { done: HashSet::new(), total: lines.len(), processes: 0 };
	for (d, v, caps, procs) in results {
		st.done.extend(d);
		viols.extend(v);
		cover.caps.extend(caps);
		st.processes += procs;
	}
	st
}

// ---------------------------------------------------------------------------------------------
// thread cases

fn thread_cases(max_len: usize) -> (Vec<ThreadCase>, usize) {
	let progs = threads::programs(max_len);
	let mut cases = Vec::new();
	let mut pairs = 0;
	for i in 0..progs.len() {
		for j in i..progs.len() {
			pairs += 1;
			let (p, q) = (&progs[i], &progs[j]);
			// free-running, shared by reference
			cases.push(ThreadCase { share: Share::Ref, p: p.clone(), q: q.clone(), schedule: None });
			for m in threads::merges(p.len(), q.len()) {
				cases.push(ThreadCase { share: Share::Ref, p: p.clone(), q: q.clone(), schedule: Some(m) });
			}
			// Arc sharing (the schema is freed by the thread that finishes last): single-operation programs
			if p.len() == 1 && q.len() == 1 {
				cases.push(ThreadCase { share: Share::Arc, p: p.clone(), q: q.clone(), schedule: None });
				for m in threads::merges(1, 1) {
					cases.push(ThreadCase { share: Share::Arc, p: p.clone(), q: q.clone(), schedule: Some(m) });
				}
			}
		}
	}
	(cases, pairs)
}

// ---------------------------------------------------------------------------------------------

fn ensure_miri(ctx: &Ctx) {
	let out = run_proc(ctx.miri_cmd(&["count".into(), "core".into(), "1".into()]), Duration::from_secs(900));
	if out.code != Some(0) || !out.stdout.contains("core per depth") {
		machinery(&format!(
			"`cargo +nightly miri run -p vmiri` does not work here (exit {:?}); run harness/miri-setup.sh first. stderr tail: {}",
			out.code,
			report::truncate(&out.stderr.lines().rev().take(15).collect::<Vec<_>>().join(" | "), 1200)
		));
	}
}

fn ensure_asan(ctx: &Ctx) {
	let mut c = Command::new("cargo");
	c.current_dir(&ctx.harness);
	c.args(["+nightly", "build", "--offline", "--release", "-p", "vmiri", "--features", "ccodecs", "--target", "x86_64-unknown-linux-gnu"]);
	c.env("RUSTFLAGS", "-Zsanitizer=address --cfg ten0_serde_avro_fast_verif");
	c.env("CARGO_NET_OFFLINE", "true");
	let out = run_proc(c, Duration::from_secs(1200));
	if out.code != Some(0) || !ctx.asan_bin().is_file() {
		machinery(&format!("AddressSanitizer build of vhist failed (exit {:?}): {}", out.code, report::truncate(&out.stderr.lines().rev().take(15).collect::<Vec<_>>().join(" | "), 1200)));
	}
}

fn history_line(idx: usize, h: &[Op], hashes: Option<&String>) -> String {
	format!("H {idx} {} {}", ops::history_token(h), hashes.map(|s| s.as_str()).unwrap_or("-"))
}

/// `VERIF_C10_MIRI_SCALE=<factor>` stretches the wall-clock budgets of the Miri phases (for a machine that
/// is busy with other work). Default: 1 on an idle machine, load average / cores (at most 4) otherwise.
fn miri_scale() -> f64 {
	if let Some(f) = std::env::var("VERIF_C10_MIRI_SCALE").ok().and_then(|s| s.parse::<f64>().ok()).filter(|f| *f > 0.0) {
		return f;
	}
	// default: a machine whose run queue is already longer than its cores gets proportionally more
	// wall-clock time (at most 4x), so that the same amount of work fits
	let load = std::fs::read_to_string("/proc/loadavg").ok().and_then(|s| s.split_whitespace().next().and_then(|x| x.parse::<f64>().ok())).unwrap_or(0.0);
	let cores = std::thread::available_parallelism().map(|n| n.get()).unwrap_or(16) as f64;
	(load / cores).clamp(1.0, 4.0)
}

/// Development knob: `VERIF_C10_SKIP=miri,miri-hist,threads,asan,valgrind` leaves phases out (miri = both
/// Miri phases, miri-hist = histories under Miri, threads = thread cases under Miri). A run with a skipped
/// phase records a cap, so it is never reported as exhaustive (and the vacuity guards of a skipped
/// phase are not applied).
fn skipped(phase: &str) -> bool {
	std::env::var("VERIF_C10_SKIP").map(|s| s.split(',').any(|p| p.trim() == phase)).unwrap_or(false)
}

pub fn run(rep: &mut Report) {
	let thorough = rep.thorough();
	let ctx = Ctx::new();
	let mut viols: Vec<report::Violation> = Vec::new();
	let mut cover = Cover::default();
	let mut totals = Counters::default();

	// ---------------- phase N: native sweep of all histories
	let native_profiles: Vec<Profile> = if thorough { vec![Profile::wide(), Profile::wide0(), Profile::full()] } else { vec![Profile::wide()] };
	let mut native_histories = 0u64;
	let mut shapes: HashSet<u64> = HashSet::new();
	for p in &native_profiles {
		let t = sweep(&ctx, Detector::Native, p, &mut cover, &mut viols, true, Duration::from_secs(if thorough { 900 } else { 240 }));
		native_histories += t.histories;
		cover.states += t.histories;
		cover.transitions += t.ops;
		cover.evaluations += t.histories;
		cover.impl_runs += t.histories + t.ref_runs;
		cover.nontrivial.extend(t.nontrivial_hashes.iter().copied());
		cover.outcomes.extend(t.outcomes.iter().copied());
		shapes.extend(t.shapes.iter().copied());
		totals.add(&t.counters);
		cover.count(&format!("native_histories_{}_depth{}", p.name, p.depth), t.histories);
		cover.count("native_reference_cone_runs", t.ref_runs);
	}

	// native-only extras: Debug-formatting interrupted by a panic / run while unwinding, then ordinary use on
	// the same thread (each such history runs on a thread of its own; its reference cones do not)
	let nx: Vec<Vec<Op>> = Profile::extras_native();
	let nxlines: Vec<(usize, String)> = nx.iter().enumerate().map(|(i, h)| (i, history_line(i, h, None))).collect();
	let nxwhat = |i: usize| -> (String, serde_json::Value) {
		let tok = nx.get(i).map(|h| ops::history_token(h)).unwrap_or_else(|| "?".to_owned());
		(format!("history {}", describe_token(&tok)), json!({"check": "C10", "kind": "history", "history": tok, "detector": "native-only"}))
	};
	let nx_done = native_exec(&ctx, "extras-native", &nxlines, &mut viols, &nxwhat);
	cover.count("native_only_extras_debug_under_panic", nx_done.len() as u64);
	cover.impl_runs += nx_done.len() as u64;
	cover.evaluations += nx_done.len() as u64;
	cover.states += nx_done.len() as u64;
	cover.transitions += nx.iter().map(|h| h.len() as u64).sum::<u64>();
	for h in &nx {
		cover.nontrivial.insert(hash64(&("native-extra", ops::history_token(h))));
	}
	let nx_total = nx.len();

	let mut phase_s: BTreeMap<&'static str, f64> = BTreeMap::new();
	phase_s.insert("native_sweep", rep.started.elapsed().as_secs_f64());
	let mut mark = Instant::now();
	// ---------------- phase M: Miri over the core alphabet + extras
	let skip_miri = skipped("miri") || skipped("miri-hist");
	if !skipped("miri") {
		ensure_miri(&ctx);
	}
	let core = Profile::core();
	let mut miri_hist: Vec<Vec<Op>> = Profile::extras();
	miri_hist.extend(ops::enumerate(&core));
	if thorough {
		// one level deeper over the narrower alphabet; histories already listed are not repeated
		let seen: HashSet<Vec<Op>> = miri_hist.iter().cloned().collect();
		miri_hist.extend(ops::enumerate(&Profile::core4()).into_iter().filter(|h| !seen.contains(h)));
	}
	let lines: Vec<(usize, String)> = miri_hist.iter().enumerate().map(|(i, h)| (i, history_line(i, h, None))).collect();
	let hist_what = |i: usize| -> (String, serde_json::Value) {
		let tok = miri_hist.get(i).map(|h| ops::history_token(h)).unwrap_or_else(|| "?".to_owned());
		(format!("history {}", describe_token(&tok)), json!({"check": "C10", "kind": "history", "history": tok, "detector": "native"}))
	};
	let expected = native_exec(&ctx, "hist", &lines, &mut viols, &hist_what);
	cover.impl_runs += expected.len() as u64;
	// (a history without native hashes - it already failed natively, or its worker died - still runs
	// under Miri, without the comparison)
	let lines_given: Vec<(usize, String)> = miri_hist.iter().enumerate().map(|(i, h)| (i, history_line(i, h, expected.get(&i)))).collect();
	// wall-clock budget of the Miri phase (the list is fixed and handed out round-robin in shortest-first
	// order, so what a capped run covers is a prefix of it; the cap is reported)
	let miri_deadline = Duration::from_secs_f64(if thorough { 1200.0 } else { 110.0 } * miri_scale());
	let ms = if skip_miri {
		cover.caps.push("VERIF_C10_SKIP: Miri phases skipped".to_owned());
		MiriStats { done: HashSet::new(), total: lines_given.len(), processes: 0 }
	} else {
		miri_exec(&ctx, "hist", &lines_given, miri_deadline, 8, true, &mut cover, &mut viols, &hist_what)
	};
	let miri_prefix = (0..miri_hist.len()).take_while(|i| ms.done.contains(i)).count();
	cover.count("miri_histories_done", ms.done.len() as u64);
	cover.count("miri_histories_total", ms.total as u64);
	cover.count("miri_histories_complete_prefix", miri_prefix as u64);
	cover.count("miri_processes", ms.processes);
	cover.impl_runs += ms.done.len() as u64;
	cover.evaluations += ms.done.len() as u64;
	if ms.done.len() < ms.total && !skip_miri {
		cover.caps.push(format!(
			"Miri histories: {} of {} executed within the horizon of {} s; all histories with index < {} done",
			ms.done.len(),
			ms.total,
			miri_deadline.as_secs(),
			miri_prefix
		));
	}
	for i in ms.done.iter() {
		if let Some(h) = miri_hist.get(*i) {
			if ops::nontrivial(h) {
				cover.nontrivial.insert(hash64(&("miri", ops::history_token(h))));
			}
		}
	}

	phase_s.insert("miri_histories", mark.elapsed().as_secs_f64());
	mark = Instant::now();
	// ---------------- phase T: two threads over one schema
	let (cases, pairs) = thread_cases(if thorough { 3 } else { 2 });
	let tlines: Vec<(usize, String)> = cases.iter().enumerate().map(|(i, c)| (i, format!("T {i} {}", c.token()))).collect();
	let thread_what = |i: usize| -> (String, serde_json::Value) {
		let tok = cases.get(i).map(|c| c.token()).unwrap_or_else(|| "?".to_owned());
		(format!("two threads over one schema, case `{tok}` (sharing r=&Schema a=Arc<Schema>; program letters s=ser value0, e=ser failing value, c=de borrowed, o=de owned, g=Debug, f=json+fingerprint; schedule = thread id per step or free)"), json!({"check": "C10", "kind": "threads", "case": tok, "detector": "native"}))
	};
	let tn = native_exec(&ctx, "threads", &tlines, &mut viols, &thread_what);
	cover.count("thread_pairs", pairs as u64);
	cover.count("thread_cases_native", tn.len() as u64);
	cover.count("thread_merges_native", cases.iter().filter(|c| c.schedule.is_some()).count() as u64);
	cover.evaluations += tn.len() as u64;
	cover.impl_runs += tn.len() as u64;
	cover.states += tn.len() as u64;
	cover.transitions += cases.iter().map(|c| (c.p.len() + c.q.len()) as u64).sum::<u64>();
	for c in &cases {
		cover.nontrivial.insert(hash64(&("threads", c.token())));
	}
	for h in tn.values() {
		cover.outcomes.insert(hash64(h));
	}
	// Miri: every free-running pair (the race oracle), and the baton merges of the shorter programs
	let baton_len = if thorough { 2 } else { 1 };
	// (the free-running pairs with at most 3 (quick) / 4 (thorough) operations in all; longer ones run natively only)
	let free_len = if thorough { 4 } else { 3 };
	let mut order: Vec<usize> = (0..cases.len()).filter(|i| cases[*i].schedule.is_none() && cases[*i].p.len() + cases[*i].q.len() <= free_len).collect();
	let n_free = order.len();
	let mut batons: Vec<usize> = (0..cases.len()).filter(|i| cases[*i].schedule.is_some() && cases[*i].p.len() <= baton_len && cases[*i].q.len() <= baton_len).collect();
	batons.sort_by_key(|i| (cases[*i].p.len() + cases[*i].q.len(), *i));
	let n_baton = batons.len();
	order.extend(batons);
	let mlines: Vec<(usize, String)> = order.iter().map(|i| tlines[*i].clone()).collect();
	let tdeadline = Duration::from_secs_f64(if thorough { 400.0 } else { 60.0 } * miri_scale());
	let mt = if skipped("miri") || skipped("threads") {
		cover.caps.push("VERIF_C10_SKIP: Miri thread phase skipped".to_owned());
		MiriStats { done: HashSet::new(), total: mlines.len(), processes: 0 }
	} else {
		miri_exec(&ctx, "threads", &mlines, tdeadline, 4, false, &mut cover, &mut viols, &thread_what)
	};
	let free_done = order.iter().take(n_free).filter(|i| mt.done.contains(i)).count();
	let baton_done = mt.done.len() - free_done;
	cover.count("miri_free_running_pairs_done", free_done as u64);
	cover.count("miri_free_running_pairs_total", n_free as u64);
	cover.count("miri_baton_merges_done", baton_done as u64);
	cover.count("miri_baton_merges_total", n_baton as u64);
	cover.impl_runs += mt.done.len() as u64;
	if mt.done.len() < mt.total {
		cover.caps.push(format!("Miri thread cases: {free_done} of {n_free} free-running pairs and {baton_done} of {n_baton} baton merges executed within the horizon of {} s (all merges ran natively)", tdeadline.as_secs()));
	}

	phase_s.insert("threads_native_and_miri", mark.elapsed().as_secs_f64());
	mark = Instant::now();
	// ---------------- phases A, V (thorough)
	let mut asan_histories = 0;
	let mut valgrind_histories = 0;
	if thorough && !skipped("asan") {
		ensure_asan(&ctx);
		for p in [Profile::full(), Profile::wide()] {
			let t = sweep(&ctx, Detector::Asan, &p, &mut cover, &mut viols, false, Duration::from_secs(900));
			asan_histories += t.histories;
			cover.impl_runs += t.histories + t.ref_runs;
			cover.count(&format!("asan_histories_{}_depth{}", p.name, p.depth), t.histories);
		}
	}
	if thorough && !skipped("valgrind") {
		let p = Profile::ccodecs();
		let t = sweep(&ctx, Detector::Valgrind, &p, &mut cover, &mut viols, false, Duration::from_secs(900));
		valgrind_histories = t.histories;
		cover.impl_runs += t.histories + t.ref_runs;
		cover.count(&format!("valgrind_histories_ccodecs_depth{}", p.depth), t.histories);
	}
	if thorough {
		// the extras (incl. the C-codec sized files read to the end) as an explicit list: natively, and
		// under AddressSanitizer and valgrind
		let mut xs: Vec<Vec<Op>> = Profile::extras();
		xs.extend(Profile::extras_ccodecs());
		let xlines: Vec<(usize, String)> = xs.iter().enumerate().map(|(i, h)| (i, history_line(i, h, None))).collect();
		let xwhat = |i: usize| -> (String, serde_json::Value) {
			let tok = xs.get(i).map(|h| ops::history_token(h)).unwrap_or_else(|| "?".to_owned());
			(format!("history {}", describe_token(&tok)), json!({"check": "C10", "kind": "history", "history": tok, "detector": "native"}))
		};
		let done = native_exec(&ctx, "extras", &xlines, &mut viols, &xwhat);
		cover.impl_runs += done.len() as u64;
		cover.count("native_extras_incl_ccodecs", done.len() as u64);
		for det in [Detector::Asan, Detector::Valgrind] {
			if skipped(det.name()) {
				continue;
			}
			let ls: Vec<String> = xlines.iter().map(|(_, l)| l.clone()).collect();
			let f = write_batch(&ctx, &format!("{}-extras.txt", det.name()), &ls);
			let out = run_proc(sweep_cmd_exec(&ctx, det, &f), Duration::from_secs(900));
			let parsed = parse_out(&out.stdout);
			cover.impl_runs += parsed.ended.len() as u64;
			cover.count(&format!("{}_extras", det.name()), parsed.ended.len() as u64);
			for (idx, r) in &parsed.ended {
				if let Err((class, op, detail)) = r {
					let (w, mut replay) = xwhat(*idx);
					replay["detector"] = json!(det.name());
					viols.push(report::Violation { class: class.clone(), what: format!("{w} ({}): at operation #{op}: {detail}", det.name()), replay });
				}
			}
			if out.code != Some(0) || parsed.z_done.is_none() {
				let diag = detector_diag(&out.stderr);
				match (&parsed.in_flight, out.code) {
					(_, Some(2)) => machinery(&format!("{} extras: {}", det.name(), report::truncate(out.stderr.trim(), 600))),
					(Some(idx), _) => {
						let (w, mut replay) = xwhat(idx.trim().parse().unwrap_or(usize::MAX));
						replay["detector"] = json!(det.name());
						let how = diag.map(|(k, t)| format!("{k}: {t}")).unwrap_or_else(|| format!("process died (exit {:?}, signal {:?})", out.code, out.signal));
						viols.push(report::Violation { class: format!("{}-report", det.name()), what: format!("{w} ({}): {}", det.name(), report::truncate(&how, 900)), replay });
						cover.caps.push(format!("{} extras: stopped at the first report", det.name()));
					}
					(None, _) => machinery(&format!("{} extras process failed outside any case (exit {:?}, signal {:?}): {}", det.name(), out.code, out.signal, report::truncate(out.stderr.trim(), 600))),
				}
			}
		}
	}
	if thorough && (skipped("asan") || skipped("valgrind")) {
		cover.caps.push("VERIF_C10_SKIP: AddressSanitizer / valgrind phase skipped".to_owned());
	}

	phase_s.insert("asan_valgrind", mark.elapsed().as_secs_f64());
	rep.extra.insert("phase_wall_s".to_owned(), json!(phase_s));
	// ---------------- evidence, guards
	for (k, v) in totals.fields() {
		cover.count(k, v);
	}
	cover.count("distinct_final_resource_shapes", shapes.len() as u64);
	cover.sample(json!({"history": "Ps.Desy.Xs0", "meaning": ops::describe_history(&ops::parse_history("Ps.Desy.Xs0").unwrap())}));
	cover.sample(json!({"history": "Opls.Nxc.Nxc.Xr0", "meaning": ops::describe_history(&ops::parse_history("Opls.Nxc.Nxc.Xr0").unwrap())}));
	cover.sample(json!({"history": "Bm.Ed1.Fz", "meaning": ops::describe_history(&ops::parse_history("Bm.Ed1.Fz").unwrap())}));
	cover.sample(json!({"threads": "r sc og 0101", "meaning": "scoped threads sharing &Schema; thread 0: ser, de-borrowed; thread 1: de-owned, Debug; baton order 0,1,0,1"}));
	// a run that found violations may have lost whole worker batches (crashes): no vacuity verdict then
	let have_violations = !viols.is_empty();
	let guard = |name: &str, v: u64| {
		if v == 0 && !have_violations {
			machinery(&format!("vacuity guard: `{name}` was never exercised"));
		}
	};
	if totals.mispredict != 0 && !have_violations {
		machinery(&format!("{} operations did not behave as the generator predicts (freeze of a good graph failed or of a bad graph succeeded)", totals.mispredict));
	}
	guard("freeze error path: dangling key in an unreachable node", totals.freeze_err_unreachable_dangling);
	guard("freeze error path: empty graph / reachable dangling key", totals.freeze_err_other);
	guard("freeze error path: cycle through unnamed nodes", totals.freeze_err_unnamed_cycle);
	guard("known answers on wire-compatible schemas (incl. graphs with unreachable empty unions)", totals.known_answers);
	guard("freeze ok", totals.freeze_ok);
	guard("values that borrow from their input", totals.values_with_borrows);
	guard("values inspected after schema and reader were dropped", totals.inspections_after_owner_gone);
	guard("reads from compressed blocks", totals.reads_compressed_ok);
	guard("reads of a compressed block larger than every earlier one, after a smaller one (decompression buffer regrown)", totals.reads_regrown_block);
	guard("gathered reads that grew the ReaderRead scratch after an earlier amortised growth", totals.scratch_regrow_reads);
	guard("reader errors", totals.reads_err);
	guard("operations on another thread", totals.remote_ops);
	guard("schema obtained from a reader used after the reader was dropped", totals.reader_schema_used_after_reader_drop);
	if !skip_miri {
		guard("histories under Miri", ms.done.len() as u64);
	}
	if !skipped("miri") && !skipped("threads") {
		guard("free-running thread pairs under Miri", free_done as u64);
	}
	guard("thread merges", tn.len() as u64);
	if !have_violations && nx_done.len() != nx_total {
		machinery(&format!("only {} of {nx_total} native-only extras (Debug under a panic) were executed", nx_done.len()));
	}
	if thorough && !skipped("asan") {
		guard("histories under AddressSanitizer", asan_histories);
	}
	if thorough && !skipped("valgrind") {
		guard("histories under valgrind", valgrind_histories);
	}
	// (No determinism re-check here: a use-after-free may legitimately read different garbage on
	// every run; a violation that shows once is reported with its history.)
	let mut confirmed = viols;
	// smallest case first (the report shows the first case of each class)
	confirmed.sort_by_key(|v| v.replay["history"].as_str().or(v.replay["case"].as_str()).map(|s| s.len()).unwrap_or(0));

	rep.rule = format!(
		"A case is a history (sequence of operations of vmiri::ops::Op, admissible = accepted by the borrow checker: only `SerializerConfig before the schema handle it borrows` constrains the order) or a two-thread case (sharing mode, two programs of <= {} operations over {:?}, one merge or free-running). Native: every history of the `wide` alphabet to depth {}{} ({} histories) and the extras. Miri: the `core` alphabet to depth {}{} plus {} extras (every bad graph alone: 4 node kinds x 7 positions x keys {{len, len+1, usize::MAX}}, the empty graph, 4 unnamed cycles; representatives after / before a live schema; every schema text and built graph with empty unions parsed / built, frozen and used; every edit incl. detach+pop, frozen and used). Non-trivial history = dereferences schema nodes at least once AND contains a drop / move / Arc clone / edit / error-path freeze; counted as distinct history tokens. Thread cases: all {} unordered pairs of programs, all merges natively with a baton, the pairs with <= {} operations in all free-running under Miri, the merges of programs of <= {} operations also under Miri.",
		if thorough { 3 } else { 2 },
		TOp::ALL.iter().map(|t| t.letter()).collect::<String>(),
		4,
		if thorough { ", of `wide0` (one schema text / graph) to depth 5 and of the `full` alphabet (6 codecs, 3 reader kinds, 5 texts, 6 graphs, 27 bad graphs, 5 targets, 7 edits) to depth 4" } else { "" },
		native_histories,
		core.depth,
		if thorough { " and the narrower `core4` alphabet to depth 4" } else { "" },
		Profile::extras().len(),
		pairs,
		free_len,
		baton_len
	);
	rep.assumptions = vec![
		"Miri (Stacked Borrows, data-race detector and leak check on, isolation off) is the oracle for pure-Rust configurations; C codecs (bzip2, xz, zstandard) are only run natively, under AddressSanitizer and under valgrind (thorough tier).".to_owned(),
		"Under Miri `Parse`/`ParseS` clone a SchemaMut that was parsed once per Miri process (parsing is safe code and costs 0.5 s per call there); the native, ASan and valgrind runs parse every time.".to_owned(),
		"The interpreter erases lifetimes with raw pointers; the abstract tracker (vmiri::ops::Abs) only generates programs rustc accepts. A history that is not admissible is refused (machinery error).".to_owned(),
		"Unnamed cycles only occur as bad graphs whose freeze must return Err (D5 is fixed in /repo); no edit can create one.".to_owned(),
		"Known answers (value 0 <-> fixture datum, value 2 rejected) are demanded of every schema that is SCHEMA_TEXT on the wire, whatever unreachable nodes its graph holds: a union node whose lookup table was never built is a node that is not fully initialised.".to_owned(),
	];
	rep.extra.insert("detectors".to_owned(), json!({"native": native_histories, "miri_histories": ms.done.len(), "miri_thread_cases": mt.done.len(), "asan": asan_histories, "valgrind": valgrind_histories}));
	rep.cover.merge(cover);
	// at most 40 cases per class go into the report (the report keeps 2000 in all); totals are counted
	let mut per_class: BTreeMap<String, u64> = BTreeMap::new();
	for v in confirmed {
		let n = per_class.entry(v.class.clone()).or_insert(0);
		*n += 1;
		if *n <= 40 {
			rep.violation(&v.class, v.what, v.replay);
		}
	}
	for (c, n) in per_class {
		rep.cover.count(&format!("violations_{c}"), n);
	}
}

// ---------------------------------------------------------------------------------------------
// replay

pub fn replay(v: &serde_json::Value) -> i32 {
	let r = &v["replay"];
	let ctx = Ctx::new();
	let detector = r["detector"].as_str().unwrap_or("native").to_owned();
	let line = match r["kind"].as_str() {
		Some("history") => {
			let tok = r["history"].as_str().unwrap_or("");
			let Some(h) = ops::parse_history(tok) else {
				eprintln!("replay: bad history token {tok:?}");
				return 2;
			};
			println!("history: {}", describe_token(tok));
			if ops::admissible(&h).is_none() {
				eprintln!("replay: the history is not admissible");
				return 2;
			}
			format!("H 0 {tok} -")
		}
		Some("threads") => {
			let case = r["case"].as_str().unwrap_or("");
			println!("thread case: {case}");
			format!("T 0 {case}")
		}
		_ => {
			eprintln!("replay: unknown kind");
			return 2;
		}
	};
	let f = write_batch(&ctx, "replay.txt", &[line]);
	let mut failed = false;
	// native first (differential oracle + in-interpreter oracles)
	let out = run_proc(ctx.worker_cmd(&["exec".into(), f.display().to_string(), "--ref".into(), "cone".into()]), Duration::from_secs(300));
	let parsed = parse_out(&out.stdout);
	match parsed.ended.get(&0) {
		Some(Ok(h)) => println!("native: ok, result hashes {h}"),
		Some(Err((class, op, detail))) => {
			println!("native: {class} at operation #{op}: {detail}");
			failed = true;
		}
		None => {
			println!("native: worker died (exit {:?}, signal {:?}): {}", out.code, out.signal, report::truncate(out.stderr.trim(), 600));
			failed = true;
		}
	}
	let run_det = |name: &str, cmd: Command| -> bool {
		let out = run_proc(cmd, Duration::from_secs(900));
		let parsed = parse_out(&out.stdout);
		if let Some((kind, text)) = detector_diag(&out.stderr) {
			println!("{name}: {kind}: {}", report::truncate(&text, 1500));
			return true;
		}
		match parsed.ended.get(&0) {
			Some(Ok(h)) => {
				println!("{name}: no report, result hashes {h}");
				false
			}
			Some(Err((class, op, detail))) => {
				println!("{name}: {class} at operation #{op}: {detail}");
				true
			}
			None => {
				println!("{name}: process failed (exit {:?}, signal {:?}): {}", out.code, out.signal, report::truncate(out.stderr.trim(), 600));
				true
			}
		}
	};
	// Undefined behaviour need not show in a fresh native process (it depends on what the heap held):
	// every replay also runs under a detector - Miri, or AddressSanitizer when a C codec is involved.
	let uses_c_codec = r["history"].as_str().and_then(ops::parse_history).map_or(false, |h| h.iter().any(|o| matches!(o, Op::Open(_, c, _) if c.is_c())));
	let det = match detector.as_str() {
		"asan" | "valgrind" => detector.as_str(),
		// thread-local state after a panic is not a memory error: the native differential run decides
		"native-only" => "none",
		_ if uses_c_codec => "asan",
		_ => "miri",
	};
	match det {
		"miri" => {
			ensure_miri(&ctx);
			failed |= run_det("miri", ctx.miri_cmd(&["exec".into(), f.display().to_string(), "--proto".into(), "--ref".into(), "none".into()]));
		}
		"asan" => {
			ensure_asan(&ctx);
			failed |= run_det("asan", sweep_cmd_exec(&ctx, Detector::Asan, &f));
		}
		"valgrind" => {
			failed |= run_det("valgrind", sweep_cmd_exec(&ctx, Detector::Valgrind, &f));
		}
		_ => {}
	}
	if failed {
		println!("replay: the case still fails");
		1
	} else {
		println!("replay: the case passes now");
		0
	}
}

fn sweep_cmd_exec(ctx: &Ctx, det: Detector, f: &Path) -> Command {
	sweep_cmd(ctx, det, &["exec".into(), f.display().to_string(), "--ref".into(), "cone".into()])
}
