//! Thin, panic-safe wrappers around the subject's public API.

use crate::envs::ChunkedBufRead;
use crate::obs::{self, Hint, ObsSeed, O};
use crate::pres::Pres;
use serde::de::DeserializeSeed;
use serde_avro_fast::de::read::{ReaderRead, SliceRead};
use serde_avro_fast::de::{DeserializerConfig, DeserializerState};
use serde_avro_fast::ser::SerializerConfig;
use serde_avro_fast::Schema;
use std::io::BufRead;
use std::panic::{catch_unwind, AssertUnwindSafe};

#[derive(Clone, Debug, PartialEq)]
pub enum Out<T> {
	Ok(T),
	Err(String),
	Panic(String),
}

impl<T> Out<T> {
	pub fn is_ok(&self) -> bool {
		matches!(self, Out::Ok(_))
	}
	pub fn is_err(&self) -> bool {
		matches!(self, Out::Err(_))
	}
	pub fn is_panic(&self) -> bool {
		matches!(self, Out::Panic(_))
	}
	pub fn kind(&self) -> &'static str {
		match self {
			Out::Ok(_) => "Ok",
			Out::Err(_) => "Err",
			Out::Panic(_) => "Panic",
		}
	}
	pub fn map<U>(self, f: impl FnOnce(T) -> U) -> Out<U> {
		match self {
			Out::Ok(t) => Out::Ok(f(t)),
			Out::Err(e) => Out::Err(e),
			Out::Panic(e) => Out::Panic(e),
		}
	}
}

pub fn panic_message(p: Box<dyn std::any::Any + Send>) -> String {
	if let Some(s) = p.downcast_ref::<&str>() {
		s.to_string()
	} else if let Some(s) = p.downcast_ref::<String>() {
		s.clone()
	} else {
		"<non-string panic>".to_owned()
	}
}

/// Silence the default panic hook for panics that are caught and reported as outcomes.
pub fn quiet_panics() {
	std::panic::set_hook(Box::new(|info| {
		let msg = info.to_string();
		if msg.contains("MACHINERY") {
			eprintln!("{msg}");
		}
	}));
}

pub fn guarded<T>(f: impl FnOnce() -> Result<T, String>) -> Out<T> {
	match catch_unwind(AssertUnwindSafe(f)) {
		Ok(Ok(t)) => Out::Ok(t),
		Ok(Err(e)) => Out::Err(e),
		Err(p) => {
			let m = panic_message(p);
			if m.contains("MACHINERY") {
				eprintln!("{m}");
				std::process::exit(2);
			}
			Out::Panic(m)
		}
	}
}

pub fn ser_with(config: &mut SerializerConfig<'_>, p: &Pres) -> Out<Vec<u8>> {
	guarded(|| serde_avro_fast::to_datum_vec(p, config).map_err(|e| e.to_string()))
}

pub fn ser(schema: &Schema, p: &Pres) -> Out<Vec<u8>> {
	let mut config = SerializerConfig::new(schema);
	ser_with(&mut config, p)
}

pub fn ser_slow_seq(schema: &Schema, p: &Pres) -> Out<Vec<u8>> {
	let mut config = SerializerConfig::new(schema);
	config.allow_slow_sequence_to_bytes();
	ser_with(&mut config, p)
}

#[derive(Clone, Debug)]
pub struct Limits {
	pub allowed_depth: Option<usize>,
	pub max_seq_size: Option<usize>,
	pub max_alloc_size: Option<usize>,
}
impl Limits {
	pub fn none() -> Self {
		Limits { allowed_depth: None, max_seq_size: None, max_alloc_size: None }
	}
	fn apply(&self, c: &mut DeserializerConfig) {
		if let Some(d) = self.allowed_depth {
			c.allowed_depth = d;
		}
		if let Some(m) = self.max_seq_size {
			c.max_seq_size = m;
		}
	}
}

/// (observation, bytes consumed)
pub fn de_slice(schema: &Schema, bytes: &[u8], hint: &Hint, limits: &Limits) -> Out<(O, usize)> {
	guarded(|| {
		obs::set_input_range(bytes);
		let mut config = DeserializerConfig::new(schema);
		limits.apply(&mut config);
		let mut state = DeserializerState::with_config(SliceRead::new(bytes), config);
		let r = ObsSeed(hint).deserialize(state.deserializer());
		obs::clear_input_range();
		let o = r.map_err(|e| e.to_string())?;
		let mut rest = state.into_reader();
		let left = rest.fill_buf().map_err(|e| e.to_string())?.len();
		Ok((o, bytes.len() - left))
	})
}

/// Like [`de_slice`] for an ordinary `Deserialize` target: (value, bytes consumed). Not guarded:
/// wrap in [`guarded`].
pub fn de_slice_typed<'de, T: serde::Deserialize<'de>>(schema: &Schema, bytes: &'de [u8], limits: &Limits) -> Result<(T, usize), String> {
	let mut config = DeserializerConfig::new(schema);
	limits.apply(&mut config);
	let mut state = DeserializerState::with_config(SliceRead::new(bytes), config);
	let v = T::deserialize(state.deserializer()).map_err(|e| e.to_string())?;
	let mut rest = state.into_reader();
	let left = rest.fill_buf().map_err(|e| e.to_string())?.len();
	Ok((v, bytes.len() - left))
}

pub struct ReaderRun {
	pub consumed: usize,
	pub fill_calls: usize,
	pub refills: usize,
	pub eof_hit: bool,
}

/// Decode from a harness-owned chunked reader. Returns the observation and how the reader was used.
pub fn de_reader(schema: &Schema, reader: ChunkedBufRead<'_>, hint: &Hint, limits: &Limits) -> (Out<O>, ReaderRun) {
	let mut run = ReaderRun { consumed: 0, fill_calls: 0, refills: 0, eof_hit: false };
	let out = guarded(|| {
		let mut config = DeserializerConfig::new(schema);
		limits.apply(&mut config);
		let mut rr = ReaderRead::new(reader);
		if let Some(m) = limits.max_alloc_size {
			rr.max_alloc_size = m;
		}
		let mut state = DeserializerState::with_config(rr, config);
		let r = ObsSeed(hint).deserialize(state.deserializer());
		let inner = state.into_reader().into_inner();
		run.consumed = inner.consumed();
		run.fill_calls = inner.fill_calls;
		run.refills = inner.refills;
		run.eof_hit = inner.eof_hit;
		r.map_err(|e| e.to_string())
	});
	(out, run)
}
