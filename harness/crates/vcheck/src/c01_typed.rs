//! C01, typed part: ordinary Rust data types (derived `Serialize`/`Deserialize`) round-trip
//! through hand-written schemas. Each family fixes a type, its schema (as reference AST), an
//! exhaustive small value domain and the translation of a Rust value into the reference value,
//! so that the bytes can be judged by the reference encoder and the decoded Rust value by
//! translating it again (floats compare by bits that way).

use crate::envs::ChunkedBufRead;
use crate::explore::{hash64, Cover};
use crate::gen;
use crate::report::{hex, Violation};
use crate::subj::{guarded, Out};
use serde::de::DeserializeOwned;
use serde::{Deserialize, Serialize};
use serde_json::json;
use std::collections::{BTreeMap, HashMap};
use std::fmt::Debug;
use vmodel::schema::{Env, Logical, RSchema as S};
use vmodel::value::{Canonical, RValue as R};

pub trait Fam: Serialize + Debug + Sized {
	const NAME: &'static str;
	fn schema() -> S;
	fn values() -> Vec<Self>;
	fn to_r(&self) -> R;
}

fn cartesian<A: Clone, B: Clone>(a: &[A], b: &[B]) -> Vec<(A, B)> {
	a.iter().flat_map(|x| b.iter().map(move |y| (x.clone(), y.clone()))).collect()
}

const I32S: [i32; 5] = [0, -1, 64, i32::MIN, i32::MAX];
const I64S: [i64; 5] = [0, -65, 8192, i64::MIN, i64::MAX];
fn strs() -> Vec<String> {
	vec!["".into(), "a".into(), "é😀".into(), "x".repeat(64)]
}
fn bytess() -> Vec<Vec<u8>> {
	vec![vec![], vec![0], vec![0xff, 0x00, 0x80]]
}
fn rstr(s: &str) -> R {
	R::Str(s.to_owned())
}

// ---------------------------------------------------------------------------------------------

#[derive(Serialize, Deserialize, Debug, Clone)]
pub struct Prim {
	a: i32,
	b: i64,
	c: bool,
	d: String,
	#[serde(with = "serde_bytes")]
	e: Vec<u8>,
}
impl Fam for Prim {
	const NAME: &'static str = "struct of primitives";
	fn schema() -> S {
		S::record("ns.Prim", vec![("a", S::Int), ("b", S::Long), ("c", S::Boolean), ("d", S::String), ("e", S::Bytes)])
	}
	fn values() -> Vec<Self> {
		let mut out = Vec::new();
		for (a, b) in cartesian(&I32S, &I64S) {
			for (d, e) in cartesian(&strs(), &bytess()) {
				out.push(Prim { a, b, c: (a ^ b as i32) & 1 == 0, d, e });
			}
		}
		out
	}
	fn to_r(&self) -> R {
		R::Record(vec![R::Int(self.a), R::Long(self.b), R::Bool(self.c), rstr(&self.d), R::Bytes(self.e.clone())])
	}
}

#[derive(Serialize, Deserialize, Debug, Clone)]
pub struct Floats {
	f: f32,
	d: f64,
}
impl Fam for Floats {
	const NAME: &'static str = "struct of floats (bit patterns incl. NaN payloads)";
	fn schema() -> S {
		S::record("Floats", vec![("f", S::Float), ("d", S::Double)])
	}
	fn values() -> Vec<Self> {
		cartesian(&gen::F32_FULL, &gen::F64_FULL).into_iter().map(|(f, d)| Floats { f: f32::from_bits(f), d: f64::from_bits(d) }).collect()
	}
	fn to_r(&self) -> R {
		R::Record(vec![R::Float(self.f.to_bits()), R::Double(self.d.to_bits())])
	}
}

#[derive(Serialize, Deserialize, Debug, Clone)]
pub struct Widths {
	a: u8,
	b: u16,
	c: u32,
	d: u64,
	e: i8,
	f: i16,
	g: i128,
	h: u128,
}
impl Fam for Widths {
	const NAME: &'static str = "integer widths mapped to int/long";
	fn schema() -> S {
		S::record("Widths", vec![("a", S::Int), ("b", S::Int), ("c", S::Long), ("d", S::Long), ("e", S::Int), ("f", S::Int), ("g", S::Long), ("h", S::Long)])
	}
	fn values() -> Vec<Self> {
		let mut out = Vec::new();
		for &a in &[0u8, 127, 255] {
			for &c in &[0u32, u32::MAX] {
				for &d in &[0u64, 1 << 40, i64::MAX as u64] {
					for &e in &[i8::MIN, -1, i8::MAX] {
						out.push(Widths { a, b: if a == 0 { u16::MAX } else { 300 }, c, d, e, f: if e < 0 { i16::MIN } else { i16::MAX }, g: if e < 0 { i64::MIN as i128 } else { d as i128 }, h: d as u128 });
					}
				}
			}
		}
		out
	}
	fn to_r(&self) -> R {
		R::Record(vec![R::Int(self.a as i32), R::Int(self.b as i32), R::Long(self.c as i64), R::Long(self.d as i64), R::Int(self.e as i32), R::Int(self.f as i32), R::Long(self.g as i64), R::Long(self.h as i64)])
	}
}

#[derive(Serialize, Deserialize, Debug, Clone)]
pub struct Opts {
	a: Option<i64>,
	b: Option<String>,
	c: Option<Inner>,
}
#[derive(Serialize, Deserialize, Debug, Clone)]
pub struct Inner {
	x: i32,
	y: Option<bool>,
}
fn inner_schema(name: &str) -> S {
	S::record(name, vec![("x", S::Int), ("y", S::Union(vec![S::Null, S::Boolean]))])
}
fn inner_r(i: &Inner) -> R {
	R::Record(vec![R::Int(i.x), opt_r(&i.y, 0, |b| R::Bool(*b))])
}
/// `null_idx`: position of null in the two-branch union
fn opt_r<T>(o: &Option<T>, null_idx: usize, f: impl Fn(&T) -> R) -> R {
	match o {
		None => R::Union(null_idx, Box::new(R::Null)),
		Some(v) => R::Union(1 - null_idx, Box::new(f(v))),
	}
}
fn inners() -> Vec<Inner> {
	vec![Inner { x: 0, y: None }, Inner { x: -64, y: Some(true) }, Inner { x: i32::MAX, y: Some(false) }]
}
impl Fam for Opts {
	const NAME: &'static str = "Option fields over [null,T] and [T,null], Option<struct>";
	fn schema() -> S {
		S::record("Opts", vec![("a", S::Union(vec![S::Null, S::Long])), ("b", S::Union(vec![S::String, S::Null])), ("c", S::Union(vec![S::Null, inner_schema("ns.Inner")]))])
	}
	fn values() -> Vec<Self> {
		let mut out = Vec::new();
		let a: Vec<Option<i64>> = vec![None, Some(0), Some(i64::MIN)];
		let b: Vec<Option<String>> = vec![None, Some("".into()), Some("é".into())];
		let mut c: Vec<Option<Inner>> = vec![None];
		c.extend(inners().into_iter().map(Some));
		for (a, b) in cartesian(&a, &b) {
			for c in &c {
				out.push(Opts { a, b: b.clone(), c: c.clone() });
			}
		}
		out
	}
	fn to_r(&self) -> R {
		R::Record(vec![opt_r(&self.a, 0, |v| R::Long(*v)), opt_r(&self.b, 1, |s| rstr(s)), opt_r(&self.c, 0, inner_r)])
	}
}

#[derive(Serialize, Deserialize, Debug, Clone)]
pub enum UnionNewtype {
	Null,
	Int(i32),
	String(String),
	#[serde(rename = "ns.Inner")]
	Inner(Inner),
	Array(Vec<i64>),
	Map(BTreeMap<String, i32>),
	Double(f64),
}
impl Fam for UnionNewtype {
	const NAME: &'static str = "enum as union: unit + newtype variants named after the branches";
	fn schema() -> S {
		S::Union(vec![S::Null, S::Int, S::String, inner_schema("ns.Inner"), S::array(S::Long), S::map(S::Int), S::Double])
	}
	fn values() -> Vec<Self> {
		let mut out = vec![UnionNewtype::Null];
		out.extend(I32S.iter().map(|i| UnionNewtype::Int(*i)));
		out.extend(strs().into_iter().map(UnionNewtype::String));
		out.push(UnionNewtype::String("Null".into()));
		out.extend(inners().into_iter().map(UnionNewtype::Inner));
		out.push(UnionNewtype::Array(vec![]));
		out.push(UnionNewtype::Array(vec![1, -1, i64::MAX]));
		out.push(UnionNewtype::Map(BTreeMap::new()));
		out.push(UnionNewtype::Map([("k".to_owned(), 1), ("".to_owned(), -1)].into_iter().collect()));
		out.push(UnionNewtype::Double(f64::from_bits(0x7ff4_0000_0000_1234)));
		out
	}
	fn to_r(&self) -> R {
		match self {
			UnionNewtype::Null => R::Union(0, Box::new(R::Null)),
			UnionNewtype::Int(i) => R::Union(1, Box::new(R::Int(*i))),
			UnionNewtype::String(s) => R::Union(2, Box::new(rstr(s))),
			UnionNewtype::Inner(i) => R::Union(3, Box::new(inner_r(i))),
			UnionNewtype::Array(v) => R::Union(4, Box::new(R::Array(v.iter().map(|x| R::Long(*x)).collect()))),
			UnionNewtype::Map(m) => R::Union(5, Box::new(R::Map(m.iter().map(|(k, v)| (k.clone(), R::Int(*v))).collect()))),
			UnionNewtype::Double(d) => R::Union(6, Box::new(R::Double(d.to_bits()))),
		}
	}
}

#[derive(Serialize, Deserialize, Debug, Clone)]
pub enum UnionStructVariant {
	#[serde(rename = "a.RecA")]
	RecA { v: i32 },
	#[serde(rename = "b.RecB")]
	RecB { v: i32, w: String },
	Long(i64),
}
impl Fam for UnionStructVariant {
	const NAME: &'static str = "enum as union: struct variants for record branches of similar shape";
	fn schema() -> S {
		S::Union(vec![S::record("a.RecA", vec![("v", S::Int)]), S::record("b.RecB", vec![("v", S::Int), ("w", S::String)]), S::Long])
	}
	fn values() -> Vec<Self> {
		let mut out = Vec::new();
		for &v in &I32S {
			out.push(UnionStructVariant::RecA { v });
			out.push(UnionStructVariant::RecB { v, w: "w".into() });
		}
		out.push(UnionStructVariant::Long(-1));
		out
	}
	fn to_r(&self) -> R {
		match self {
			UnionStructVariant::RecA { v } => R::Union(0, Box::new(R::Record(vec![R::Int(*v)]))),
			UnionStructVariant::RecB { v, w } => R::Union(1, Box::new(R::Record(vec![R::Int(*v), rstr(w)]))),
			UnionStructVariant::Long(l) => R::Union(2, Box::new(R::Long(*l))),
		}
	}
}

#[derive(Serialize, Deserialize, Debug, Clone, Copy)]
pub enum Sym {
	A,
	B,
	C,
}
#[derive(Serialize, Deserialize, Debug, Clone)]
pub struct WithEnum {
	e: Sym,
	o: Option<Sym>,
	v: Vec<Sym>,
}
fn sym_r(s: &Sym) -> R {
	R::Enum(*s as usize)
}
impl Fam for WithEnum {
	const NAME: &'static str = "unit-only enum as Avro enum, direct / optional / in a sequence (named-type reference)";
	fn schema() -> S {
		S::record("WithEnum", vec![("e", S::enum_("ns.Sym", &["A", "B", "C"])), ("o", S::Union(vec![S::Null, S::rf("ns.Sym")])), ("v", S::array(S::rf("ns.Sym")))])
	}
	fn values() -> Vec<Self> {
		let syms = [Sym::A, Sym::B, Sym::C];
		let mut out = Vec::new();
		for e in syms {
			for o in [None, Some(Sym::C), Some(Sym::A)] {
				for v in [vec![], vec![Sym::B], vec![Sym::C, Sym::A, Sym::C]] {
					out.push(WithEnum { e, o, v });
				}
			}
		}
		out
	}
	fn to_r(&self) -> R {
		R::Record(vec![sym_r(&self.e), opt_r(&self.o, 0, sym_r), R::Array(self.v.iter().map(sym_r).collect())])
	}
}

#[derive(Serialize, Deserialize, Debug, Clone)]
pub struct Colls {
	v: Vec<i32>,
	m: BTreeMap<String, String>,
	h: HashMap<String, i64>,
	n: Vec<Vec<bool>>,
	r: Vec<Inner>,
}
impl Fam for Colls {
	const NAME: &'static str = "sequences, maps, nested sequences, sequence of structs";
	fn schema() -> S {
		S::record(
			"Colls",
			vec![("v", S::array(S::Int)), ("m", S::map(S::String)), ("h", S::map(S::Long)), ("n", S::array(S::array(S::Boolean))), ("r", S::array(inner_schema("Inner")))],
		)
	}
	fn values() -> Vec<Self> {
		let vs: Vec<Vec<i32>> = vec![vec![], vec![0], vec![-1, 64, i32::MIN]];
		let ms: Vec<BTreeMap<String, String>> =
			vec![BTreeMap::new(), [("k".to_owned(), "v".to_owned())].into_iter().collect(), [("".to_owned(), "".to_owned()), ("clé".to_owned(), "x".repeat(64))].into_iter().collect()];
		// HashMap: at most one entry, so that iteration order cannot matter
		let hs: Vec<HashMap<String, i64>> = vec![HashMap::new(), [("only".to_owned(), i64::MIN)].into_iter().collect()];
		let ns: Vec<Vec<Vec<bool>>> = vec![vec![], vec![vec![]], vec![vec![true], vec![], vec![false, true]]];
		let rs: Vec<Vec<Inner>> = vec![vec![], inners()];
		let mut out = Vec::new();
		for (v, m) in cartesian(&vs, &ms) {
			for (h, n) in cartesian(&hs, &ns) {
				for r in &rs {
					out.push(Colls { v: v.clone(), m: m.clone(), h: h.clone(), n: n.clone(), r: r.clone() });
				}
			}
		}
		out
	}
	fn to_r(&self) -> R {
		R::Record(vec![
			R::Array(self.v.iter().map(|x| R::Int(*x)).collect()),
			R::Map(self.m.iter().map(|(k, v)| (k.clone(), rstr(v))).collect()),
			R::Map(self.h.iter().map(|(k, v)| (k.clone(), R::Long(*v))).collect()),
			R::Array(self.n.iter().map(|x| R::Array(x.iter().map(|b| R::Bool(*b)).collect())).collect()),
			R::Array(self.r.iter().map(inner_r).collect()),
		])
	}
}

#[derive(Serialize, Deserialize, Debug, Clone)]
pub struct List {
	v: i32,
	next: Option<Box<List>>,
}
fn list_r(l: &List) -> R {
	R::Record(vec![R::Int(l.v), opt_r(&l.next, 0, |n| list_r(n))])
}
impl Fam for List {
	const NAME: &'static str = "recursive record through Option<Box<_>>";
	fn schema() -> S {
		S::record("ns.List", vec![("v", S::Int), ("next", S::Union(vec![S::Null, S::rf("ns.List")]))])
	}
	fn values() -> Vec<Self> {
		let mut out = Vec::new();
		for depth in 0..6 {
			for &v0 in &[0, -1, i32::MAX] {
				let mut l = List { v: v0, next: None };
				for d in 0..depth {
					l = List { v: v0.wrapping_add(d), next: Some(Box::new(l)) };
				}
				out.push(l);
			}
		}
		out
	}
	fn to_r(&self) -> R {
		list_r(self)
	}
}

#[derive(Serialize, Deserialize, Debug, Clone)]
pub struct Tree {
	v: String,
	kids: Vec<Tree>,
}
fn tree_r(t: &Tree) -> R {
	R::Record(vec![rstr(&t.v), R::Array(t.kids.iter().map(tree_r).collect())])
}
impl Fam for Tree {
	const NAME: &'static str = "recursive record through Vec<_>";
	fn schema() -> S {
		S::record("Tree", vec![("v", S::String), ("kids", S::array(S::rf("Tree")))])
	}
	fn values() -> Vec<Self> {
		let leaf = |s: &str| Tree { v: s.to_owned(), kids: vec![] };
		vec![
			leaf(""),
			Tree { v: "r".into(), kids: vec![leaf("a")] },
			Tree { v: "r".into(), kids: vec![leaf("a"), Tree { v: "b".into(), kids: vec![leaf("c"), leaf("é")] }, leaf("d")] },
		]
	}
	fn to_r(&self) -> R {
		tree_r(self)
	}
}

#[derive(Serialize, Deserialize, Debug, Clone)]
pub struct Logicals {
	dec_b: rust_decimal::Decimal,
	dec_f: rust_decimal::Decimal,
	big: rust_decimal::Decimal,
	dur: Duration,
	dur_t: (u32, u32, u32),
	date: i32,
	ts: i64,
	uuid: String,
	#[serde(with = "serde_bytes")]
	fx: Vec<u8>,
}
#[derive(Serialize, Deserialize, Debug, Clone, Copy)]
pub struct Duration {
	months: u32,
	days: u32,
	milliseconds: u32,
}
fn dur_r(d: &[u32; 3]) -> R {
	let mut b = Vec::new();
	for x in d {
		b.extend_from_slice(&x.to_le_bytes());
	}
	R::Fixed(b)
}
impl Fam for Logicals {
	const NAME: &'static str = "logical types: rust_decimal::Decimal on bytes / fixed / big-decimal, duration as struct and tuple, date, timestamp, uuid, fixed";
	fn schema() -> S {
		S::record(
			"Logicals",
			vec![
				("dec_b", S::decimal_bytes(20, 2)),
				("dec_f", S::decimal_fixed("ns.DecF", 8, 18, 3)),
				("big", S::logical(Logical::BigDecimal, S::Bytes)),
				("dur", S::logical(Logical::Duration, S::fixed("Dur", 12))),
				("dur_t", S::logical(Logical::Duration, S::fixed("ns.Dur2", 12))),
				("date", S::logical(Logical::Date, S::Int)),
				("ts", S::logical(Logical::TimestampMicros, S::Long)),
				("uuid", S::logical(Logical::Uuid, S::String)),
				("fx", S::fixed("ns.Fx4", 4)),
			],
		)
	}
	fn values() -> Vec<Self> {
		let mut out = Vec::new();
		// unscaled mantissas; the struct's decimals are built as mantissa * 10^-scale exactly
		for &m in &[0i64, 1, -1, 127, 128, -128, -129, 255, 256, 32767, -32769, 123_456_789_012] {
			for &(mo, d, ms) in &[(0u32, 0u32, 0u32), (1, 2, 3), (u32::MAX, 0x0102_0304, u32::MAX)] {
				out.push(Logicals {
					dec_b: rust_decimal::Decimal::new(m, 2),
					dec_f: rust_decimal::Decimal::new(-m, 3),
					big: rust_decimal::Decimal::new(m, if m % 2 == 0 { 0 } else { 5 }),
					dur: Duration { months: mo, days: d, milliseconds: ms },
					dur_t: (ms, mo, d),
					date: (m as i32).wrapping_mul(3),
					ts: m.wrapping_mul(1_000_003),
					uuid: "f81d4fae-7dec-11d0-a765-00a0c91e6bf6".into(),
					fx: vec![mo as u8, d as u8, 0xff, 0],
				});
			}
		}
		out
	}
	fn to_r(&self) -> R {
		let dec = |d: &rust_decimal::Decimal, scale: u32| -> i128 {
			let mut d = *d;
			d.rescale(scale);
			d.mantissa()
		};
		let big = {
			// the crate writes big-decimal with the value's own scale
			vmodel::value::big_decimal_payload(self.big.mantissa(), self.big.scale() as i64)
		};
		R::Record(vec![
			R::Bytes(vmodel::value::i128_to_be_min(dec(&self.dec_b, 2))),
			R::Fixed(vmodel::value::i128_to_be_sized(dec(&self.dec_f, 3), 8).unwrap()),
			R::Bytes(big),
			dur_r(&[self.dur.months, self.dur.days, self.dur.milliseconds]),
			dur_r(&[self.dur_t.0, self.dur_t.1, self.dur_t.2]),
			R::Int(self.date),
			R::Long(self.ts),
			rstr(&self.uuid),
			R::Fixed(self.fx.clone()),
		])
	}
}

#[derive(Serialize, Deserialize, Debug, Clone)]
pub struct NewtypeI(i32);
#[derive(Serialize, Deserialize, Debug, Clone)]
pub struct WithNewtypes {
	n: NewtypeI,
	s: NewtypeS,
	o: Option<NewtypeI>,
}
#[derive(Serialize, Deserialize, Debug, Clone)]
pub struct NewtypeS(String);
impl Fam for WithNewtypes {
	const NAME: &'static str = "serde newtype structs (transparent) over int / string, also optional";
	fn schema() -> S {
		S::record("WithNewtypes", vec![("n", S::Int), ("s", S::String), ("o", S::Union(vec![S::Null, S::Int]))])
	}
	fn values() -> Vec<Self> {
		let mut out = Vec::new();
		for &n in &I32S {
			for s in strs() {
				out.push(WithNewtypes { n: NewtypeI(n), s: NewtypeS(s), o: if n < 0 { None } else { Some(NewtypeI(n)) } });
			}
		}
		out
	}
	fn to_r(&self) -> R {
		R::Record(vec![R::Int(self.n.0), rstr(&self.s.0), opt_r(&self.o, 0, |v| R::Int(v.0))])
	}
}

#[derive(Serialize, Deserialize, Debug, Clone)]
pub struct Tuples {
	a: (i32, i32),
	b: i32,
	c: [i64; 3],
	d: String,
	e: Vec<(String, bool)>,
	f: Pair,
	/// an array that sits behind a union branch (the tuple hint reaches it through the union)
	h: (i32, i32),
	g: i64,
}
#[derive(Serialize, Deserialize, Debug, Clone)]
pub struct Pair(i32, i32);
impl Fam for Tuples {
	const NAME: &'static str = "fixed-size sequences (tuples, [T; N], tuple structs) over Avro arrays, followed by other fields";
	fn schema() -> S {
		S::record(
			"Tuples",
			vec![
				("a", S::array(S::Int)),
				("b", S::Int),
				("c", S::array(S::Long)),
				("d", S::String),
				("e", S::array(S::array(S::Union(vec![S::String, S::Boolean])))),
				("f", S::array(S::Int)),
				("h", S::Union(vec![S::array(S::Int), S::String])),
				("g", S::Long),
			],
		)
	}
	fn values() -> Vec<Self> {
		let mut out = Vec::new();
		for &x in &I32S {
			for e in [vec![], vec![("k".to_owned(), true)], vec![("".to_owned(), false), ("é".to_owned(), true)]] {
				out.push(Tuples { a: (x, -1), b: 7, c: [x as i64, i64::MIN, 0], d: "after".into(), e, f: Pair(x, 64), h: (x, 1), g: -65 });
			}
		}
		out
	}
	fn to_r(&self) -> R {
		let ints = |v: &[i32]| R::Array(v.iter().map(|x| R::Int(*x)).collect());
		R::Record(vec![
			ints(&[self.a.0, self.a.1]),
			R::Int(self.b),
			R::Array(self.c.iter().map(|x| R::Long(*x)).collect()),
			rstr(&self.d),
			R::Array(self.e.iter().map(|(s, b)| R::Array(vec![R::Union(0, Box::new(rstr(s))), R::Union(1, Box::new(R::Bool(*b)))])).collect()),
			ints(&[self.f.0, self.f.1]),
			R::Union(0, Box::new(ints(&[self.h.0, self.h.1]))),
			R::Long(self.g),
		])
	}
}

#[derive(Serialize, Deserialize, Debug, Clone)]
pub struct OptUnions {
	/// `Option` of an enum-as-union over a two-branch union that has no null branch
	a: Option<IntOrString>,
	/// the same with the branches the other way round
	b: Option<IntOrString>,
	/// over a union that has a null branch: `None` is that branch
	c: Option<IntOrString>,
	/// bytes / named fixed / long branches
	d: Option<LongOrBytesOrFx>,
	/// an enum branch and a record branch
	e: Option<SymOrInner>,
	/// `Option` of a plain type over a union that has more branches than `null` and that type
	f: Option<i64>,
	g: Option<Inner>,
	h: Option<String>,
	z: i32,
}
#[derive(Serialize, Deserialize, Debug, Clone)]
pub enum IntOrString {
	Int(i32),
	String(String),
}
#[derive(Serialize, Deserialize, Debug, Clone)]
pub enum LongOrBytesOrFx {
	Long(i64),
	Bytes(#[serde(with = "serde_bytes")] Vec<u8>),
}
#[derive(Serialize, Deserialize, Debug, Clone)]
pub enum SymOrInner {
	#[serde(rename = "ns.Sym")]
	Sym(Sym),
	#[serde(rename = "ns.InnerU")]
	Inner(Inner),
}
impl Fam for OptUnions {
	const NAME: &'static str = "Option of enums-as-unions over unions with and without a null branch";
	fn schema() -> S {
		S::record(
			"OptUnions",
			vec![
				("a", S::Union(vec![S::Int, S::String])),
				("b", S::Union(vec![S::String, S::Int])),
				("c", S::Union(vec![S::Int, S::Null, S::String])),
				("d", S::Union(vec![S::Long, S::Bytes])),
				("e", S::Union(vec![S::enum_("ns.Sym", &["A", "B", "C"]), inner_schema("ns.InnerU")])),
				("f", S::Union(vec![S::Long, S::Null, S::String])),
				("g", S::Union(vec![S::Null, S::Boolean, inner_schema("ns.InnerV")])),
				("h", S::Union(vec![S::Int, S::String, S::Null])),
				("z", S::Int),
			],
		)
	}
	fn values() -> Vec<Self> {
		let mut ios = vec![IntOrString::String(String::new()), IntOrString::String("Int".into()), IntOrString::String("é".into())];
		ios.extend(I32S.iter().map(|i| IntOrString::Int(*i)));
		let ds = [LongOrBytesOrFx::Long(i64::MIN), LongOrBytesOrFx::Long(5), LongOrBytesOrFx::Bytes(vec![]), LongOrBytesOrFx::Bytes(vec![0, 0xff, 0x80])];
		let es = [SymOrInner::Sym(Sym::A), SymOrInner::Sym(Sym::C), SymOrInner::Inner(Inner { x: -1, y: None }), SymOrInner::Inner(Inner { x: 64, y: Some(true) })];
		let mut out = Vec::new();
		for (i, a) in ios.iter().enumerate() {
			for (j, b) in ios.iter().enumerate() {
				let c = if (i + j) % 3 == 0 { None } else { Some(ios[(i + 2 * j) % ios.len()].clone()) };
				out.push(OptUnions { a: Some(a.clone()), b: Some(b.clone()), c, d: Some(ds[(i + j) % ds.len()].clone()), e: Some(es[(i * 3 + j) % es.len()].clone()),
					f: if i % 3 == 0 { None } else { Some(I64S[(i + j) % I64S.len()]) },
					g: if j % 3 == 0 { None } else { Some(Inner { x: i as i32 - 3, y: if j % 2 == 0 { None } else { Some(i % 2 == 0) } }) },
					h: if (i + j) % 4 == 0 { None } else { Some(strs()[(i + j) % strs().len()].clone()) },
					z: -65,
				});
			}
		}
		out
	}
	fn to_r(&self) -> R {
		let ios = |v: &IntOrString, int_idx: usize, str_idx: usize| match v {
			IntOrString::Int(i) => R::Union(int_idx, Box::new(R::Int(*i))),
			IntOrString::String(s) => R::Union(str_idx, Box::new(rstr(s))),
		};
		R::Record(vec![
			ios(self.a.as_ref().unwrap(), 0, 1),
			ios(self.b.as_ref().unwrap(), 1, 0),
			match &self.c {
				None => R::Union(1, Box::new(R::Null)),
				Some(v) => ios(v, 0, 2),
			},
			match self.d.as_ref().unwrap() {
				LongOrBytesOrFx::Long(l) => R::Union(0, Box::new(R::Long(*l))),
				LongOrBytesOrFx::Bytes(b) => R::Union(1, Box::new(R::Bytes(b.clone()))),
			},
			match self.e.as_ref().unwrap() {
				SymOrInner::Sym(s) => R::Union(0, Box::new(sym_r(s))),
				SymOrInner::Inner(i) => R::Union(1, Box::new(inner_r(i))),
			},
			match &self.f {
				None => R::Union(1, Box::new(R::Null)),
				Some(v) => R::Union(0, Box::new(R::Long(*v))),
			},
			match &self.g {
				None => R::Union(0, Box::new(R::Null)),
				Some(v) => R::Union(2, Box::new(inner_r(v))),
			},
			match &self.h {
				None => R::Union(2, Box::new(R::Null)),
				Some(v) => R::Union(1, Box::new(rstr(v))),
			},
			R::Int(self.z),
		])
	}
}

#[derive(Serialize, Deserialize, Debug, Clone)]
pub struct IntsAsDecimals {
	a: i64,
	/// presented to the serializer as an `i32`; integers narrower than 64 bits are not offered as
	/// targets for decimals by the deserializer, so it is read back as an `i64`
	#[serde(serialize_with = "ser_as_i32")]
	b: i64,
	c: u64,
	d: i128,
	e: i64,
	/// an integer presented under a decimal of scale 2 (read back as a `Decimal`: integer targets
	/// are only offered for scale 0)
	#[serde(serialize_with = "ser_dec_as_i64")]
	f: rust_decimal::Decimal,
	z: i32,
}
fn ser_dec_as_i64<Se: serde::Serializer>(v: &rust_decimal::Decimal, s: Se) -> Result<Se::Ok, Se::Error> {
	use rust_decimal::prelude::ToPrimitive;
	s.serialize_i64(v.to_i64().expect("integer-valued by construction"))
}
fn ser_as_i32<Se: serde::Serializer>(v: &i64, s: Se) -> Result<Se::Ok, Se::Error> {
	s.serialize_i32(*v as i32)
}
impl Fam for IntsAsDecimals {
	const NAME: &'static str = "plain Rust integers under decimal schemas (bytes and fixed, scale 0 and 2)";
	fn schema() -> S {
		S::record(
			"IntsAsDecimals",
			vec![
				("a", S::decimal_bytes(30, 0)),
				("b", S::decimal_bytes(30, 0)),
				("c", S::decimal_bytes(30, 0)),
				("d", S::decimal_bytes(30, 0)),
				("e", S::decimal_fixed("ns.DecI", 16, 30, 0)),
				("f", S::decimal_bytes(30, 2)),
				("z", S::Int),
			],
		)
	}
	fn values() -> Vec<Self> {
		// magnitudes around every whole-byte boundary of the two's-complement representation
		let mut xs: Vec<i64> = vec![0, 1, -1];
		for bits in [7u32, 8, 15, 16, 23, 24, 31, 32, 39, 40, 47, 48, 55, 56, 62] {
			let p = 1i64 << bits;
			xs.extend([p - 1, p, p + 1, -p + 1, -p, -p - 1]);
		}
		xs.extend([i64::MAX, i64::MIN, i64::MIN + 1]);
		xs.into_iter()
			.map(|x| IntsAsDecimals { a: x, b: x as i32 as i64, c: x as u64, d: (x as i128) * 3, e: x.wrapping_neg(), f: rust_decimal::Decimal::new(x / 128, 0), z: -65 })
			.collect()
	}
	fn to_r(&self) -> R {
		let b = |v: i128| R::Bytes(vmodel::value::i128_to_be_min(v));
		R::Record(vec![
			b(self.a as i128),
			b(self.b as i128),
			b(self.c as i128),
			b(self.d),
			R::Fixed(vmodel::value::i128_to_be_sized(self.e as i128, 16).unwrap()),
			b({
				let mut d = self.f;
				d.rescale(2);
				d.mantissa()
			}),
			R::Int(self.z),
		])
	}
}

#[derive(Serialize, Deserialize, Debug, Clone)]
pub struct EnumsOverPlainNodes {
	/// Rust enums whose schema node is not a union: the variant is named after the node's type
	a: OnlyDouble,
	b: OnlyBoolean,
	c: OnlyArray,
	d: OnlyRecord,
	e: OnlyNull,
	f: OnlyDate,
	/// tuple variants: over a plain array, and over an array branch of a union
	g: TupleOverArray,
	h: TupleInUnion,
	/// a unit enum named by a string (the serializer does not offer int nodes for unit variants)
	i: Sym,
	/// `Option` over a node that is just `null`
	k: Option<i32>,
	z: i32,
}
#[derive(Serialize, Deserialize, Debug, Clone)]
pub enum OnlyDouble {
	Double(f64),
}
#[derive(Serialize, Deserialize, Debug, Clone)]
pub enum OnlyBoolean {
	Boolean(bool),
}
#[derive(Serialize, Deserialize, Debug, Clone)]
pub enum OnlyArray {
	Array(Vec<i64>),
}
#[derive(Serialize, Deserialize, Debug, Clone)]
pub enum OnlyRecord {
	#[serde(rename = "ns.InnerP")]
	Inner(Inner),
}
#[derive(Serialize, Deserialize, Debug, Clone)]
pub enum OnlyNull {
	Null,
}
#[derive(Serialize, Deserialize, Debug, Clone)]
pub enum OnlyDate {
	Date(i32),
}
#[derive(Serialize, Deserialize, Debug, Clone)]
pub enum TupleOverArray {
	Array(i32, i32),
}
#[derive(Serialize, Deserialize, Debug, Clone)]
pub enum TupleInUnion {
	String(String),
	Array(i32, i32),
}
impl Fam for EnumsOverPlainNodes {
	const NAME: &'static str = "Rust enums over nodes that are not unions (variant named after the node type), tuple variants, unit enum over string, Option over null";
	fn schema() -> S {
		S::record(
			"EnumsOverPlainNodes",
			vec![
				("a", S::Double),
				("b", S::Boolean),
				("c", S::array(S::Long)),
				("d", inner_schema("ns.InnerP")),
				("e", S::Null),
				("f", S::logical(Logical::Date, S::Int)),
				("g", S::array(S::Int)),
				("h", S::Union(vec![S::String, S::array(S::Int)])),
				("i", S::String),
				("k", S::Null),
				("z", S::Int),
			],
		)
	}
	fn values() -> Vec<Self> {
		let mut out = Vec::new();
		for (n, &x) in I32S.iter().enumerate() {
			for (m, sym) in [Sym::A, Sym::B, Sym::C].into_iter().enumerate() {
				out.push(EnumsOverPlainNodes {
					a: OnlyDouble::Double(f64::from_bits(gen::F64_FULL[(n + m) % gen::F64_FULL.len()])),
					b: OnlyBoolean::Boolean((n + m) % 2 == 0),
					c: OnlyArray::Array(if m == 0 { vec![] } else { vec![x as i64, i64::MIN] }),
					d: OnlyRecord::Inner(Inner { x, y: if m == 1 { None } else { Some(m == 2) } }),
					e: OnlyNull::Null,
					f: OnlyDate::Date(x),
					g: TupleOverArray::Array(x, -1),
					h: if m == 0 { TupleInUnion::String("Array".into()) } else { TupleInUnion::Array(x, 64) },
					i: sym,
					k: None,
					z: -65,
				});
			}
		}
		out
	}
	fn to_r(&self) -> R {
		let ints = |v: &[i32]| R::Array(v.iter().map(|x| R::Int(*x)).collect());
		R::Record(vec![
			match &self.a {
				OnlyDouble::Double(d) => R::Double(d.to_bits()),
			},
			match &self.b {
				OnlyBoolean::Boolean(b) => R::Bool(*b),
			},
			match &self.c {
				OnlyArray::Array(v) => R::Array(v.iter().map(|x| R::Long(*x)).collect()),
			},
			match &self.d {
				OnlyRecord::Inner(i) => inner_r(i),
			},
			R::Null,
			match &self.f {
				OnlyDate::Date(d) => R::Int(*d),
			},
			match &self.g {
				TupleOverArray::Array(a, b) => ints(&[*a, *b]),
			},
			match &self.h {
				TupleInUnion::String(s) => R::Union(0, Box::new(rstr(s))),
				TupleInUnion::Array(a, b) => R::Union(1, Box::new(ints(&[*a, *b]))),
			},
			rstr(["A", "B", "C"][self.i as usize]),
			R::Null,
			R::Int(self.z),
		])
	}
}

#[derive(Serialize, Deserialize, Debug, Clone)]
pub struct ShortVsFullNames {
	/// unions in which the full name of one branch is the short name of another, both orders
	a: PlainOrNamespaced,
	b: PlainOrNamespaced,
	/// a fixed in the null namespace and one of the same short name in a namespace
	c: FxOrNsFx,
	z: i32,
}
#[derive(Serialize, Deserialize, Debug, Clone)]
pub enum PlainOrNamespaced {
	#[serde(rename = "R")]
	Plain(Inner),
	#[serde(rename = "a.R")]
	Namespaced(Inner),
}
#[derive(Serialize, Deserialize, Debug, Clone)]
pub enum FxOrNsFx {
	#[serde(rename = "F")]
	Plain(#[serde(with = "serde_bytes")] Vec<u8>),
	#[serde(rename = "b.F")]
	Namespaced(#[serde(with = "serde_bytes")] Vec<u8>),
}
impl Fam for ShortVsFullNames {
	const NAME: &'static str = "unions in which the full name of one branch is the short name of another";
	fn schema() -> S {
		S::record(
			"ShortVsFullNames",
			vec![
				("a", S::Union(vec![inner_schema("R"), inner_schema("a.R")])),
				("b", S::Union(vec![inner_schema("c.R"), S::Ref("R".into()), S::Null])),
				("c", S::Union(vec![S::fixed("b.F", 2), S::fixed("F", 2)])),
				("z", S::Int),
			],
		)
	}
	fn values() -> Vec<Self> {
		let inner = |x: i32| Inner { x, y: Some(x % 2 == 0) };
		let mut out = Vec::new();
		for k in 0..8 {
			out.push(ShortVsFullNames {
				a: if k & 1 == 0 { PlainOrNamespaced::Plain(inner(k)) } else { PlainOrNamespaced::Namespaced(inner(-k)) },
				b: PlainOrNamespaced::Plain(inner(if k & 2 == 0 { k + 64 } else { -65 })),
				c: if k & 4 == 0 { FxOrNsFx::Plain(vec![k as u8, 0xff]) } else { FxOrNsFx::Namespaced(vec![0x80, k as u8]) },
				z: -65,
			});
		}
		out
	}
	fn to_r(&self) -> R {
		R::Record(vec![
			match &self.a {
				PlainOrNamespaced::Plain(i) => R::Union(0, Box::new(inner_r(i))),
				PlainOrNamespaced::Namespaced(i) => R::Union(1, Box::new(inner_r(i))),
			},
			match &self.b {
				// here the namespaced record is `c.R`, which the enum does not name: only the plain one is used
				PlainOrNamespaced::Plain(i) | PlainOrNamespaced::Namespaced(i) => R::Union(1, Box::new(inner_r(i))),
			},
			match &self.c {
				FxOrNsFx::Plain(b) => R::Union(1, Box::new(R::Fixed(b.clone()))),
				FxOrNsFx::Namespaced(b) => R::Union(0, Box::new(R::Fixed(b.clone()))),
			},
			R::Int(self.z),
		])
	}
}

#[derive(Serialize, Deserialize, Debug, Clone)]
pub struct SkippedOptionals {
	/// optional fields that are NOT PRESENTED when `None` (the serializer has to fill in the null
	/// branch), each followed in the schema by zero, one, two or three presented fields
	#[serde(skip_serializing_if = "Option::is_none", default)]
	a: Option<i64>,
	b: String,
	c: i32,
	#[serde(skip_serializing_if = "Option::is_none", default)]
	d: Option<String>,
	e: bool,
	f: i64,
	g: i32,
	#[serde(skip_serializing_if = "Option::is_none", default)]
	h: Option<i32>,
	#[serde(skip_serializing_if = "Option::is_none", default)]
	i: Option<i32>,
	j: String,
	#[serde(skip_serializing_if = "Option::is_none", default)]
	k: Option<Inner>,
}
impl Fam for SkippedOptionals {
	const NAME: &'static str = "struct with optional fields skipped when None (skip_serializing_if), every subset";
	fn schema() -> S {
		let opt = |s: S| S::Union(vec![S::Null, s]);
		S::record(
			"SkippedOptionals",
			vec![
				("a", opt(S::Long)),
				("b", S::String),
				("c", S::Int),
				("d", S::Union(vec![S::String, S::Null])),
				("e", S::Boolean),
				("f", S::Long),
				("g", S::Int),
				("h", opt(S::Int)),
				("i", opt(S::Int)),
				("j", S::String),
				("k", opt(inner_schema("ns.InnerS"))),
			],
		)
	}
	fn values() -> Vec<Self> {
		(0u32..32)
			.map(|m| SkippedOptionals {
				a: (m & 1 != 0).then_some(i64::MIN),
				b: "b".into(),
				c: -65,
				d: (m & 2 != 0).then(|| "é".to_owned()),
				e: m % 3 == 0,
				f: 1 << 40,
				g: 64,
				h: (m & 4 != 0).then_some(-1),
				i: (m & 8 != 0).then_some(i32::MAX),
				j: String::new(),
				k: (m & 16 != 0).then(|| Inner { x: m as i32, y: None }),
			})
			.collect()
	}
	fn to_r(&self) -> R {
		R::Record(vec![
			opt_r(&self.a, 0, |v| R::Long(*v)),
			rstr(&self.b),
			R::Int(self.c),
			opt_r(&self.d, 1, |v| rstr(v)),
			R::Bool(self.e),
			R::Long(self.f),
			R::Int(self.g),
			opt_r(&self.h, 0, |v| R::Int(*v)),
			opt_r(&self.i, 0, |v| R::Int(*v)),
			rstr(&self.j),
			opt_r(&self.k, 0, inner_r),
		])
	}
}

#[derive(Serialize, Deserialize, Debug, Clone, PartialEq)]
pub struct Borrowed<'a> {
	s: &'a str,
	#[serde(with = "serde_bytes")]
	b: &'a [u8],
	n: i64,
	#[serde(borrow)]
	o: Option<&'a str>,
}

// ---------------------------------------------------------------------------------------------

fn violation(out: &mut Vec<Violation>, fam: &str, idx: usize, schema_text: &str, class: &str, what: String) {
	if out.len() < 100 {
		out.push(Violation { class: class.to_owned(), what: format!("typed family `{fam}` schema {schema_text}: {what}"), replay: json!({"check": "C01", "typed_family": fam, "value_index": idx}) });
	}
}

pub fn run_family<T: Fam + DeserializeOwned>(cover: &mut Cover, out: &mut Vec<Violation>, only: Option<usize>) {
	let rs = T::schema();
	let env = Env::new(&rs);
	let text = gen::schema_text(&rs);
	let schema = match gen::to_crate_schema(&rs) {
		Ok(s) => s,
		Err(e) => {
			violation(out, T::NAME, 0, &text, "schema-rejected", e);
			return;
		}
	};
	for (idx, v) in T::values().into_iter().enumerate() {
		if only.map_or(false, |o| o != idx) {
			continue;
		}
		let expected_r = v.to_r();
		let expected_bytes = match vmodel::value::encode(&expected_r, &rs, &env, &mut Canonical) {
			Ok(b) => b,
			Err(e) => panic!("MACHINERY: typed family {}: reference encoder rejects {expected_r:?}: {e}", T::NAME),
		};
		cover.evaluations += 1;
		cover.impl_runs += 1;
		let bytes = match guarded(|| serde_avro_fast::to_datum_vec(&v, &mut serde_avro_fast::ser::SerializerConfig::new(&schema)).map_err(|e| e.to_string())) {
			Out::Ok(b) => b,
			Out::Err(e) => {
				violation(out, T::NAME, idx, &text, "typed-ser-err", format!("value {v:?} failed to serialize: {e}"));
				continue;
			}
			Out::Panic(e) => {
				violation(out, T::NAME, idx, &text, "typed-ser-panic", format!("value {v:?} panicked while serializing: {e}"));
				continue;
			}
		};
		// any valid layout is accepted: judge by the reference decoder
		match vmodel::value::decode(&bytes, &rs, &env) {
			vmodel::value::Verdict::Valid(r2, n) if r2 == expected_r && n == bytes.len() => {}
			other => {
				violation(out, T::NAME, idx, &text, "typed-bytes-differ", format!("value {v:?} gave bytes [{}] (reference encoding [{}]); the reference decodes them as {other:?}", hex(&bytes), hex(&expected_bytes)));
				continue;
			}
		}
		cover.outcomes.insert(hash64(&bytes));
		cover.nontrivial.insert(hash64(&("typed", T::NAME, idx)));
		if idx == 1 {
			cover.sample(json!({"typed_family": T::NAME, "schema": text, "value": format!("{v:?}"), "bytes": hex(&bytes)}));
		}
		let mut padded = bytes.clone();
		padded.extend_from_slice(&[0x2a, 0x2a]);
		// slice
		cover.impl_runs += 1;
		match guarded(|| serde_avro_fast::from_datum_slice::<T>(&padded, &schema).map_err(|e| e.to_string())) {
			Out::Ok(back) => {
				if back.to_r() != expected_r {
					violation(out, T::NAME, idx, &text, "typed-de-differs", format!("slice: bytes [{}] of {v:?} decoded to {back:?}", hex(&bytes)));
				}
			}
			Out::Err(e) => violation(out, T::NAME, idx, &text, "typed-de-err", format!("slice: bytes [{}] of {v:?} failed to deserialize into the same type: {e}", hex(&bytes))),
			Out::Panic(e) => violation(out, T::NAME, idx, &text, "typed-de-panic", format!("slice: bytes [{}] of {v:?} panicked: {e}", hex(&bytes))),
		}
		// reader: whole buffer and one byte per refill
		for chunk in [0usize, 1] {
			cover.impl_runs += 1;
			match guarded(|| serde_avro_fast::from_datum_reader::<_, T>(ChunkedBufRead::uniform(&padded, chunk), &schema).map_err(|e| e.to_string())) {
				Out::Ok(back) => {
					if back.to_r() != expected_r {
						violation(out, T::NAME, idx, &text, "typed-de-differs", format!("reader chunk={chunk}: bytes [{}] of {v:?} decoded to {back:?}", hex(&bytes)));
					}
				}
				Out::Err(e) => violation(out, T::NAME, idx, &text, "typed-de-err", format!("reader chunk={chunk}: bytes [{}] of {v:?} failed to deserialize into the same type: {e}", hex(&bytes))),
				Out::Panic(e) => violation(out, T::NAME, idx, &text, "typed-de-panic", format!("reader chunk={chunk}: bytes [{}] of {v:?} panicked: {e}", hex(&bytes))),
			}
		}
	}
}

/// Fixed-size sequence targets against arrays of another length: the decoder must not make up a
/// value (surplus elements silently dropped, or what follows the array read as if it were the
/// next field). Every array length 0..=4 in every split into blocks, for targets of 2 elements.
pub fn run_length_mismatch(cover: &mut Cover, out: &mut Vec<Violation>) {
	#[derive(Deserialize, Debug)]
	#[allow(dead_code)]
	struct TupleTarget {
		a: (i32, i32),
		b: i32,
	}
	#[derive(Deserialize, Debug)]
	#[allow(dead_code)]
	struct ArrayTarget {
		a: [i32; 2],
		b: i32,
	}
	#[derive(Deserialize, Debug)]
	#[allow(dead_code)]
	struct PairTarget {
		a: Pair,
		b: i32,
	}
	const FAM: &str = "fixed-size sequence targets over arrays of another length";
	let rs = S::record("Mismatch", vec![("a", S::array(S::Int)), ("b", S::Int)]);
	let text = gen::schema_text(&rs);
	let schema = gen::to_crate_schema(&rs).expect("mismatch schema");
	let zz = |v: i64| -> Vec<u8> {
		let mut z = ((v << 1) ^ (v >> 63)) as u64;
		let mut o = Vec::new();
		loop {
			let b = (z & 0x7f) as u8;
			z >>= 7;
			if z == 0 {
				o.push(b);
				return o;
			}
			o.push(b | 0x80);
		}
	};
	let mut idx = 0usize;
	for n in 0usize..=4 {
		// every composition of n items into blocks, every block plain (positive count) or sized
		// (negative count followed by the byte size) - all blocks plain, all sized, and alternating
		for (cuts, sized_mask) in (0u32..(1 << n.saturating_sub(1))).flat_map(|c| [0u32, u32::MAX, 0x5555_5555, 0xaaaa_aaaa].into_iter().map(move |m| (c, m))) {
			if n == 0 && sized_mask != 0 {
				continue;
			}
			let mut bytes = Vec::new();
			let mut start = 0;
			let mut block_no = 0;
			for i in 0..n {
				let last_of_block = i + 1 == n || cuts & (1 << i) != 0;
				if last_of_block {
					let mut items = Vec::new();
					for k in start..=i {
						items.extend(zz(10 + k as i64));
					}
					let count = (i + 1 - start) as i64;
					if sized_mask & (1 << block_no) != 0 {
						bytes.extend(zz(-count));
						bytes.extend(zz(items.len() as i64));
					} else {
						bytes.extend(zz(count));
					}
					bytes.extend(items);
					start = i + 1;
					block_no += 1;
				}
			}
			bytes.extend(zz(0));
			bytes.extend(zz(7));
			bytes.extend_from_slice(&[0x2a, 0x2a]);
			macro_rules! target {
				($t:ty, $name:literal) => {{
					for path in 0..3usize {
						cover.evaluations += 1;
						cover.impl_runs += 1;
						let r = match path {
							0 => guarded(|| serde_avro_fast::from_datum_slice::<$t>(&bytes, &schema).map(|v| format!("{v:?}")).map_err(|e| e.to_string())),
							p => guarded(|| serde_avro_fast::from_datum_reader::<_, $t>(ChunkedBufRead::uniform(&bytes, p - 1), &schema).map(|v| format!("{v:?}")).map_err(|e| e.to_string())),
						};
						let what = |got: String| format!("target {} path {}: array of {n} items in blocks (cut mask {cuts:#b}, sized-block mask {:#b}) followed by b = 7, bytes [{}]: {got}", $name, ["slice", "reader (one chunk)", "reader (1-byte chunks)"][path], sized_mask & 0xf, hex(&bytes));
						match r {
							Out::Ok(v) if n == 2 => {
								if !v.contains("10, 11") || !v.contains("b: 7") {
									violation(out, FAM, idx, &text, "typed-de-differs", what(format!("decoded to {v}")));
								}
								cover.nontrivial.insert(hash64(&("mismatch-ok", n, cuts, sized_mask)));
							}
							Out::Ok(v) => violation(out, FAM, idx, &text, "typed-length-mismatch-accepted", what(format!("a 2-element target was filled from an array of {n}: decoded to {v}"))),
							Out::Err(e) if n == 2 => violation(out, FAM, idx, &text, "typed-de-err", what(format!("failed: {e}"))),
							Out::Err(_) => {
								cover.nontrivial.insert(hash64(&("mismatch-err", n, cuts, sized_mask)));
							}
							Out::Panic(e) => violation(out, FAM, idx, &text, "typed-de-panic", what(format!("panicked: {e}"))),
						}
					}
				}};
			}
			target!(TupleTarget, "(i32, i32)");
			target!(ArrayTarget, "[i32; 2]");
			target!(PairTarget, "tuple struct Pair(i32, i32)");
			idx += 1;
		}
	}
}

/// Borrowed `&str` / `&[u8]` fields: decoded from a slice they must point into the input.
pub fn run_borrowed(cover: &mut Cover, out: &mut Vec<Violation>) {
	let rs = S::record("Borrowed", vec![("s", S::String), ("b", S::Bytes), ("n", S::Long), ("o", S::Union(vec![S::Null, S::String]))]);
	let env = Env::new(&rs);
	let text = gen::schema_text(&rs);
	let schema = gen::to_crate_schema(&rs).expect("borrowed schema");
	const NAME: &str = "struct with borrowed &str / &[u8] / Option<&str>";
	let strs = strs();
	let bytess = bytess();
	let mut idx = 0;
	for s in &strs {
		for b in &bytess {
			for o in [None, Some("é"), Some("")] {
				idx += 1;
				let v = Borrowed { s, b, n: -(idx as i64), o };
				let expected_r = R::Record(vec![rstr(s), R::Bytes(b.clone()), R::Long(v.n), opt_r(&o, 0, |x| rstr(x))]);
				let expected_bytes = vmodel::value::encode(&expected_r, &rs, &env, &mut Canonical).unwrap();
				cover.evaluations += 1;
				cover.impl_runs += 2;
				let bytes = match guarded(|| serde_avro_fast::to_datum_vec(&v, &mut serde_avro_fast::ser::SerializerConfig::new(&schema)).map_err(|e| e.to_string())) {
					Out::Ok(b) => b,
					other => {
						violation(out, NAME, idx, &text, "typed-ser-err", format!("value {v:?}: {}", other.kind()));
						continue;
					}
				};
				if bytes != expected_bytes {
					violation(out, NAME, idx, &text, "typed-bytes-differ", format!("value {v:?} gave [{}], reference [{}]", hex(&bytes), hex(&expected_bytes)));
					continue;
				}
				cover.nontrivial.insert(hash64(&("typed-borrowed", idx)));
				let input = bytes.clone();
				let range = input.as_ptr() as usize..input.as_ptr() as usize + input.len();
				match guarded(|| serde_avro_fast::from_datum_slice::<Borrowed>(&input, &schema).map_err(|e| e.to_string())) {
					Out::Ok(back) => {
						if back != v {
							violation(out, NAME, idx, &text, "typed-de-differs", format!("bytes [{}] of {v:?} decoded to {back:?}", hex(&bytes)));
						}
						let inside = |p: *const u8, len: usize| len == 0 || (range.contains(&(p as usize)) && p as usize + len <= range.end);
						if !inside(back.s.as_ptr(), back.s.len()) || !inside(back.b.as_ptr(), back.b.len()) || !back.o.map_or(true, |o| inside(o.as_ptr(), o.len())) {
							violation(out, NAME, idx, &text, "borrow-outside-input", format!("value {v:?}: a borrowed field does not point into the input slice"));
						}
					}
					Out::Err(e) => violation(out, NAME, idx, &text, "typed-de-err", format!("bytes [{}] of {v:?} failed to deserialize borrowing from the slice: {e}", hex(&bytes))),
					Out::Panic(e) => violation(out, NAME, idx, &text, "typed-de-panic", format!("{v:?}: {e}")),
				}
			}
		}
	}
}

pub fn run_all(cover: &mut Cover, out: &mut Vec<Violation>) {
	run_family::<Prim>(cover, out, None);
	run_family::<Floats>(cover, out, None);
	run_family::<Widths>(cover, out, None);
	run_family::<Opts>(cover, out, None);
	run_family::<UnionNewtype>(cover, out, None);
	run_family::<UnionStructVariant>(cover, out, None);
	run_family::<WithEnum>(cover, out, None);
	run_family::<Colls>(cover, out, None);
	run_family::<List>(cover, out, None);
	run_family::<Tree>(cover, out, None);
	run_family::<Logicals>(cover, out, None);
	run_family::<WithNewtypes>(cover, out, None);
	run_family::<Tuples>(cover, out, None);
	run_family::<OptUnions>(cover, out, None);
	run_family::<IntsAsDecimals>(cover, out, None);
	run_family::<EnumsOverPlainNodes>(cover, out, None);
	run_family::<ShortVsFullNames>(cover, out, None);
	run_family::<SkippedOptionals>(cover, out, None);
	run_borrowed(cover, out);
	run_length_mismatch(cover, out);
	cover.count("typed_families", 19);
}

pub fn replay(family: &str, idx: usize) -> Vec<Violation> {
	let mut cover = Cover::default();
	let mut out = Vec::new();
	macro_rules! try_fam {
		($($t:ty),*) => {$(
			if <$t as Fam>::NAME == family {
				run_family::<$t>(&mut cover, &mut out, Some(idx));
				return out;
			}
		)*};
	}
	try_fam!(Prim, Floats, Widths, Opts, UnionNewtype, UnionStructVariant, WithEnum, Colls, List, Tree, Logicals, WithNewtypes, Tuples, OptUnions, IntsAsDecimals, EnumsOverPlainNodes, ShortVsFullNames, SkippedOptionals);
	run_borrowed(&mut cover, &mut out);
	run_length_mismatch(&mut cover, &mut out);
	out
}
