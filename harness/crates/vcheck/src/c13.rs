//! C13 — record bytes independent of the order in which fields are presented; omitted nullable
//! fields encode as null; unknown / duplicate / missing-required ⇒ Err, never a panic or an
//! encoding with fields misplaced.
//!
//! Two engines, both executing every case on the real `DatumSerializer`:
//!
//! * **SAE** — the serialization itself is the choice tree. `Lazy` is a `Serialize` value that
//!   takes its decisions from the explorer's `Chooser` *while being serialized*: at every record
//!   occurrence (top level, nested, inside arrays / unions) and at every step it picks the next
//!   field among the not-yet-presented ones (⇒ all permutations), or `end` (⇒ all omission
//!   subsets; `end` with a required field missing is the "omitted required field" injection), or —
//!   once per execution — an unknown field or a duplicate of any already presented field. Nested
//!   records are permuted independently because every occurrence makes its own picks. After each
//!   accepted field of a record whose bytes go straight to the sink, the bytes emitted so far are
//!   observed through a shared-handle sink and compared with the encodings of fields 0..j-1.
//! * **HIST** — explicit-state BFS over the serializer's own `SerializeStruct` / `SerializeMap`
//!   state machine, driven step by step with a shared-handle sink: states = (set of presented
//!   fields, bytes so far), operations = present(i) for every i (incl. duplicates), unknown, end.

use crate::explore::{explore, hash64, Chooser, Cover};
use crate::gen;
use crate::pres::{intern, Pres};
use crate::report::{hex, Report, Violation};
use crate::subj::{guarded, Out};
use rayon::prelude::*;
use serde::ser::{Serialize, SerializeMap, SerializeSeq, SerializeStruct, Serializer};
use serde_avro_fast::ser::{SerializerConfig, SerializerState};
use serde_json::json;
use std::cell::{Cell, RefCell};
use std::rc::Rc;
use vmodel::schema::{Env, RSchema};
use vmodel::value::{Canonical, RValue, Verdict};

// ---------------------------------------------------------------------------------------------
// shared-handle sink

#[derive(Clone, Default)]
pub struct Shared(pub Rc<RefCell<Vec<u8>>>);
impl Shared {
	pub fn len(&self) -> usize {
		self.0.borrow().len()
	}
	pub fn snapshot(&self) -> Vec<u8> {
		self.0.borrow().clone()
	}
}
impl std::io::Write for Shared {
	fn write(&mut self, buf: &[u8]) -> std::io::Result<usize> {
		self.0.borrow_mut().extend_from_slice(buf);
		Ok(buf.len())
	}
	fn flush(&mut self) -> std::io::Result<()> {
		Ok(())
	}
}

// ---------------------------------------------------------------------------------------------
// schema family

pub const T_INT: u8 = 0;
pub const T_STR: u8 = 1;
pub const T_NULL: u8 = 2;
/// `[null,int]`
pub const T_OPT_INT: u8 = 3;
/// `[int,null]`
pub const T_INT_OPT: u8 = 4;
/// nested record `{a:int, b:[null,int], c:string}`
pub const T_REC1: u8 = 5;
/// array of that record
pub const T_ARR_REC1: u8 = 6;
/// `[null, record]`
pub const T_OPT_REC1: u8 = 7;
/// two nested levels `{k:string, m:{a,b,c}, n:[int,null]}`
pub const T_REC2: u8 = 8;
const FLAT: [u8; 5] = [T_INT, T_STR, T_NULL, T_OPT_INT, T_INT_OPT];
const NESTED: [u8; 4] = [T_REC1, T_ARR_REC1, T_OPT_REC1, T_REC2];
const FLAT_IN_NESTED: [u8; 3] = [T_INT, T_OPT_INT, T_STR];

const FIELD_NAMES: [&str; 6] = ["f0", "f1", "f2", "f3", "f4", "f5"];
const REC_NAMES: [&str; 6] = ["N0", "N1", "N2", "N3", "N4", "N5"];
const SUB_NAMES: [&str; 6] = ["M0", "M1", "M2", "M3", "M4", "M5"];
const UNKNOWN_FIELD: &str = "zz";

/// `&'static str` for the names used by the schema family (no lock on the hot path)
fn sname(s: &str) -> &'static str {
	for t in [&FIELD_NAMES[..], &REC_NAMES[..], &SUB_NAMES[..], &["a", "b", "c", "k", "m", "n", "Top", UNKNOWN_FIELD][..]] {
		for x in t {
			if *x == s {
				return x;
			}
		}
	}
	intern(s)
}

fn rec1(name: &str) -> RSchema {
	RSchema::record(name, vec![("a", RSchema::Int), ("b", RSchema::Union(vec![RSchema::Null, RSchema::Int])), ("c", RSchema::String)])
}
fn rec2(name: &str, sub: &str) -> RSchema {
	RSchema::record(name, vec![("k", RSchema::String), ("m", rec1(sub)), ("n", RSchema::Union(vec![RSchema::Int, RSchema::Null]))])
}
fn field_type(code: u8, pos: usize) -> RSchema {
	match code {
		T_INT => RSchema::Int,
		T_STR => RSchema::String,
		T_NULL => RSchema::Null,
		T_OPT_INT => RSchema::Union(vec![RSchema::Null, RSchema::Int]),
		T_INT_OPT => RSchema::Union(vec![RSchema::Int, RSchema::Null]),
		T_REC1 => rec1(REC_NAMES[pos]),
		T_ARR_REC1 => RSchema::array(rec1(REC_NAMES[pos])),
		T_OPT_REC1 => RSchema::Union(vec![RSchema::Null, rec1(REC_NAMES[pos])]),
		T_REC2 => rec2(REC_NAMES[pos], SUB_NAMES[pos]),
		_ => panic!("MACHINERY: unknown field type code {code}"),
	}
}
pub fn build_schema(desc: &[u8]) -> RSchema {
	RSchema::Record { name: "Top".into(), fields: desc.iter().enumerate().map(|(i, c)| (FIELD_NAMES[i].to_owned(), field_type(*c, i))).collect() }
}

fn vectors(alphabet: &[u8], len: usize) -> Vec<Vec<u8>> {
	let mut out: Vec<Vec<u8>> = vec![vec![]];
	for _ in 0..len {
		out = out.into_iter().flat_map(|v| alphabet.iter().map(move |a| { let mut w = v.clone(); w.push(*a); w })).collect();
	}
	out
}

/// One SAE unit: a schema (vector of field type codes), the presentation styles it is explored
/// in, and the record depth below which union branches are decision points (deeper unions take
/// the branch (field index + depth) mod #branches).
#[derive(Clone, Debug)]
pub struct SaeUnit {
	pub desc: Vec<u8>,
	pub styles: Vec<u8>,
	pub union_pick_depth: usize,
	pub family: &'static str,
}

fn nested_vectors(len: usize, min_nested: usize, max_nested: usize, nested_alpha: &[u8], max_big: usize) -> Vec<Vec<u8>> {
	let mut alpha: Vec<u8> = FLAT_IN_NESTED.to_vec();
	alpha.extend_from_slice(nested_alpha);
	vectors(&alpha, len)
		.into_iter()
		.filter(|v| {
			let k = v.iter().filter(|c| NESTED.contains(c)).count();
			let big = v.iter().filter(|c| **c == T_ARR_REC1 || **c == T_REC2).count();
			k >= min_nested && k <= max_nested && big <= max_big
		})
		.collect()
}

/// The SAE unit families of a tier (see `run` for the description that goes into the evidence).
pub fn sae_units(thorough: bool) -> Vec<SaeUnit> {
	let mut out = Vec::new();
	let mut add = |family: &'static str, descs: Vec<Vec<u8>>, styles: &[u8], union_pick_depth: usize| {
		for desc in descs {
			out.push(SaeUnit { desc, styles: styles.to_vec(), union_pick_depth, family });
		}
	};
	for n in 0..=4 {
		add("A:flat<=4", vectors(&FLAT, n), &[0, 1, 2], 1);
	}
	if !thorough {
		for n in 1..=2 {
			add("B:nested<=2", nested_vectors(n, 1, 2, &NESTED, 2), &[0, 1, 2], 1);
		}
		add("C1:3 fields, 1 nested type", nested_vectors(3, 1, 1, &NESTED, 1), &[0, 1, 2], 1);
	} else {
		add("A5:flat5", vectors(&FLAT, 5), &[0, 1, 2], 0);
		for n in 1..=2 {
			add("B:nested<=2", nested_vectors(n, 1, 2, &NESTED, 2), &[0, 1, 2, 3, 4, 5], 1);
		}
		add("C1:3 fields, 1 nested type", nested_vectors(3, 1, 1, &NESTED, 1), &[0, 1, 2, 3, 4, 5], 1);
		add("C2:3 fields, 2 nested types (at most one of array<N> / two-level record)", nested_vectors(3, 2, 2, &NESTED, 1), &[0, 1, 2], 1);
		add("D:3 fields, 3 nested types from {N, [null,N]}", nested_vectors(3, 3, 3, &[T_REC1, T_OPT_REC1], 0), &[0, 1, 2, 3], 1);
		add("E:4 fields, 1 nested type", nested_vectors(4, 1, 1, &NESTED, 1), &[0, 2], 0);
	}
	out
}

fn omittable_null(s: &RSchema, env: &Env) -> Option<RValue> {
	match env.resolve(s) {
		RSchema::Null => Some(RValue::Null),
		RSchema::Union(bs) => bs.iter().position(|b| matches!(env.resolve(b), RSchema::Null)).map(|i| RValue::Union(i, Box::new(RValue::Null))),
		_ => None,
	}
}

// ---------------------------------------------------------------------------------------------
// SAE: the lazily decided presentation

const INTS: [i32; 5] = [3, -70, 1000, 0, -1];
const STRS: [&str; 3] = ["", "ab", "hello"];

pub const F_OOO: u32 = 1 << 0;
pub const F_OMIT: u32 = 1 << 1;
pub const F_FLUSH: u32 = 1 << 2;
pub const F_END_FLUSH: u32 = 1 << 3;
pub const F_NESTED_BUF_OOO: u32 = 1 << 4;
pub const F_OMIT_NULLTYPE: u32 = 1 << 5;
pub const F_OMIT_UNION0: u32 = 1 << 6;
pub const F_OMIT_UNION1: u32 = 1 << 7;
pub const F_DUP_EMITTED: u32 = 1 << 8;
pub const F_DUP_BUFFERED: u32 = 1 << 9;
pub const F_DUP_ALLDONE: u32 = 1 << 10;
pub const F_UNKNOWN: u32 = 1 << 11;
pub const F_UNKNOWN_ALLDONE: u32 = 1 << 12;
pub const F_MISSING: u32 = 1 << 13;
pub const F_ARRAY_ELEM_OOO: u32 = 1 << 14;
pub const F_INJ_NESTED: u32 = 1 << 15;
pub const F_INJ_IN_BUFFER: u32 = 1 << 16;
const FLAG_NAMES: [&str; 17] = [
	"sae_leaves_with_out_of_order_field",
	"sae_leaves_with_valid_omission",
	"sae_leaves_flush_after_in_order_field",
	"sae_leaves_end_with_buffers_outstanding",
	"sae_leaves_nested_record_out_of_order_inside_buffered_field",
	"sae_leaves_omitted_null_typed_field",
	"sae_leaves_omitted_union_null_first",
	"sae_leaves_omitted_union_null_second",
	"sae_leaves_duplicate_of_emitted_field",
	"sae_leaves_duplicate_of_buffered_field",
	"sae_leaves_duplicate_after_all_fields",
	"sae_leaves_unknown_field",
	"sae_leaves_unknown_after_all_fields",
	"sae_leaves_missing_required",
	"sae_leaves_array_element_record_out_of_order",
	"sae_leaves_injection_in_nested_record",
	"sae_leaves_injection_inside_buffered_field",
];

/// 0 Struct, 1 Map+serialize_entry, 2 Map+serialize_key/serialize_value; 3..=5: the same three
/// rotated by nesting depth (style of depth d = (code - 3 + d) mod 3)
pub const N_STYLES: u8 = 6;
fn style_name(code: u8) -> &'static str {
	["struct", "map-entry", "map-split-key-value", "rotating(struct,entry,split)", "rotating(entry,split,struct)", "rotating(split,struct,entry)"][code as usize]
}

struct Ctx<'e, 'c> {
	ch: RefCell<&'c mut Chooser>,
	env: &'e Env<'e>,
	sink: Shared,
	vals: RefCell<Vec<RValue>>,
	style: u8,
	union_pick_depth: usize,
	/// description of the injection made in this execution
	injected: RefCell<Option<String>>,
	inj_kind: Cell<&'static str>,
	inj_accepted: Cell<bool>,
	/// the bytes of the node being serialized go straight to the sink
	live: Cell<bool>,
	depth: Cell<usize>,
	in_array: Cell<bool>,
	step_fail: RefCell<Option<String>>,
	steps_checked: Cell<u64>,
	flags: Cell<u32>,
	log: Option<RefCell<String>>,
}

impl<'e, 'c> Ctx<'e, 'c> {
	fn pick(&self, n: usize) -> usize {
		self.ch.borrow_mut().pick(n)
	}
	fn push(&self, v: RValue) {
		self.vals.borrow_mut().push(v)
	}
	fn pop(&self) -> RValue {
		match self.vals.borrow_mut().pop() {
			Some(v) => v,
			// once the serializer has accepted an injected (invalid) call, what it serialized is unknown and
			// the value stack is not used for any verdict any more
			None if self.inj_accepted.get() => RValue::Null,
			None => panic!("MACHINERY: C13 value stack underflow"),
		}
	}
	fn flag(&self, f: u32) {
		self.flags.set(self.flags.get() | f)
	}
	fn log(&self, s: &str) {
		if let Some(l) = &self.log {
			l.borrow_mut().push_str(s)
		}
	}
	fn style_at(&self, depth: usize) -> u8 {
		if self.style < 3 {
			self.style
		} else {
			((self.style - 3) as usize + depth) as u8 % 3
		}
	}
}

struct Lazy<'x, 'e, 'c> {
	s: &'e RSchema,
	ctx: &'x Ctx<'e, 'c>,
	idx: usize,
}

enum H<S: Serializer> {
	St(S::SerializeStruct),
	Mp(S::SerializeMap),
}

fn put<S: Serializer, T: Serialize + ?Sized>(h: &mut H<S>, split: bool, key: &str, v: &T) -> Result<(), S::Error> {
	match h {
		H::St(st) => st.serialize_field(sname(key), v),
		H::Mp(m) => {
			if split {
				m.serialize_key(key)?;
				m.serialize_value(v)
			} else {
				m.serialize_entry(key, v)
			}
		}
	}
}

impl<'x, 'e, 'c> Serialize for Lazy<'x, 'e, 'c> {
	fn serialize<S: Serializer>(&self, s: S) -> Result<S::Ok, S::Error> {
		let ctx = self.ctx;
		match ctx.env.resolve(self.s) {
			RSchema::Int => {
				let v = INTS[(self.idx + 2 * ctx.depth.get()) % INTS.len()];
				ctx.push(RValue::Int(v));
				if ctx.log.is_some() {
					ctx.log(&format!("{v}i32"));
				}
				s.serialize_i32(v)
			}
			RSchema::String => {
				let v = STRS[(self.idx + ctx.depth.get()) % STRS.len()];
				ctx.push(RValue::Str(v.to_owned()));
				if ctx.log.is_some() {
					ctx.log(&format!("{v:?}"));
				}
				s.serialize_str(v)
			}
			RSchema::Null => {
				ctx.push(RValue::Null);
				ctx.log("()");
				s.serialize_unit()
			}
			RSchema::Union(bs) => {
				let b = if ctx.depth.get() <= ctx.union_pick_depth { ctx.pick(bs.len()) } else { (self.idx + ctx.depth.get()) % bs.len() };
				if matches!(ctx.env.resolve(&bs[b]), RSchema::Null) {
					ctx.push(RValue::Union(b, Box::new(RValue::Null)));
					ctx.log("None");
					s.serialize_none()
				} else {
					ctx.log("Some(");
					let r = s.serialize_some(&Lazy { s: &bs[b], ctx, idx: self.idx })?;
					ctx.log(")");
					let v = ctx.pop();
					ctx.push(RValue::Union(b, Box::new(v)));
					Ok(r)
				}
			}
			RSchema::Array(item) => {
				let len = ctx.pick(3);
				ctx.log("[");
				let mut q = s.serialize_seq(Some(len))?;
				let was = ctx.in_array.replace(true);
				for e in 0..len {
					if e > 0 {
						ctx.log(", ");
					}
					let r = q.serialize_element(&Lazy { s: item, ctx, idx: self.idx + e });
					if r.is_err() {
						ctx.in_array.set(was);
					}
					r?;
				}
				ctx.in_array.set(was);
				let mut items: Vec<RValue> = (0..len).map(|_| ctx.pop()).collect();
				items.reverse();
				ctx.push(RValue::Array(items));
				ctx.log("]");
				q.end()
			}
			RSchema::Record { name, fields } => self.record(s, name, fields),
			other => panic!("MACHINERY: C13 Lazy does not present {other:?}"),
		}
	}
}

impl<'x, 'e, 'c> Lazy<'x, 'e, 'c> {
	fn record<S: Serializer>(&self, s: S, name: &'e str, fields: &'e [(String, RSchema)]) -> Result<S::Ok, S::Error> {
		let ctx = self.ctx;
		let n = fields.len();
		let depth = ctx.depth.get();
		let style = ctx.style_at(depth);
		let live = ctx.live.get();
		let in_array = ctx.in_array.get();
		if ctx.log.is_some() {
			ctx.log(&format!("{}{}{{", ["struct ", "map ", "map(k/v) "][style as usize], name));
		}
		let mut h: H<S> = if style == 0 { H::St(s.serialize_struct(sname(name), n)?) } else { H::Mp(s.serialize_map(Some(n))?) };
		let split = style == 2;
		let base = ctx.sink.len();
		let mut presented = vec![false; n];
		let mut vals: Vec<Option<RValue>> = vec![None; n];
		let mut encs: Vec<Vec<u8>> = vec![Vec::new(); n];
		let mut first = true;
		loop {
			let remaining: Vec<usize> = (0..n).filter(|i| !presented[*i]).collect();
			let done: Vec<usize> = (0..n).filter(|i| presented[*i]).collect();
			let j = remaining.first().copied().unwrap_or(n);
			let can_inject = ctx.injected.borrow().is_none();
			let all_omittable = remaining.iter().all(|i| omittable_null(&fields[*i].1, ctx.env).is_some());
			let end_offered = all_omittable || can_inject;
			let n_opts = remaining.len() + end_offered as usize + if can_inject { 1 + done.len() } else { 0 };
			if n_opts == 0 {
				// a required field is missing and the injection of this execution is used up: the only
				// way on is to present the next field
				panic!("MACHINERY: C13 no option left");
			}
			let o = ctx.pick(n_opts);
			if !first {
				ctx.log(", ");
			}
			first = false;
			if o < remaining.len() {
				// ---- present field i
				let i = remaining[o];
				let in_order = i == j;
				if in_order {
					if i + 1 < n && presented[i + 1] {
						ctx.flag(F_FLUSH);
					}
				} else {
					ctx.flag(F_OOO);
					if depth > 0 && !live {
						ctx.flag(F_NESTED_BUF_OOO);
					}
					if in_array {
						ctx.flag(F_ARRAY_ELEM_OOO);
					}
				}
				if ctx.log.is_some() {
					ctx.log(&format!("{}=", fields[i].0));
				}
				ctx.live.set(live && in_order);
				ctx.depth.set(depth + 1);
				ctx.in_array.set(false);
				let r = put(&mut h, split, &fields[i].0, &Lazy { s: &fields[i].1, ctx, idx: i });
				ctx.live.set(live);
				ctx.depth.set(depth);
				ctx.in_array.set(in_array);
				r?;
				let v = ctx.pop();
				presented[i] = true;
				let live = live && !ctx.inj_accepted.get();
				if live {
					encs[i] = vmodel::value::encode(&v, &fields[i].1, ctx.env, &mut Canonical).unwrap_or_else(|e| panic!("MACHINERY: model cannot encode {v:?}: {e}"));
				}
				vals[i] = Some(v);
				if live {
					self.check_prefix(base, fields, &presented, &vals, &encs, &format!("after presenting {}", fields[i].0));
				}
			} else if end_offered && o == remaining.len() {
				// ---- end
				if !all_omittable {
					let missing: Vec<&str> = remaining.iter().filter(|i| omittable_null(&fields[**i].1, ctx.env).is_none()).map(|i| fields[*i].0.as_str()).collect();
					*ctx.injected.borrow_mut() = Some(format!("end of {name} with required field(s) {missing:?} not presented"));
					ctx.inj_kind.set("missing-required");
					ctx.flag(F_MISSING);
					self.flag_injection_site(depth, live);
				} else if !remaining.is_empty() {
					ctx.flag(F_OMIT);
					for i in &remaining {
						match omittable_null(&fields[*i].1, ctx.env) {
							Some(RValue::Null) => ctx.flag(F_OMIT_NULLTYPE),
							Some(RValue::Union(0, _)) => ctx.flag(F_OMIT_UNION0),
							Some(RValue::Union(_, _)) => ctx.flag(F_OMIT_UNION1),
							_ => {}
						}
					}
					if done.iter().any(|d| *d > j) {
						ctx.flag(F_END_FLUSH);
					}
				}
				if ctx.log.is_some() {
					ctx.log(&format!("end}}"));
				}
				let r = match h {
					H::St(st) => st.end(),
					H::Mp(m) => m.end(),
				}?;
				if !all_omittable {
					ctx.inj_accepted.set(true);
					ctx.push(RValue::Null);
					return Ok(r);
				}
				let live = live && !ctx.inj_accepted.get();
				for i in 0..n {
					if vals[i].is_none() {
						let v = omittable_null(&fields[i].1, ctx.env).unwrap();
						if live {
							encs[i] = vmodel::value::encode(&v, &fields[i].1, ctx.env, &mut Canonical).unwrap();
						}
						vals[i] = Some(v);
						presented[i] = true;
					}
				}
				if live {
					self.check_prefix(base, fields, &presented, &vals, &encs, "after end()");
				}
				ctx.push(RValue::Record(vals.into_iter().map(|v| v.unwrap()).collect()));
				return Ok(r);
			} else {
				// ---- injection: unknown field, or duplicate of an already presented field
				let k = o - remaining.len() - end_offered as usize;
				self.flag_injection_site(depth, live);
				if k == 0 {
					*ctx.injected.borrow_mut() = Some(format!("unknown field {UNKNOWN_FIELD:?} presented to {name} after {} field(s)", done.len()));
					ctx.inj_kind.set("unknown-field");
					ctx.flag(if remaining.is_empty() { F_UNKNOWN_ALLDONE } else { F_UNKNOWN });
					ctx.log("zz=0i32 <-UNKNOWN");
					put(&mut h, split, UNKNOWN_FIELD, &0i32)?;
					ctx.inj_accepted.set(true);
				} else {
					let d = done[k - 1];
					*ctx.injected.borrow_mut() = Some(format!("field {:?} of {name} presented a second time after {} field(s)", fields[d].0, done.len()));
					ctx.inj_kind.set("duplicate-field");
					ctx.flag(if remaining.is_empty() {
						F_DUP_ALLDONE
					} else if d < j {
						F_DUP_EMITTED
					} else {
						F_DUP_BUFFERED
					});
					if ctx.log.is_some() {
						ctx.log(&format!("{}=", fields[d].0));
					}
					ctx.live.set(false);
					ctx.depth.set(depth + 1);
					let r = put(&mut h, split, &fields[d].0, &Lazy { s: &fields[d].1, ctx, idx: d });
					ctx.live.set(live);
					ctx.depth.set(depth);
					ctx.log(" <-DUPLICATE");
					r?;
					ctx.inj_accepted.set(true);
					// the value may or may not have been serialized; the stack is not trusted after this
				}
			}
		}
	}

	fn flag_injection_site(&self, depth: usize, live: bool) {
		if depth > 0 {
			self.ctx.flag(F_INJ_NESTED);
		}
		if !live {
			self.ctx.flag(F_INJ_IN_BUFFER);
		}
	}

	/// bytes so far (of this record) = concatenated encodings of fields 0..j-1, j = smallest index
	/// not yet presented; never more, never less
	fn check_prefix(&self, base: usize, fields: &'e [(String, RSchema)], presented: &[bool], vals: &[Option<RValue>], encs: &[Vec<u8>], when: &str) {
		let ctx = self.ctx;
		if ctx.inj_accepted.get() {
			return;
		}
		ctx.steps_checked.set(ctx.steps_checked.get() + 1);
		let j = presented.iter().position(|p| !*p).unwrap_or(presented.len());
		let sink = ctx.sink.0.borrow();
		let got = &sink[base.min(sink.len())..];
		let mut expect: Vec<u8> = Vec::new();
		for e in &encs[..j] {
			expect.extend_from_slice(e);
		}
		if got == &expect[..] {
			return;
		}
		// the serializer is free to choose another block layout for arrays: judge by decoding
		let prefix = RSchema::Record { name: "Prefix".into(), fields: fields[..j].to_vec() };
		let penv = Env::new(&prefix);
		let want = RValue::Record(vals[..j].iter().map(|v| v.clone().unwrap()).collect());
		match vmodel::value::decode(got, &prefix, &penv) {
			Verdict::Valid(v, used) if v == want && used == got.len() => {}
			other => {
				let mut f = ctx.step_fail.borrow_mut();
				if f.is_none() {
					*f = Some(format!(
						"{when}: fields presented {:?}, smallest index not yet presented {j}; bytes emitted so far for this record [{}], expected the encodings of fields 0..{j} = [{}] (reference decoder on the emitted bytes: {other:?})",
						presented.iter().enumerate().filter(|(_, p)| **p).map(|(i, _)| fields[i].0.as_str()).collect::<Vec<_>>(),
						hex(got),
						hex(&expect)
					));
				}
			}
		}
	}
}

pub struct CaseOut {
	pub violations: Vec<(String, String)>,
	pub flags: u32,
	pub injected: bool,
	pub outcome: Out<Vec<u8>>,
	pub steps_checked: u64,
	pub impl_runs: u64,
	pub log: String,
}

/// One execution: the picks of `ch` decide the whole presentation.
pub fn run_case(schema: &RSchema, env: &Env, cs: &serde_avro_fast::Schema, style: u8, union_pick_depth: usize, ch: &mut Chooser, want_log: bool) -> CaseOut {
	let sink = Shared::default();
	let ctx = Ctx {
		ch: RefCell::new(ch),
		env,
		sink: sink.clone(),
		vals: RefCell::new(Vec::new()),
		style,
		union_pick_depth,
		injected: RefCell::new(None),
		inj_kind: Cell::new(""),
		inj_accepted: Cell::new(false),
		live: Cell::new(true),
		depth: Cell::new(0),
		in_array: Cell::new(false),
		step_fail: RefCell::new(None),
		steps_checked: Cell::new(0),
		flags: Cell::new(0),
		log: if want_log { Some(RefCell::new(String::new())) } else { None },
	};
	let mut config = SerializerConfig::new(cs);
	let mut impl_runs = 1;
	let res: Out<()> = guarded(|| serde_avro_fast::to_datum(&Lazy { s: schema, ctx: &ctx, idx: 0 }, sink.clone(), &mut config).map(|_| ()).map_err(|e| e.to_string()));
	let bytes = sink.snapshot();
	let injected = ctx.injected.borrow().clone();
	let mut violations: Vec<(String, String)> = Vec::new();
	match (&res, &injected) {
		(Out::Panic(m), _) => violations.push(("panic".into(), format!("the serializer panicked: {m}{}", injected.as_ref().map(|i| format!(" (injection: {i})")).unwrap_or_default()))),
		(Out::Ok(()), Some(inj)) => violations.push((format!("{}-accepted", ctx.inj_kind.get()), format!("{inj}: expected Err, got Ok with bytes [{}]", hex(&bytes)))),
		(Out::Err(_), Some(_)) => {}
		(Out::Err(e), None) => violations.push(("valid-rejected".into(), format!("a valid presentation (every field at most once, only nullable fields omitted) was rejected: {e}"))),
		(Out::Ok(()), None) => {
			let v = ctx.vals.borrow().last().cloned().unwrap_or(RValue::Null);
			let model = vmodel::value::encode(&v, schema, env, &mut Canonical).unwrap_or_else(|e| panic!("MACHINERY: model cannot encode {v:?}: {e}"));
			if bytes != model {
				match vmodel::value::decode(&bytes, schema, env) {
					Verdict::Valid(v2, used) if v2 == v && used == bytes.len() => {
						// a valid encoding in another block layout: the bytes must still not depend on the order
						let p = gen::pres_of(&v, schema, env, gen::UnionStyle::ByTypeWhereUnambiguous, gen::RecordStyle::Struct);
						impl_runs += 1;
						match crate::subj::ser(cs, &p) {
							Out::Ok(b) if b == bytes => {}
							other => violations.push((
								"order-dependent".into(),
								format!("bytes [{}] are a valid encoding of the value but differ from what the schema-order presentation gives: {other:?}", hex(&bytes)),
							)),
						}
					}
					other => violations.push((
						"bytes-differ".into(),
						format!("got bytes [{}], expected the schema-order encoding with omitted fields as null [{}] of {v:?} (reference decoder on the bytes: {other:?})", hex(&bytes), hex(&model)),
					)),
				}
			}
		}
	}
	if let Some(f) = ctx.step_fail.borrow().clone() {
		violations.push(("prefix-invariant".into(), f));
	}
	let outcome = match res {
		Out::Ok(()) => Out::Ok(bytes),
		Out::Err(e) => Out::Err(e),
		Out::Panic(e) => Out::Panic(e),
	};
	CaseOut { violations, flags: ctx.flags.get(), injected: injected.is_some(), outcome, steps_checked: ctx.steps_checked.get(), impl_runs, log: ctx.log.as_ref().map(|l| l.borrow().clone()).unwrap_or_default() }
}

fn sae_unit(id: usize, unit: &SaeUnit, style: u8, max_leaves: u64) -> (Cover, Vec<Violation>) {
	let desc: &[u8] = &unit.desc;
	let upd = unit.union_pick_depth;
	let mut cover = Cover::default();
	let mut out: Vec<Violation> = Vec::new();
	let schema = build_schema(desc);
	let env = Env::new(&schema);
	let text = gen::schema_text(&schema);
	let cs = match gen::to_crate_schema(&schema) {
		Ok(s) => s,
		Err(e) => {
			out.push(Violation { class: "schema-rejected".into(), what: e, replay: json!({"check": "C13", "engine": "sae", "desc": desc, "style": 0, "choices": []}) });
			return (cover, out);
		}
	};
	let mut flag_counts = [0u64; FLAG_NAMES.len()];
	let (mut valid, mut injected, mut steps) = (0u64, 0u64, 0u64);
	{
		let st = explore(None, max_leaves, |ch| {
			let r = run_case(&schema, &env, &cs, style, upd, ch, false);
			cover.evaluations += 1;
			cover.impl_runs += r.impl_runs;
			steps += r.steps_checked;
			if r.injected {
				injected += 1;
			} else {
				valid += 1;
			}
			for (b, c) in flag_counts.iter_mut().enumerate() {
				if r.flags & (1 << b) != 0 {
					*c += 1;
				}
			}
			let choices = ch.choices();
			if r.flags != 0 {
				cover.nontrivial.insert(hash64(&(id, style, &choices)));
			}
			cover.outcomes.insert(hash64(&(r.outcome.kind(), match &r.outcome {
				Out::Ok(b) => b.clone(),
				_ => vec![],
			})));
			if cover.samples.is_empty() && id % 97 == 3 && r.flags & (F_NESTED_BUF_OOO | F_OMIT) == (F_NESTED_BUF_OOO | F_OMIT) && !r.injected {
				let mut ch2 = Chooser::replay(choices.clone());
				let r2 = run_case(&schema, &env, &cs, style, upd, &mut ch2, true);
				if let Out::Ok(b) = &r2.outcome {
					cover.sample(json!({"schema": text, "presentation": r2.log, "bytes": hex(b)}));
				}
			}
			if !r.violations.is_empty() {
				// determinism guard + human-readable presentation: re-execute from the replay token
				let mut ch2 = Chooser::replay(choices.clone());
				let r2 = run_case(&schema, &env, &cs, style, upd, &mut ch2, true);
				if r2.violations != r.violations {
					eprintln!("MACHINERY: C13 case {desc:?} style {style} choices {choices:?} is not deterministic");
					std::process::exit(2);
				}
				for (class, what) in &r2.violations {
					out.push(Violation {
						class: class.clone(),
						what: format!("schema {text}; style {}; presentation {}; {what}", style_name(style), r2.log),
						replay: json!({"check": "C13", "engine": "sae", "desc": desc, "style": style, "union_pick_depth": upd, "choices": choices, "schema": text, "presentation": r2.log}),
					});
				}
			}
			out.len() < 40
		});
		cover.add_tree(&st, &format!("sae unit {desc:?} style {style}"));
	}
	for (b, c) in flag_counts.iter().enumerate() {
		if *c > 0 {
			cover.count(FLAG_NAMES[b], *c);
		}
	}
	cover.count("sae_valid_presentations", valid);
	cover.count("sae_injected_presentations", injected);
	cover.count("sae_prefix_observations", steps);
	(cover, out)
}

// ---------------------------------------------------------------------------------------------
// HIST: the serializer's own state machine, driven step by step

/// A field kind of the HIST alphabet: schema, the fixed presentation of its value, the value.
pub struct HKind {
	pub schema: RSchema,
	pub pres: Pres,
	pub value: RValue,
}

pub const N_HKINDS: usize = 10;

fn rec_pres(style: u8, name: &str, fields: Vec<(&str, Pres)>) -> Pres {
	match style {
		0 => Pres::strukt(name, fields),
		s => Pres::Map { len: Some(fields.len()), entries: fields.into_iter().map(|(k, v)| (Pres::str(k), v)).collect(), split: s == 2 },
	}
}

pub fn hkind(code: usize, pos: usize, style: u8) -> HKind {
	let u = |i: usize, v: RValue| RValue::Union(i, Box::new(v));
	match code {
		0 => HKind { schema: RSchema::Int, pres: Pres::I32(3), value: RValue::Int(3) },
		1 => HKind { schema: RSchema::String, pres: Pres::str("ab"), value: RValue::Str("ab".into()) },
		2 => HKind { schema: RSchema::Null, pres: Pres::Unit, value: RValue::Null },
		3 => HKind { schema: field_type(T_OPT_INT, pos), pres: Pres::None, value: u(0, RValue::Null) },
		4 => HKind { schema: field_type(T_OPT_INT, pos), pres: Pres::Some(Box::new(Pres::I32(5))), value: u(1, RValue::Int(5)) },
		5 => HKind { schema: field_type(T_INT_OPT, pos), pres: Pres::Some(Box::new(Pres::I32(-70))), value: u(0, RValue::Int(-70)) },
		6 => HKind { schema: field_type(T_INT_OPT, pos), pres: Pres::None, value: u(1, RValue::Null) },
		// nested record, fields out of order, nullable one omitted
		7 => HKind {
			schema: field_type(T_REC1, pos),
			pres: rec_pres(style, REC_NAMES[pos], vec![("c", Pres::str("x")), ("a", Pres::I32(7))]),
			value: RValue::Record(vec![RValue::Int(7), u(0, RValue::Null), RValue::Str("x".into())]),
		},
		// array of two records, the second one reversed
		8 => HKind {
			schema: field_type(T_ARR_REC1, pos),
			pres: Pres::seq(vec![
				rec_pres(style, REC_NAMES[pos], vec![("a", Pres::I32(1)), ("b", Pres::Some(Box::new(Pres::I32(2)))), ("c", Pres::str("p"))]),
				rec_pres(style, REC_NAMES[pos], vec![("c", Pres::str("q")), ("b", Pres::None), ("a", Pres::I32(-1))]),
			]),
			value: RValue::Array(vec![
				RValue::Record(vec![RValue::Int(1), u(1, RValue::Int(2)), RValue::Str("p".into())]),
				RValue::Record(vec![RValue::Int(-1), u(0, RValue::Null), RValue::Str("q".into())]),
			]),
		},
		// two nested levels, both reversed
		9 => HKind {
			schema: field_type(T_REC2, pos),
			pres: rec_pres(
				style,
				REC_NAMES[pos],
				vec![
					("n", Pres::Some(Box::new(Pres::I32(9)))),
					("m", rec_pres(style, SUB_NAMES[pos], vec![("c", Pres::str("zz")), ("b", Pres::Some(Box::new(Pres::I32(64)))), ("a", Pres::I32(0))])),
					("k", Pres::str("key")),
				],
			),
			value: RValue::Record(vec![RValue::Str("key".into()), RValue::Record(vec![RValue::Int(0), u(1, RValue::Int(64)), RValue::Str("zz".into())]), u(0, RValue::Int(9))]),
		},
		_ => panic!("MACHINERY: unknown HIST kind {code}"),
	}
}

/// Operations: 0..n = present field i (again, if already presented); n = unknown field; n+1 = end
#[derive(Clone, Debug, PartialEq)]
pub struct StepObs {
	pub ok: bool,
	pub err: String,
	pub bytes: Vec<u8>,
}

fn drive<S: Serializer>(s: S, style: u8, names: &[&'static str], pres: &[Pres], hist: &[u8], sink: &Shared, obs: &mut Vec<StepObs>) {
	let n = names.len();
	let mut h: H<S> = match if style == 0 { s.serialize_struct("Top", n).map(H::St) } else { s.serialize_map(Some(n)).map(H::Mp) } {
		Ok(h) => h,
		Err(e) => {
			obs.push(StepObs { ok: false, err: format!("start: {e}"), bytes: sink.snapshot() });
			return;
		}
	};
	for &op in hist {
		let op = op as usize;
		let r: Result<(), S::Error> = if op < n {
			put(&mut h, style == 2, names[op], &pres[op])
		} else if op == n {
			put(&mut h, style == 2, UNKNOWN_FIELD, &Pres::I32(0))
		} else {
			let r = match h {
				H::St(st) => st.end().map(|_| ()),
				H::Mp(m) => m.end().map(|_| ()),
			};
			obs.push(StepObs { ok: r.is_ok(), err: r.err().map(|e| e.to_string()).unwrap_or_default(), bytes: sink.snapshot() });
			return;
		};
		let ok = r.is_ok();
		obs.push(StepObs { ok, err: r.err().map(|e| e.to_string()).unwrap_or_default(), bytes: sink.snapshot() });
		if !ok {
			break;
		}
	}
	// the handle is dropped here without end(): the path a failing `Serialize` impl takes
}

pub struct HistUnit {
	pub kinds: Vec<u8>,
	pub style: u8,
	pub schema: RSchema,
	pub names: Vec<&'static str>,
	pub pres: Vec<Pres>,
	pub values: Vec<RValue>,
	/// standalone encoding of each field's value (from the crate, validated by the reference decoder)
	pub encs: Vec<Vec<u8>>,
	/// encoding of null for the omittable ones
	pub null_encs: Vec<Option<Vec<u8>>>,
}

/// encoding of one HIST kind's value: produced by the crate for the field schema alone and
/// accepted only if the reference decoder reads exactly the value back (so that the block layout
/// the serializer chooses for arrays is not prescribed)
fn kind_encoding(code: usize, style: u8) -> Result<Vec<u8>, String> {
	let k = hkind(code, 0, style);
	let env = Env::new(&k.schema);
	let cs = gen::to_crate_schema(&k.schema)?;
	match crate::subj::ser(&cs, &k.pres) {
		Out::Ok(b) => match vmodel::value::decode(&b, &k.schema, &env) {
			Verdict::Valid(v, used) if v == k.value && used == b.len() => Ok(b),
			other => Err(format!("field kind {code} alone: bytes [{}] decode as {other:?}, expected {:?}", hex(&b), k.value)),
		},
		other => Err(format!("field kind {code} alone: {other:?}")),
	}
}

pub fn hist_unit(kinds: &[u8], style: u8, kind_encs: &[Vec<u8>]) -> HistUnit {
	let ks: Vec<HKind> = kinds.iter().enumerate().map(|(i, c)| hkind(*c as usize, i, style)).collect();
	let schema = RSchema::Record { name: "Top".into(), fields: ks.iter().enumerate().map(|(i, k)| (FIELD_NAMES[i].to_owned(), k.schema.clone())).collect() };
	let env = Env::new(&schema);
	let null_encs = ks.iter().map(|k| omittable_null(&k.schema, &env).map(|v| vmodel::value::encode(&v, &k.schema, &env, &mut Canonical).unwrap())).collect();
	HistUnit {
		kinds: kinds.to_vec(),
		style,
		names: (0..kinds.len()).map(|i| FIELD_NAMES[i]).collect(),
		pres: ks.iter().map(|k| k.pres.clone()).collect(),
		values: ks.iter().map(|k| k.value.clone()).collect(),
		encs: kinds.iter().map(|c| kind_encs[*c as usize].clone()).collect(),
		null_encs,
		schema,
	}
}

pub fn hist_exec(u: &HistUnit, cs: &serde_avro_fast::Schema, hist: &[u8]) -> Out<Vec<StepObs>> {
	guarded(|| {
		let sink = Shared::default();
		let mut config = SerializerConfig::new(cs);
		let mut obs = Vec::new();
		{
			let mut state = SerializerState::from_writer(sink.clone(), &mut config);
			drive(state.serializer(), u.style, &u.names, &u.pres, hist, &sink, &mut obs);
		}
		Ok(obs)
	})
}

/// Judge the last operation of a history. Returns (presented set, verdict, terminal).
pub fn hist_judge(u: &HistUnit, hist: &[u8], obs: &Out<Vec<StepObs>>) -> (u32, Result<(), String>, bool) {
	let n = u.kinds.len();
	let mut set: u32 = 0;
	for &op in &hist[..hist.len().saturating_sub(1)] {
		if (op as usize) < n {
			set |= 1 << op;
		}
	}
	let obs = match obs {
		Out::Ok(o) => o,
		Out::Panic(m) => return (set, Err(format!("panic: {m}")), true),
		Out::Err(e) => return (set, Err(format!("MACHINERY: {e}")), true),
	};
	let Some(&last) = hist.last() else {
		return (0, if obs.is_empty() { Ok(()) } else { Err(format!("serialize_struct/serialize_map failed: {}", obs[0].err)) }, false);
	};
	if obs.len() != hist.len() {
		return (set, Err(format!("MACHINERY: history of {} operations gave {} observations ({:?})", hist.len(), obs.len(), obs.last())), true);
	}
	let o = &obs[obs.len() - 1];
	let last = last as usize;
	let concat = |upto: usize, set: u32, with_nulls: bool| -> Vec<u8> {
		let mut v = Vec::new();
		for i in 0..upto {
			if set & (1 << i) != 0 {
				v.extend_from_slice(&u.encs[i]);
			} else if with_nulls {
				v.extend_from_slice(u.null_encs[i].as_ref().unwrap());
			}
		}
		v
	};
	if last < n {
		if set & (1 << last) != 0 {
			// duplicate
			return (set, if o.ok { Err(format!("field {} presented a second time was accepted (bytes so far [{}])", u.names[last], hex(&o.bytes))) } else { Ok(()) }, true);
		}
		let set2 = set | (1 << last);
		let j = (0..n).find(|i| set2 & (1 << i) == 0).unwrap_or(n);
		if !o.ok {
			return (set2, Err(format!("presenting {} (not presented before) failed: {}", u.names[last], o.err)), true);
		}
		let expect = concat(j, set2, false);
		let verdict = if o.bytes == expect {
			Ok(())
		} else {
			Err(format!("after presenting {}: presented set {:?}, smallest index not yet presented {j}; bytes so far [{}], expected exactly the encodings of fields 0..{j} = [{}]", u.names[last], names_of(u, set2), hex(&o.bytes), hex(&expect)))
		};
		(set2, verdict, false)
	} else if last == n {
		(set, if o.ok { Err(format!("unknown field {UNKNOWN_FIELD:?} was accepted (bytes so far [{}])", hex(&o.bytes))) } else { Ok(()) }, true)
	} else {
		let missing_required: Vec<&str> = (0..n).filter(|i| set & (1 << i) == 0 && u.null_encs[*i].is_none()).map(|i| u.names[i]).collect();
		if !missing_required.is_empty() {
			return (set, if o.ok { Err(format!("end() with required fields {missing_required:?} missing returned Ok (bytes [{}])", hex(&o.bytes))) } else { Ok(()) }, true);
		}
		if !o.ok {
			return (set, Err(format!("end() with only nullable fields missing (presented {:?}) failed: {}", names_of(u, set), o.err)), true);
		}
		let expect = concat(n, set, true);
		(set, if o.bytes == expect { Ok(()) } else { Err(format!("end() with presented set {:?}: bytes [{}], expected schema-order encoding with omitted fields as null [{}]", names_of(u, set), hex(&o.bytes), hex(&expect))) }, true)
	}
}

fn names_of(u: &HistUnit, set: u32) -> Vec<&'static str> {
	(0..u.kinds.len()).filter(|i| set & (1 << i) != 0).map(|i| u.names[i]).collect()
}

fn op_names(u: &HistUnit, hist: &[u8]) -> Vec<String> {
	let n = u.kinds.len();
	hist.iter()
		.map(|&op| {
			let op = op as usize;
			if op < n {
				format!("{}={:?}", u.names[op], u.pres[op])
			} else if op == n {
				"zz=0 (unknown)".to_owned()
			} else {
				"end()".to_owned()
			}
		})
		.collect()
}

/// BFS over the handle's state machine. `merge = false`: every history is its own state (all
/// orders are expanded, nothing is assumed about hidden state). `merge = true`: histories are
/// merged on (presented set, bytes so far); because the record state (next expected field,
/// held-back buffers) is hidden, a merged history is additionally probed with EVERY operation
/// (one-step lookahead), so a merge is trusted only for futures of length >= 2.
fn hist_run_unit(kinds: &[u8], style: u8, kind_encs: &[Vec<u8>], merge: bool) -> (Cover, Vec<Violation>) {
	let mut cover = Cover::default();
	let mut out = Vec::new();
	let u = hist_unit(kinds, style, kind_encs);
	let text = gen::schema_text(&u.schema);
	let cs = match gen::to_crate_schema(&u.schema) {
		Ok(s) => s,
		Err(e) => {
			out.push(Violation { class: "schema-rejected".into(), what: e, replay: json!({"check": "C13", "engine": "hist", "kinds": kinds, "style": style, "history": []}) });
			return (cover, out);
		}
	};
	let n = kinds.len();
	let n_ops = (n + 2) as u8;
	let (mut dup, mut unk, mut end_ok, mut end_err, mut buffered, mut merged, mut lookahead) = (0u64, 0u64, 0u64, 0u64, 0u64, 0u64, 0u64);
	let mut keys: std::collections::HashSet<(u32, Vec<u8>, u8, Option<u8>)> = Default::default();
	keys.insert((0, vec![], 0, None));
	let mut seen: std::collections::HashSet<(u32, Vec<u8>)> = Default::default();
	seen.insert((0, vec![]));
	// one executed transition: returns (presented set, bytes, terminal)
	let mut step = |hist: &[u8], cover: &mut Cover, out: &mut Vec<Violation>| -> (u32, Vec<u8>, bool) {
		cover.transitions += 1;
		cover.evaluations += 1;
		cover.impl_runs += 1;
		let obs = hist_exec(&u, &cs, hist);
		let (set, verdict, terminal) = hist_judge(&u, hist, &obs);
		let bytes = match &obs {
			Out::Ok(o) => o.last().map(|s| s.bytes.clone()).unwrap_or_default(),
			_ => vec![],
		};
		let l = *hist.last().unwrap() as usize;
		let status: u8 = match &obs {
			Out::Panic(_) => 9,
			Out::Ok(o) => {
				let ok = o.last().map(|s| s.ok).unwrap_or(false);
				if l == n + 1 {
					if ok {
						end_ok += 1;
						2
					} else {
						end_err += 1;
						3
					}
				} else if !ok {
					if l == n {
						unk += 1;
					} else {
						dup += 1;
					}
					4
				} else {
					0
				}
			}
			_ => 0,
		};
		if status == 0 {
			let j = (0..n).find(|i| set & (1 << i) == 0).unwrap_or(n);
			if (set >> j) != 0 {
				buffered += 1;
				cover.nontrivial.insert(hash64(&(kinds, style, hist)));
			}
		}
		cover.outcomes.insert(hash64(&(status, &bytes)));
		if keys.insert((set, bytes.clone(), status, if status == 4 { Some(l as u8) } else { None })) {
			cover.states += 1;
		}
		if let Err(e) = verdict {
			if e.starts_with("MACHINERY") {
				eprintln!("{e} (C13 hist unit {kinds:?} style {style} history {hist:?})");
				std::process::exit(2);
			}
			if out.len() < 50 {
				let class = if e.starts_with("panic") { "hist-panic" } else { "hist-invariant" };
				out.push(Violation {
					class: class.into(),
					what: format!("schema {text}; style {}; step-by-step history {:?}: {e}", style_name(style), op_names(&u, hist)),
					replay: json!({"check": "C13", "engine": "hist", "kinds": kinds, "style": style, "history": hist, "schema": text}),
				});
			}
		}
		(set, bytes, terminal)
	};
	cover.states += 1;
	let mut frontier: std::collections::VecDeque<Vec<u8>> = Default::default();
	frontier.push_back(vec![]);
	while let Some(h) = frontier.pop_front() {
		for op in 0..n_ops {
			let mut hh = h.clone();
			hh.push(op);
			let (set, bytes, terminal) = step(&hh, &mut cover, &mut out);
			if terminal {
				continue;
			}
			if !merge || seen.insert((set, bytes)) {
				frontier.push_back(hh);
			} else {
				merged += 1;
				for op2 in 0..n_ops {
					hh.push(op2);
					lookahead += 1;
					step(&hh, &mut cover, &mut out);
					hh.pop();
				}
			}
		}
	}
	drop(step);
	cover.count("hist_duplicate_rejections", dup);
	cover.count("hist_unknown_rejections", unk);
	cover.count("hist_end_ok", end_ok);
	cover.count("hist_end_err_missing_required", end_err);
	cover.count("hist_transitions_into_states_with_buffered_fields", buffered);
	cover.count("hist_merged_histories", merged);
	cover.count("hist_lookahead_transitions_from_merged_histories", lookahead);
	(cover, out)
}

// ---------------------------------------------------------------------------------------------

pub fn run(rep: &mut Report) {
	let thorough = rep.thorough();
	let (max_leaves, hist_n, hist_nomerge_n): (u64, usize, usize) = if thorough { (8_000_000, 5, 4) } else { (1_000_000, 4, 3) };
	// development switches (measuring one engine / one family); the evidence records them as a cap
	let only = std::env::var("C13_ONLY").unwrap_or_default();
	let mut sae = sae_units(thorough);
	if !only.is_empty() {
		rep.cover.caps.push(format!("development switch C13_ONLY={only}: partial run"));
		sae.retain(|u| only == "sae" || u.family.starts_with(only.as_str()));
	}
	let mut hist_units: Vec<(Vec<u8>, u8, bool)> = Vec::new();
	let kinds_alpha: Vec<u8> = (0..N_HKINDS as u8).collect();
	// 5-field records (thorough): one kind per distinct mechanism (int, string, null, [null,int] None, [int,null] Some,
	// nested record out of order, array of records)
	let kinds_reduced: Vec<u8> = vec![0, 1, 2, 3, 5, 7, 8];
	if only.is_empty() || only == "hist" {
		for n in 0..=hist_n {
			for v in vectors(if n >= 5 { &kinds_reduced } else { &kinds_alpha }, n) {
				for s in 0..3u8 {
					hist_units.push((v.clone(), s, n > hist_nomerge_n));
				}
			}
		}
	}
	let mut families: std::collections::BTreeMap<&'static str, (usize, Vec<u8>, usize)> = Default::default();
	for u in &sae {
		let e = families.entry(u.family).or_insert((0, u.styles.clone(), u.union_pick_depth));
		e.0 += 1;
	}
	let fam_text: Vec<String> = families.iter().map(|(f, (n, st, upd))| format!("{f}: {n} schemas x styles {st:?}, union branches are decision points at record depth < {upd}")).collect();
	rep.rule = format!(
		"SAE over record schemas Top{{f0..}}: field types flat = {{int, string, null, [null,int], [int,null]}}, nested = {{record N{{a:int,b:[null,int],c:string}}, array<N> with 0..2 elements, [null,N], two-level record {{k:string,m:N,n:[int,null]}}}}; families: A = every vector of 0..=4 flat fields; A5 = every vector of 5 flat fields; B/C1/C2/D/E = every vector of the stated length over {{int,[null,int],string}} + nested types with the stated number of nested types [{}]. Styles: 0 struct, 1 map+serialize_entry, 2 map+serialize_key/serialize_value, 3..5 the same three rotated by nesting depth. The presentation is decided while serializing: at every record occurrence and step the next field is any not-yet-presented one (all permutations, nested occurrences independently), or end (all omission subsets; with a required field missing = injection), or - once per execution - an unknown field or a duplicate of any presented field, at every position. Oracle: no injection => Ok and bytes = reference encoding in schema order with omitted fields as null (another valid array block layout tolerated only if equal to the crate's own schema-order output); injection => Err; never a panic; after every accepted field of a record whose bytes go straight to the sink, the bytes so far (shared-handle sink) equal the encodings of fields 0..j-1, j = smallest index not presented. HIST: every vector of 0..={hist_n} fields over {N_HKINDS} field kinds with fixed values (int, string, null, [null,int] None/Some, [int,null] Some/None, nested record out of order with omission, array of 2 records one reversed, two-level record reversed; 5-field records: 7 kinds, one [null,int], one [int,null], no two-level record) x 3 styles = {} units; BFS over the live SerializeStruct/SerializeMap handle of the real DatumSerializer (SerializerState::from_writer(shared-handle sink, &mut config).serializer()) with operations present(i) (also when already presented), unknown, end; states counted on the key (presented set, bytes so far, status); for records of <= {hist_nomerge_n} fields every history is expanded (no merging: nothing is assumed about the hidden record state), for {hist_n}-field records histories are merged on (presented set, bytes so far) and every merged history is still probed with every operation (one-step lookahead); same invariant after every operation; end judged in every state. Non-trivial: SAE leaves that are not the plain schema-order full presentation (an out-of-order field, an omission or an injection), distinct on (schema, style, choice vector); HIST transitions into states where a presented field is held back, distinct on (schema, style, history). Per schema-and-style leaf cap {max_leaves}.",
		fam_text.join("; "),
		hist_units.len()
	);
	rep.assumptions.push("reference encoder/decoder (vmodel) implements the Avro binary encoding of records, unions, arrays, int, string".into());
	rep.assumptions.push("continuing to use a SerializeStruct/SerializeMap handle after it returned Err is outside the property (well-behaved Serialize impls propagate the error); such histories are not explored".into());

	// SAE
	let jobs: Vec<(usize, &SaeUnit, u8)> = sae.iter().enumerate().flat_map(|(id, u)| u.styles.iter().map(move |s| (id, u, *s))).collect();
	let results: Vec<(Cover, Vec<Violation>)> = jobs.par_iter().map(|(id, u, s)| sae_unit(*id, u, *s, max_leaves)).collect();
	let mut fam_leaves: std::collections::BTreeMap<&'static str, u64> = Default::default();
	for ((_, u, _), (c, v)) in jobs.iter().zip(results) {
		*fam_leaves.entry(u.family).or_insert(0) += c.evaluations;
		rep.cover.merge(c);
		rep.violations.extend(v);
	}
	rep.extra.insert("sae_schemas".into(), json!(sae.len()));
	rep.extra.insert("sae_leaves_by_family".into(), json!(fam_leaves));

	// HIST
	let mut kind_encs: Vec<Vec<Vec<u8>>> = Vec::new();
	for style in 0..3u8 {
		let mut v = Vec::new();
		for code in 0..N_HKINDS {
			match kind_encoding(code, style) {
				Ok(b) => v.push(b),
				Err(e) => {
					// the field alone (always presented in the same fixed way) is not what C13 explores: without its
					// encoding the HIST engine has no oracle
					rep.violation("hist-field-alone", format!("style {}: {e}", style_name(style)), json!({"check": "C13", "engine": "kind", "kind": code, "style": style}));
					v.push(Vec::new());
				}
			}
		}
		kind_encs.push(v);
	}
	let results: Vec<(Cover, Vec<Violation>)> = hist_units.par_iter().map(|(k, s, m)| hist_run_unit(k, *s, &kind_encs[*s as usize], *m)).collect();
	for (c, v) in results {
		rep.cover.merge(c);
		rep.violations.extend(v);
	}
	rep.extra.insert("hist_units".into(), json!(hist_units.len()));

	// vacuity guards
	let c = &rep.cover.counters;
	let mut missing: Vec<&str> = FLAG_NAMES.iter().copied().filter(|f| c.get(*f).copied().unwrap_or(0) == 0).collect();
	for k in ["sae_prefix_observations", "hist_duplicate_rejections", "hist_unknown_rejections", "hist_end_ok", "hist_end_err_missing_required", "hist_transitions_into_states_with_buffered_fields", "hist_merged_histories"] {
		if c.get(k).copied().unwrap_or(0) == 0 {
			missing.push(k);
		}
	}
	if !missing.is_empty() && rep.violations.is_empty() && only.is_empty() {
		eprintln!("MACHINERY: C13 never exercised: {missing:?}");
		std::process::exit(2);
	}
}

pub fn replay(v: &serde_json::Value) -> i32 {
	let r = &v["replay"];
	let nums = |k: &str| -> Vec<u64> { r[k].as_array().map(|a| a.iter().filter_map(|x| x.as_u64()).collect()).unwrap_or_default() };
	let style = r["style"].as_u64().unwrap_or(0) as u8;
	match r["engine"].as_str().unwrap_or("") {
		"sae" => {
			let desc: Vec<u8> = nums("desc").into_iter().map(|x| x as u8).collect();
			let choices: Vec<usize> = nums("choices").into_iter().map(|x| x as usize).collect();
			let schema = build_schema(&desc);
			let env = Env::new(&schema);
			let cs = match gen::to_crate_schema(&schema) {
				Ok(s) => s,
				Err(e) => {
					println!("schema rejected: {e}");
					return 1;
				}
			};
			let mut ch = Chooser::replay(choices);
			let res = run_case(&schema, &env, &cs, style, r["union_pick_depth"].as_u64().unwrap_or(1) as usize, &mut ch, true);
			println!("schema       {}", gen::schema_text(&schema));
			println!("style        {}", style_name(style));
			println!("presentation {}", res.log);
			println!("outcome      {}", match &res.outcome {
				Out::Ok(b) => format!("Ok [{}]", hex(b)),
				Out::Err(e) => format!("Err({e})"),
				Out::Panic(e) => format!("PANIC({e})"),
			});
			println!("expected     {}", if res.injected { "Err (invalid presentation)" } else { "Ok, schema-order encoding with omitted fields as null" });
			for (c, w) in &res.violations {
				println!("  [{c}] {w}");
			}
			if res.violations.is_empty() {
				println!("no violation");
				0
			} else {
				1
			}
		}
		"hist" => {
			let kinds: Vec<u8> = nums("kinds").into_iter().map(|x| x as u8).collect();
			let hist: Vec<u8> = nums("history").into_iter().map(|x| x as u8).collect();
			let mut encs = Vec::new();
			for code in 0..N_HKINDS {
				encs.push(kind_encoding(code, style).unwrap_or_default());
			}
			let u = hist_unit(&kinds, style, &encs);
			let cs = gen::to_crate_schema(&u.schema).unwrap();
			println!("schema  {}", gen::schema_text(&u.schema));
			println!("style   {}", style_name(style));
			let obs = hist_exec(&u, &cs, &hist);
			let names = op_names(&u, &hist);
			if let Out::Ok(o) = &obs {
				for (i, s) in o.iter().enumerate() {
					println!("  {:<40} -> {} bytes so far [{}]", names.get(i).cloned().unwrap_or_default(), if s.ok { "Ok ".to_owned() } else { format!("Err({})", s.err) }, hex(&s.bytes));
				}
			} else {
				println!("  {obs:?}");
			}
			match hist_judge(&u, &hist, &obs).1 {
				Ok(()) => {
					println!("no violation");
					0
				}
				Err(e) => {
					println!("  VIOLATED: {e}");
					1
				}
			}
		}
		"kind" => {
			let code = r["kind"].as_u64().unwrap_or(0) as usize;
			match kind_encoding(code, style) {
				Ok(b) => {
					println!("field kind {code} alone: [{}] ok", hex(&b));
					0
				}
				Err(e) => {
					println!("{e}");
					1
				}
			}
		}
		other => {
			eprintln!("unknown engine {other:?}");
			2
		}
	}
}
