//! C09 — Schema::json(): the original document (minified, every key preserved in order) for
//! parsed schemas; a regenerated equivalent document for programmatically built / edited
//! graphs; `Err` for graphs with a cycle through unnamed nodes only.

use crate::explore::{explore, hash64, Cover};
use crate::ggen::{self, GBounds, GKind, GNode};
use crate::report::{truncate, Report, Violation};
use crate::sgen::{self, AstCase, Doc, Expect, SpellTok};
use crate::subj::{guarded, Out};
use rayon::prelude::*;
use serde_avro_fast::schema::{Name, RecordField, RegularType, SchemaKey, SchemaMut};
use serde_avro_fast::Schema;
use serde_json::json;
use std::sync::atomic::{AtomicU64, Ordering};
use vmodel::crc::fingerprint_le;
use vmodel::schema::{pcf, resolve_text, spell, RSchema, ResolveCfg, SpellCfg};

fn machinery(msg: String) -> ! {
	eprintln!("MACHINERY: {msg}");
	std::process::exit(2)
}

// ---------------------------------------------------------------------------------------------
// (a) parsed documents

pub fn judge_doc(doc: &Doc, cover: &mut Cover, out: &mut Vec<Violation>) {
	if matches!(doc.case.expect, Expect::Invalid(_)) {
		return;
	}
	cover.evaluations += 1;
	let text = &doc.text;
	let mut viol = |class: &str, what: String| {
		out.push(Violation { class: class.to_owned(), what: format!("document {text} [{}]: {what}", doc.case.family), replay: doc.replay("C09") });
	};
	let original = vmodel::json::parse(text).unwrap_or_else(|e| machinery(format!("own speller produced non-JSON {text}: {e}")));
	cover.impl_runs += 2;
	let direct = guarded(|| text.parse::<Schema>().map(|s| s.json().to_owned()).map_err(|e| e.to_string()));
	let via_mut = guarded(|| text.parse::<SchemaMut>().and_then(|m| m.freeze()).map(|s| s.json().to_owned()).map_err(|e| e.to_string()));
	let (direct, via_mut) = match (direct, via_mut) {
		(Out::Ok(a), Out::Ok(b)) => (a, b),
		(Out::Panic(e), _) | (_, Out::Panic(e)) => {
			viol("parse-panic", format!("panicked: {e}"));
			return;
		}
		_ => {
			// rejection of a valid document is C07's verdict
			cover.count("skipped_document_rejected_by_parser", 1);
			return;
		}
	};
	cover.count("parsed_docs", 1);
	if doc.cfg.extras > 0 {
		cover.count("parsed_docs_with_extra_attributes", 1);
	}
	if doc.cfg.whitespace > 0 {
		cover.count("parsed_docs_with_whitespace", 1);
	}
	if doc.cfg.attr_order > 0 {
		cover.count("parsed_docs_with_other_attribute_order", 1);
	}
	if direct != via_mut {
		viol("json-paths-differ", format!("Schema::from_str(..).json() = {direct} but SchemaMut::from_str(..).freeze().json() = {via_mut}"));
		return;
	}
	if !sgen::is_minified(&direct) {
		viol("json-not-minified", format!("json() contains whitespace outside strings: {direct}"));
	}
	match vmodel::json::parse(&direct) {
		Ok(j) => {
			if !sgen::json_same(&j, &original) {
				viol("json-not-preserved", format!("json() = {direct} is not the original document (keys in order, values)"));
			}
		}
		Err(e) => viol("json-not-json", format!("json() = {direct} does not parse: {e}")),
	}
	if doc.nontrivial() || doc.cfg.extras > 0 {
		cover.nontrivial.insert(hash64(text));
	}
	cover.outcomes.insert(hash64(&(direct.len() * 8 / text.len().max(1), doc.cfg.extras, doc.cfg.attr_order, doc.cfg.whitespace)));
	if cover.samples.len() < 1 && doc.cfg.extras == 2 && doc.cfg.whitespace == 0 && doc.cfg.attr_order == 1 && doc.case.feats.named == 2 {
		cover.sample(json!({"part": "a", "document": text, "json()": direct}));
	}
}

// ---------------------------------------------------------------------------------------------
// (b)/(c) programmatic graphs

/// Judge a graph in which every cycle passes through a named node.
pub fn judge_graph(g: &[GNode], sm: &SchemaMut, origin: &str, sp: ggen::NameSpell, cover: &mut Cover, out: &mut Vec<Violation>) {
	cover.evaluations += 1;
	let desc = ggen::describe(g);
	let mut viol = |class: &str, what: String| {
		out.push(Violation { class: class.to_owned(), what: format!("graph {desc} ({origin}): {what}"), replay: json!({"check": "C09", "kind": "graph", "graph": ggen::to_json(g), "origin": origin, "names": sp.label()}) });
	};
	let expected: RSchema = ggen::unfold(g);
	// the public read accessors agree with nodes()
	if let Err(e) = ggen::accessors_agree(sm, g) {
		viol("accessor-differs", e);
	}
	cover.impl_runs += 1;
	let text = match guarded(|| serde_json::to_string(sm).map_err(|e| e.to_string())) {
		Out::Ok(t) => t,
		Out::Err(e) => {
			viol("render-failed", format!("every cycle passes through a named node, but serde_json::to_string(&schema_mut) failed: {e}"));
			return;
		}
		Out::Panic(e) => {
			viol("render-panic", format!("serde_json::to_string(&schema_mut) panicked: {e}"));
			return;
		}
	};
	{
		let st = sgen::sites(&expected);
		if st.iter().any(|s| matches!(&s.kind, sgen::SiteKind::Ref(n) if !n.contains('.') && !s.enclosing.is_empty())) {
			cover.count("graphs_needing_leading_dot_reference", 1);
		}
		if st.iter().any(|s| matches!(&s.kind, sgen::SiteKind::Def(n) if !n.contains('.') && !s.enclosing.is_empty())) {
			cover.count("graphs_needing_empty_namespace_attribute", 1);
		}
	}
	// the reference resolver's reading of the regenerated document
	match resolve_text(&text, &ResolveCfg { allow_forward: false, allow_leading_dot: true }) {
		Ok(back) if back == expected => {}
		Ok(back) => {
			viol("regenerated-denotes-other", format!("regenerated document {text} denotes {} (reference resolver), the graph is {}", pcf_l(&back), pcf_l(&expected)));
			return;
		}
		Err(e) => {
			viol("regenerated-invalid", format!("regenerated document {text} is rejected by the reference resolver: {e}"));
			return;
		}
	}
	let want_fp = fingerprint_le(pcf(&expected).as_bytes());
	// freeze
	cover.impl_runs += 1;
	let frozen: (String, [u8; 8]) = match guarded(|| sm.clone().freeze().map(|s| (s.json().to_owned(), *s.rabin_fingerprint())).map_err(|e| e.to_string())) {
		Out::Ok(f) => f,
		Out::Err(e) => {
			if ggen::unnamed_node_on_cycle(g) {
				// attributed to one cause (an unnamed node on a cycle through a named node); the rest
				// of the oracle still runs, with the reference fingerprint in place of the frozen one
				// (at most 20 of them are kept per unit, all are counted)
				cover.count("freeze_failed_unnamed_node_on_named_cycle", 1);
				if cover.counters.get("attributed_violations").copied().unwrap_or(0) < 20 {
					cover.count("attributed_violations", 1);
					viol("freeze-failed:unnamed-node-on-named-cycle", format!("every cycle passes through a named node (canonical form {}), but freeze failed: {e}", pcf(&expected)));
				}
				(text.clone(), want_fp)
			} else {
				viol("freeze-failed", format!("freeze failed: {e}"));
				return;
			}
		}
		Out::Panic(e) => {
			viol("freeze-panic", format!("freeze panicked: {e}"));
			return;
		}
	};
	if frozen.0 != text {
		viol("json-paths-differ", format!("Schema::json() = {} but serde_json::to_string(&schema_mut) = {text}", frozen.0));
	}
	if frozen.1 != want_fp {
		viol("fingerprint-differs", format!("fingerprint of the built schema {:02x?}, reference {:02x?} for canonical form {}", frozen.1, want_fp, pcf(&expected)));
	}
	// the crate's own parser reads it back to an isomorphic graph
	if sgen::has_unconditional_record_cycle(&expected) {
		cover.count("graphs_with_unconditional_record_cycle_model_only", 1);
	} else {
		cover.impl_runs += 1;
		match guarded(|| text.parse::<SchemaMut>().map_err(|e| e.to_string())) {
			Out::Ok(back) => {
				if let Err(e) = sgen::bisim(&expected, back.nodes()) {
					if e.contains("MACHINERY") {
						machinery(e);
					}
					viol("reparse-differs", format!("regenerated document {text} parses back to a different graph: {e}; nodes {}", truncate(&format!("{:?}", back.nodes()), 500)));
					return;
				}
				match guarded(|| back.freeze().map(|s| *s.rabin_fingerprint()).map_err(|e| e.to_string())) {
					Out::Ok(fp) if fp == frozen.1 => {}
					Out::Ok(fp) => viol("fingerprint-differs", format!("fingerprint after parsing back {text} is {fp:02x?}, of the built schema {:02x?}", frozen.1)),
					Out::Err(e) => viol("reparse-failed", format!("regenerated document {text} parsed but does not freeze: {e}")),
					Out::Panic(e) => viol("reparse-panic", format!("freeze of the re-parsed document panicked: {e}")),
				}
			}
			Out::Err(e) => {
				viol("reparse-failed", format!("regenerated document {text} does not parse back: {e}"));
				return;
			}
			Out::Panic(e) => {
				viol("reparse-panic", format!("parser panicked on regenerated document {text}: {e}"));
				return;
			}
		}
	}
	let f = sgen::feats(&expected);
	if f.refs >= 1 || f.ns_transitions >= 1 {
		cover.nontrivial.insert(hash64(&(origin.as_bytes()[0], g, sp)));
	}
	if f.recursive {
		cover.count("graphs_with_cycle_through_named_node", 1);
	}
	if f.refs >= 1 {
		cover.count("graphs_with_shared_or_cyclic_named_node", 1);
	}
	cover.outcomes.insert(hash64(&(f.named, f.refs.min(3), f.ns_transitions.min(3), f.recursive, text.contains("\"."), text.contains("\"namespace\":\"\""))));
	if cover.samples.len() < 1 && f.recursive && f.ns_transitions >= 2 && text.contains("\".") {
		cover.sample(json!({"part": "b", "graph": desc, "regenerated": text}));
	}
}

/// A union node carrying a logical type cannot be written as JSON (a union is an array):
/// rendering and freeze may return Err, or Ok with a document that denotes the graph without
/// that annotation — never a panic, never a document denoting something else.
fn judge_union_logical(g: &[GNode], cover: &mut Cover, out: &mut Vec<Violation>) {
	cover.evaluations += 1;
	cover.impl_runs += 2;
	cover.states += 1;
	cover.transitions += 1;
	cover.count("union_with_logical_type_graphs", 1);
	let stripped: Vec<GNode> = g.iter().map(|n| if matches!(n.kind, GKind::Union(_)) { GNode::plain(n.kind.clone()) } else { n.clone() }).collect();
	let expected = ggen::unfold(&stripped);
	let want_fp = fingerprint_le(pcf(&expected).as_bytes());
	let sm = SchemaMut::from_nodes(ggen::to_crate(g));
	let desc = ggen::describe(g);
	let mut viol = |class: &str, what: String| {
		out.push(Violation { class: class.to_owned(), what: format!("graph {desc} (built with from_nodes; a union node carries a logical type): {what}"), replay: json!({"check": "C09", "kind": "union-logical", "graph": ggen::to_json(g)}) });
	};
	let denotes = |text: &str| matches!(resolve_text(text, &ResolveCfg { allow_forward: false, allow_leading_dot: true }), Ok(back) if back == expected);
	match guarded(|| serde_json::to_string(&sm).map_err(|e| e.to_string())) {
		Out::Err(_) => cover.count("union_with_logical_type_render_err", 1),
		Out::Ok(text) => {
			if !denotes(&text) {
				viol("union-logical-denotes-other", format!("serde_json::to_string returned {text}, which does not denote the graph (without the annotation: {})", pcf(&expected)));
			}
		}
		Out::Panic(e) => viol("union-logical-panic", format!("serde_json::to_string panicked: {e}")),
	}
	match guarded(|| sm.clone().freeze().map(|s| (s.json().to_owned(), *s.rabin_fingerprint())).map_err(|e| e.to_string())) {
		Out::Err(_) => cover.count("union_with_logical_type_freeze_err", 1),
		Out::Ok((text, fp)) => {
			if !denotes(&text) {
				viol("union-logical-denotes-other", format!("freeze().json() = {text}, which does not denote the graph (without the annotation: {})", pcf(&expected)));
			} else if fp != want_fp {
				viol("fingerprint-differs", format!("freeze().rabin_fingerprint() = {fp:02x?}, reference {want_fp:02x?} for {}", pcf(&expected)));
			}
		}
		Out::Panic(e) => viol("union-logical-panic", format!("freeze panicked: {e}")),
	}
}

/// Primitive sweep and unions with a logical type (explicit lists, all acyclic or cyclic through
/// a named node only).
fn run_sweeps(cover: &mut Cover, out: &mut Vec<Violation>) {
	for (label, g) in ggen::primitive_sweep() {
		let sm = SchemaMut::from_nodes(ggen::to_crate(&g));
		cover.states += 1;
		cover.transitions += 1;
		cover.count("primitive_sweep_graphs", 1);
		judge_graph(&g, &sm, &format!("built with from_nodes; primitive sweep: {label}"), ggen::NameSpell::Plain, cover, out);
	}
	for g in ggen::union_with_logical() {
		judge_union_logical(&g, cover, out);
	}
}

fn pcf_l(s: &RSchema) -> String {
	format!("{} {:?}", pcf(s), s)
}

pub fn levels(thorough: bool) -> Vec<GBounds> {
	const NS2: [&str; 2] = ["", "a"];
	let full = |label, n, logical| GBounds { label, n, namespaces: &sgen::NAMESPACES, strings: true, maps: true, record2: true, fixed: true, logical, shadow: false, canonical_only: false };
	let mut v = vec![
		full("n1", 1, true),
		full("n2", 2, true),
		full("n3", 3, true),
		GBounds { label: "n4-ns2-canonical", n: 4, namespaces: &NS2, strings: false, maps: true, record2: true, fixed: false, logical: false, shadow: false, canonical_only: true },
	];
	if thorough {
		v.push(GBounds { label: "n3-shadow", n: 3, namespaces: &sgen::NAMESPACES, strings: false, maps: true, record2: true, fixed: true, logical: false, shadow: true, canonical_only: false });
		v.push(GBounds { label: "n4-ns2", n: 4, namespaces: &NS2, strings: false, maps: true, record2: true, fixed: false, logical: false, shadow: false, canonical_only: false });
		v.push(GBounds { label: "n4-ns4-canonical", n: 4, namespaces: &sgen::NAMESPACES, strings: false, maps: false, record2: true, fixed: false, logical: false, shadow: false, canonical_only: true });
		v.push(GBounds { label: "n5-ns2-canonical", n: 5, namespaces: &NS2, strings: false, maps: false, record2: false, fixed: false, logical: false, shadow: false, canonical_only: true });
	}
	v
}

fn all_opts(b: &GBounds) -> Vec<Vec<GNode>> {
	(0..b.n).map(|i| ggen::node_options(i, b)).collect()
}

/// The graph at leaf `leaf` of unit (level, first).
fn graph_at(b: &GBounds, opts: &[Vec<GNode>], first: usize, leaf: u64) -> Option<Vec<GNode>> {
	let mut n = 0u64;
	let mut found = None;
	explore(None, u64::MAX, |ch| {
		let g = ggen::gen_graph(ch, b, opts, first);
		if n == leaf {
			found = g;
			return false;
		}
		n += 1;
		true
	});
	found
}

const MAX_CRASHES_PER_UNIT: usize = 8;
const HORIZON_S: u32 = 10;

// --- isolation: every rendering of a graph that contains a cycle is first executed in a worker
// subprocess (a wrong cycle guard or a named node that is never written by reference means
// unbounded recursion, i.e. a stack overflow that would take the whole check down) ---

#[derive(Default)]
struct Screened {
	/// (case id, signal) of renderings that crashed or hung
	crashes: Vec<(u64, String)>,
	/// (case id, outcome) of unnamed-cycle graphs whose rendering did not return Err
	not_err: Vec<(u64, String)>,
	unnamed_cases: u64,
	unnamed_errs: u64,
	named_cyclic_cases: u64,
	/// set when the crash cap was reached: case ids >= this were not screened
	unscreened_from: Option<u64>,
}

impl Screened {
	fn crashed(&self, id: u64) -> Option<&str> {
		self.crashes.iter().find(|(i, _)| *i == id).map(|(_, s)| s.as_str())
	}
	fn usable(&self, id: u64) -> bool {
		self.unscreened_from.map_or(true, |u| id < u)
	}
}

fn spawn_worker(args: &[String]) -> std::process::Child {
	let exe = std::env::current_exe().unwrap_or_else(|e| machinery(format!("current_exe: {e}")));
	std::process::Command::new(&exe)
		.arg("worker")
		.arg("C09")
		.args(args)
		.stdin(std::process::Stdio::null())
		.stdout(std::process::Stdio::piped())
		.stderr(std::process::Stdio::inherit())
		.spawn()
		.unwrap_or_else(|e| machinery(format!("cannot spawn worker: {e}")))
}

/// Wait for the worker; after a crash restart it behind the crashed case.
fn screen(mut child: std::process::Child, respawn: &dyn Fn(u64) -> std::process::Child, what: &str) -> Screened {
	let mut r = Screened::default();
	loop {
		let o = child.wait_with_output().unwrap_or_else(|e| machinery(format!("worker wait: {e}")));
		let text = String::from_utf8_lossy(&o.stdout).into_owned();
		let mut restart: Option<u64> = None;
		let mut finished = false;
		for line in text.lines() {
			let w: Vec<&str> = line.split_whitespace().collect();
			if w.is_empty() {
				continue;
			}
			let num = |s: &str| -> u64 { s.parse().unwrap_or_else(|_| machinery(format!("worker line {line:?}"))) };
			match w.as_slice() {
				["VIOL", id, outcome] => r.not_err.push((num(id), outcome.to_string())),
				["CRASH", id, sig] => {
					r.crashes.push((num(id), sig.to_string()));
					restart = Some(num(id) + 1);
				}
				["DONE", a, b, c] | ["PART", a, b, c] => {
					r.unnamed_cases += num(a);
					r.unnamed_errs += num(b);
					r.named_cyclic_cases += num(c);
					finished = w[0] == "DONE";
				}
				_ => machinery(format!("unexpected worker output line {line:?} ({what})")),
			}
		}
		if finished {
			return r;
		}
		match restart {
			Some(start) => {
				if r.crashes.len() >= MAX_CRASHES_PER_UNIT {
					r.unscreened_from = Some(start);
					return r;
				}
				child = respawn(start);
			}
			None => machinery(format!("worker for {what} ended with {:?} without reporting the case in flight (output {text:?})", o.status)),
		}
	}
}

fn crash_text(sig: &str) -> String {
	if sig == "14" {
		format!("did not return within {HORIZON_S} s")
	} else {
		format!("crashed the process with signal {sig} (stack overflow / abort)")
	}
}

/// Judge a graph under every name-construction spelling of its level.
fn judge_spellings(g: &[GNode], b: &GBounds, cover: &mut Cover, out: &mut Vec<Violation>) {
	for sp in ggen::spellings_for(b) {
		if *sp == ggen::NameSpell::Dotted && !ggen::has_null_namespace_name(g) {
			continue;
		}
		if *sp != ggen::NameSpell::Plain && ggen::has_null_namespace_name(g) {
			cover.count("graphs_with_dot_constructed_null_namespace_names", 1);
		}
		let sm = SchemaMut::from_nodes(ggen::to_crate_spelled(g, *sp));
		judge_graph(g, &sm, sp.origin(), *sp, cover, out);
	}
}

fn room50(cover: &Cover, out: &[Violation]) -> bool {
	(out.len() as u64) < 50 + cover.counters.get("attributed_violations").copied().unwrap_or(0)
}

/// One unit of (b): node 0 fixed to option `first`.
fn run_unit(tier: &str, li: usize, b: &GBounds, opts: &[Vec<GNode>], first: usize) -> (Cover, Vec<Violation>) {
	let mut cover = Cover::default();
	let mut out: Vec<Violation> = Vec::new();
	let args = |start: u64| vec!["b".to_owned(), tier.to_owned(), li.to_string(), first.to_string(), start.to_string()];
	let child = spawn_worker(&args(0));
	// phase 1: acyclic graphs in-process, while the worker screens the cyclic ones
	let mut unnamed = 0u64;
	let mut named_cyclic = 0u64;
	let st = explore(None, u64::MAX, |ch| {
		if let Some(g) = ggen::gen_graph(ch, b, opts, first) {
			if ggen::has_unnamed_cycle(&g) {
				unnamed += 1;
			} else if ggen::has_cycle(&g) {
				named_cyclic += 1;
			} else if room50(&cover, &out) {
				judge_spellings(&g, b, &mut cover, &mut out);
			}
		} else {
			cover.count("vectors_outside_the_space", 1);
		}
		true
	});
	cover.add_tree(&st, &format!("graphs {} unit {first}", b.label));
	let what = format!("graphs {} unit {first}", b.label);
	let scr = screen(child, &|start| spawn_worker(&args(start)), &what);
	let replay_of = |g: &[GNode]| json!({"check": "C09", "kind": "graph", "graph": ggen::to_json(g), "origin": "built with from_nodes"});
	for (leaf, outcome) in &scr.not_err {
		let g = graph_at(b, opts, first, *leaf).unwrap_or_else(|| machinery(format!("worker reported leaf {leaf} which is not a graph")));
		out.push(Violation {
			class: format!("unnamed-cycle-{outcome}"),
			what: format!("graph {} (built with from_nodes) has a cycle through unnamed nodes only, serde_json::to_string(&schema_mut) and freeze() must return Err but: {outcome}", ggen::describe(&g)),
			replay: replay_of(&g),
		});
	}
	for (leaf, sig) in &scr.crashes {
		let g = graph_at(b, opts, first, *leaf).unwrap_or_else(|| machinery(format!("worker crashed at leaf {leaf} which is not a graph")));
		if ggen::has_unnamed_cycle(&g) {
			out.push(Violation {
				class: "unnamed-cycle-render-crash".into(),
				what: format!("graph {} (built with from_nodes) has a cycle through unnamed nodes only, serde_json::to_string(&schema_mut) and freeze() must return Err but one of them {}", ggen::describe(&g), crash_text(sig)),
				replay: replay_of(&g),
			});
		} else {
			out.push(Violation {
				class: "render-crash".into(),
				what: format!("graph {} (built with from_nodes): every cycle passes through a named node, but serde_json::to_string(&schema_mut) {}", ggen::describe(&g), crash_text(sig)),
				replay: replay_of(&g),
			});
		}
	}
	if let Some(u) = scr.unscreened_from {
		cover.caps.push(format!("{what}: worker crashed {} times, cyclic graphs from leaf {u} on neither screened nor judged", scr.crashes.len()));
	} else if scr.unnamed_cases + scr.crashes.iter().filter(|(l, _)| graph_at(b, opts, first, *l).map_or(false, |g| ggen::has_unnamed_cycle(&g))).count() as u64 != unnamed {
		machinery(format!("worker for {what} rendered {} unnamed-cycle graphs (+ crashes), the parent counted {unnamed}", scr.unnamed_cases));
	}
	cover.evaluations += scr.unnamed_cases;
	cover.impl_runs += scr.unnamed_cases + scr.named_cyclic_cases;
	cover.count("unnamed_cycle_graphs", unnamed);
	cover.count("unnamed_cycle_graphs_render_and_freeze_err", scr.unnamed_errs);
	cover.count("named_cycle_graphs_screened_in_worker", scr.named_cyclic_cases);
	// phase 2: graphs whose cycles all pass through a named node, now known not to crash
	if named_cyclic > 0 {
		let mut leaf = 0u64;
		explore(None, u64::MAX, |ch| {
			let g = ggen::gen_graph(ch, b, opts, first);
			let this = leaf;
			leaf += 1;
			if let Some(g) = g {
				if !ggen::has_unnamed_cycle(&g) && ggen::has_cycle(&g) && scr.crashed(this).is_none() && scr.usable(this) && room50(&cover, &out) {
					judge_spellings(&g, b, &mut cover, &mut out);
				}
			}
			true
		});
	}
	(cover, out)
}

// --- worker side ---

static CURRENT: AtomicU64 = AtomicU64::new(u64::MAX);
static DONE_CASES: AtomicU64 = AtomicU64::new(0);
static DONE_ERRS: AtomicU64 = AtomicU64::new(0);
static DONE_NAMED: AtomicU64 = AtomicU64::new(0);
static CRASH_EXIT: AtomicU64 = AtomicU64::new(70);

fn put_num(buf: &mut [u8], pos: &mut usize, mut n: u64) {
	let mut tmp = [0u8; 20];
	let mut i = 0;
	loop {
		tmp[i] = b'0' + (n % 10) as u8;
		n /= 10;
		i += 1;
		if n == 0 {
			break;
		}
	}
	while i > 0 {
		i -= 1;
		buf[*pos] = tmp[i];
		*pos += 1;
	}
}

extern "C" fn on_crash(sig: libc::c_int) {
	// async-signal-safe: format by hand, write(2), _exit
	let mut buf = [0u8; 160];
	let mut pos = 0usize;
	let mut put = |bytes: &[u8], buf: &mut [u8; 160], pos: &mut usize| {
		for b in bytes {
			buf[*pos] = *b;
			*pos += 1;
		}
	};
	put(b"\nPART ", &mut buf, &mut pos);
	put_num(&mut buf, &mut pos, DONE_CASES.load(Ordering::Relaxed));
	put(b" ", &mut buf, &mut pos);
	put_num(&mut buf, &mut pos, DONE_ERRS.load(Ordering::Relaxed));
	put(b" ", &mut buf, &mut pos);
	put_num(&mut buf, &mut pos, DONE_NAMED.load(Ordering::Relaxed));
	put(b"\nCRASH ", &mut buf, &mut pos);
	put_num(&mut buf, &mut pos, CURRENT.load(Ordering::Relaxed));
	put(b" ", &mut buf, &mut pos);
	put_num(&mut buf, &mut pos, sig as u64);
	put(b"\n", &mut buf, &mut pos);
	unsafe {
		libc::write(1, buf.as_ptr() as *const libc::c_void, pos);
		libc::_exit(CRASH_EXIT.load(Ordering::Relaxed) as libc::c_int);
	}
}

fn install_crash_handler() {
	const ALT: usize = 1 << 16;
	unsafe {
		let stack = Box::leak(vec![0u8; ALT].into_boxed_slice());
		let ss = libc::stack_t { ss_sp: stack.as_mut_ptr() as *mut libc::c_void, ss_flags: 0, ss_size: ALT };
		libc::sigaltstack(&ss, std::ptr::null_mut());
		let mut sa: libc::sigaction = std::mem::zeroed();
		sa.sa_sigaction = on_crash as *const () as usize;
		sa.sa_flags = libc::SA_ONSTACK;
		libc::sigemptyset(&mut sa.sa_mask);
		for sig in [libc::SIGSEGV, libc::SIGBUS, libc::SIGABRT, libc::SIGALRM] {
			libc::sigaction(sig, &sa, std::ptr::null_mut());
		}
	}
}

/// Render one cyclic graph with the case id published for the crash handler.
fn render_screened(id: u64, g: &[GNode], sm: &SchemaMut) {
	let unnamed = ggen::has_unnamed_cycle(g);
	CURRENT.store(id, Ordering::Relaxed);
	unsafe {
		libc::alarm(HORIZON_S);
	}
	let r = guarded(|| serde_json::to_string(sm).map_err(|e| e.to_string()));
	unsafe {
		libc::alarm(0);
	}
	if unnamed {
		let mut all_err = true;
		match r {
			Out::Err(_) => {}
			Out::Ok(_) => {
				all_err = false;
				println!("VIOL {id} render-ok");
			}
			Out::Panic(_) => {
				all_err = false;
				println!("VIOL {id} render-panic");
			}
		}
		// freeze (fingerprint, then rendering) must fail as well, not crash
		unsafe {
			libc::alarm(HORIZON_S);
		}
		let f = guarded(|| sm.clone().freeze().map(|_| ()).map_err(|e| e.to_string()));
		unsafe {
			libc::alarm(0);
		}
		match f {
			Out::Err(_) => {}
			Out::Ok(_) => {
				all_err = false;
				println!("VIOL {id} freeze-ok");
			}
			Out::Panic(_) => {
				all_err = false;
				println!("VIOL {id} freeze-panic");
			}
		}
		if all_err {
			DONE_ERRS.fetch_add(1, Ordering::Relaxed);
		}
		DONE_CASES.fetch_add(1, Ordering::Relaxed);
	} else {
		// Ok / Err / panic are judged by the parent in-process; here only "does not crash"
		DONE_NAMED.fetch_add(1, Ordering::Relaxed);
	}
}

/// `vcheck worker C09 b <tier> <level> <first> <start_leaf>` — cyclic graphs of one unit of (b)
/// `vcheck worker C09 c <tier> <file> <start_id>` — cyclic edited graphs of the cases listed in the file
pub fn worker(args: &[String]) -> i32 {
	let mode = args.first().map(|s| s.as_str()).unwrap_or("");
	let tier = args.get(1).map(|s| s.as_str()).unwrap_or("quick");
	install_crash_handler();
	match mode {
		"b" => {
			let li: usize = args.get(2).and_then(|s| s.parse().ok()).unwrap_or_else(|| machinery("worker: level".into()));
			let first: usize = args.get(3).and_then(|s| s.parse().ok()).unwrap_or_else(|| machinery("worker: first".into()));
			let start: u64 = args.get(4).and_then(|s| s.parse().ok()).unwrap_or(0);
			let lv = levels(tier == "thorough");
			let b = lv.get(li).unwrap_or_else(|| machinery("worker: no such level".into()));
			let opts = all_opts(b);
			let mut leaf = 0u64;
			explore(None, u64::MAX, |ch| {
				let g = ggen::gen_graph(ch, b, &opts, first);
				let this = leaf;
				leaf += 1;
				if this < start {
					return true;
				}
				if let Some(g) = g {
					if ggen::has_cycle(&g) {
						let sm = SchemaMut::from_nodes(ggen::to_crate_spelled(&g, ggen::spellings_for(b)[0]));
						render_screened(this, &g, &sm);
					}
				}
				true
			});
		}
		"c" => {
			let file = args.get(2).unwrap_or_else(|| machinery("worker: file".into()));
			let start: u64 = args.get(3).and_then(|s| s.parse().ok()).unwrap_or(0);
			let text = std::fs::read_to_string(file).unwrap_or_else(|e| machinery(format!("worker: {file}: {e}")));
			let grammars = sgen::grammars(tier == "thorough");
			let specials = sgen::specials();
			for (li, line) in text.lines().enumerate() {
				let case = case_from_line(line, &grammars, &specials);
				let Some((_, edits)) = edits_of(&case) else { continue };
				for (j, (_, sm, _)) in edits.iter().enumerate() {
					let id = li as u64 * EDIT_STRIDE + j as u64;
					if id < start {
						continue;
					}
					let g = ggen::from_crate(sm.nodes()).unwrap_or_default();
					if ggen::has_cycle(&g) {
						render_screened(id, &g, sm);
					}
				}
			}
		}
		other => machinery(format!("worker: unknown mode {other:?}")),
	}
	println!("DONE {} {} {}", DONE_CASES.load(Ordering::Relaxed), DONE_ERRS.load(Ordering::Relaxed), DONE_NAMED.load(Ordering::Relaxed));
	0
}

// ---------------------------------------------------------------------------------------------
// (c) parsed, then edited through nodes_mut()

const EDIT_STRIDE: u64 = 100_000;

fn case_line(c: &AstCase) -> String {
	if c.family.starts_with('k') {
		format!("g {} {}", c.family, c.choices.iter().map(|x| x.to_string()).collect::<Vec<_>>().join(" "))
	} else {
		format!("s {}", c.family)
	}
}

fn case_from_line(line: &str, grammars: &[sgen::Bounds], specials: &[(String, RSchema, bool)]) -> AstCase {
	let w: Vec<&str> = line.split_whitespace().collect();
	match w.first() {
		Some(&"g") => {
			let b = grammars.iter().find(|b| b.label == w[1]).unwrap_or_else(|| machinery(format!("worker: no grammar {}", w[1])));
			let choices: Vec<usize> = w[2..].iter().map(|x| x.parse().unwrap_or_else(|_| machinery(format!("worker: bad line {line:?}")))).collect();
			sgen::case_of_grammar(b, choices)
		}
		Some(&"s") => {
			let (label, ast, _) = specials.iter().find(|(l, _, _)| l == w[1]).unwrap_or_else(|| machinery(format!("worker: no special {}", w[1])));
			sgen::case_of_special(label, 0, ast, false)
		}
		_ => machinery(format!("worker: bad line {line:?}")),
	}
}

/// The plain spelling of the case parsed, and every edit of it (deterministic order).
/// Edits carry, for renames, the (node, fullname) the edit MEANS — the model's side of the name,
/// independent of what the crate's `Name` reports afterwards.
type Edit = (String, SchemaMut, Option<(usize, String)>);

fn edits_of(case: &AstCase) -> Option<(String, Vec<Edit>)> {
	let text = spell(&case.ast, &mut vmodel::Zero, &SpellCfg::plain());
	let Out::Ok(sm) = guarded(|| text.parse::<SchemaMut>().map_err(|e| e.to_string())) else { return None };
	let n = sm.nodes().len();
	let mut edits: Vec<Edit> = Vec::new();
	// identity edit: nodes_mut() drops the stored JSON, the document is regenerated
	let mut id = sm.clone();
	let _ = id.nodes_mut();
	edits.push(("nodes_mut() without change".into(), id, None));
	for i in 0..n {
		if sm.nodes()[i].type_.name().is_some() {
			for ns in sgen::NAMESPACES {
				let mut e = sm.clone();
				let new = sgen::join(ns, "Q");
				*e.nodes_mut()[i].type_.name_mut().unwrap() = Name::from_fully_qualified_name(new.clone());
				edits.push((format!("node {i} renamed to {new}"), e, Some((i, new))));
			}
			// the null namespace said by name alone
			let mut e = sm.clone();
			*e.nodes_mut()[i].type_.name_mut().unwrap() = Name::from_fully_qualified_name(".Q");
			edits.push((format!("node {i} renamed to Name::from_fully_qualified_name(\".Q\")"), e, Some((i, "Q".to_owned()))));
		}
		if matches!(sm.nodes()[i].type_, RegularType::Record(_)) {
			for k in 0..n {
				let mut e = sm.clone();
				if let RegularType::Record(r) = &mut e.nodes_mut()[i].type_ {
					r.fields.push(RecordField::new("zz", SchemaKey::from_idx(k)));
				}
				edits.push((format!("field zz: node {k} added to record node {i}"), e, None));
			}
		}
	}
	Some((text, edits))
}

/// (a) and (c) for a range of base cases.
fn run_base_range(tier: &str, set: &sgen::BaseSet, range: std::ops::Range<usize>, edit_max_named: usize) -> (Cover, Vec<Violation>) {
	let mut cover = Cover::default();
	let mut out: Vec<Violation> = Vec::new();
	let plan_small = sgen::Plan { product_names_refs: true, product_cap: 100_000, diag: true, diag_full_max_named: 2, full_product_max_named: 0, all_sites_product_max_named: 0, cfg_product_max_named: 0, escapes: 1 };
	let plan_big = sgen::Plan { product_names_refs: false, product_cap: 0, diag: true, diag_full_max_named: 2, full_product_max_named: 0, all_sites_product_max_named: 0, cfg_product_max_named: 0, escapes: 1 };
	// the cases whose edits are judged; the worker screens their cyclic edits meanwhile
	let edited: Vec<AstCase> = range.clone().map(|i| set.case(i)).filter(|c| c.expect == Expect::Valid && c.feats.named <= edit_max_named).collect();
	let file = std::env::temp_dir().join(format!("vcheck-c09-{}-{}.txt", std::process::id(), range.start));
	let mut screened: Option<Screened> = None;
	let child = if edited.is_empty() {
		None
	} else {
		std::fs::write(&file, edited.iter().map(case_line).collect::<Vec<_>>().join("\n")).unwrap_or_else(|e| machinery(format!("write {file:?}: {e}")));
		let f = file.to_string_lossy().into_owned();
		Some(spawn_worker(&["c".to_owned(), tier.to_owned(), f, "0".to_owned()]))
	};
	// (a)
	for i in range.clone() {
		let case = set.case(i);
		if case.expect != Expect::Valid || !sgen::room(&cover, &out) {
			continue;
		}
		let plan = if case.feats.named <= 2 { &plan_small } else { &plan_big };
		sgen::spell_and_judge(&case, plan, &mut cover, &mut out, &judge_doc);
		for fw in sgen::derived_forward(&case) {
			sgen::spell_and_judge(&fw, &plan_big, &mut cover, &mut out, &judge_doc);
		}
	}
	// (c)
	if let Some(child) = child {
		let f = file.to_string_lossy().into_owned();
		let what = format!("edited graphs of cases {range:?}");
		let scr = screen(child, &|start| spawn_worker(&["c".to_owned(), tier.to_owned(), f.clone(), start.to_string()]), &what);
		let _ = std::fs::remove_file(&file);
		if let Some(u) = scr.unscreened_from {
			cover.caps.push(format!("{what}: worker crashed {} times, cyclic edited graphs from id {u} on neither screened nor judged", scr.crashes.len()));
		}
		if !scr.not_err.is_empty() || scr.unnamed_cases > 0 {
			machinery(format!("{what}: an edit produced a cycle through unnamed nodes only"));
		}
		cover.impl_runs += scr.named_cyclic_cases;
		cover.count("named_cycle_graphs_screened_in_worker", scr.named_cyclic_cases);
		screened = Some(scr);
	}
	let scr = screened.unwrap_or_default();
	for (li, case) in edited.iter().enumerate() {
		let Some((text, edits)) = edits_of(case) else {
			cover.count("skipped_document_rejected_by_parser", 1);
			continue;
		};
		for (j, (what, sm, renamed)) in edits.iter().enumerate() {
			if !sgen::room(&cover, &out) {
				break;
			}
			let id = li as u64 * EDIT_STRIDE + j as u64;
			let Some(mut g) = ggen::from_crate(sm.nodes()) else { continue };
			if let Some((i, full)) = renamed {
				match &mut g[*i].kind {
					GKind::Record(n, _) | GKind::Enum(n, _) | GKind::Fixed(n, _) => *n = full.clone(),
					_ => {}
				}
			}
			if !ggen::unique_fullnames(&g) || ggen::has_unnamed_cycle(&g) {
				machinery(format!("edit {what} of {text} left the enumerated space"));
			}
			let origin = format!("edited: parsed {text}, then {what}");
			if ggen::has_cycle(&g) {
				if let Some(sig) = scr.crashed(id) {
					out.push(Violation {
						class: "render-crash".into(),
						what: format!("graph {} ({origin}): every cycle passes through a named node, but serde_json::to_string(&schema_mut) {}", ggen::describe(&g), crash_text(sig)),
						replay: json!({"check": "C09", "kind": "graph", "graph": ggen::to_json(&g), "origin": origin}),
					});
					continue;
				}
				if !scr.usable(id) {
					continue;
				}
			}
			cover.count("edited_graphs", 1);
			cover.states += 1;
			cover.transitions += 1;
			judge_graph(&g, sm, &origin, ggen::NameSpell::Plain, &mut cover, &mut out);
		}
	}
	(cover, out)
}

// ---------------------------------------------------------------------------------------------

pub fn run(rep: &mut Report) {
	let thorough = rep.thorough();
	let tier = rep.tier.clone();
	let lv = levels(thorough);
	let edit_max_named = if thorough { 3 } else { 2 };
	let hist_depth = if thorough { 5 } else { 4 };
	rep.rule = format!(
		"SAE. (a) parsed documents: C07's valid ASTs and forward-reference variants; spellings: 'every site takes option k' (k=0..3) under all 18 document-level configurations (attribute order x extra attributes incl. unknown keys with nested JSON x whitespace) for ASTs with <= 2 named types (larger ASTs: k=0..3 plain + k=1 under the 17 other configurations), plus the per-site product of name/reference spellings for ASTs with <= 2 named types; oracle: Schema::from_str(..).json() = SchemaMut::from_str(..).freeze().json(), no whitespace outside strings, and equal to the original as ordered JSON (own reader: same keys in the same order, numbers by value). (b) programmatic graphs via SchemaMut::from_nodes: every assignment of one option to each node of an n-node vector, options = int, string, array(k), map(k), union(k1!=k2), record(1 field k / 2 fields k1,k2) in each namespace, enum and fixed in each namespace (+ logical annotations date/uuid/decimal/duration/unknown on int, string, bytes, fixed, enum, array, record) with every in-range key, kept when all nodes are reachable, unions are spec-valid and fullnames unique; the Names of null-namespace types are constructed both as Name::from_fully_qualified_name(\"X\") and as (\".X\") for n <= 3 (each graph executed under both), mixed by node parity for larger n; levels: {}. Plus a sweep: one graph shape (record with a leaf field, an array, a map, a union field; and the bare root) x each primitive kind (null, boolean, int, long, float, double, bytes, string) at each leaf position and at all of them — bare, with every known logical type the specification allows on it (decimal, big-decimal, uuid, date, time-millis, time-micros, timestamp-millis, timestamp-micros) and with an unknown one; and graphs with a logical type on a union node (Err, or Ok with a document denoting the graph without that annotation; never a panic). Odd-numbered nodes are built through the public From conversions, and root() / get(key) / schema[key] / SchemaKey::root() / LogicalType::as_str() must agree with nodes(). Graphs whose cycles all pass through a named node: serde_json::to_string Ok, the text resolves (vmodel resolver, leading-dot references allowed) to exactly the unfolded graph, freeze Ok with the same text and fingerprint = CRC-64-AVRO(pcf(unfolded graph)), the crate's parser reads the text back to a bisimilar graph with the same fingerprint (graphs with an unconditional record cycle: reference resolver only). Graphs with a cycle through unnamed nodes only: serde_json::to_string and freeze() must both return Err (no crash). Every rendering / freeze of a graph that contains any cycle is first executed in a worker subprocess (one per unit; SIGSEGV/SIGABRT/SIGALRM attributed to the case in flight, horizon {HORIZON_S} s, worker restarted behind the case). (c) edited: the plain spelling of each valid AST with <= {edit_max_named} named types parsed, then through nodes_mut(): no change / each named node renamed to Q in each namespace and to Name::from_fully_qualified_name(\".Q\") / a field added to each record pointing at each node; judged like (b), cyclic ones screened in a worker first. (d) HIST: every history of <= {hist_depth} operations from {{b = a.clone(); a.clone_from(&b); b.clone_from(&a); and for a and b: canonical_form_rabin_fingerprint(), serde_json::to_string(), freeze() (consumes the object), 5 edits through nodes_mut()}} on 6 base schemas (parsed with extra attributes / built), explicit-state BFS with states rebuilt per history; invariant after every operation: serde_json::to_string and freeze().json() report what a fresh SchemaMut::from_nodes(current nodes) renders (a parsed, never edited object: the original document on freeze), and that rendering denotes the current nodes. Non-trivial: (a) documents with a reference, a namespace transition or extra attributes; (d) histories with an observation or clone, then an edit, then an observation; (b)/(c) graphs with a shared or cyclic named node or a namespace transition; distinct by text / node vector.",
		lv.iter().map(|b| format!("{} (n={}, namespaces {:?}{})", b.label, b.n, b.namespaces, if b.canonical_only { ", one numbering per renumbering class" } else { ", all numberings" })).collect::<Vec<_>>().join("; "),
	);
	rep.assumptions.push("vmodel::schema::resolve_text implements the specification's name resolution (plus the crate's documented leading-dot spelling for null-namespace references)".into());
	rep.assumptions.push("unions inside the enumerated graphs are restricted to those the specification allows; other graphs are C19's (totality), not judged for meaning".into());

	// HIST: histories on one SchemaMut (and its clone): what serde_json::to_string / freeze().json()
	// report after any sequence of observations, clones and edits
	let (hc, hv) = crate::shist::explore_histories("C09", if thorough { 5 } else { 4 }, crate::shist::Judge::Json);
	rep.cover.merge(hc);
	rep.violations.extend(hv);

	// every primitive kind at every leaf position; unions with a logical type
	{
		let mut c = Cover::default();
		let mut v = Vec::new();
		run_sweeps(&mut c, &mut v);
		rep.cover.merge(c);
		rep.violations.extend(v);
	}

	// (b) first: a rendering that crashes on small graphs is found here, in isolation
	for (li, b) in lv.iter().enumerate() {
		let opts = all_opts(b);
		let firsts: Vec<usize> = (0..opts[0].len()).collect();
		let results: Vec<(Cover, Vec<Violation>)> = firsts.par_iter().map(|&first| run_unit(&tier, li, b, &opts, first)).collect();
		let mut graphs = 0u64;
		for (c, v) in results {
			graphs += c.evaluations;
			rep.cover.merge(c);
			if rep.violations.len() < 20_000 {
				rep.violations.extend(v);
			}
		}
		rep.extra.entry("graph_levels".into()).or_insert_with(|| json!({}))[b.label] = json!({"options_per_node": opts[0].len(), "graphs": graphs});
	}

	// (a) and (c)
	let set = sgen::bases(thorough);
	let n = set.len();
	let chunk = ((n + 95) / 96).max(64);
	let ranges: Vec<std::ops::Range<usize>> = (0..n).step_by(chunk).map(|lo| lo..(lo + chunk).min(n)).collect();
	let (cover, viols) = ranges
		.par_iter()
		.map(|r| run_base_range(&tier, &set, r.clone(), edit_max_named))
		.reduce(
			|| (Cover::default(), Vec::new()),
			|mut a, b| {
				a.0.merge(b.0);
				if a.1.len() < 2000 {
					a.1.extend(b.1);
				}
				a
			},
		);
	rep.cover.merge(cover);
	rep.cover.states += set.grammar_nodes;
	rep.cover.transitions += set.grammar_nodes;
	rep.violations.extend(viols);

	// vacuity guards (skipped when the enumeration was cut short by violations)
	if rep.violations.len() as u64 >= 50 + rep.cover.counters.get("attributed_violations").copied().unwrap_or(0) {
		return;
	}
	let c = |k: &str| rep.cover.counters.get(k).copied().unwrap_or(0);
	let mut missing: Vec<&str> = Vec::new();
	for k in [
		"parsed_docs",
		"parsed_docs_with_extra_attributes",
		"parsed_docs_with_whitespace",
		"parsed_docs_with_other_attribute_order",
		"edited_graphs",
		"graphs_with_cycle_through_named_node",
		"graphs_with_shared_or_cyclic_named_node",
		"graphs_needing_leading_dot_reference",
		"graphs_needing_empty_namespace_attribute",
		"graphs_with_unconditional_record_cycle_model_only",
		"unnamed_cycle_graphs",
		"unnamed_cycle_graphs_render_and_freeze_err",
		"named_cycle_graphs_screened_in_worker",
		"histories_observe_edit_observe",
		"graphs_with_dot_constructed_null_namespace_names",
		"primitive_sweep_graphs",
		"union_with_logical_type_graphs",
	] {
		if c(k) == 0 {
			missing.push(k);
		}
	}
	if !missing.is_empty() {
		machinery(format!("C09 never exercised: {missing:?}"));
	}
}

pub fn replay(v: &serde_json::Value) -> i32 {
	let r = &v["replay"];
	let mut cover = Cover::default();
	let mut out = Vec::new();
	if r["kind"] == "union-logical" {
		let g = ggen::from_json(&r["graph"]).unwrap_or_else(|| machinery("replay: bad graph".into()));
		println!("graph: {}", ggen::describe(&g));
		let sm = SchemaMut::from_nodes(ggen::to_crate(&g));
		println!("serde_json::to_string: {:?}", guarded(|| serde_json::to_string(&sm).map_err(|e| e.to_string())));
		println!("freeze: {:?}", guarded(|| sm.clone().freeze().map(|s| s.json().to_owned()).map_err(|e| e.to_string())));
		judge_union_logical(&g, &mut cover, &mut out);
		for v in &out {
			println!("  [{}] {}", v.class, v.what);
		}
		return if out.is_empty() { 0 } else { 1 };
	}
	if r["kind"] == "history" {
		return crate::shist::replay_history(r, crate::shist::Judge::Json);
	}
	if r["kind"] == "graph" {
		let g = ggen::from_json(&r["graph"]).unwrap_or_else(|| machinery("replay: bad graph".into()));
		println!("graph: {}", ggen::describe(&g));
		let sp = ggen::NameSpell::from_label(r["names"].as_str().unwrap_or("plain"));
		println!("names: {}", sp.origin());
		let sm = SchemaMut::from_nodes(ggen::to_crate_spelled(&g, sp));
		// the rendering may overflow the stack: report it as "CRASH <id> <signal>" and exit 70
		install_crash_handler();
		CRASH_EXIT.store(1, Ordering::Relaxed);
		CURRENT.store(0, Ordering::Relaxed);
		unsafe {
			libc::alarm(HORIZON_S);
		}
		let res = guarded(|| serde_json::to_string(&sm).map_err(|e| e.to_string()));
		unsafe {
			libc::alarm(0);
		}
		if ggen::has_unnamed_cycle(&g) {
			println!("has a cycle through unnamed nodes only: serde_json::to_string(&schema_mut) and freeze() must return Err");
			let fr = guarded(|| sm.clone().freeze().map(|_| ()).map_err(|e| e.to_string()));
			println!("freeze: {fr:?}");
			if !matches!(fr, Out::Err(_)) {
				println!("serde_json::to_string: {res:?}");
				return 1;
			}
			return match res {
				Out::Err(e) => {
					println!("serde_json::to_string: Err({e})\nno violation");
					0
				}
				Out::Ok(t) => {
					println!("serde_json::to_string: Ok({t})");
					1
				}
				Out::Panic(e) => {
					println!("serde_json::to_string: PANIC {e}");
					1
				}
			};
		}
		println!("denotes: {}", pcf(&ggen::unfold(&g)));
		match guarded(|| serde_json::to_string(&sm).map_err(|e| e.to_string())) {
			Out::Ok(t) => println!("serde_json::to_string: {t}"),
			Out::Err(e) => println!("serde_json::to_string: Err({e})"),
			Out::Panic(e) => println!("serde_json::to_string: PANIC {e}"),
		}
		judge_graph(&g, &sm, r["origin"].as_str().unwrap_or("replay"), sp, &mut cover, &mut out);
	} else {
		let text = r["text"].as_str().unwrap_or_else(|| machinery("replay file has no text".into())).to_owned();
		let expect = sgen::expect_from_str(r["expect"].as_str().unwrap_or("valid"));
		let ast = resolve_text(r["ast_plain"].as_str().unwrap_or(""), &ResolveCfg { allow_forward: true, allow_leading_dot: false }).unwrap_or(RSchema::Null);
		let feats = sgen::feats(&ast);
		let case = AstCase { family: r["family"].as_str().unwrap_or("replay").to_owned(), choices: vec![], ast, expect, feats, vary_scale: false };
		let doc = Doc { case: &case, text: text.clone(), tok: SpellTok::Diag(0), cfg: SpellCfg::plain() };
		println!("document: {text}");
		match guarded(|| text.parse::<Schema>().map(|s| s.json().to_owned()).map_err(|e| e.to_string())) {
			Out::Ok(j) => println!("json(): {j}"),
			Out::Err(e) => println!("Schema::from_str: Err({e})"),
			Out::Panic(e) => println!("Schema::from_str: PANIC {e}"),
		}
		judge_doc(&doc, &mut cover, &mut out);
	}
	for v in &out {
		println!("  [{}] {}", v.class, v.what);
	}
	if out.is_empty() {
		println!("no violation");
		0
	} else {
		1
	}
}

#[allow(dead_code)]
fn _unused(_: GKind) {}
