//! C20 — derived schemas fit their types.
//!
//! `vcheck C20` = enumerate type-definition programs (c20_enum) → emit the generated workspace
//! `<root>/harness/crates/vderive` (c20_gen; one crate per shard, one module per family, so that
//! `module_path!()` namespaces differ) → `cargo build` it offline against the derive crates
//! vcheck itself is built against → run every shard binary (subprocess, horizon) → judge every
//! family and every value with `vmodel` (schema validity, one definition per fullname, the bytes
//! denote the value under the derived schema) → report.

use crate::c20_enum;
use crate::c20_gen::*;
use crate::explore::{hash64, Cover};
use crate::report::{truncate, verif_root, Report, Violation};
use rayon::prelude::*;
use serde_json::{json, Value};
use std::collections::{BTreeMap, BTreeSet};
use std::path::{Path, PathBuf};
use std::time::{Duration, Instant};
use vmodel::schema::{resolve_text, Env, Logical, RSchema, ResolveCfg};
use vmodel::value::{be_to_i128, decode, RValue, Verdict};

const RT_SRC: &str = include_str!("c20_rt.rs.in");
const N_SHARDS: usize = 16;
const SHARD_HORIZON: Duration = Duration::from_secs(600);
const FAMILY_HORIZON: Duration = Duration::from_secs(120);
const BUILD_HORIZON: Duration = Duration::from_secs(3000);

pub struct Family {
	pub name: String,
	pub shard: usize,
	pub program: Program,
	pub origin: String,
}

impl Family {
	fn crate_name(&self) -> String {
		format!("vderive_s{:02}", self.shard)
	}
}

struct Listing {
	families: Vec<Family>,
	tree_nodes: u64,
	tree_leaves: u64,
	rejected: u64,
	duplicates: u64,
	caps: Vec<String>,
	per_source: Vec<(String, usize)>,
}

fn listing(thorough: bool) -> Listing {
	let mut progs: Vec<(Program, String)> = Vec::new();
	let mut seen = std::collections::HashSet::new();
	let mut l = Listing { families: vec![], tree_nodes: 0, tree_leaves: 0, rejected: 0, duplicates: 0, caps: vec![], per_source: vec![] };
	let cap = if thorough { 6000 } else { 1200 };
	for cfg in c20_enum::grammar_cfgs(thorough) {
		let e = c20_enum::enumerate(&cfg, cap);
		l.tree_nodes += e.stats.nodes;
		l.tree_leaves += e.stats.leaves;
		l.rejected += e.rejected;
		l.duplicates += e.duplicates;
		if e.stats.capped {
			l.caps.push(format!("grammar {} <= {} nodes: program cap {} hit", cfg.label, cfg.max_nodes, cap));
		}
		let mut n = 0;
		for (p, o) in e.programs {
			if seen.insert(p.clone()) {
				progs.push((p, o));
				n += 1;
			} else {
				l.duplicates += 1;
			}
		}
		l.per_source.push((format!("grammar {} <= {} nodes", cfg.label, cfg.max_nodes), n));
	}
	let mut n = 0;
	for (p, o) in c20_enum::sweeps(thorough) {
		let placed = Placed { p: &p, crate_name: "c", family: "f" };
		if let Err(e) = placed.validate() {
			eprintln!("MACHINERY: sweep program `{o}` violates the grammar's own constraints: {e}");
			std::process::exit(2);
		}
		if seen.insert(p.clone()) {
			progs.push((p, o));
			n += 1;
		} else {
			l.duplicates += 1;
		}
	}
	l.per_source.push(("sweeps".into(), n));
	l.families = progs.into_iter().enumerate().map(|(i, (program, origin))| Family { name: format!("f{i:04}"), shard: i % N_SHARDS, program, origin }).collect();
	l
}

// ---------------------------------------------------------------------------------------------
// The generated workspace

fn gen_dir() -> PathBuf {
	PathBuf::from(format!("{}/harness/crates/vderive", verif_root()))
}
fn target_dir() -> PathBuf {
	PathBuf::from(format!("{}/target", verif_root()))
}
fn out_dir() -> PathBuf {
	target_dir().join("c20-out")
}

fn write_if_changed(path: &Path, content: &str) -> bool {
	if let Ok(old) = std::fs::read_to_string(path) {
		if old == content {
			return false;
		}
	}
	if let Some(p) = path.parent() {
		std::fs::create_dir_all(p).unwrap_or_else(|e| machinery(&format!("cannot create {}: {e}", p.display())));
	}
	std::fs::write(path, content).unwrap_or_else(|e| machinery(&format!("cannot write {}: {e}", path.display())));
	true
}

fn machinery(msg: &str) -> ! {
	eprintln!("MACHINERY: {msg}");
	std::process::exit(2)
}

/// Paths of the subject crates: the ones vcheck itself is built against (its Cargo.toml)
fn subject_paths() -> (String, String) {
	let p = format!("{}/harness/crates/vcheck/Cargo.toml", verif_root());
	let text = std::fs::read_to_string(&p).unwrap_or_else(|e| machinery(&format!("cannot read {p}: {e}")));
	let find = |krate: &str| -> String {
		for line in text.lines() {
			let line = line.trim();
			if line.starts_with(&format!("{krate} ")) || line.starts_with(&format!("{krate}=")) {
				if let Some(i) = line.find("path") {
					let rest = &line[i..];
					if let Some(a) = rest.find('"') {
						if let Some(b) = rest[a + 1..].find('"') {
							return rest[a + 1..a + 1 + b].to_owned();
						}
					}
				}
			}
		}
		machinery(&format!("no path dependency on {krate} in {p}"))
	};
	(find("serde_avro_fast"), find("serde_avro_derive"))
}

fn write_workspace(families: &[Family]) -> usize {
	write_workspace_refs(&families.iter().collect::<Vec<_>>())
}

fn write_workspace_refs(families: &[&Family]) -> usize {
	let dir = gen_dir();
	let (fast, derive) = subject_paths();
	let mut shards: BTreeMap<usize, Vec<&Family>> = BTreeMap::new();
	for f in families {
		shards.entry(f.shard).or_default().push(*f);
	}
	let mut changed = 0usize;
	let mut root = String::from("# GENERATED by `vcheck C20` — do not edit.\n[workspace]\nresolver = \"2\"\nmembers = [\"rt\"");
	for s in shards.keys() {
		root.push_str(&format!(", \"s{s:02}\""));
	}
	root.push_str("]\n\n# same profile as the harness, so that dependency artifacts in the shared target dir are reused\n[profile.release]\nopt-level = 2\ndebug-assertions = true\noverflow-checks = true\ndebug = 1\nincremental = true\ncodegen-units = 16\n");
	root.push_str("\n[profile.release.package.vderive_rt]\nopt-level = 1\n");
	for s in shards.keys() {
		root.push_str(&format!("\n[profile.release.package.vderive_s{s:02}]\nopt-level = 0\ndebug = false\n"));
	}
	changed += write_if_changed(&dir.join("Cargo.toml"), &root) as usize;
	let lock = std::fs::read_to_string(format!("{}/harness/Cargo.lock", verif_root())).unwrap_or_else(|e| machinery(&format!("cannot read the harness Cargo.lock: {e}")));
	if !dir.join("Cargo.lock").exists() {
		write_if_changed(&dir.join("Cargo.lock"), &lock);
	}
	let deps = format!(
		"serde = {{ version = \"1\", features = [\"derive\", \"rc\"] }}\nserde_json = \"1\"\nserde_bytes = \"0.11\"\nrust_decimal = {{ version = \"1\", default-features = false, features = [\"serde-with-str\"] }}\nserde_avro_fast = {{ path = \"{fast}\" }}\nserde_avro_derive = {{ path = \"{derive}\" }}\n"
	);
	changed += write_if_changed(&dir.join("rt/Cargo.toml"), &format!("# GENERATED\n[package]\nname = \"vderive_rt\"\nversion = \"0.1.0\"\nedition = \"2021\"\n\n[dependencies]\n{deps}")) as usize;
	changed += write_if_changed(&dir.join("rt/src/lib.rs"), RT_SRC) as usize;
	for (s, fams) in &shards {
		let sd = dir.join(format!("s{s:02}"));
		changed += write_if_changed(
			&sd.join("Cargo.toml"),
			&format!("# GENERATED\n[package]\nname = \"vderive_s{s:02}\"\nversion = \"0.1.0\"\nedition = \"2021\"\n\n[dependencies]\nvderive_rt = {{ path = \"../rt\" }}\n{deps}"),
		) as usize;
		let mut main = String::from("// GENERATED by `vcheck C20` — do not edit.\n#![allow(dead_code, unused_imports, private_interfaces)]\n");
		for f in fams {
			main.push_str(&format!("mod {};\n", f.name));
		}
		main.push_str("\nfn main() {\n\tvderive_rt::shard_main(&[\n");
		for f in fams {
			main.push_str(&format!("\t\t(\"{0}\", {0}::run as vderive_rt::FamilyFn),\n", f.name));
		}
		main.push_str("\t]);\n}\n");
		changed += write_if_changed(&sd.join("src/main.rs"), &main) as usize;
		let mut keep: BTreeSet<String> = BTreeSet::new();
		keep.insert("main.rs".into());
		for f in fams {
			let cn = f.crate_name();
			let placed = Placed { p: &f.program, crate_name: &cn, family: &f.name };
			changed += write_if_changed(&sd.join(format!("src/{}.rs", f.name)), &placed.emit(&f.origin)) as usize;
			keep.insert(format!("{}.rs", f.name));
		}
		if let Ok(rd) = std::fs::read_dir(sd.join("src")) {
			for e in rd.flatten() {
				if !keep.contains(e.file_name().to_string_lossy().as_ref()) {
					let _ = std::fs::remove_file(e.path());
				}
			}
		}
	}
	// stale shards of an earlier, larger run
	if let Ok(rd) = std::fs::read_dir(&dir) {
		for e in rd.flatten() {
			let n = e.file_name().to_string_lossy().into_owned();
			if n.len() == 3 && n.starts_with('s') && n[1..].parse::<usize>().map_or(false, |k| !shards.contains_key(&k)) {
				let _ = std::fs::remove_dir_all(e.path());
			}
		}
	}
	changed
}

fn wait_with_horizon(mut child: std::process::Child, horizon: Duration) -> Option<std::process::ExitStatus> {
	let start = Instant::now();
	loop {
		match child.try_wait() {
			Ok(Some(st)) => return Some(st),
			Ok(None) => {
				if start.elapsed() > horizon {
					let _ = child.kill();
					let _ = child.wait();
					return None;
				}
				std::thread::sleep(Duration::from_millis(20));
			}
			Err(_) => return None,
		}
	}
}

/// Err = (how it ended, full build log)
fn cargo_build_try() -> Result<f64, (String, String)> {
	let t = Instant::now();
	let log = target_dir().join("c20-build.log");
	std::fs::create_dir_all(target_dir()).ok();
	let logf = std::fs::File::create(&log).unwrap_or_else(|e| machinery(&format!("cannot create {}: {e}", log.display())));
	let child = std::process::Command::new(std::env::var("CARGO").unwrap_or_else(|_| "cargo".into()))
		.args(["build", "--release", "--offline", "--bins", "--keep-going"])
		.current_dir(gen_dir())
		.env("CARGO_TARGET_DIR", target_dir())
		.env("CARGO_NET_OFFLINE", "true")
		.env_remove("RUSTFLAGS")
		.stdout(logf.try_clone().unwrap())
		.stderr(logf)
		.spawn()
		.unwrap_or_else(|e| machinery(&format!("cannot run cargo: {e}")));
	match wait_with_horizon(child, BUILD_HORIZON) {
		Some(st) if st.success() => Ok(t.elapsed().as_secs_f64()),
		other => Err((
			match other {
				None => "horizon exceeded".to_owned(),
				Some(st) => format!("{st}"),
			},
			std::fs::read_to_string(&log).unwrap_or_default(),
		)),
	}
}

fn build_failure(how: &str, text: &str) -> ! {
	let mut shown = 0;
	for (i, line) in text.lines().enumerate() {
		if line.starts_with("error") {
			for l in text.lines().skip(i).take(14) {
				eprintln!("  {l}");
			}
			shown += 1;
			if shown >= 4 {
				break;
			}
		}
	}
	machinery(&format!(
		"the generated crate {} does not build against the current derive crates ({how}) and the errors cannot be attributed to families; either the generator emits a shape the derive rejects or the derive regressed — full log: {}",
		gen_dir().display(),
		target_dir().join("c20-build.log").display()
	))
}

fn cargo_build() -> f64 {
	match cargo_build_try() {
		Ok(t) => t,
		Err((how, text)) => build_failure(&how, &text),
	}
}

/// Families whose module has a compile error: (family name, the first error with its location).
/// None if some error lies outside the family modules (runtime crate, shard main): not attributable.
fn attribute_compile_errors(text: &str) -> Option<BTreeMap<String, String>> {
	let lines: Vec<&str> = text.lines().collect();
	let mut out: BTreeMap<String, String> = BTreeMap::new();
	let mut i = 0;
	while i < lines.len() {
		let l = lines[i];
		if l.starts_with("error") && !l.starts_with("error: could not compile") && !l.starts_with("error: aborting") {
			// the location follows within the next few lines
			let mut fam: Option<String> = None;
			for l2 in lines.iter().skip(i + 1).take(6) {
				if let Some(p) = l2.find("--> ") {
					let loc = &l2[p + 4..];
					let parts: Vec<&str> = loc.split('/').collect();
					if parts.len() >= 3 && parts[parts.len() - 2] == "src" {
						let file = parts[parts.len() - 1].split(':').next().unwrap_or("");
						if file.len() == 8 && file.starts_with('f') && file.ends_with(".rs") && file[1..5].chars().all(|c| c.is_ascii_digit()) {
							fam = Some(file[..5].to_owned());
						}
					}
					break;
				}
			}
			match fam {
				Some(f) => {
					out.entry(f).or_insert_with(|| lines[i..(i + 8).min(lines.len())].join(" | "));
				}
				None => return None,
			}
		}
		i += 1;
	}
	if out.is_empty() {
		None
	} else {
		Some(out)
	}
}

// ---------------------------------------------------------------------------------------------
// Running the shards, collecting their output

#[derive(Default, Clone)]
struct FamOut {
	head: Option<Value>,
	/// (idx, status, hex bytes, describe, detail)
	values: Vec<(usize, String, String, String, String)>,
	ended: bool,
	star_products: u64,
	consecutive_pairs: u64,
}

fn parse_out(path: &Path, into: &mut BTreeMap<String, FamOut>) -> bool {
	let Ok(text) = std::fs::read_to_string(path) else { return false };
	let mut done = false;
	for line in text.lines() {
		let f: Vec<&str> = line.split('\t').collect();
		match f[0] {
			"F" if f.len() >= 3 => {
				let e = into.entry(f[1].to_owned()).or_default();
				*e = FamOut::default();
				e.head = serde_json::from_str(f[2]).ok();
			}
			"V" if f.len() >= 6 => {
				let e = into.entry(f[1].to_owned()).or_default();
				e.values.push((f[2].parse().unwrap_or(usize::MAX), f[3].to_owned(), f[4].to_owned(), f[5].to_owned(), f.get(6).copied().unwrap_or("").to_owned()));
			}
			"E" if f.len() >= 4 => {
				let e = into.entry(f[1].to_owned()).or_default();
				e.ended = true;
				e.star_products = f[2].parse().unwrap_or(0);
				e.consecutive_pairs = f[3].parse().unwrap_or(0);
			}
			"DONE" => done = true,
			_ => {}
		}
	}
	done
}

fn run_binary(shard: usize, out: &Path, family: Option<&str>, value: Option<usize>, horizon: Duration) -> Result<(), String> {
	let bin = target_dir().join(format!("release/vderive_s{shard:02}"));
	let mut cmd = std::process::Command::new(&bin);
	cmd.arg(out);
	if let Some(f) = family {
		cmd.arg(f);
		if let Some(v) = value {
			cmd.arg(v.to_string());
		}
	}
	let child = cmd.stdout(std::process::Stdio::null()).stderr(std::process::Stdio::null()).spawn().map_err(|e| format!("cannot start {}: {e}", bin.display()))?;
	match wait_with_horizon(child, horizon) {
		None => Err(format!("exceeded the horizon of {} s", horizon.as_secs())),
		Some(st) if st.success() => Ok(()),
		Some(st) => Err(format!("{st}")),
	}
}

/// Runs all shards; returns per-family output and the violations attributable to crashes
fn run_shards_refs(families: &[&Family]) -> (BTreeMap<String, FamOut>, Vec<Violation>) {
	std::fs::create_dir_all(out_dir()).unwrap_or_else(|e| machinery(&format!("cannot create {}: {e}", out_dir().display())));
	let shards: BTreeSet<usize> = families.iter().map(|f| f.shard).collect();
	let results: Vec<(usize, Result<(), String>, BTreeMap<String, FamOut>, bool)> = shards
		.par_iter()
		.map(|&s| {
			let out = out_dir().join(format!("s{s:02}.tsv"));
			let _ = std::fs::remove_file(&out);
			let r = run_binary(s, &out, None, None, SHARD_HORIZON);
			let mut m = BTreeMap::new();
			let done = parse_out(&out, &mut m);
			(s, r, m, done)
		})
		.collect();
	let mut all = BTreeMap::new();
	let mut viols = Vec::new();
	for (s, r, m, done) in results {
		let clean = r.is_ok() && done;
		let missing: Vec<&Family> = families.iter().copied().filter(|f| f.shard == s && !m.get(&f.name).map_or(false, |o| o.ended)).collect();
		all.extend(m);
		if clean && missing.is_empty() {
			continue;
		}
		if clean {
			machinery(&format!("shard {s} ended normally but did not report families {:?}", missing.iter().map(|f| &f.name).collect::<Vec<_>>()));
		}
		// attribute the crash: every family the shard did not finish is re-run on its own
		let mut attributed = false;
		for f in missing {
			let out = out_dir().join(format!("s{s:02}-{}.tsv", f.name));
			let _ = std::fs::remove_file(&out);
			let r1 = run_binary(s, &out, Some(&f.name), None, FAMILY_HORIZON);
			let mut m = BTreeMap::new();
			let done = parse_out(&out, &mut m);
			match r1 {
				Ok(()) if done => {
					all.extend(m);
				}
				other => {
					attributed = true;
					let cn = f.crate_name();
					let placed = Placed { p: &f.program, crate_name: &cn, family: &f.name };
					viols.push(Violation {
						class: "crash".into(),
						what: format!("types `{}`: the process building the schema / round-tripping the values died ({}) — stack overflow, abort or hang", placed.type_defs_src(), other.err().unwrap_or_else(|| "no DONE marker".into())),
						replay: json!({"check": "C20", "family": f.name, "shard": f.shard, "program": f.program, "value": Value::Null}),
					});
				}
			}
		}
		if !attributed {
			machinery(&format!("shard {s} failed ({}) but every one of its families succeeds on its own", r.err().unwrap_or_else(|| "no DONE marker".into())));
		}
	}
	(all, viols)
}

// ---------------------------------------------------------------------------------------------
// The oracle

fn count_defs(s: &RSchema, recs: &mut Vec<String>, enums: &mut Vec<String>, fixed: &mut Vec<String>) {
	match s {
		RSchema::Array(i) | RSchema::Map(i) | RSchema::Logical(_, i) => count_defs(i, recs, enums, fixed),
		RSchema::Union(v) => v.iter().for_each(|b| count_defs(b, recs, enums, fixed)),
		RSchema::Record { name, fields } => {
			recs.push(name.clone());
			fields.iter().for_each(|(_, f)| count_defs(f, recs, enums, fixed));
		}
		RSchema::Enum { name, .. } => enums.push(name.clone()),
		RSchema::Fixed { name, .. } => fixed.push(name.clone()),
		_ => {}
	}
}

fn valid_fullname(n: &str) -> bool {
	!n.is_empty()
		&& n.split('.').all(|part| {
			let mut cs = part.chars();
			cs.next().map_or(false, |c| c.is_ascii_alphabetic() || c == '_') && cs.all(|c| c.is_ascii_alphanumeric() || c == '_')
		})
}

fn branch_name(s: &RSchema, env: &Env) -> String {
	let r = env.resolve(s);
	// branches with a logical type are known to the crate by the PascalCase logical name, except
	// where a named fixed carries the identity (decimal on fixed, unknown logical types)
	match (r.logical_type(), r.base()) {
		(Some(Logical::Duration), _) => return "Duration".into(),
		(Some(Logical::Uuid), _) => return "Uuid".into(),
		(Some(Logical::Date), _) => return "Date".into(),
		(Some(Logical::TimeMillis), _) => return "TimeMillis".into(),
		(Some(Logical::TimeMicros), _) => return "TimeMicros".into(),
		(Some(Logical::TimestampMillis), _) => return "TimestampMillis".into(),
		(Some(Logical::TimestampMicros), _) => return "TimestampMicros".into(),
		(Some(Logical::Decimal { .. }), RSchema::Bytes) => return "Decimal".into(),
		_ => {}
	}
	match r.base() {
		RSchema::Null => "Null".into(),
		RSchema::Boolean => "Boolean".into(),
		RSchema::Int => "Int".into(),
		RSchema::Long => "Long".into(),
		RSchema::Float => "Float".into(),
		RSchema::Double => "Double".into(),
		RSchema::Bytes => "Bytes".into(),
		RSchema::String => "String".into(),
		RSchema::Array(_) => "Array".into(),
		RSchema::Map(_) => "Map".into(),
		RSchema::Union(_) => "Union".into(),
		RSchema::Record { name, .. } | RSchema::Enum { name, .. } | RSchema::Fixed { name, .. } => name.clone(),
		RSchema::Ref(n) => n.clone(),
		RSchema::Logical(..) => unreachable!(),
	}
}

/// Does the decoded datum `v` (under schema `s`) denote the value the generator described?
fn matches(a: &Value, v: &RValue, s: &RSchema, env: &Env) -> Result<(), String> {
	matches_lg(a, v, s, env, false)
}

/// `declared`: the description said that this position was declared with a logical-type attribute
/// (and the schema node was already found to carry it)
fn matches_lg(a: &Value, v: &RValue, s: &RSchema, env: &Env, declared: bool) -> Result<(), String> {
	if let Some(inner) = a.get("nt") {
		// a serde newtype struct is transparent
		return matches_lg(inner, v, s, env, declared);
	}
	if let Some(lg) = a.get("lg") {
		let want = lg[0].as_str().ok_or("bad lg")?;
		return match env.resolve(s).logical_type() {
			Some(l) if l.name() == want => matches_lg(&lg[1], v, s, env, true),
			Some(l) => Err(format!("the position was declared with logical type `{want}` but the schema node carries logicalType `{}`", l.name())),
			None => Err(format!("the position was declared with logical type `{want}` but the schema node carries no logicalType: {:?}", env.resolve(s))),
		};
	}
	let s = env.resolve(s);
	let logical = s.logical_type();
	if let (Some(l), false) = (logical, declared) {
		return Err(format!("the position was declared WITHOUT a logical-type attribute (described {a}) but the schema node carries logicalType `{}`: {s:?}", l.name()));
	}
	let s = env.resolve(s.base());
	let fail = |why: &str| Err(format!("{why}: described {a} but the bytes decode to {v:?} under {s:?}"));
	let obj = a.as_object().ok_or("description is not an object")?;
	let (k, x) = obj.iter().next().ok_or("empty description")?;
	match (k.as_str(), v) {
		("i", RValue::Int(n)) if x.as_str() == Some(&n.to_string()) => Ok(()),
		("i", RValue::Long(n)) if x.as_str() == Some(&n.to_string()) => Ok(()),
		("b", RValue::Bool(b)) if x.as_bool() == Some(*b) => Ok(()),
		("u", RValue::Null) => Ok(()),
		("f32", RValue::Float(bits)) if x.as_str() == Some(&bits.to_string()) => Ok(()),
		("f64", RValue::Double(bits)) if x.as_str() == Some(&bits.to_string()) => Ok(()),
		("s", RValue::Str(t)) if x.as_str() == Some(t) => Ok(()),
		("x", RValue::Bytes(b)) | ("x", RValue::Fixed(b)) if x.as_str() == Some(&hex_plain(b)) => Ok(()),
		("dec", RValue::Bytes(b)) | ("dec", RValue::Fixed(b)) => {
			let Some(Logical::Decimal { scale, .. }) = logical else { return fail("decimal value under a schema node that is not a decimal") };
			let mant: i128 = x[0].as_str().and_then(|m| m.parse().ok()).ok_or("bad mantissa")?;
			let vs = x[1].as_u64().ok_or("bad scale")? as u32;
			if vs > *scale {
				return fail("value scale above schema scale");
			}
			let expect = mant.checked_mul(10i128.pow(*scale - vs)).ok_or("overflow")?;
			if be_to_i128(b) == Some(expect) {
				Ok(())
			} else {
				fail("unscaled decimal differs")
			}
		}
		("seq", RValue::Array(items)) => {
			let RSchema::Array(is) = s else { return fail("array under non-array schema") };
			let xs = x.as_array().ok_or("bad seq")?;
			if xs.len() != items.len() {
				return fail("array length differs");
			}
			xs.iter().zip(items).try_for_each(|(a, v)| matches(a, v, is, env))
		}
		("map", RValue::Map(items)) => {
			let RSchema::Map(is) = s else { return fail("map under non-map schema") };
			let xs = x.as_array().ok_or("bad map")?;
			if xs.len() != items.len() {
				return fail("map size differs");
			}
			// entry order is the map's iteration order: compare as sets of keys
			let mut want: Vec<(&str, &Value)> = xs.iter().map(|e| (e[0].as_str().unwrap_or(""), &e[1])).collect();
			want.sort_by(|a, b| a.0.cmp(b.0));
			let mut got: Vec<&(String, RValue)> = items.iter().collect();
			got.sort_by(|a, b| a.0.cmp(&b.0));
			for ((k, a), (k2, v)) in want.iter().zip(got.iter().map(|e| (&e.0, &e.1))) {
				if *k != k2.as_str() {
					return fail("map keys differ");
				}
				matches(a, v, is, env)?;
			}
			Ok(())
		}
		("rec", RValue::Record(vals)) => {
			let RSchema::Record { fields, .. } = s else { return fail("record under non-record schema") };
			let xs = x.as_array().ok_or("bad rec")?;
			if xs.len() != vals.len() || xs.len() != fields.len() {
				return fail("number of fields differs");
			}
			for ((e, v), (fname, fs)) in xs.iter().zip(vals).zip(fields) {
				if e[0].as_str() != Some(fname.as_str()) {
					return fail("field name differs");
				}
				matches(&e[1], v, fs, env)?;
			}
			Ok(())
		}
		("none", RValue::Union(i, inner)) => {
			let RSchema::Union(bs) = s else { return fail("union value under non-union schema") };
			if **inner == RValue::Null && matches!(env.resolve(&bs[*i]).base(), RSchema::Null) {
				Ok(())
			} else {
				fail("None is not in the null branch")
			}
		}
		("some", RValue::Union(i, inner)) => {
			let RSchema::Union(bs) = s else { return fail("union value under non-union schema") };
			if matches!(env.resolve(&bs[*i]).base(), RSchema::Null) {
				return fail("Some(_) landed in the null branch");
			}
			matches(x, inner, &bs[*i], env)
		}
		("varT", RValue::Union(i, inner)) => {
			// the `T` variant of a generic union enum: its branch is the one `T` maps to; which
			// one that is follows from the value fitting the branch's schema
			let RSchema::Union(bs) = s else { return fail("union value under non-union schema") };
			if matches!(env.resolve(&bs[*i]).base(), RSchema::Null) {
				return fail("a data variant landed in the null branch");
			}
			matches(x, inner, &bs[*i], env)
		}
		("var", RValue::Union(i, inner)) => {
			let RSchema::Union(bs) = s else { return fail("union value under non-union schema") };
			let want = x[0].as_str().ok_or("bad var")?;
			let got = branch_name(&bs[*i], env);
			if want != got {
				return Err(format!("variant `{want}` was written into branch {i} = `{got}`"));
			}
			matches(&x[1], inner, &bs[*i], env)
		}
		("sym", RValue::Enum(i)) => {
			let RSchema::Enum { symbols, .. } = s else { return fail("enum under non-enum schema") };
			if symbols.get(*i).map(|s| s.as_str()) == x.as_str() {
				Ok(())
			} else {
				fail("symbol differs")
			}
		}
		_ => fail("shape differs"),
	}
}

fn hex_plain(b: &[u8]) -> String {
	b.iter().map(|x| format!("{x:02x}")).collect()
}
fn unhex(s: &str) -> Vec<u8> {
	(0..s.len() / 2).map(|i| u8::from_str_radix(&s[2 * i..2 * i + 2], 16).unwrap_or(0)).collect()
}

/// the record def whose node is the root node of the schema (root struct, or what a chain of
/// root newtype structs forwards to)
fn root_record(p: &Program) -> Option<usize> {
	let mut i = 0usize;
	loop {
		match &p.defs[i] {
			Def::Struct { .. } => return Some(i),
			Def::Newtype { field: FieldTy::Plain(t) } => {
				let mut t = t;
				while let Ty::Ptr(_, inner) = t {
					t = inner;
				}
				match t {
					Ty::Named(j) if *j != i => i = *j,
					_ => return None,
				}
			}
			_ => return None,
		}
	}
}

struct Judged {
	cover: Cover,
	violations: Vec<Violation>,
}

fn judge(f: &Family, o: Option<&FamOut>, only_value: Option<usize>, verbose: bool) -> Judged {
	let mut cover = Cover::default();
	let mut violations: Vec<Violation> = Vec::new();
	let cn = f.crate_name();
	let placed = Placed { p: &f.program, crate_name: &cn, family: &f.name };
	let types = placed.type_defs_src();
	let mut per_class: BTreeMap<String, usize> = BTreeMap::new();
	let mut viol = |class: &str, what: String, value: Option<usize>| {
		let n = per_class.entry(class.to_owned()).or_insert(0);
		*n += 1;
		if *n <= 3 {
			violations.push(Violation {
				class: class.to_owned(),
				what: format!("types `{types}` ({}, module {cn}::{}): {what}", f.origin, f.name),
				replay: json!({"check": "C20", "family": f.name, "shard": f.shard, "program": f.program, "value": value}),
			});
		}
	};
	let Some(o) = o else {
		machinery(&format!("family {} produced no output", f.name));
	};
	let Some(head) = o.head.as_ref() else {
		machinery(&format!("family {} has no header line", f.name));
	};
	cover.evaluations += 1;
	cover.impl_runs += 2;
	cover.count("families", 1);
	cover.count("star_products", o.star_products);
	cover.count("consecutive_pair_collections", o.consecutive_pairs);
	let heads = placed.cycle_heads();
	if head["capped"].as_bool() == Some(true) {
		cover.caps.push(format!("family {}: value cap hit", f.name));
	}
	if let Some(p) = head["values_panic"].as_str() {
		machinery(&format!("family {}: the value generator panicked: {p}", f.name));
	}
	let mut resolved: Option<RSchema> = None;
	if head["schema_ok"].as_bool() != Some(true) {
		viol("schema-build-failed", format!("T::schema() did not succeed: {}", head["error"].as_str().unwrap_or("?")), None);
	} else {
		let js = head["json"].as_str().unwrap_or("");
		if verbose {
			println!("  schema: {js}");
		}
		if head["deterministic"].as_bool() != Some(true) {
			viol("schema-nondeterministic", format!("two calls of T::schema() differ: {js} (fingerprint {}) vs {} (fingerprint {})", head["fp"], head["json2"], head["fp2"]), None);
		}
		if head["reparse_ok"].as_bool() == Some(true) {
			cover.count("schema_json_reparsed_by_the_crate", 1);
			if head["reparse_same_fp"].as_bool() == Some(true) {
				cover.count("schema_json_reparsed_same_fingerprint", 1);
			}
		}
		if head["schema_mut_same_json"].as_bool() == Some(true) {
			cover.count("schema_mut_gives_same_json", 1);
		}
		match resolve_text(js, &ResolveCfg { allow_forward: false, allow_leading_dot: true }) {
			Err(e) => {
				let rr = root_record(&f.program);
				let root_dup = rr.map_or(false, |r| heads.contains(&r) && e == format!("duplicate definition {}", placed.fullname(r)));
				if root_dup {
					viol("dup-def-recursive-root", format!("the schema JSON is not a valid Avro schema: {e} (the recursive root type is defined a second time at its first recursive use): {js}"), None);
				} else {
					viol("schema-invalid", format!("the schema JSON is not a valid Avro schema: {e}: {js}"), None);
				}
			}
			Ok(rs) => {
				let (mut recs, mut enums, mut fixed) = (vec![], vec![], vec![]);
				count_defs(&rs, &mut recs, &mut enums, &mut fixed);
				let bad: Vec<&String> = recs.iter().chain(&enums).chain(&fixed).filter(|n| !valid_fullname(n)).collect();
				if !bad.is_empty() {
					viol("invalid-fullname", format!("the schema defines names that are not Avro fullnames (dot-separated [A-Za-z_][A-Za-z0-9_]* parts): {bad:?}: {js}"), None);
				}
				let (er, ee) = placed.expected_named();
				if recs.len() != er || enums.len() != ee {
					viol(
						"named-type-count",
						format!("{er} distinct record types/instantiations and {ee} unit-only enums are reachable from the root, but the schema defines {} records {recs:?} and {} enums {enums:?}: {js}", recs.len(), enums.len()),
						None,
					);
				}
				cover.count("schemas_valid", 1);
				cover.count("named_definitions_seen", (recs.len() + enums.len() + fixed.len()) as u64);
				resolved = Some(rs);
			}
		}
	}
	let n_values = head["n_values"].as_u64().unwrap_or(0);
	if n_values == 0 {
		machinery(&format!("family {} ({types}) has an empty value domain", f.name));
	}
	cover.states += n_values;
	cover.transitions += n_values;
	if only_value.is_none() && head["schema_ok"].as_bool() == Some(true) && o.values.len() as u64 != n_values {
		machinery(&format!("family {}: {} of {} values reported", f.name, o.values.len(), n_values));
	}
	let env = resolved.as_ref().map(Env::new);
	for (idx, status, hexb, desc, detail) in &o.values {
		if only_value.map_or(false, |v| v != *idx) {
			continue;
		}
		cover.evaluations += 1;
		cover.impl_runs += if status.starts_with("ser-") { 1 } else { 2 };
		let bytes = unhex(hexb);
		if bytes.len() >= 2 || f.program.defs.len() >= 2 {
			cover.nontrivial.insert(hash64(&(&types, idx)));
		}
		cover.outcomes.insert(hash64(&(status, hexb)));
		if verbose {
			println!("  value #{idx}: {desc}\n    status {status} bytes [{hexb}] {detail}");
		}
		match status.as_str() {
			"ok" => {
				cover.count("values_round_tripped", 1);
			}
			"ser-err" => viol("ser-err", format!("value #{idx} {desc} does not serialize under the derived schema: Err({detail}); schema {}", head["json"]), Some(*idx)),
			"ser-panic" => viol("ser-panic", format!("value #{idx} {desc}: to_datum panicked: {detail}; schema {}", head["json"]), Some(*idx)),
			"de-err" => viol("de-err", format!("value #{idx} {desc} serialized to [{hexb}] but from_datum_slice::<T> fails: Err({detail}); schema {}", head["json"]), Some(*idx)),
			"de-neq" => viol("de-neq", format!("value #{idx} {desc} serialized to [{hexb}] deserializes to a different value {detail}; schema {}", head["json"]), Some(*idx)),
			"de-panic" => viol("de-panic", format!("value #{idx} {desc} serialized to [{hexb}]: from_datum_slice panicked: {detail}", ), Some(*idx)),
			other => machinery(&format!("family {}: unknown status {other}", f.name)),
		}
		if status.starts_with("ser-") {
			continue;
		}
		if let (Some(rs), Some(env)) = (resolved.as_ref(), env.as_ref()) {
			let a: Value = serde_json::from_str(desc).unwrap_or_else(|e| machinery(&format!("family {}: description is not JSON ({e}): {desc}", f.name)));
			cover.count("denotation_checked", 1);
			if desc.contains("\"var\"") {
				cover.count("values_through_union_enum", 1);
			}
			if desc.contains("\"some\"") {
				cover.count("values_with_some", 1);
			}
			match decode(&bytes, rs, env) {
				Verdict::Valid(v, n) if n == bytes.len() => {
					if let Err(why) = matches(&a, &v, rs, env) {
						viol("bytes-denote-other", format!("value #{idx} {desc} serialized to [{hexb}], which under the derived schema {} denotes something else: {why}", head["json"]), Some(*idx));
					}
				}
				other => viol("bytes-undecodable", format!("value #{idx} {desc} serialized to [{hexb}], which is not one whole datum of the derived schema {}: reference decoder says {other:?}", head["json"]), Some(*idx)),
			}
		} else {
			cover.count("denotation_skipped_schema_unresolved", 1);
		}
	}
	for (class, n) in &per_class {
		if *n > 3 {
			if let Some(v) = violations.iter_mut().find(|v| &v.class == class) {
				v.what.push_str(&format!(" [{n} cases of this class in this family]"));
			}
		}
	}
	Judged { cover, violations }
}

// ---------------------------------------------------------------------------------------------

pub fn run(rep: &mut Report) {
	let thorough = rep.thorough();
	let t0 = Instant::now();
	let l = listing(thorough);
	let t_list = t0.elapsed().as_secs_f64();
	let changed = write_workspace(&l.families);
	// A family the derive refuses to compile: every program of the grammar is a supported shape
	// that compiles on the unchanged crate, so a compile error located in a family's module is a
	// verdict about that family ("building its schema succeeds"); anything else is machinery.
	let mut not_compiling: BTreeMap<String, String> = BTreeMap::new();
	let t_build = match cargo_build_try() {
		Ok(t) => t,
		Err((how, text)) => {
			let Some(bad) = attribute_compile_errors(&text) else { build_failure(&how, &text) };
			if bad.len() > l.families.len() / 4 {
				build_failure(&format!("{how}; {} families do not compile", bad.len()), &text);
			}
			not_compiling = bad;
			let rest: Vec<&Family> = l.families.iter().filter(|f| !not_compiling.contains_key(&f.name)).collect();
			write_workspace_refs(&rest);
			cargo_build()
		}
	};
	let compile_viols: Vec<Violation> = l
		.families
		.iter()
		.filter_map(|f| {
			not_compiling.get(&f.name).map(|err| {
				let cn = f.crate_name();
				let placed = Placed { p: &f.program, crate_name: &cn, family: &f.name };
				Violation {
					class: "derive-compile-error".into(),
					what: format!("types `{}` ({}, module {cn}::{}): the program does not compile against the derive crates: {}", placed.type_defs_src(), f.origin, f.name, truncate(err, 700)),
					replay: json!({"check": "C20", "family": f.name, "shard": f.shard, "program": f.program, "value": Value::Null}),
				}
			})
		})
		.collect();
	rep.cover.count("families_that_do_not_compile", compile_viols.len() as u64);
	let runnable: Vec<&Family> = l.families.iter().filter(|f| !not_compiling.contains_key(&f.name)).collect();
	let t1 = Instant::now();
	let (outs, mut crash_viols) = run_shards_refs(&runnable);
	let t_run = t1.elapsed().as_secs_f64();
	crash_viols.extend(compile_viols);
	let crashed: BTreeSet<String> = crash_viols.iter().filter_map(|v| v.replay["family"].as_str().map(|s| s.to_owned())).collect();
	rep.cover.count("families_whose_process_died", crashed.len() as u64 - not_compiling.len() as u64);
	let judged: Vec<Judged> = l
		.families
		.par_iter()
		.map(|f| if crashed.contains(&f.name) { Judged { cover: Cover::default(), violations: Vec::new() } } else { judge(f, outs.get(&f.name), None, false) })
		.collect();
	rep.cover.states += l.tree_nodes + 1;
	rep.cover.transitions += l.tree_nodes;
	rep.cover.caps.extend(l.caps.clone());
	rep.violations.extend(crash_viols);
	let mut sampled = 0;
	for (f, j) in l.families.iter().zip(judged) {
		if j.violations.is_empty() && sampled < 4 && (f.program.defs.len() >= 3 || sampled < 2) {
			if let Some(o) = outs.get(&f.name) {
				if let (Some(h), Some(v)) = (o.head.as_ref(), o.values.last()) {
					let cn = f.crate_name();
					let placed = Placed { p: &f.program, crate_name: &cn, family: &f.name };
					rep.cover.sample(json!({"types": placed.type_defs_src(), "origin": f.origin, "schema": h["json"], "values": h["n_values"], "last_value": v.3, "bytes": v.2, "status": v.1}));
					sampled += 1;
				}
			}
		}
		rep.cover.merge(j.cover);
		rep.violations.extend(j.violations);
	}
	for f in &l.families {
		let cn = f.crate_name();
		let placed = Placed { p: &f.program, crate_name: &cn, family: &f.name };
		rep.cover.count("families_with_union_enum", placed.uses_union() as u64);
		rep.cover.count("families_with_generic", placed.uses_generic() as u64);
		rep.cover.count("families_with_newtype_struct", placed.uses_newtype() as u64);
		rep.cover.count("families_recursive", !placed.cycle_heads().is_empty() as u64);
	}
	// every dedicated production of the sweeps must have been instantiated
	for (marker, counter) in [
		("inferred uuid:", "programs_inferred_uuid_from_type_name"),
		("substituted type:", "programs_logical_type_substitutes_field_type"),
		("const generic struct", "programs_const_generic"),
		("generic newtype struct", "programs_generic_newtype_struct"),
		("skip:", "programs_skipped_members"),
		("(owned fixed)", "programs_generic_owning_fixed"),
		("namespace = ", "programs_namespace_attribute"),
		("generic enum owning named nodes, one instantiation", "programs_generic_enum_owning_nodes_once"),
		("generic enum owning named nodes, two instantiations", "programs_generic_enum_owning_nodes_twice"),
		("generic enum of T-dependent variants only", "programs_generic_enum_t_only"),
		("raw identifier: unit-only enum", "programs_raw_ident_unit_enum"),
		("raw identifier: union enum", "programs_raw_ident_union_variants"),
		("raw identifier: type names", "programs_raw_ident_type_names"),
		("raw identifier: field names", "programs_raw_ident_field_names"),
		("skip: unit-only enum", "programs_unit_enum_with_skipped_variants"),
		("shared unnamed node:", "programs_shared_unnamed_node"),
	] {
		rep.cover.count(counter, l.families.iter().filter(|f| f.origin.contains(marker)).count() as u64);
	}
	rep.cover.count("choice_tree_leaves", l.tree_leaves);
	rep.cover.count("programs_rejected_by_constraints", l.rejected);
	rep.cover.count("programs_duplicate", l.duplicates);
	rep.cover.count("generated_files_rewritten", changed as u64);
	for (s, n) in &l.per_source {
		rep.cover.count(&format!("programs from {s}"), *n as u64);
	}
	rep.extra.insert("phases_s".into(), json!({"enumerate": t_list, "cargo_build_generated": t_build, "run_shards": t_run}));
	rep.extra.insert("generated_workspace".into(), json!(gen_dir().display().to_string()));
	let cfgs = c20_enum::grammar_cfgs(thorough);
	rep.rule = format!(
		"SAE over programs x values. Programs: ALL type-definition programs of the grammar (root = named struct of 1-3 fields | newtype struct | unit-only enum of 1|3 symbols | enum of 1-3 newtype variants with no / first / last unit variant `Null`; type expressions = leaf | Option | Vec | BTreeMap<String,_> | Box | new struct | new newtype struct | new unit-only enum | new union enum | generic G<T>{{a:T,b:Vec<T>}} | shared use of an earlier type | recursive use of an enclosing struct guarded by Option/Vec/Map + heap indirection; serde_bytes Vec<u8> / [u8;4] / Option<Vec<u8>> at field positions) enumerated by the odometer with {}; constraint-violating programs (Option of nullable, two variants on one branch, union in union) are rejected, not judged; plus {} hand-listed sweep programs beyond the bound (every leaf type i32 i64 u16 u32 u64 i8 i16 usize bool f32 f64 String () bytes [u8;0|1|4|16] in every position kind, Box/Rc/Arc/&str/&[u8], HashMap/BTreeMap, every logical-type attribute incl. implicit/bytes/fixed decimals and duration, name/namespace overrides incl. the empty namespace, same-named types in two modules, three generic shapes instantiated at all pairs of argument types, generic structs whose logical-typed field owns a named fixed at two instantiations, every logical attribute next to plain uses of its base type in both orders and one level down, both spellings of the logical names, logical type inferred from a type named Uuid, logical attributes over non-canonical field types which the derive substitutes (transparent newtypes, other integer widths restricted to the values the substituted Avro type can hold - beyond that range the pair is a no-verdict zone), const-generic structs at several N, generic newtype structs (plain, over Option<T>, with a logical type, owning a fixed) at two instantiations, skipped fields and variants of a type that implements neither BuildSchema nor Serialize, raw identifiers (r#type ...) as unit-enum symbols, union variant names, type names and field names (the schema / serde name is the identifier without r#), generic union enums `enum E<T>` with variants V4([u8;4]) .. O(T) (the T variant named after the branch of the first instantiation with serde aliases for the others) at one and at two instantiations, the namespace attribute (absent | ns1 | a.b | empty) on every kind of type that owns named sub-nodes, 19 recursion shapes incl. mutual recursion and recursion through union enums and generic arguments, wide records/enums/unions). Every program is one module of a generated crate compiled against the current derive crates. Values: exhaustive over leaf boundary sets, collections of 0-2 elements (all ordered pairs up to 32 element values, consecutive pairs above), HashMap 0-1 entries, recursion depth <= 2, full cartesian product of fields up to 4096 tuples (star product above), unsigned leaves up to the range of their Avro type. Oracle per program: schema() Ok twice with equal JSON and fingerprint; JSON resolves under the reference resolver (one definition per fullname, every defined fullname is a dot-separated sequence of [A-Za-z_][A-Za-z0-9_]* names, no dangling reference; leading-dot references to the null namespace accepted); number of record / enum definitions = number of distinct struct types or instantiations / unit-only enums reachable from the root (modulo the derive's documented lookup equivalence u16=i32, Box<T>=T ...). Per value: to_datum_vec Ok; the reference decoder consumes exactly the bytes and the datum denotes the described value under the DERIVED schema (field names, union branch by Avro name, enum symbol, decimal unscaled value; a position declared with a logical-type attribute carries exactly that logicalType in the schema, a position declared without one carries none); from_datum_slice::<T> returns a value equal by PartialEq and by description (float bits). Non-trivial: the program has >= 2 type definitions or the encoding has >= 2 bytes; distinct on (program, value index).",
		cfgs.iter().map(|c| format!("<= {} nodes over the {} alphabet (leaves {:?}, field leaves {:?}, map {}, generic {})", c.max_nodes, c.label, c.leaves, c.field_leaves, c.map, c.generic)).collect::<Vec<_>>().join(" and "),
		l.per_source.last().map_or(0, |s| s.1),
	);
	rep.assumptions.push("vmodel's resolver and binary decoder implement the Avro 1.11 specification; a reference of the form `.name` designates `name` in the null namespace (Java Avro's reading; the derive names struct-field [u8; N] types `u8_array_N` in the null namespace)".into());
	rep.assumptions.push("the description of a value emitted by the generated Dom impls is the generator's own statement of the serde data model of the type (it shares no code with the derive crates)".into());
	rep.assumptions.push("generic instantiations whose arguments share a schema node by the derive's documented lookup equivalence (u16 = i32, Box<T> = T, BTreeMap = HashMap) are counted as one instantiation".into());
	// vacuity guards
	for k in ["programs_inferred_uuid_from_type_name", "programs_logical_type_substitutes_field_type", "programs_const_generic", "programs_generic_newtype_struct", "programs_skipped_members", "programs_generic_owning_fixed", "programs_namespace_attribute", "programs_generic_enum_owning_nodes_once", "programs_generic_enum_owning_nodes_twice", "programs_generic_enum_t_only", "programs_raw_ident_unit_enum", "programs_raw_ident_union_variants", "programs_raw_ident_type_names", "programs_raw_ident_field_names", "programs_unit_enum_with_skipped_variants", "programs_shared_unnamed_node", "families_with_union_enum", "families_with_generic", "families_with_newtype_struct", "families_recursive", "schemas_valid", "values_round_tripped", "denotation_checked", "values_through_union_enum", "values_with_some"] {
		if rep.cover.counters.get(k).copied().unwrap_or(0) == 0 {
			machinery(&format!("vacuity guard: counter {k} is 0 — a behaviour the check relies on was never exercised"));
		}
	}
}

pub fn replay(v: &Value) -> i32 {
	let r = &v["replay"];
	let tier = v["tier"].as_str().unwrap_or("quick");
	let name = r["family"].as_str().unwrap_or("");
	let program: Program = match serde_json::from_value(r["program"].clone()) {
		Ok(p) => p,
		Err(e) => {
			eprintln!("replay file has no program: {e}");
			return 2;
		}
	};
	let value = r["value"].as_u64().map(|v| v as usize);
	// the family's namespace depends on its module path: regenerate the tier's workspace (a no-op
	// when it is already there) and run the one family
	let l = listing(tier == "thorough");
	let Some(f) = l.families.iter().find(|f| f.name == name && f.program == program) else {
		eprintln!("MACHINERY: family {name} of tier {tier} is not the recorded program any more (generator changed?)");
		return 2;
	};
	write_workspace(&l.families);
	if let Err((how, text)) = cargo_build_try() {
		match attribute_compile_errors(&text) {
			Some(bad) if bad.contains_key(name) => {
				println!("replaying family {name}: it does not compile against the derive crates:\n  [derive-compile-error] {}", bad[name]);
				return 1;
			}
			Some(bad) => {
				// other families do not compile: build without them
				let rest: Vec<&Family> = l.families.iter().filter(|f| !bad.contains_key(&f.name)).collect();
				write_workspace_refs(&rest);
				cargo_build();
			}
			None => build_failure(&how, &text),
		}
	}
	std::fs::create_dir_all(out_dir()).ok();
	let out = out_dir().join(format!("replay-{name}.tsv"));
	let _ = std::fs::remove_file(&out);
	let cn = f.crate_name();
	let placed = Placed { p: &f.program, crate_name: &cn, family: &f.name };
	println!("replaying family {name} ({}) in {}/s{:02}/src/{name}.rs", f.origin, gen_dir().display(), f.shard);
	println!("  types: {}", placed.type_defs_src());
	let r1 = run_binary(f.shard, &out, Some(name), value, FAMILY_HORIZON);
	let mut m = BTreeMap::new();
	let done = parse_out(&out, &mut m);
	if r1.is_err() || !done {
		println!("  [crash] the process died: {}", r1.err().unwrap_or_else(|| "no DONE marker".into()));
		return 1;
	}
	let j = judge(f, m.get(name), value, true);
	for v in &j.violations {
		println!("  [{}] {}", v.class, truncate(&v.what, 3000));
	}
	if j.violations.is_empty() {
		println!("  no violation");
		0
	} else {
		1
	}
}
