//! Programmatically built schema graphs (node vectors for `SchemaMut::from_nodes`) for C09(b),
//! C09(c) and the programmatic part of C08: every assignment of in-range keys to the edges of
//! small node vectors, so all DAG sharings and all cycles, with every namespace arrangement.

use crate::explore::Chooser;
use serde_avro_fast::schema::{self as cs, LogicalType, RegularType, SchemaKey, SchemaNode};
use vmodel::schema::{Logical, RSchema};

#[derive(Clone, Debug, PartialEq, Eq, Hash)]
pub enum GKind {
	Null,
	Boolean,
	Int,
	Long,
	Float,
	Double,
	Str,
	Bytes,
	Array(usize),
	Map(usize),
	Union(Vec<usize>),
	/// fullname, fields
	Record(String, Vec<(String, usize)>),
	Enum(String, Vec<String>),
	Fixed(String, usize),
}

#[derive(Clone, Debug, PartialEq, Eq, Hash)]
pub struct GNode {
	pub kind: GKind,
	pub logical: Option<Logical>,
}

impl GNode {
	pub fn plain(kind: GKind) -> GNode {
		GNode { kind, logical: None }
	}
	pub fn name(&self) -> Option<&str> {
		match &self.kind {
			GKind::Record(n, _) | GKind::Enum(n, _) | GKind::Fixed(n, _) => Some(n),
			_ => None,
		}
	}
	pub fn children(&self) -> Vec<usize> {
		match &self.kind {
			GKind::Array(k) | GKind::Map(k) => vec![*k],
			GKind::Union(v) => v.clone(),
			GKind::Record(_, f) => f.iter().map(|(_, k)| *k).collect(),
			_ => vec![],
		}
	}
	/// tag used for the "no two branches of the same unnamed type" rule
	fn union_tag(&self) -> &'static str {
		match &self.kind {
			GKind::Null => "null",
			GKind::Boolean => "boolean",
			GKind::Int => "int",
			GKind::Long => "long",
			GKind::Float => "float",
			GKind::Double => "double",
			GKind::Str => "string",
			GKind::Bytes => "bytes",
			GKind::Array(_) => "array",
			GKind::Map(_) => "map",
			GKind::Union(_) => "union",
			_ => "named",
		}
	}
}

fn to_crate_logical(l: &Logical) -> LogicalType {
	match l {
		Logical::Decimal { precision, scale } => LogicalType::Decimal(cs::Decimal::new(*scale, *precision)),
		Logical::Uuid => LogicalType::Uuid,
		Logical::Date => LogicalType::Date,
		Logical::TimeMillis => LogicalType::TimeMillis,
		Logical::TimeMicros => LogicalType::TimeMicros,
		Logical::TimestampMillis => LogicalType::TimestampMillis,
		Logical::TimestampMicros => LogicalType::TimestampMicros,
		Logical::Duration => LogicalType::Duration,
		Logical::BigDecimal => LogicalType::BigDecimal,
		Logical::Unknown(s) => LogicalType::Unknown(cs::UnknownLogicalType::new(s.clone())),
	}
}

/// How the `Name`s of null-namespace types are constructed through the public constructor
/// `Name::from_fully_qualified_name`: as `"X"` or as `".X"` (documented: leading dot stripped,
/// namespace None — under a namespaced parent the only way to say "null namespace" by name alone).
#[derive(Clone, Copy, Debug, PartialEq, Eq, Hash)]
pub enum NameSpell {
	Plain,
	/// every null-namespace name as ".X"
	Dotted,
	/// null-namespace names of odd-numbered nodes as ".X", of even-numbered ones as "X"
	OddDotted,
}

impl NameSpell {
	pub fn label(&self) -> &'static str {
		match self {
			NameSpell::Plain => "plain",
			NameSpell::Dotted => "dotted",
			NameSpell::OddDotted => "odd-dotted",
		}
	}
	pub fn from_label(s: &str) -> NameSpell {
		match s {
			"dotted" => NameSpell::Dotted,
			"odd-dotted" => NameSpell::OddDotted,
			_ => NameSpell::Plain,
		}
	}
	pub fn origin(&self) -> &'static str {
		match self {
			NameSpell::Plain => "built with from_nodes",
			NameSpell::Dotted => "built with from_nodes, null-namespace names constructed as Name::from_fully_qualified_name(\".X\")",
			NameSpell::OddDotted => "built with from_nodes, null-namespace names of odd-numbered nodes constructed as Name::from_fully_qualified_name(\".X\")",
		}
	}
}

/// The spellings each graph of a level is executed with: both uniform spellings up to 3 nodes,
/// the mixed one (no extra executions) above.
pub fn spellings_for(b: &GBounds) -> &'static [NameSpell] {
	if b.n <= 3 {
		&[NameSpell::Plain, NameSpell::Dotted]
	} else {
		&[NameSpell::OddDotted]
	}
}

pub fn has_null_namespace_name(g: &[GNode]) -> bool {
	g.iter().any(|n| n.name().map_or(false, |nm| !nm.contains('.')))
}

pub fn to_crate(g: &[GNode]) -> Vec<SchemaNode> {
	to_crate_spelled(g, NameSpell::Plain)
}

pub fn to_crate_spelled(g: &[GNode], sp: NameSpell) -> Vec<SchemaNode> {
	g.iter()
		.enumerate()
		.map(|(i, n)| {
			let key = SchemaKey::from_idx;
			let name = |s: &str| {
				let dotted = !s.contains('.') && (sp == NameSpell::Dotted || (sp == NameSpell::OddDotted && i % 2 == 1));
				cs::Name::from_fully_qualified_name(if dotted { format!(".{s}") } else { s.to_owned() })
			};
			// odd-numbered nodes are built through the public convenience conversions
			// (`From<Array|Map|Union|Record|Enum|Fixed> for RegularType / SchemaNode`,
			// `From<RegularType> for SchemaNode`), even-numbered ones through the variant
			// constructors and `SchemaNode::new`
			let conv = i % 2 == 1;
			let via = |direct: RegularType, node: SchemaNode| -> (RegularType, Option<SchemaNode>) { (direct, if conv { Some(node) } else { None }) };
			let (t, converted): (RegularType, Option<SchemaNode>) = match &n.kind {
				GKind::Null => via(RegularType::Null, SchemaNode::from(RegularType::Null)),
				GKind::Boolean => via(RegularType::Boolean, SchemaNode::from(RegularType::Boolean)),
				GKind::Int => via(RegularType::Int, SchemaNode::from(RegularType::Int)),
				GKind::Long => via(RegularType::Long, SchemaNode::from(RegularType::Long)),
				GKind::Float => via(RegularType::Float, SchemaNode::from(RegularType::Float)),
				GKind::Double => via(RegularType::Double, SchemaNode::from(RegularType::Double)),
				GKind::Str => via(RegularType::String, SchemaNode::from(RegularType::String)),
				GKind::Bytes => via(RegularType::Bytes, SchemaNode::from(RegularType::Bytes)),
				GKind::Array(k) => {
					let mk = || cs::Array::new(key(*k));
					if conv {
						(RegularType::from(mk()), Some(SchemaNode::from(mk())))
					} else {
						(RegularType::Array(mk()), None)
					}
				}
				GKind::Map(k) => {
					let mk = || cs::Map::new(key(*k));
					if conv {
						(RegularType::from(mk()), Some(SchemaNode::from(mk())))
					} else {
						(RegularType::Map(mk()), None)
					}
				}
				GKind::Union(v) => {
					let mk = || cs::Union::new(v.iter().map(|k| key(*k)).collect());
					if conv {
						(RegularType::from(mk()), Some(SchemaNode::from(mk())))
					} else {
						(RegularType::Union(mk()), None)
					}
				}
				GKind::Record(nm, f) => {
					let mk = || cs::Record::new(name(nm), f.iter().map(|(fname, k)| cs::RecordField::new(fname.clone(), key(*k))).collect());
					if conv {
						(RegularType::from(mk()), Some(SchemaNode::from(mk())))
					} else {
						(RegularType::Record(mk()), None)
					}
				}
				GKind::Enum(nm, sy) => {
					let mk = || cs::Enum::new(name(nm), sy.clone());
					if conv {
						(RegularType::from(mk()), Some(SchemaNode::from(mk())))
					} else {
						(RegularType::Enum(mk()), None)
					}
				}
				GKind::Fixed(nm, size) => {
					let mk = || cs::Fixed::new(name(nm), *size);
					if conv {
						(RegularType::from(mk()), Some(SchemaNode::from(mk())))
					} else {
						(RegularType::Fixed(mk()), None)
					}
				}
			};
			match (&n.logical, converted) {
				(None, Some(node)) => node,
				(None, None) => SchemaNode::new(t),
				(Some(l), _) => SchemaNode::with_logical_type(t, to_crate_logical(l)),
			}
		})
		.collect()
}

/// The public read accessors agree with direct access to `nodes()`: `root()`, `get(key)`,
/// `schema[key]`, `SchemaKey::root()`, and `LogicalType::as_str()` with the model's name.
pub fn accessors_agree(sm: &cs::SchemaMut, g: &[GNode]) -> Result<(), String> {
	let nodes = sm.nodes();
	if nodes.len() != g.len() {
		return Err(format!("nodes().len() = {}, built from {} nodes", nodes.len(), g.len()));
	}
	if SchemaKey::root().idx() != 0 || SchemaKey::root() != SchemaKey::from_idx(0) {
		return Err("SchemaKey::root() is not key 0".into());
	}
	if !std::ptr::eq(sm.root(), &nodes[0]) {
		return Err("root() is not nodes()[0]".into());
	}
	for i in 0..nodes.len() {
		let k = SchemaKey::from_idx(i);
		if k.idx() != i {
			return Err(format!("SchemaKey::from_idx({i}).idx() = {}", k.idx()));
		}
		match sm.get(k) {
			Some(n) if std::ptr::eq(n, &nodes[i]) => {}
			_ => return Err(format!("get({i}) is not nodes()[{i}]")),
		}
		if !std::ptr::eq(&sm[k], &nodes[i]) {
			return Err(format!("schema[{i}] is not nodes()[{i}]"));
		}
		match (&nodes[i].logical_type, &g[i].logical) {
			(None, None) => {}
			(Some(l), Some(m)) if l.as_str() == m.name() => {}
			(l, m) => return Err(format!("node {i}: LogicalType::as_str() = {:?}, built with {:?}", l.as_ref().map(|l| l.as_str()), m.as_ref().map(|m| m.name()))),
		}
	}
	if sm.get(SchemaKey::from_idx(nodes.len())).is_some() {
		return Err("get(len) is Some".into());
	}
	Ok(())
}

/// Sweep: one graph shape (record with a leaf field, an array, a map and a union field, plus
/// the bare root) x each primitive kind at each leaf position — bare, with every known logical
/// type the specification allows on it, and with an unknown logical type.
pub fn primitive_sweep() -> Vec<(String, Vec<GNode>)> {
	let prims: Vec<(&str, GKind)> = vec![("null", GKind::Null), ("boolean", GKind::Boolean), ("int", GKind::Int), ("long", GKind::Long), ("float", GKind::Float), ("double", GKind::Double), ("bytes", GKind::Bytes), ("string", GKind::Str)];
	let mut variants: Vec<(String, GNode)> = Vec::new();
	for (label, k) in &prims {
		variants.push((label.to_string(), GNode::plain(k.clone())));
		variants.push((format!("{label}+x-custom"), GNode { kind: k.clone(), logical: Some(Logical::Unknown("x-custom".into())) }));
	}
	for (label, k, l) in [
		("bytes+decimal", GKind::Bytes, Logical::Decimal { precision: 5, scale: 2 }),
		("bytes+big-decimal", GKind::Bytes, Logical::BigDecimal),
		("string+uuid", GKind::Str, Logical::Uuid),
		("int+date", GKind::Int, Logical::Date),
		("int+time-millis", GKind::Int, Logical::TimeMillis),
		("long+time-micros", GKind::Long, Logical::TimeMicros),
		("long+timestamp-millis", GKind::Long, Logical::TimestampMillis),
		("long+timestamp-micros", GKind::Long, Logical::TimestampMicros),
	] {
		variants.push((label.to_string(), GNode { kind: k, logical: Some(l) }));
	}
	let p = GNode::plain;
	let mut out = Vec::new();
	for (label, v) in &variants {
		out.push((format!("root {label}"), vec![v.clone()]));
		// leaf positions: 1 record field, 5 array items, 6 map values, 7 union member
		let shape = |at: &[usize]| -> Vec<GNode> {
			let leaf = |i: usize| if at.contains(&i) { v.clone() } else { p(GKind::Int) };
			vec![
				p(GKind::Record("a.R".into(), vec![("p".into(), 1), ("a".into(), 2), ("m".into(), 3), ("u".into(), 4)])),
				leaf(1),
				p(GKind::Array(5)),
				p(GKind::Map(6)),
				p(GKind::Union(vec![7, 8])),
				leaf(5),
				leaf(6),
				leaf(7),
				p(GKind::Enum("N8".into(), vec!["A".into()])),
			]
		};
		for (pos, name) in [(1usize, "record field"), (5, "array items"), (6, "map values"), (7, "union member")] {
			out.push((format!("{label} as {name}"), shape(&[pos])));
		}
		out.push((format!("{label} at every leaf"), shape(&[1, 5, 6, 7])));
	}
	out
}

/// Graphs with a logical type on a union node (not expressible in JSON: a union is an array).
pub fn union_with_logical() -> Vec<Vec<GNode>> {
	let p = GNode::plain;
	let mut out = Vec::new();
	for l in [Logical::Unknown("x-custom".into()), Logical::Date, Logical::Decimal { precision: 4, scale: 1 }] {
		let u = |a: usize, b: usize| GNode { kind: GKind::Union(vec![a, b]), logical: Some(l.clone()) };
		out.push(vec![u(1, 2), p(GKind::Null), p(GKind::Int)]);
		out.push(vec![p(GKind::Record("a.R".into(), vec![("f".into(), 1)])), u(2, 3), p(GKind::Str), p(GKind::Enum("E".into(), vec!["A".into()]))]);
		out.push(vec![p(GKind::Array(1)), u(2, 3), p(GKind::Null), p(GKind::Record("R".into(), vec![("next".into(), 0)]))]);
	}
	out
}

/// Description of a crate node vector (for edited parsed schemas).
pub fn from_crate(nodes: &[SchemaNode]) -> Option<Vec<GNode>> {
	nodes
		.iter()
		.map(|n| {
			let kind = match &n.type_ {
				RegularType::Null => GKind::Null,
				RegularType::Boolean => GKind::Boolean,
				RegularType::Int => GKind::Int,
				RegularType::Long => GKind::Long,
				RegularType::Float => GKind::Float,
				RegularType::Double => GKind::Double,
				RegularType::String => GKind::Str,
				RegularType::Bytes => GKind::Bytes,
				RegularType::Array(a) => GKind::Array(a.items.idx()),
				RegularType::Map(m) => GKind::Map(m.values.idx()),
				RegularType::Union(u) => GKind::Union(u.variants.iter().map(|k| k.idx()).collect()),
				RegularType::Record(r) => GKind::Record(r.name.fully_qualified_name().to_owned(), r.fields.iter().map(|f| (f.name.clone(), f.type_.idx())).collect()),
				RegularType::Enum(e) => GKind::Enum(e.name.fully_qualified_name().to_owned(), e.symbols.clone()),
				RegularType::Fixed(f) => GKind::Fixed(f.name.fully_qualified_name().to_owned(), f.size),
			};
			let logical = match &n.logical_type {
				None => None,
				Some(LogicalType::Decimal(d)) => Some(Logical::Decimal { precision: d.precision, scale: d.scale }),
				Some(LogicalType::Uuid) => Some(Logical::Uuid),
				Some(LogicalType::Date) => Some(Logical::Date),
				Some(LogicalType::TimeMillis) => Some(Logical::TimeMillis),
				Some(LogicalType::TimeMicros) => Some(Logical::TimeMicros),
				Some(LogicalType::TimestampMillis) => Some(Logical::TimestampMillis),
				Some(LogicalType::TimestampMicros) => Some(Logical::TimestampMicros),
				Some(LogicalType::Duration) => Some(Logical::Duration),
				Some(LogicalType::BigDecimal) => Some(Logical::BigDecimal),
				Some(other) => Some(Logical::Unknown(other.as_str().to_owned())),
			};
			Some(GNode { kind, logical })
		})
		.collect()
}

pub fn describe(g: &[GNode]) -> String {
	let mut s = String::from("[");
	for (i, n) in g.iter().enumerate() {
		if i > 0 {
			s.push_str(", ");
		}
		s.push_str(&format!("{i}: "));
		match &n.kind {
			GKind::Null | GKind::Boolean | GKind::Int | GKind::Long | GKind::Float | GKind::Double | GKind::Str | GKind::Bytes => s.push_str(n.union_tag()),
			GKind::Array(k) => s.push_str(&format!("array(items={k})")),
			GKind::Map(k) => s.push_str(&format!("map(values={k})")),
			GKind::Union(v) => s.push_str(&format!("union{v:?}")),
			GKind::Record(n, f) => s.push_str(&format!("record {n:?} {{{}}}", f.iter().map(|(n, k)| format!("{n}: {k}")).collect::<Vec<_>>().join(", "))),
			GKind::Enum(n, sy) => s.push_str(&format!("enum {n:?} {sy:?}")),
			GKind::Fixed(n, size) => s.push_str(&format!("fixed {n:?} size {size}")),
		}
		if let Some(l) = &n.logical {
			s.push_str(&format!(" +logical {l:?}"));
		}
	}
	s.push(']');
	s
}

pub fn to_json(g: &[GNode]) -> serde_json::Value {
	use serde_json::json;
	serde_json::Value::Array(
		g.iter()
			.map(|n| {
				let mut v = match &n.kind {
					GKind::Null | GKind::Boolean | GKind::Int | GKind::Long | GKind::Float | GKind::Double | GKind::Str | GKind::Bytes => json!({"k": n.union_tag()}),
					GKind::Array(k) => json!({"k": "array", "to": [k]}),
					GKind::Map(k) => json!({"k": "map", "to": [k]}),
					GKind::Union(v) => json!({"k": "union", "to": v}),
					GKind::Record(nm, f) => json!({"k": "record", "name": nm, "fields": f.iter().map(|(n, _)| n.clone()).collect::<Vec<_>>(), "to": f.iter().map(|(_, k)| *k).collect::<Vec<_>>()}),
					GKind::Enum(nm, s) => json!({"k": "enum", "name": nm, "symbols": s}),
					GKind::Fixed(nm, size) => json!({"k": "fixed", "name": nm, "size": size}),
				};
				if let Some(l) = &n.logical {
					v["logical"] = match l {
						Logical::Decimal { precision, scale } => json!({"decimal": [precision, scale]}),
						other => json!(other.name()),
					};
				}
				v
			})
			.collect(),
	)
}

pub fn from_json(v: &serde_json::Value) -> Option<Vec<GNode>> {
	v.as_array()?
		.iter()
		.map(|n| {
			let to: Vec<usize> = n["to"].as_array().map(|a| a.iter().filter_map(|k| k.as_u64().map(|k| k as usize)).collect()).unwrap_or_default();
			let strs = |key: &str| -> Vec<String> { n[key].as_array().map(|a| a.iter().filter_map(|s| s.as_str().map(|s| s.to_owned())).collect()).unwrap_or_default() };
			let name = n["name"].as_str().unwrap_or("").to_owned();
			let kind = match n["k"].as_str()? {
				"null" => GKind::Null,
				"boolean" => GKind::Boolean,
				"int" => GKind::Int,
				"long" => GKind::Long,
				"float" => GKind::Float,
				"double" => GKind::Double,
				"string" => GKind::Str,
				"bytes" => GKind::Bytes,
				"array" => GKind::Array(*to.first()?),
				"map" => GKind::Map(*to.first()?),
				"union" => GKind::Union(to),
				"record" => GKind::Record(name, strs("fields").into_iter().zip(to).collect()),
				"enum" => GKind::Enum(name, strs("symbols")),
				"fixed" => GKind::Fixed(name, n["size"].as_u64()? as usize),
				_ => return None,
			};
			let logical = match &n["logical"] {
				serde_json::Value::Null => None,
				serde_json::Value::String(s) => Some(match s.as_str() {
					"uuid" => Logical::Uuid,
					"date" => Logical::Date,
					"time-millis" => Logical::TimeMillis,
					"time-micros" => Logical::TimeMicros,
					"timestamp-millis" => Logical::TimestampMillis,
					"timestamp-micros" => Logical::TimestampMicros,
					"duration" => Logical::Duration,
					"big-decimal" => Logical::BigDecimal,
					o => Logical::Unknown(o.to_owned()),
				}),
				o => {
					let a = o["decimal"].as_array()?;
					Some(Logical::Decimal { precision: a[0].as_u64()? as usize, scale: a[1].as_u64()? as u32 })
				}
			};
			Some(GNode { kind, logical })
		})
		.collect()
}

// ---------------------------------------------------------------------------------------------
// Analysis

pub fn reachable(g: &[GNode]) -> Vec<bool> {
	let mut seen = vec![false; g.len()];
	let mut stack = vec![0usize];
	while let Some(i) = stack.pop() {
		if i >= g.len() || seen[i] {
			continue;
		}
		seen[i] = true;
		stack.extend(g[i].children());
	}
	seen
}

/// Node ids equal their depth-first discovery order from the root (one representative per
/// renumbering class).
pub fn canonical_numbering(g: &[GNode]) -> bool {
	let mut order: Vec<usize> = Vec::new();
	let mut seen = vec![false; g.len()];
	fn dfs(g: &[GNode], i: usize, seen: &mut Vec<bool>, order: &mut Vec<usize>) {
		if seen[i] {
			return;
		}
		seen[i] = true;
		order.push(i);
		for c in g[i].children() {
			dfs(g, c, seen, order);
		}
	}
	dfs(g, 0, &mut seen, &mut order);
	order.iter().enumerate().all(|(pos, id)| pos == *id)
}

/// A cycle that passes through unnamed nodes only, reachable from the root.
pub fn has_unnamed_cycle(g: &[GNode]) -> bool {
	let reach = reachable(g);
	// colours: 0 white, 1 on stack, 2 done — DFS restricted to unnamed nodes
	let mut col = vec![0u8; g.len()];
	fn dfs(g: &[GNode], i: usize, col: &mut Vec<u8>) -> bool {
		col[i] = 1;
		for c in g[i].children() {
			if g[c].name().is_some() {
				continue;
			}
			if col[c] == 1 {
				return true;
			}
			if col[c] == 0 && dfs(g, c, col) {
				return true;
			}
		}
		col[i] = 2;
		false
	}
	for i in 0..g.len() {
		if reach[i] && g[i].name().is_none() && col[i] == 0 && dfs(g, i, &mut col) {
			return true;
		}
	}
	false
}

/// Any cycle reachable from the root.
pub fn has_cycle(g: &[GNode]) -> bool {
	let mut col = vec![0u8; g.len()];
	fn dfs(g: &[GNode], i: usize, col: &mut Vec<u8>) -> bool {
		col[i] = 1;
		for c in g[i].children() {
			if c >= g.len() {
				continue;
			}
			if col[c] == 1 {
				return true;
			}
			if col[c] == 0 && dfs(g, c, col) {
				return true;
			}
		}
		col[i] = 2;
		false
	}
	!g.is_empty() && dfs(g, 0, &mut col)
}

/// Some unnamed node (array, map, union) reachable from the root lies on a cycle.
pub fn unnamed_node_on_cycle(g: &[GNode]) -> bool {
	let reach = reachable(g);
	(0..g.len()).any(|u| {
		if !reach[u] || g[u].name().is_some() {
			return false;
		}
		// is u reachable from its own children?
		let mut seen = vec![false; g.len()];
		let mut stack = g[u].children();
		while let Some(i) = stack.pop() {
			if i == u {
				return true;
			}
			if i >= g.len() || seen[i] {
				continue;
			}
			seen[i] = true;
			stack.extend(g[i].children());
		}
		false
	})
}

/// Unions the specification allows: no union directly inside a union, no two branches of the
/// same unnamed type, no named type twice.
pub fn unions_valid(g: &[GNode]) -> bool {
	g.iter().all(|n| match &n.kind {
		GKind::Union(v) => {
			let mut tags: Vec<(&str, usize)> = Vec::new();
			for &k in v {
				let t = g[k].union_tag();
				if t == "union" {
					return false;
				}
				let key = if t == "named" { (t, k) } else { (t, usize::MAX) };
				if tags.contains(&key) {
					return false;
				}
				tags.push(key);
			}
			true
		}
		_ => true,
	})
}

/// The schema the graph denotes, as the AST of the document that defines every named type at
/// its first occurrence (depth-first, fields in order) and refers to it by fullname afterwards.
/// Requires that no cycle passes through unnamed nodes only.
pub fn unfold(g: &[GNode]) -> RSchema {
	fn go(g: &[GNode], i: usize, written: &mut Vec<bool>) -> RSchema {
		let n = &g[i];
		let base = match &n.kind {
			GKind::Null => RSchema::Null,
			GKind::Boolean => RSchema::Boolean,
			GKind::Int => RSchema::Int,
			GKind::Long => RSchema::Long,
			GKind::Float => RSchema::Float,
			GKind::Double => RSchema::Double,
			GKind::Str => RSchema::String,
			GKind::Bytes => RSchema::Bytes,
			GKind::Array(k) => RSchema::array(go(g, *k, written)),
			GKind::Map(k) => RSchema::map(go(g, *k, written)),
			GKind::Union(v) => RSchema::Union(v.iter().map(|k| go(g, *k, written)).collect()),
			GKind::Record(name, fields) => {
				if written[i] {
					return RSchema::Ref(name.clone());
				}
				written[i] = true;
				RSchema::Record { name: name.clone(), fields: fields.iter().map(|(fname, k)| (fname.clone(), go(g, *k, written))).collect() }
			}
			GKind::Enum(name, symbols) => {
				if written[i] {
					return RSchema::Ref(name.clone());
				}
				written[i] = true;
				RSchema::Enum { name: name.clone(), symbols: symbols.clone() }
			}
			GKind::Fixed(name, size) => {
				if written[i] {
					return RSchema::Ref(name.clone());
				}
				written[i] = true;
				RSchema::Fixed { name: name.clone(), size: *size }
			}
		};
		match &n.logical {
			Some(l) => RSchema::Logical(l.clone(), Box::new(base)),
			None => base,
		}
	}
	go(g, 0, &mut vec![false; g.len()])
}

pub fn unique_fullnames(g: &[GNode]) -> bool {
	let mut names: Vec<&str> = Vec::new();
	for n in g {
		if let Some(nm) = n.name() {
			if names.contains(&nm) {
				return false;
			}
			names.push(nm);
		}
	}
	true
}

// ---------------------------------------------------------------------------------------------
// Enumeration

#[derive(Clone, Debug)]
pub struct GBounds {
	pub label: &'static str,
	pub n: usize,
	pub namespaces: &'static [&'static str],
	pub strings: bool,
	pub maps: bool,
	pub record2: bool,
	pub fixed: bool,
	pub logical: bool,
	/// all named nodes share the simple name `N` (shadowing)
	pub shadow: bool,
	/// keep only the depth-first-numbered representative of each renumbering class
	pub canonical_only: bool,
}

pub fn fullname(ns: &str, simple: &str) -> String {
	if ns.is_empty() {
		simple.to_owned()
	} else {
		format!("{ns}.{simple}")
	}
}

/// Every way of filling node `i` of an `n`-node vector.
pub fn node_options(i: usize, b: &GBounds) -> Vec<GNode> {
	let n = b.n;
	let mut out: Vec<GNode> = Vec::new();
	let p = GNode::plain;
	out.push(p(GKind::Int));
	if b.strings {
		out.push(p(GKind::Str));
	}
	for k in 0..n {
		out.push(p(GKind::Array(k)));
		if b.maps {
			out.push(p(GKind::Map(k)));
		}
	}
	for k1 in 0..n {
		for k2 in 0..n {
			if k1 != k2 {
				out.push(p(GKind::Union(vec![k1, k2])));
			}
		}
	}
	let simple = if b.shadow { "N".to_owned() } else { format!("N{i}") };
	for ns in b.namespaces {
		let full = fullname(ns, &simple);
		for k in 0..n {
			out.push(p(GKind::Record(full.clone(), vec![("f0".into(), k)])));
		}
		if b.record2 {
			for k1 in 0..n {
				for k2 in 0..n {
					out.push(p(GKind::Record(full.clone(), vec![("g1".into(), k1), ("g0".into(), k2)])));
				}
			}
		}
		out.push(p(GKind::Enum(full.clone(), vec!["B".into(), "A".into()])));
		if b.fixed {
			out.push(p(GKind::Fixed(full.clone(), 2)));
		}
	}
	if b.logical {
		out.push(GNode { kind: GKind::Int, logical: Some(Logical::Date) });
		out.push(GNode { kind: GKind::Str, logical: Some(Logical::Uuid) });
		out.push(GNode { kind: GKind::Bytes, logical: Some(Logical::Decimal { precision: 5, scale: 2 }) });
		for k in 0..n {
			out.push(GNode { kind: GKind::Array(k), logical: Some(Logical::Unknown("x-custom".into())) });
		}
		for ns in b.namespaces {
			let full = fullname(ns, &simple);
			out.push(GNode { kind: GKind::Fixed(full.clone(), 2), logical: Some(Logical::Decimal { precision: 4, scale: 0 }) });
			out.push(GNode { kind: GKind::Fixed(full.clone(), 12), logical: Some(Logical::Duration) });
			out.push(GNode { kind: GKind::Enum(full.clone(), vec!["S".into()]), logical: Some(Logical::Unknown("x-custom".into())) });
			// enum without symbols
			out.push(GNode::plain(GKind::Enum(full.clone(), vec![])));
			for k in 0..n {
				out.push(GNode { kind: GKind::Record(full.clone(), vec![("f0".into(), k)]), logical: Some(Logical::Unknown("x-custom".into())) });
			}
		}
	}
	out
}

/// One graph: node 0 is `first`, the others are picked. `None` when the vector is outside the
/// enumerated space (unreachable nodes, a union the specification forbids, duplicate fullnames,
/// or — with `canonical_only` — not the representative numbering).
pub fn gen_graph(ch: &mut Chooser, b: &GBounds, opts: &[Vec<GNode>], first: usize) -> Option<Vec<GNode>> {
	let mut g: Vec<GNode> = Vec::with_capacity(b.n);
	g.push(opts[0][first].clone());
	for i in 1..b.n {
		let o = &opts[i];
		g.push(o[ch.pick(o.len())].clone());
	}
	if !reachable(&g).iter().all(|r| *r) {
		return None;
	}
	if !unions_valid(&g) || !unique_fullnames(&g) {
		return None;
	}
	if b.canonical_only && !canonical_numbering(&g) {
		return None;
	}
	Some(g)
}
