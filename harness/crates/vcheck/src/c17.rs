//! C17 — container reader on damaged files (fault enumeration).
//!
//! Units = small valid container files (all six codecs), written by the crate's `Writer` with a
//! pinned sync marker (plus a few written by `vmodel::container::cf_write`, which can also produce
//! empty blocks) and cross-checked with `vmodel::container::cf_parse`.
//! Cases = one unit x one damage x one reader kind:
//!   * truncation at every offset,
//!   * single-byte corruption at every offset,
//!   * an I/O error injected at every read-call index (reader kinds only),
//!   * truncation + I/O error (thorough),
//!   * targeted framing damage located through the model (sync, size +-1, count +-1, snappy CRC).
//! Every case runs on the real `Reader` inside a worker subprocess with a per-case horizon.

use crate::envs::ChunkedBufRead;
use crate::explore::{hash64, Cover};
use crate::gen::{self, ObsMode, RecordStyle, UnionStyle};
use crate::obs::{Hint, ObsSeed, O};
use crate::report::{hex, Report, Violation};
use crate::subj::panic_message;
use rayon::prelude::*;
use serde::{Deserialize, Serialize};
use serde_avro_fast::de::read::take::Take;
use serde_avro_fast::de::read::{Read as ARead, ReadSlice, ReaderRead};
use serde_avro_fast::object_container_file_encoding::{Compression, CompressionLevel, FailedToInitializeReader, Reader, WriterBuilder};
use serde_avro_fast::ser::SerializerConfig;
use serde_json::json;
use std::cell::Cell;
use std::io::{self, BufRead, Read};
use std::panic::{catch_unwind, AssertUnwindSafe};
use std::rc::Rc;
use std::sync::atomic::{AtomicBool, AtomicU64, Ordering};
use vmodel::schema::{Env, RSchema};
use vmodel::value::RValue;

pub const SYNC: [u8; 16] = [0x10, 0x32, 0x54, 0x76, 0x98, 0xba, 0xdc, 0xfe, 0x01, 0x23, 0x45, 0x67, 0x89, 0xab, 0xcd, 0xef];
pub const CODECS: [&str; 6] = ["null", "deflate", "bzip2", "snappy", "xz", "zstandard"];
const KINDS: [&str; 5] = ["slice", "reader-1-byte-chunks", "reader-whole-buffer", "reader-3-byte-chunks", "reader-16-byte-chunks"];
/// refill size of reader kind k (0 = whole buffer at once)
const KIND_CHUNK: [usize; 5] = [0, 1, 0, 3, 16];
fn n_kinds(thorough: bool) -> usize {
	if thorough {
		5
	} else {
		3
	}
}
/// Seconds a single case may take before the worker declares it hung (a corrupted snappy length
/// preamble legitimately costs several seconds: the crate zeroes up to 4 GiB). `VERIF_C17_HORIZON_S`
/// overrides it (used to exercise the hang path of the machinery quickly).
const HORIZON_S: u64 = 90;
fn horizon_s() -> u64 {
	std::env::var("VERIF_C17_HORIZON_S").ok().and_then(|s| s.parse().ok()).unwrap_or(HORIZON_S)
}
/// `max_alloc_size` of the `ReaderRead`s used in the sweep (legitimate fields are < 300 bytes).
const MAX_ALLOC: usize = 4096;
/// Further `deserialize_next` calls made after the first result that is not a value.
const CALLS_AFTER_STOP: usize = 6;

// ---------------------------------------------------------------------------------------------
// Units

#[derive(Clone, Debug, PartialEq, Eq, Hash, Serialize, Deserialize)]
pub struct UnitDesc {
	/// index into `CODECS`
	pub codec: usize,
	/// 0 long, 1 string, 2 record{a: long, b: string}, 3 null
	pub schema: usize,
	/// number of datums per block
	pub layout: Vec<usize>,
	/// written by the model (`cf_write`) instead of the crate's `Writer`
	pub model_written: bool,
	/// explore trunc+io double faults and all byte values for corruption (thorough only)
	pub deep: bool,
}

fn schema_of(i: usize) -> RSchema {
	match i {
		0 => RSchema::Long,
		1 => RSchema::String,
		2 => RSchema::record("R", vec![("a", RSchema::Long), ("b", RSchema::String)]),
		3 => RSchema::Null,
		_ => unreachable!(),
	}
}

const LONGS: [i64; 12] = [1, -2, 300, -70000, 5_000_000_000, 63, -64, 8192, i64::MAX, 0, -1_000_000, 77];
const STRS: [&str; 12] = ["a", "bc", "", "é😀", "0123456789", "x", "yz", "Q", "hello world", "zz", "k", "end"];

/// The datum at global position `pos` of a file: all positions carry pairwise distinct values, so
/// that a skipped or repeated datum cannot pass for a prefix.
fn value_at(schema: usize, pos: usize) -> RValue {
	match schema {
		0 => RValue::Long(LONGS[pos]),
		1 => RValue::Str(STRS[pos].to_owned()),
		2 => RValue::Record(vec![RValue::Long(LONGS[pos]), RValue::Str(STRS[pos].to_owned())]),
		3 => RValue::Null,
		_ => unreachable!(),
	}
}

#[derive(Clone, Debug)]
pub struct BlockPos {
	pub start: usize,
	pub count: i64,
	pub count_len: usize,
	pub size: i64,
	pub size_len: usize,
	#[allow(dead_code)]
	pub data_start: usize,
	pub sync_start: usize,
}

pub struct Built {
	pub desc: UnitDesc,
	pub schema_text: String,
	pub bytes: Vec<u8>,
	/// expected observation (deserialize_any, borrow flags erased) of every datum, in file order
	pub written: Vec<O>,
	pub header_end: usize,
	pub blocks: Vec<BlockPos>,
	/// the bytes come from `vmodel::container::cf_write`
	pub reference_written: bool,
	/// why the crate-written file was replaced by the reference-written one (the independent
	/// parser did not accept what the crate's `Writer` produced)
	pub fallback: Option<String>,
}

fn compression(codec: usize) -> Compression {
	let level = CompressionLevel::default();
	match codec {
		0 => Compression::Null,
		1 => Compression::Deflate { level },
		2 => Compression::Bzip2 { level },
		3 => Compression::Snappy,
		4 => Compression::Xz { level },
		5 => Compression::Zstandard { level },
		_ => unreachable!(),
	}
}

fn varint_len(n: i64) -> usize {
	vmodel::value::long_bytes(n).len()
}

pub fn build(desc: &UnitDesc) -> Result<Built, String> {
	let rs = schema_of(desc.schema);
	let env = Env::new(&rs);
	let schema_text = gen::schema_text(&rs);
	let n: usize = desc.layout.iter().sum();
	if n > LONGS.len() {
		return Err("layout too long".into());
	}
	let values: Vec<RValue> = (0..n).map(|i| value_at(desc.schema, i)).collect();
	let written: Vec<O> = values.iter().map(|v| gen::expect_obs(v, &rs, &env, ObsMode::Any, false).unborrowed()).collect();
	let datums: Vec<Vec<u8>> = values.iter().map(|v| vmodel::value::encode(v, &rs, &env, &mut vmodel::value::Canonical)).collect::<Result<_, _>>()?;
	let write_reference = || -> Result<Vec<u8>, String> {
		let meta = vec![("avro.schema".to_owned(), schema_text.clone().into_bytes()), ("avro.codec".to_owned(), CODECS[desc.codec].as_bytes().to_vec())];
		let mut blocks = Vec::new();
		let mut pos = 0;
		for &c in &desc.layout {
			blocks.push((c as u64, datums[pos..pos + c].concat()));
			pos += c;
		}
		vmodel::container::cf_write(&meta, &vmodel::container::MetaLayout { blocks: vec![2], sized: false }, SYNC, CODECS[desc.codec], &blocks)
	};
	let write_crate = || -> Result<Vec<u8>, String> {
		if desc.layout.iter().any(|&c| c == 0) {
			return Err("the crate's writer cannot produce an empty block".into());
		}
		let schema = gen::to_crate_schema(&rs)?;
		let mut config = SerializerConfig::new(&schema);
		let r = catch_unwind(AssertUnwindSafe(|| -> Result<Vec<u8>, String> {
			let mut w = WriterBuilder::new(&mut config).compression(compression(desc.codec)).approx_block_size(u32::MAX).sync_marker(SYNC).build(Vec::new()).map_err(|e| e.to_string())?;
			let mut pos = 0;
			for &c in &desc.layout {
				for _ in 0..c {
					let p = gen::pres_of(&values[pos], &rs, &env, UnionStyle::ByTypeWhereUnambiguous, RecordStyle::Struct);
					w.serialize(&p).map_err(|e| e.to_string())?;
					pos += 1;
				}
				w.finish_block().map_err(|e| e.to_string())?;
			}
			w.into_inner().map_err(|e| e.to_string())
		}));
		match r {
			Ok(r) => r,
			Err(p) => Err(format!("writer panicked: {}", panic_message(p))),
		}
	};
	// cross-check with the independent parser (the premise of C17 is a *valid* file) and locate the framing
	let locate = |bytes: &[u8]| -> Result<(usize, Vec<BlockPos>), String> {
		let parsed = vmodel::container::cf_parse(bytes).map_err(|e| format!("cf_parse rejects the file: {e}"))?;
		if parsed.codec != CODECS[desc.codec] || parsed.sync != SYNC {
			return Err(format!("codec/sync in the file differ: {:?}", parsed.codec));
		}
		if parsed.meta_get("avro.schema").map(|s| String::from_utf8_lossy(s).into_owned()).as_deref() != Some(schema_text.as_str()) {
			return Err("avro.schema in the file differs from the schema text".into());
		}
		if parsed.blocks.len() != desc.layout.len() {
			return Err(format!("{} blocks in the file, layout {:?}", parsed.blocks.len(), desc.layout));
		}
		let mut pos = 0;
		for (b, &c) in parsed.blocks.iter().zip(&desc.layout) {
			if b.count as usize != c || b.data != datums[pos..pos + c].concat() {
				return Err(format!("block content differs from the model encoding (count {} vs {c})", b.count));
			}
			pos += c;
		}
		let blocks_len: usize = parsed.blocks.iter().map(|b| varint_len(b.count as i64) + varint_len(b.raw.len() as i64) + b.raw.len() + 16).sum();
		let header_end = bytes.len() - blocks_len;
		if bytes[header_end - 16..header_end] != SYNC {
			return Err("header sync marker not where the model locates it".into());
		}
		let mut blocks = Vec::new();
		let mut at = header_end;
		for b in &parsed.blocks {
			let count_len = varint_len(b.count as i64);
			let size_len = varint_len(b.raw.len() as i64);
			let data_start = at + count_len + size_len;
			let sync_start = data_start + b.raw.len();
			if bytes[sync_start..sync_start + 16] != SYNC {
				return Err("block sync marker not where the model locates it".into());
			}
			blocks.push(BlockPos { start: at, count: b.count as i64, count_len, size: b.raw.len() as i64, size_len, data_start, sync_start });
			at = sync_start + 16;
		}
		Ok((header_end, blocks))
	};
	let mut fallback = None;
	if !desc.model_written {
		// the crate's writer is not what C17 is about: a file it gets wrong (C05/C06's business) is replaced
		// by the reference-written one, so that the READER is still judged
		match write_crate().and_then(|bytes| locate(&bytes).map(|(h, b)| (bytes, h, b))) {
			Ok((bytes, header_end, blocks)) => return Ok(Built { desc: desc.clone(), schema_text, bytes, written, header_end, blocks, reference_written: false, fallback: None }),
			Err(e) => fallback = Some(e),
		}
	}
	let bytes = write_reference()?;
	let (header_end, blocks) = locate(&bytes).map_err(|e| format!("reference-written file: {e}"))?;
	Ok(Built { desc: desc.clone(), schema_text, bytes, written, header_end, blocks, reference_written: true, fallback })
}

fn layouts_all(alphabet: &[usize], max_len: usize) -> Vec<Vec<usize>> {
	let mut out: Vec<Vec<usize>> = Vec::new();
	let mut level: Vec<Vec<usize>> = vec![vec![]];
	for _ in 0..max_len {
		let mut next = Vec::new();
		for l in &level {
			for &a in alphabet {
				let mut v = l.clone();
				v.push(a);
				next.push(v);
			}
		}
		out.extend(next.iter().cloned());
		level = next;
	}
	out
}

pub fn units(thorough: bool) -> Vec<UnitDesc> {
	let mut out = Vec::new();
	let base_layouts: Vec<Vec<usize>> = vec![vec![1], vec![3], vec![2, 1], vec![1, 2, 1]];
	for codec in 0..6 {
		for schema in 0..3 {
			// the four base layouts, then every layout of 1-3 blocks of 1, 2 or 4 datums
			for l in &base_layouts {
				out.push(UnitDesc { codec, schema, layout: l.clone(), model_written: false, deep: thorough });
			}
			for l in layouts_all(&[1, 2, 4], if thorough { 3 } else { 2 }) {
				if !base_layouts.contains(&l) {
					let deep = thorough && l.len() <= 2;
					out.push(UnitDesc { codec, schema, layout: l, model_written: false, deep });
				}
			}
			// files with empty blocks can only come from the model's writer
			// ... and by-the-book multi-block files that do not depend on the crate's writer
			for l in [vec![0], vec![0, 0], vec![2, 0, 1], vec![0, 3], vec![1, 0], vec![4, 4, 4], vec![2, 1], vec![1, 2, 1]] {
				out.push(UnitDesc { codec, schema, layout: l, model_written: true, deep: false });
			}
		}
		// zero-byte datums: no-panic part only
		for l in [vec![2, 1], vec![4], vec![1, 1, 1]] {
			out.push(UnitDesc { codec, schema: 3, layout: l, model_written: false, deep: false });
		}
	}
	out
}

// ---------------------------------------------------------------------------------------------
// Cases

#[derive(Clone, Debug, PartialEq, Eq, Hash, Serialize, Deserialize)]
pub enum Frame {
	/// one byte of the sync marker that ends block `block`
	SyncBlock { block: usize, byte: usize, mask: u8 },
	/// one byte of the sync marker in the file header (every block then disagrees with it)
	SyncHeader { byte: usize, mask: u8 },
	/// declared byte size of the block +-1 (varint re-encoded)
	Size { block: usize, delta: i64 },
	/// declared object count of the block +-1 (varint re-encoded)
	Count { block: usize, delta: i64 },
	/// one byte of the 4-byte CRC that ends a snappy block
	Crc { block: usize, byte: usize, mask: u8 },
}

#[derive(Clone, Debug, PartialEq, Eq, Hash, Serialize, Deserialize)]
pub enum Case {
	/// keep the first `off` bytes
	Trunc { off: usize, kind: usize },
	/// byte at `off` replaced by `val`
	Corrupt { off: usize, val: u8, kind: usize },
	/// the `call`-th fill_buf/read call of the underlying reader fails
	Io { call: usize, kind: usize },
	TruncIo { off: usize, call: usize, kind: usize },
	Frame { target: Frame, kind: usize },
}

impl Case {
	fn kind(&self) -> usize {
		match self {
			Case::Trunc { kind, .. } | Case::Corrupt { kind, .. } | Case::Io { kind, .. } | Case::TruncIo { kind, .. } | Case::Frame { kind, .. } => *kind,
		}
	}
	fn class(&self) -> &'static str {
		match self {
			Case::Trunc { .. } => "trunc",
			Case::Corrupt { .. } => "corrupt",
			Case::Io { .. } => "io",
			Case::TruncIo { .. } => "trunc+io",
			Case::Frame { target, .. } => match target {
				Frame::SyncBlock { .. } | Frame::SyncHeader { .. } => "sync",
				Frame::Size { .. } => "size",
				Frame::Count { .. } => "count",
				Frame::Crc { .. } => "crc",
			},
		}
	}
}

fn splice_varint(bytes: &[u8], at: usize, old_len: usize, new: i64) -> Vec<u8> {
	let mut out = bytes[..at].to_vec();
	vmodel::value::write_long(new, &mut out);
	out.extend_from_slice(&bytes[at + old_len..]);
	out
}

/// The damaged file and the read-call index to fail.
pub fn apply(u: &Built, c: &Case) -> (Vec<u8>, Option<usize>) {
	match c {
		Case::Trunc { off, .. } => (u.bytes[..*off].to_vec(), None),
		Case::Corrupt { off, val, .. } => {
			let mut b = u.bytes.clone();
			b[*off] = *val;
			(b, None)
		}
		Case::Io { call, .. } => (u.bytes.clone(), Some(*call)),
		Case::TruncIo { off, call, .. } => (u.bytes[..*off].to_vec(), Some(*call)),
		Case::Frame { target, .. } => {
			let mut b = u.bytes.clone();
			match target {
				Frame::SyncBlock { block, byte, mask } => b[u.blocks[*block].sync_start + byte] ^= mask,
				Frame::SyncHeader { byte, mask } => b[u.header_end - 16 + byte] ^= mask,
				Frame::Crc { block, byte, mask } => b[u.blocks[*block].sync_start - 4 + byte] ^= mask,
				Frame::Size { block, delta } => {
					let p = &u.blocks[*block];
					b = splice_varint(&u.bytes, p.start + p.count_len, p.size_len, p.size + delta);
				}
				Frame::Count { block, delta } => {
					let p = &u.blocks[*block];
					b = splice_varint(&u.bytes, p.start, p.count_len, p.count + delta);
				}
			}
			(b, None)
		}
	}
}

/// All cases of a unit, in a fixed order (the index in this list identifies a case for the workers).
pub fn cases(u: &Built, thorough: bool) -> Vec<Case> {
	let len = u.bytes.len();
	let nk = n_kinds(thorough);
	let mut out = Vec::new();
	for off in 0..=len {
		for kind in 0..nk {
			out.push(Case::Trunc { off, kind });
		}
	}
	for off in 0..len {
		let orig = u.bytes[off];
		let mut vals: Vec<u8> = if u.desc.deep { (0..=255u8).collect() } else { vec![orig ^ 0x01, orig ^ 0x80, 0x00, 0xff] };
		vals.retain(|&v| v != orig);
		vals.dedup();
		for val in vals {
			for kind in 0..nk {
				out.push(Case::Corrupt { off, val, kind });
			}
		}
	}
	for kind in 1..nk {
		let total = exec_raw(&u.bytes, None, kind, u.written.len()).calls;
		for call in 0..total {
			out.push(Case::Io { call, kind });
		}
	}
	if u.desc.deep {
		for off in 0..len {
			for kind in 1..nk {
				let total = exec_raw(&u.bytes[..off], None, kind, u.written.len()).calls;
				for call in 0..total {
					out.push(Case::TruncIo { off, call, kind });
				}
			}
		}
	}
	if u.desc.schema != 3 {
		let sync_bytes: Vec<usize> = if thorough { (0..16).collect() } else { vec![0, 7, 15] };
		let masks: &[u8] = if thorough { &[0x01, 0x80] } else { &[0x01] };
		let mut targets = Vec::new();
		if !u.blocks.is_empty() {
			for &byte in &sync_bytes {
				for &mask in masks {
					targets.push(Frame::SyncHeader { byte, mask });
				}
			}
		}
		for block in 0..u.blocks.len() {
			for &byte in &sync_bytes {
				for &mask in masks {
					targets.push(Frame::SyncBlock { block, byte, mask });
				}
			}
			for delta in [-1i64, 1] {
				targets.push(Frame::Size { block, delta });
				targets.push(Frame::Count { block, delta });
			}
			if CODECS[u.desc.codec] == "snappy" {
				for byte in 0..4 {
					for &mask in masks {
						targets.push(Frame::Crc { block, byte, mask });
					}
				}
			}
		}
		for target in targets {
			for kind in 0..nk {
				out.push(Case::Frame { target: target.clone(), kind });
			}
		}
	}
	out
}

// ---------------------------------------------------------------------------------------------
// Execution on the real reader

/// `ChunkedBufRead` whose counters stay visible after it has been moved into the `Reader`.
struct Counted<'a> {
	inner: ChunkedBufRead<'a>,
	calls: Rc<Cell<usize>>,
	fired: Rc<Cell<bool>>,
}
impl<'a> Counted<'a> {
	fn sync(&self) {
		self.calls.set(self.inner.fill_calls);
		self.fired.set(self.inner.failed);
	}
}
impl<'a> BufRead for Counted<'a> {
	fn fill_buf(&mut self) -> io::Result<&[u8]> {
		self.calls.set(self.inner.fill_calls + 1);
		if self.inner.fail_at_call == Some(self.inner.fill_calls) {
			self.fired.set(true);
		}
		self.inner.fill_buf()
	}
	fn consume(&mut self, amt: usize) {
		self.inner.consume(amt)
	}
}
impl<'a> Read for Counted<'a> {
	fn read(&mut self, buf: &mut [u8]) -> io::Result<usize> {
		let r = self.inner.read(buf);
		self.sync();
		r
	}
}

#[derive(Clone, Debug, PartialEq, Eq, Hash)]
pub enum Res {
	Val(O),
	None,
	/// `io`: `DeError::io_error()` is `Some`; `ctor`: the error came from `Reader::new`
	Err { io: bool, ctor: bool, msg: String },
	Panic(String),
}

impl Res {
	fn short(&self) -> String {
		match self {
			Res::Val(o) => format!("Some({})", show_o(o)),
			Res::None => "None".into(),
			Res::Err { io, ctor, msg } => format!("Err{}{}({msg})", if *ctor { "[construction]" } else { "" }, if *io { "[io]" } else { "" }),
			Res::Panic(m) => format!("PANIC({m})"),
		}
	}
	/// abstract letter (outcome hashing ignores messages)
	fn letter(&self) -> char {
		match self {
			Res::Val(_) => 'S',
			Res::None => 'N',
			Res::Err { io: true, .. } => 'I',
			Res::Err { .. } => 'E',
			Res::Panic(_) => 'P',
		}
	}
}

fn show_o(o: &O) -> String {
	match o {
		O::I64(i) => format!("{i}"),
		O::Str(s, _) => format!("{s:?}"),
		O::Unit => "null".into(),
		O::Map(kv) => format!("{{{}}}", kv.iter().map(|(k, v)| format!("{}: {}", show_o(k), show_o(v))).collect::<Vec<_>>().join(", ")),
		other => format!("{other:?}"),
	}
}

pub struct Exec {
	pub seq: Vec<Res>,
	/// fill_buf/read calls made on the underlying reader (0 for the slice)
	pub calls: usize,
	/// the injected I/O error was actually returned to the crate
	pub fired: bool,
	/// number of calls within which the reader must have reported end of stream
	pub budget: Budget,
}

/// How many `deserialize_next` calls a reader that consumes one declared object per call can need
/// on this (damaged) file: a lenient walk over the block framing — counts and sizes as declared,
/// whatever the data and the sync markers are.
#[derive(Clone, Copy, Debug, PartialEq, Eq)]
pub enum Budget {
	/// sum of the declared object counts + number of blocks + 8
	Calls(usize),
	/// a declared count above `HUGE_COUNT`: no verdict on progress
	Huge,
	/// the header cannot be walked by the model: no verdict on progress
	Unreadable,
}
const HUGE_COUNT: i64 = 10_000;

struct Walk<'a> {
	b: &'a [u8],
	i: usize,
}
impl<'a> Walk<'a> {
	fn long(&mut self) -> Option<i64> {
		let mut u: u64 = 0;
		for k in 0..10 {
			let byte = *self.b.get(self.i)?;
			self.i += 1;
			u |= ((byte & 0x7f) as u64) << (7 * k);
			if byte & 0x80 == 0 {
				return Some(vmodel::value::unzigzag(u));
			}
		}
		None
	}
	fn skip(&mut self, n: i64) -> Option<()> {
		if n < 0 || (n as u64) > (self.b.len() - self.i) as u64 {
			return None;
		}
		self.i += n as usize;
		Some(())
	}
}

pub fn lenient_budget(bytes: &[u8]) -> Budget {
	let mut w = Walk { b: bytes, i: 0 };
	let header = (|| -> Option<()> {
		w.skip(4)?;
		loop {
			let n = w.long()?;
			if n == 0 {
				break;
			}
			if n < 0 {
				w.long()?;
			}
			for _ in 0..n.unsigned_abs() {
				let k = w.long()?;
				w.skip(k)?;
				let v = w.long()?;
				w.skip(v)?;
			}
		}
		w.skip(16)
	})();
	if header.is_none() {
		return Budget::Unreadable;
	}
	let mut sum: usize = 0;
	let mut blocks = 0usize;
	while w.i < bytes.len() {
		let Some(count) = w.long() else { break };
		if count > HUGE_COUNT {
			return Budget::Huge;
		}
		if count < 0 {
			break;
		}
		blocks += 1;
		sum += count as usize;
		let Some(size) = w.long() else { break };
		if size < 0 || w.skip(size).is_none() || w.skip(16).is_none() {
			break;
		}
	}
	Budget::Calls(sum + blocks + 8)
}

fn drive<'de, R>(ctor: impl FnOnce() -> Result<Reader<R>, FailedToInitializeReader>, n_written: usize, budget: Budget) -> Vec<Res>
where
	R: ARead + Take + BufRead + ReadSlice<'de>,
	<R as Take>::Take: BufRead + ReadSlice<'de>,
{
	let mut seq = Vec::new();
	let mut reader = match catch_unwind(AssertUnwindSafe(ctor)) {
		Err(p) => {
			seq.push(Res::Panic(panic_message(p)));
			return seq;
		}
		Ok(Err(e)) => {
			let io = match &e {
				FailedToInitializeReader::FailedToDeserializeHeader(d) => d.io_error().is_some(),
				_ => false,
			};
			seq.push(Res::Err { io, ctor: true, msg: e.to_string() });
			return seq;
		}
		Ok(Ok(r)) => r,
	};
	// keep calling until end of stream has been reported (then CALLS_AFTER_STOP - 1 further calls), at most
	// as long as the progress budget allows; without a budget: a few calls past the first non-value
	let max_calls = match budget {
		Budget::Calls(b) => b + CALLS_AFTER_STOP,
		_ => n_written + 2 + CALLS_AFTER_STOP,
	};
	let with_budget = matches!(budget, Budget::Calls(_));
	let mut after_stop = 0;
	for _ in 0..max_calls {
		let r = catch_unwind(AssertUnwindSafe(|| reader.deserialize_seed_next(ObsSeed(&Hint::Any))));
		let res = match r {
			Err(p) => {
				seq.push(Res::Panic(panic_message(p)));
				// the reader's state is unknown after an unwind: stop here (leak it rather than run its Drop)
				std::mem::forget(reader);
				return seq;
			}
			Ok(Ok(Some(o))) => Res::Val(o.unborrowed()),
			Ok(Ok(None)) => Res::None,
			Ok(Err(e)) => Res::Err { io: e.io_error().is_some(), ctor: false, msg: e.to_string() },
		};
		let stop = if with_budget { matches!(res, Res::None) } else { !matches!(res, Res::Val(_)) };
		seq.push(res);
		if stop || after_stop > 0 {
			after_stop += 1;
			if after_stop >= CALLS_AFTER_STOP {
				break;
			}
		}
	}
	seq
}

pub fn exec_raw(bytes: &[u8], fail_at: Option<usize>, kind: usize, n_written: usize) -> Exec {
	let budget = lenient_budget(bytes);
	if kind == 0 {
		let seq = drive(|| Reader::from_slice(bytes), n_written, budget);
		return Exec { seq, calls: 0, fired: false, budget };
	}
	let calls = Rc::new(Cell::new(0));
	let fired = Rc::new(Cell::new(false));
	let mut inner = ChunkedBufRead::uniform(bytes, KIND_CHUNK[kind]);
	inner.fail_at_call = fail_at;
	let counted = Counted { inner, calls: calls.clone(), fired: fired.clone() };
	let seq = drive(
		move || {
			let mut rr = ReaderRead::new(counted);
			rr.max_alloc_size = MAX_ALLOC;
			Reader::new(rr)
		},
		n_written,
		budget,
	);
	Exec { seq, calls: calls.get(), fired: fired.get(), budget }
}

pub fn exec(u: &Built, c: &Case) -> (Vec<u8>, Exec) {
	let (bytes, fail_at) = apply(u, c);
	let e = exec_raw(&bytes, fail_at, c.kind(), u.written.len());
	(bytes, e)
}


// ---------------------------------------------------------------------------------------------
// Second consumption mode: the iterator API and the borrowing API

/// Owned observation target for `Reader::deserialize::<T>()` / `deserialize_next::<T>()`.
struct AnyOwned(O);
impl<'de> Deserialize<'de> for AnyOwned {
	fn deserialize<D: serde::Deserializer<'de>>(d: D) -> Result<Self, D::Error> {
		use serde::de::DeserializeSeed;
		ObsSeed(&Hint::Any).deserialize(d).map(|o| AnyOwned(o.unborrowed()))
	}
}

/// What one consumption through the iterator API showed.
pub struct IterRun {
	/// items yielded by `reader.deserialize::<T>()`, in order (a construction error is the single item)
	pub items: Vec<Res>,
	/// the iterator returned `None` within the horizon
	pub ended: bool,
	/// result of one further `deserialize_next` on the same reader after the iterator had ended
	pub after: Option<Res>,
}

fn res_of(r: Result<Option<O>, serde_avro_fast::de::DeError>) -> Res {
	match r {
		Ok(Some(o)) => Res::Val(o),
		Ok(None) => Res::None,
		Err(e) => Res::Err { io: e.io_error().is_some(), ctor: false, msg: e.to_string() },
	}
}

fn ctor_res(e: &FailedToInitializeReader) -> Res {
	let io = match e {
		FailedToInitializeReader::FailedToDeserializeHeader(d) => d.io_error().is_some(),
		_ => false,
	};
	Res::Err { io, ctor: true, msg: e.to_string() }
}

fn drive_iter<'de, R>(ctor: impl FnOnce() -> Result<Reader<R>, FailedToInitializeReader>, horizon: usize) -> IterRun
where
	R: ARead + Take + BufRead + ReadSlice<'de>,
	<R as Take>::Take: BufRead + ReadSlice<'de>,
{
	let mut run = IterRun { items: Vec::new(), ended: false, after: None };
	let mut reader = match catch_unwind(AssertUnwindSafe(ctor)) {
		Err(p) => {
			run.items.push(Res::Panic(panic_message(p)));
			return run;
		}
		Ok(Err(e)) => {
			run.items.push(ctor_res(&e));
			run.ended = true;
			return run;
		}
		Ok(Ok(r)) => r,
	};
	let mut panicked = false;
	{
		let mut it = reader.deserialize::<AnyOwned>();
		for _ in 0..horizon {
			match catch_unwind(AssertUnwindSafe(|| it.next())) {
				Err(p) => {
					run.items.push(Res::Panic(panic_message(p)));
					panicked = true;
					break;
				}
				Ok(None) => {
					run.ended = true;
					break;
				}
				Ok(Some(item)) => run.items.push(res_of(item.map(|a| Some(a.0)))),
			}
		}
	}
	if panicked {
		std::mem::forget(reader);
		return run;
	}
	if run.ended {
		match catch_unwind(AssertUnwindSafe(|| reader.deserialize_next::<AnyOwned>())) {
			Err(p) => {
				run.after = Some(Res::Panic(panic_message(p)));
				std::mem::forget(reader);
			}
			Ok(r) => run.after = Some(res_of(r.map(|o| o.map(|a| a.0)))),
		}
	}
	run
}

pub fn exec_iter_raw(bytes: &[u8], fail_at: Option<usize>, kind: usize, horizon: usize) -> IterRun {
	if kind == 0 {
		return drive_iter(|| Reader::from_slice(bytes), horizon);
	}
	let mut inner = ChunkedBufRead::uniform(bytes, KIND_CHUNK[kind]);
	inner.fail_at_call = fail_at;
	let counted = Counted { inner, calls: Rc::new(Cell::new(0)), fired: Rc::new(Cell::new(false)) };
	drive_iter(
		move || {
			let mut rr = ReaderRead::new(counted);
			rr.max_alloc_size = MAX_ALLOC;
			Reader::new(rr)
		},
		horizon,
	)
}

/// Same kind of result, same value, same I/O flag (messages are not compared).
fn same_res(a: &Res, b: &Res) -> bool {
	match (a, b) {
		(Res::Val(x), Res::Val(y)) => x == y,
		(Res::None, Res::None) => true,
		(Res::Err { io: i, ctor: c, .. }, Res::Err { io: j, ctor: d, .. }) => i == j && c == d,
		(Res::Panic(_), Res::Panic(_)) => true,
		_ => false,
	}
}

fn iter_horizon(e: &Exec, n_written: usize) -> usize {
	match e.budget {
		Budget::Calls(b) => b,
		_ => n_written + 2 + CALLS_AFTER_STOP,
	}
}

/// The iterator must show exactly what the `deserialize_next` loop shows up to its first end of
/// stream, end there (within the horizon), and leave the reader where the loop would be.
pub fn judge_iter(e: &Exec, it: &IterRun) -> Vec<(&'static str, String)> {
	let mut out: Vec<(&'static str, String)> = Vec::new();
	let seq = &e.seq;
	let show = |v: &[Res]| rle(&v.iter().map(|r| r.short()).collect::<Vec<_>>());
	if it.items.iter().any(|r| matches!(r, Res::Panic(_))) && !seq.iter().any(|r| matches!(r, Res::Panic(_))) {
		out.push(("iterator-panic", format!("reader.deserialize::<T>() panicked; items: [{}]", show(&it.items))));
		return out;
	}
	if matches!(seq.first(), Some(Res::Err { ctor: true, .. })) {
		if !(it.items.len() == 1 && same_res(&it.items[0], &seq[0])) {
			out.push(("iterator-differs-from-next-loop", format!("construction failed for the deserialize_next loop but the iterator run shows [{}]", show(&it.items))));
		}
		return out;
	}
	let first_none = seq.iter().position(|r| matches!(r, Res::None));
	let expected: &[Res] = &seq[..first_none.unwrap_or(seq.len())];
	let common = expected.len().min(it.items.len());
	if let Some(i) = (0..common).find(|&i| !same_res(&expected[i], &it.items[i])) {
		out.push(("iterator-differs-from-next-loop", format!("item {i} of reader.deserialize::<T>() is {}, call {i} of the deserialize_next loop on a fresh reader returned {}; iterator items: [{}]", it.items[i].short(), expected[i].short(), show(&it.items))));
		return out;
	}
	if let Some(fnone) = first_none {
		if it.items.len() < expected.len() {
			out.push(("iterator-differs-from-next-loop", format!("reader.deserialize::<T>() ended after {} items, the deserialize_next loop returns {} at call {} before its first end of stream; iterator items: [{}]", it.items.len(), expected[it.items.len()].short(), it.items.len(), show(&it.items))));
		} else if !it.ended || it.items.len() > expected.len() {
			if matches!(e.budget, Budget::Calls(b) if fnone < b) {
				out.push((
					"iterator-does-not-end",
					format!("reader.deserialize::<T>() yielded {} items without ending (horizon {}), the deserialize_next loop reports end of stream at call {fnone}; items from there on: [{}]", it.items.len(), iter_horizon(e, 0), show(&it.items[expected.len().min(it.items.len())..])),
				));
			}
		} else if let (Some(after), Some(want)) = (&it.after, seq.get(fnone + 1)) {
			if !same_res(after, want) {
				out.push(("call-after-iterator-end-differs", format!("after the iterator had ended, deserialize_next returned {}, the deserialize_next loop returns {} at that point", after.short(), want.short())));
			}
		}
	}
	out
}

/// Borrowing targets for `deserialize_next_borrowed` / `deserialize_borrowed`.
trait Borrowing<'a>: Deserialize<'a> {
	fn obs(&self) -> O;
	/// every borrowed string points into `input`
	fn inside(&self, input: &[u8]) -> bool;
	fn has_borrowed(&self) -> bool {
		true
	}
}
fn str_inside(s: &str, input: &[u8]) -> bool {
	let (lo, hi) = (input.as_ptr() as usize, input.as_ptr() as usize + input.len());
	let a = s.as_ptr() as usize;
	s.is_empty() || (a >= lo && a + s.len() <= hi)
}
impl<'a> Borrowing<'a> for &'a str {
	fn obs(&self) -> O {
		O::str(self)
	}
	fn inside(&self, input: &[u8]) -> bool {
		str_inside(self, input)
	}
}
#[derive(Deserialize)]
struct BRec<'a> {
	a: i64,
	#[serde(borrow)]
	b: &'a str,
}
impl<'a> Borrowing<'a> for BRec<'a> {
	fn obs(&self) -> O {
		O::Map(vec![(O::str("a"), O::I64(self.a)), (O::str("b"), O::str(self.b))])
	}
	fn inside(&self, input: &[u8]) -> bool {
		str_inside(self.b, input)
	}
}

/// Schema-agnostic borrowing target (used when the damage touched the file header, where a typed
/// target would no longer fit the schema the reader sees): `deserialize_any`, borrowed-ness recorded.
struct AnyB {
	o: O,
	outside: bool,
}
fn any_borrowed(o: &O) -> bool {
	match o {
		O::Str(_, b) | O::Bytes(_, b) => *b,
		O::Some(x) | O::Newtype(x) => any_borrowed(x),
		O::Seq(v) => v.iter().any(any_borrowed),
		O::Map(v) => v.iter().any(|(k, x)| any_borrowed(k) || any_borrowed(x)),
		O::Enum(a, b) => any_borrowed(a) || any_borrowed(b),
		_ => false,
	}
}
impl<'a> Deserialize<'a> for AnyB {
	fn deserialize<D: serde::Deserializer<'a>>(d: D) -> Result<Self, D::Error> {
		use serde::de::DeserializeSeed;
		// `borrow_run` has declared the input range: the observation visitor checks every borrowed delivery
		let o = ObsSeed(&Hint::Any).deserialize(d)?;
		Ok(AnyB { o, outside: crate::obs::borrowed_outside_input() })
	}
}
impl<'a> Borrowing<'a> for AnyB {
	fn obs(&self) -> O {
		self.o.unborrowed()
	}
	fn inside(&self, _input: &[u8]) -> bool {
		!self.outside
	}
	fn has_borrowed(&self) -> bool {
		any_borrowed(&self.o)
	}
}

pub struct BorrowRun {
	/// results of successive `deserialize_next_borrowed` calls
	pub next: Vec<Res>,
	/// items of `deserialize_borrowed()` and whether it ended
	pub iter: Vec<Res>,
	pub iter_ended: bool,
	/// borrowed values delivered / of those, pointing outside the input
	pub borrowed_values: usize,
	pub outside: Vec<String>,
}

fn borrow_run<'a, T: Borrowing<'a>>(bytes: &'a [u8], n_calls: usize, horizon: usize) -> BorrowRun {
	let mut run = BorrowRun { next: Vec::new(), iter: Vec::new(), iter_ended: false, borrowed_values: 0, outside: Vec::new() };
	crate::obs::set_input_range(bytes);
	let note = |run: &mut BorrowRun, t: &T| {
		if t.has_borrowed() {
			run.borrowed_values += 1;
		}
		if !t.inside(bytes) {
			run.outside.push(show_o(&t.obs()));
		}
	};
	// the call loop
	match catch_unwind(AssertUnwindSafe(|| Reader::from_slice(bytes))) {
		Err(p) => run.next.push(Res::Panic(panic_message(p))),
		Ok(Err(e)) => run.next.push(ctor_res(&e)),
		Ok(Ok(mut reader)) => {
			for _ in 0..n_calls {
				match catch_unwind(AssertUnwindSafe(|| reader.deserialize_next_borrowed::<T>())) {
					Err(p) => {
						run.next.push(Res::Panic(panic_message(p)));
						std::mem::forget(reader);
						break;
					}
					Ok(r) => {
						if let Ok(Some(t)) = &r {
							note(&mut run, t);
						}
						run.next.push(res_of(r.map(|o| o.map(|t| t.obs()))));
					}
				}
			}
		}
	}
	// the iterator
	match catch_unwind(AssertUnwindSafe(|| Reader::from_slice(bytes))) {
		Err(p) => run.iter.push(Res::Panic(panic_message(p))),
		Ok(Err(e)) => {
			run.iter.push(ctor_res(&e));
			run.iter_ended = true;
		}
		Ok(Ok(mut reader)) => {
			let mut panicked = false;
			{
				let mut it = reader.deserialize_borrowed::<T>();
				for _ in 0..horizon {
					match catch_unwind(AssertUnwindSafe(|| it.next())) {
						Err(p) => {
							run.iter.push(Res::Panic(panic_message(p)));
							panicked = true;
							break;
						}
						Ok(None) => {
							run.iter_ended = true;
							break;
						}
						Ok(Some(item)) => {
							if let Ok(t) = &item {
								note(&mut run, t);
							}
							run.iter.push(res_of(item.map(|t| Some(t.obs()))));
						}
					}
				}
			}
			if panicked {
				std::mem::forget(reader);
			}
		}
	}
	crate::obs::clear_input_range();
	run
}

/// Borrowing API on the slice reader of an uncompressed file: same results as the owned call loop,
/// every borrowed value inside the input.
pub fn judge_borrow(e: &Exec, b: &BorrowRun) -> Vec<(&'static str, String)> {
	let mut out: Vec<(&'static str, String)> = Vec::new();
	let seq = &e.seq;
	let show = |v: &[Res]| rle(&v.iter().map(|r| r.short()).collect::<Vec<_>>());
	if !b.outside.is_empty() {
		out.push(("borrowed-value-outside-input", format!("borrowed value(s) {} do not point into the file slice", b.outside.join(", "))));
	}
	let n = seq.len().min(b.next.len());
	if b.next.len() != seq.len() || (0..n).any(|i| !same_res(&seq[i], &b.next[i])) {
		out.push(("borrowed-differs-from-next-loop", format!("successive deserialize_next_borrowed calls returned [{}], deserialize_next on a fresh reader returns [{}]", show(&b.next), show(seq))));
	}
	if !matches!(seq.first(), Some(Res::Err { ctor: true, .. })) {
		let first_none = seq.iter().position(|r| matches!(r, Res::None));
		let expected: &[Res] = &seq[..first_none.unwrap_or(seq.len())];
		let n = expected.len().min(b.iter.len());
		let differs = (0..n).any(|i| !same_res(&expected[i], &b.iter[i]));
		let wrong_end = first_none.is_some() && (b.iter.len() != expected.len() || !b.iter_ended);
		if differs || wrong_end {
			out.push(("borrowed-differs-from-next-loop", format!("deserialize_borrowed() yielded [{}]{}, the deserialize_next loop returns [{}] before its first end of stream", show(&b.iter), if b.iter_ended { " and ended" } else { " without ending" }, show(expected))));
		}
	}
	out
}

/// Does the borrowing mode apply to this case?  (slice reader, null codec, a schema with a string)
fn borrow_applies(u: &Built, c: &Case) -> bool {
	c.kind() == 0 && CODECS[u.desc.codec] == "null" && (u.desc.schema == 1 || u.desc.schema == 2)
}

fn exec_borrow(u: &Built, bytes: &[u8], e: &Exec) -> BorrowRun {
	let horizon = iter_horizon(e, u.written.len());
	// typed targets only while the header (hence the schema the reader sees) is the written one
	let header_intact = bytes.len() >= u.header_end && bytes[..u.header_end] == u.bytes[..u.header_end];
	if !header_intact {
		borrow_run::<AnyB>(bytes, e.seq.len(), horizon)
	} else if u.desc.schema == 1 {
		borrow_run::<&str>(bytes, e.seq.len(), horizon)
	} else {
		borrow_run::<BRec>(bytes, e.seq.len(), horizon)
	}
}

// ---------------------------------------------------------------------------------------------
// Oracle

/// Violations of the property in one execution: (class, explanation).
pub fn judge(u: &Built, c: &Case, e: &Exec) -> Vec<(&'static str, String)> {
	let mut out: Vec<(&'static str, String)> = Vec::new();
	let seq = &e.seq;
	let class = c.class();
	// never a panic (all classes)
	if let Some(Res::Panic(m)) = seq.iter().find(|r| matches!(r, Res::Panic(_))) {
		out.push(("panic", format!("the reader panicked: {m}")));
	}
	// progress (all classes): a reader that consumes one declared object per call reports end of stream within
	// sum(declared counts) + blocks + 8 calls, also when the caller keeps calling after errors
	if let Budget::Calls(b) = e.budget {
		let ctor_failed = matches!(seq.first(), Some(Res::Err { ctor: true, .. }));
		let panicked = seq.iter().any(|r| matches!(r, Res::Panic(_)));
		let first_none = seq.iter().position(|r| matches!(r, Res::None));
		if !ctor_failed && !panicked && first_none.map_or(true, |i| i >= b) {
			let last = seq.last().map(|r| r.short()).unwrap_or_default();
			let same_tail = seq.iter().rev().take_while(|r| Some(*r) == seq.last()).count();
			out.push((
				"no-progress-after-error",
				format!("end of stream not reported within {b} calls (declared object counts + blocks + 8 of the damaged file); the last {same_tail} calls all returned {last}"),
			));
		}
	}
	// an error that carries an I/O error is unrecoverable: reported once, then end of stream (all classes)
	if let Some(i) = seq.iter().position(|r| matches!(r, Res::Err { io: true, .. })) {
		if let Some(j) = seq[i + 1..].iter().position(|r| !matches!(r, Res::None)) {
			out.push(("io-error-not-final", format!("call {} returned an I/O error, call {} returned {} instead of end of stream", i, i + 1 + j, seq[i + 1 + j].short())));
		}
	}
	// the undamaged file (every reader kind; the second consumption mode is tied to this one by judge_iter /
	// judge_borrow): exactly the written values, then end of stream
	if matches!(c, Case::Trunc { off, .. } if *off == u.bytes.len()) {
		let n = u.written.len();
		let good = seq.len() > n && seq[..n].iter().zip(&u.written).all(|(r, w)| matches!(r, Res::Val(o) if o == w)) && seq[n..].iter().all(|r| matches!(r, Res::None));
		if !good {
			out.push(("undamaged-file-misread", format!("the undamaged file must read as its {n} written values and then end of stream")));
		}
	}
	let null_schema = u.desc.schema == 3;
	// genuine prefix: truncation and read errors cannot legitimately change or add a value
	if matches!(class, "trunc" | "io" | "trunc+io") && !null_schema {
		let mut k = 0;
		let mut stopped: Option<usize> = None;
		for (i, r) in seq.iter().enumerate() {
			match r {
				Res::Val(o) => {
					if let Some(s) = stopped {
						out.push(("value-after-stop", format!("call {i} returned a value after call {s} had returned {}", seq[s].short())));
						break;
					}
					if k >= u.written.len() {
						out.push(("fabricated-value", format!("call {i} returned {} but only {} values were written", show_o(o), u.written.len())));
						break;
					}
					if *o != u.written[k] {
						out.push(("fabricated-value", format!("call {i} returned {} where {} was written", show_o(o), show_o(&u.written[k]))));
						break;
					}
					k += 1;
				}
				_ => {
					if stopped.is_none() {
						stopped = Some(i);
					}
				}
			}
		}
	}
	if class == "trunc" {
		// a premature end of the file is an I/O (unexpected EOF) or framing error: once, then end of stream
		if let Some(i) = seq.iter().position(|r| matches!(r, Res::Err { .. })) {
			if let Some(j) = seq[i + 1..].iter().position(|r| !matches!(r, Res::None)) {
				out.push(("truncation-error-not-final", format!("after the error reported by call {i}, call {} returned {} instead of end of stream", i + 1 + j, seq[i + 1 + j].short())));
			}
		}
	}
	let errs = seq.iter().filter(|r| matches!(r, Res::Err { .. })).count();
	if class == "io" && e.fired {
		// the injected error is yielded exactly once, then end of stream
		if errs == 0 {
			out.push(("io-error-swallowed", "the underlying reader returned an error but no call reported one".into()));
		} else {
			let i = seq.iter().position(|r| matches!(r, Res::Err { .. })).unwrap();
			if let Some(j) = seq[i + 1..].iter().position(|r| !matches!(r, Res::None)) {
				out.push(("error-not-final", format!("after the read error reported by call {i}, call {} returned {} instead of end of stream", i + 1 + j, seq[i + 1 + j].short())));
			}
		}
	}
	if matches!(class, "sync" | "size" | "count" | "crc") {
		// the damage must be reported: an Err before the first end of stream
		let first_none = seq.iter().position(|r| matches!(r, Res::None)).unwrap_or(seq.len());
		let reported = seq[..first_none].iter().any(|r| matches!(r, Res::Err { .. }));
		if !reported && !seq.iter().any(|r| matches!(r, Res::Panic(_))) {
			out.push((
				match class {
					"sync" => "sync-damage-unreported",
					"size" => "size-damage-unreported",
					"count" => "count-damage-unreported",
					_ => "crc-damage-unreported",
				},
				"no call returned an error before end of stream".into(),
			));
		}
		if class == "sync" {
			// a sync mismatch is a framing error: once, then end of stream
			if let Some(i) = seq.iter().position(|r| matches!(r, Res::Err { .. })) {
				if let Some(j) = seq[i + 1..].iter().position(|r| !matches!(r, Res::None)) {
					out.push(("framing-error-not-final", format!("after the error reported by call {i}, call {} returned {} instead of end of stream", i + 1 + j, seq[i + 1 + j].short())));
				}
			}
		}
	}
	out
}

/// "a, b x3, c": consecutive equal items folded.
fn rle(items: &[String]) -> String {
	let mut out: Vec<String> = Vec::new();
	let mut i = 0;
	while i < items.len() {
		let mut j = i;
		while j < items.len() && items[j] == items[i] {
			j += 1;
		}
		out.push(if j - i > 1 { format!("{} x{}", items[i], j - i) } else { items[i].clone() });
		i = j;
	}
	out.join(", ")
}

pub fn describe(u: &Built, c: &Case, bytes: &[u8], e: &Exec) -> String {
	format!(
		"file: codec {} schema {} blocks {:?} ({}, {} bytes, hex {}); damage {:?} -> {} bytes read through {}{}; written values [{}]; results of successive deserialize_next calls: [{}]",
		CODECS[u.desc.codec],
		u.schema_text,
		u.desc.layout,
		if !u.reference_written {
			"written by the crate's Writer"
		} else if u.fallback.is_some() {
			"written by vmodel::cf_write because the independent parser rejects what the crate's Writer produced"
		} else {
			"written by vmodel::cf_write"
		},
		u.bytes.len(),
		hex(&u.bytes).replace(' ', ""),
		c,
		bytes.len(),
		KINDS[c.kind()],
		if bytes != u.bytes { format!(" (damaged file hex {})", hex(bytes).replace(' ', "")) } else { String::new() },
		u.written.iter().map(show_o).collect::<Vec<_>>().join(", "),
		rle(&e.seq.iter().map(|r| r.short()).collect::<Vec<_>>()),
	)
}

// ---------------------------------------------------------------------------------------------
// Worker side

static TICK: AtomicU64 = AtomicU64::new(0);
static CUR: AtomicU64 = AtomicU64::new(u64::MAX);
static DONE: AtomicBool = AtomicBool::new(false);

/// A case that does not finish within the horizon terminates the process with exit code 3 after
/// printing `HANG <case index>` on stderr.
fn start_watchdog(exit_code: i32) {
	let horizon = horizon_s();
	std::thread::spawn(move || {
		let mut last = u64::MAX;
		let mut since = std::time::Instant::now();
		loop {
			std::thread::sleep(std::time::Duration::from_millis(250));
			if DONE.load(Ordering::SeqCst) {
				return;
			}
			let t = TICK.load(Ordering::SeqCst);
			if t != last {
				last = t;
				since = std::time::Instant::now();
			} else if since.elapsed().as_secs() >= horizon && CUR.load(Ordering::SeqCst) != u64::MAX {
				eprintln!("HANG {}", CUR.load(Ordering::SeqCst));
				std::process::exit(exit_code);
			}
		}
	});
}

#[derive(Default, Serialize, Deserialize)]
struct WorkerOut {
	states: u64,
	transitions: u64,
	evaluations: u64,
	impl_runs: u64,
	samples: Vec<serde_json::Value>,
	counters: std::collections::BTreeMap<String, u64>,
	/// (class, what, replay)
	violations: Vec<(String, String, serde_json::Value)>,
	n_cases: usize,
	/// class:letters of the result sequence (S value, N end of stream, E error, I error carrying an I/O error, P panic) -> cases
	shapes: std::collections::BTreeMap<String, u64>,
}

struct CaseOutcome {
	violations: Vec<(String, String, serde_json::Value)>,
	nontrivial: bool,
	outcome: u64,
	next_calls: u64,
	shape: String,
	counters: Vec<String>,
	sample: Option<serde_json::Value>,
}

fn replay_token(u: &Built, c: &Case) -> serde_json::Value {
	json!({"check": "C17", "unit": serde_json::to_value(&u.desc).unwrap(), "case": serde_json::to_value(c).unwrap()})
}

fn run_case(u: &Built, c: &Case) -> CaseOutcome {
	let (bytes, fail_at) = apply(u, c);
	let e = exec_raw(&bytes, fail_at, c.kind(), u.written.len());
	let mut vs = judge(u, c, &e);
	// second consumption mode: the iterator API (all cases), the borrowing API (slice, null codec, string schemas)
	let it = exec_iter_raw(&bytes, fail_at, c.kind(), iter_horizon(&e, u.written.len()));
	vs.extend(judge_iter(&e, &it));
	let br = if borrow_applies(u, c) { Some(exec_borrow(u, &bytes, &e)) } else { None };
	if let Some(b) = &br {
		vs.extend(judge_borrow(&e, b));
	}
	let mut violations = Vec::new();
	if !vs.is_empty() {
		// determinism guard: the same case must give the same results again
		let (_, e2) = exec(u, c);
		if e2.seq != e.seq {
			eprintln!("MACHINERY: case {c:?} of unit {:?} gave two different result sequences", u.desc);
			std::process::exit(2);
		}
		let what = describe(u, c, &bytes, &e);
		for (class, why) in vs.drain(..) {
			violations.push((class.to_owned(), format!("{why}; {what}"), replay_token(u, c)));
		}
	}
	let seq = &e.seq;
	let class = c.class();
	let ctor_ok = !matches!(seq.first(), Some(Res::Err { ctor: true, .. }));
	let n_vals = seq.iter().filter(|r| matches!(r, Res::Val(_))).count();
	let has_err = seq.iter().any(|r| matches!(r, Res::Err { .. }));
	let has_io = seq.iter().any(|r| matches!(r, Res::Err { io: true, .. }));
	let changed_value = seq.iter().filter_map(|r| if let Res::Val(o) = r { Some(o) } else { None }).zip(u.written.iter()).any(|(a, b)| a != b) || n_vals > u.written.len();
	let damaged = bytes != u.bytes || matches!(c, Case::Io { .. } | Case::TruncIo { .. });
	let nontrivial = damaged && ctor_ok && (has_err || n_vals < u.written.len() || changed_value);
	let mut counters: Vec<&'static str> = Vec::new();
	let mut dyn_counters: Vec<String> = Vec::new();
	for (vc, _, _) in &violations {
		dyn_counters.push(format!("violation[{vc}] codec={} reader={}", CODECS[u.desc.codec], KINDS[c.kind()]));
	}
	match class {
		"trunc" => {
			if damaged && ctor_ok && n_vals > 0 && n_vals < u.written.len() && has_err {
				counters.push("trunc_partial_prefix_then_err");
			}
			if damaged && ctor_ok && n_vals < u.written.len() && !has_err {
				counters.push("trunc_prefix_then_clean_eos");
			}
			if has_io {
				counters.push("trunc_err_io");
			}
			if has_err && !has_io && ctor_ok {
				counters.push("trunc_err_non_io");
			}
			if !ctor_ok {
				counters.push("trunc_construction_err");
			}
			if !damaged && n_vals == u.written.len() && !has_err {
				counters.push("undamaged_read_completely");
			}
			if !damaged && has_err {
				counters.push("undamaged_but_err");
			}
			if !damaged && n_vals == u.written.len() && !has_err && u.reference_written && u.blocks.len() >= 2 {
				counters.push("undamaged_reference_written_multi_block_read_completely");
			}
		}
		"io" | "trunc+io" => {
			if e.fired && has_io {
				counters.push("io_injected_reported_as_io_error");
			}
			if e.fired && has_err && !has_io {
				counters.push("io_injected_reported_without_io_flag");
			}
			if e.fired && ctor_ok && n_vals > 0 {
				counters.push("io_after_values");
			}
			if !e.fired {
				counters.push("io_not_reached");
			}
		}
		"corrupt" => {
			if changed_value {
				counters.push("corrupt_changed_a_value(not judged)");
			}
			if has_err {
				counters.push("corrupt_err");
			}
			if !has_err && !changed_value && n_vals == u.written.len() {
				counters.push("corrupt_without_effect");
			}
		}
		"sync" => {
			if has_err {
				counters.push("sync_damage_reported")
			}
		}
		"size" => {
			if has_err {
				counters.push("size_damage_reported")
			}
		}
		"count" => {
			if has_err {
				counters.push("count_damage_reported")
			}
		}
		"crc" => {
			if has_err {
				counters.push("crc_damage_reported")
			}
		}
		_ => {}
	}
	match e.budget {
		Budget::Calls(_) => {
			counters.push("progress_judged");
			let first_none = seq.iter().position(|r| matches!(r, Res::None)).unwrap_or(seq.len());
			if seq[..first_none].iter().filter(|r| matches!(r, Res::Err { ctor: false, .. })).count() >= 2 {
				counters.push("progress_eos_reached_after_several_errors");
			}
		}
		Budget::Huge => counters.push("progress_no_verdict_huge_declared_count"),
		Budget::Unreadable => counters.push(if ctor_ok { "progress_no_verdict_header_unreadable_but_reader_constructed" } else { "progress_no_verdict_header_unreadable(reader construction failed too)" }),
	}
	{
		let vals = it.items.iter().filter(|r| matches!(r, Res::Val(_))).count();
		let first_err = it.items.iter().position(|r| matches!(r, Res::Err { ctor: false, .. }));
		counters.push("iter_mode_cases");
		if it.ended && vals > 0 && first_err == Some(it.items.len() - 1) {
			counters.push("iter_values_then_one_error_then_end");
		}
		if first_err.map_or(false, |i| i + 1 < it.items.len()) {
			counters.push("iter_continued_after_a_recoverable_error");
		}
		if it.ended && matches!(it.after, Some(Res::None)) {
			counters.push("iter_ended_then_next_reports_end_of_stream");
		}
		if it.ended && matches!(it.after, Some(Res::Err { .. })) {
			counters.push("iter_ended_then_next_reports_an_error(as the call loop does)");
		}
	}
	if let Some(b) = &br {
		counters.push("borrow_mode_cases");
		if b.borrowed_values > 0 {
			counters.push("borrow_cases_with_borrowed_values_inside_the_input");
		}
		if b.next.iter().any(|r| matches!(r, Res::Val(_))) && b.next.iter().any(|r| matches!(r, Res::Err { ctor: false, .. })) {
			counters.push("borrow_values_then_error");
		}
	}
	// runs longer than 8 are folded to "x+" so that the shape table stays small
	let letters: String = {
		let raw: Vec<char> = seq.iter().map(|r| r.letter()).collect();
		let mut o = String::new();
		let mut i = 0;
		while i < raw.len() {
			let mut j = i;
			while j < raw.len() && raw[j] == raw[i] {
				j += 1;
			}
			if j - i > 8 {
				o.push(raw[i]);
				o.push('+');
			} else {
				for _ in i..j {
					o.push(raw[i]);
				}
			}
			i = j;
		}
		o
	};
	let sample = if nontrivial && n_vals > 0 && has_err { Some(json!({"codec": CODECS[u.desc.codec], "schema": u.schema_text, "layout": u.desc.layout, "case": format!("{c:?}"), "reader": KINDS[c.kind()], "results": rle(&seq.iter().map(|r| r.short()).collect::<Vec<_>>())})) } else { None };
	let mut counters: Vec<String> = counters.into_iter().map(|s| s.to_owned()).collect();
	counters.extend(dyn_counters);
	let shape = format!("{class}:{letters}");
	CaseOutcome { violations, nontrivial, outcome: hash64(&(class, &letters)), next_calls: (seq.len() + it.items.len() + br.as_ref().map_or(0, |b| b.next.len() + b.iter.len())) as u64, shape, counters, sample }
}

/// `vcheck worker C17 <tier> <unit> <part> <parts> <from> <to|-> <progress file>`
/// Runs the cases `i` of unit `unit` with `i % parts == part` and `from <= i < to`.
/// Output on stdout: u64 length + JSON (`WorkerOut`), u64 n + n nontrivial hashes, u64 n + n outcome hashes.
pub fn worker(args: &[String]) -> i32 {
	use std::io::Write;
	use std::os::unix::fs::FileExt;
	if args.len() < 7 {
		eprintln!("usage: vcheck worker C17 <tier> <unit> <part> <parts> <from> <to|-> <progress file>");
		return 2;
	}
	let thorough = args[0] == "thorough";
	let unit: usize = args[1].parse().unwrap();
	let part: usize = args[2].parse().unwrap();
	let parts: usize = args[3].parse().unwrap();
	let from: usize = args[4].parse().unwrap();
	let to: usize = args[5].parse().unwrap_or(usize::MAX);
	let single = to == from + 1;
	let progress = std::fs::OpenOptions::new().create(true).write(true).truncate(false).open(&args[6]).expect("progress file");
	let descs = units(thorough);
	let u = match build(&descs[unit]) {
		Ok(u) => u,
		Err(e) => {
			eprintln!("MACHINERY: cannot build unit {unit} {:?}: {e}", descs[unit]);
			return 2;
		}
	};
	let cs = cases(&u, thorough);
	start_watchdog(3);
	let mut out = WorkerOut { n_cases: cs.len(), ..Default::default() };
	let mut nontrivial: Vec<u64> = Vec::new();
	let mut outcomes: std::collections::HashSet<u64> = std::collections::HashSet::new();
	let mut per_class: std::collections::BTreeMap<String, usize> = std::collections::BTreeMap::new();
	for (i, c) in cs.iter().enumerate() {
		if i % parts != part || i < from || i >= to {
			continue;
		}
		progress.write_at(&(i as u64).to_le_bytes(), 0).expect("progress");
		if single {
			eprintln!("case {i}: {}", serde_json::to_string(&replay_token(&u, c)).unwrap());
		}
		CUR.store(i as u64, Ordering::SeqCst);
		TICK.fetch_add(1, Ordering::SeqCst);
		let r = run_case(&u, c);
		out.evaluations += 1;
		out.impl_runs += 2 + if borrow_applies(&u, c) { 2 } else { 0 };
		out.states += 1 + r.next_calls;
		out.transitions += r.next_calls;
		if r.nontrivial {
			nontrivial.push(hash64(&(&u.desc, c)));
		}
		outcomes.insert(r.outcome);
		*out.shapes.entry(r.shape).or_insert(0) += 1;
		for k in r.counters {
			*out.counters.entry(k).or_insert(0) += 1;
		}
		*out.counters.entry(format!("cases_{}", c.class())).or_insert(0) += 1;
		if let Some(s) = r.sample {
			if out.samples.len() < 1 {
				out.samples.push(s);
			}
		}
		for v in r.violations {
			// cap per class, so that a frequent (possibly known) class cannot crowd out another one
			let n = per_class.entry(v.0.clone()).or_insert(0usize);
			*n += 1;
			if *n <= 20 {
				out.violations.push(v);
			}
		}
	}
	CUR.store(u64::MAX, Ordering::SeqCst);
	DONE.store(true, Ordering::SeqCst);
	progress.write_at(&u64::MAX.to_le_bytes(), 0).expect("progress");
	let js = serde_json::to_vec(&out).unwrap();
	let mut so = std::io::stdout().lock();
	let mut buf: Vec<u8> = Vec::with_capacity(js.len() + 24 + 8 * (nontrivial.len() + outcomes.len()));
	buf.extend_from_slice(&(js.len() as u64).to_le_bytes());
	buf.extend_from_slice(&js);
	buf.extend_from_slice(&(nontrivial.len() as u64).to_le_bytes());
	for h in &nontrivial {
		buf.extend_from_slice(&h.to_le_bytes());
	}
	buf.extend_from_slice(&(outcomes.len() as u64).to_le_bytes());
	for h in &outcomes {
		buf.extend_from_slice(&h.to_le_bytes());
	}
	so.write_all(&buf).expect("stdout");
	so.flush().expect("stdout");
	0
}

// ---------------------------------------------------------------------------------------------
// Parent side

fn take_u64(b: &[u8], at: &mut usize) -> Option<u64> {
	let s = b.get(*at..*at + 8)?;
	*at += 8;
	Some(u64::from_le_bytes(s.try_into().unwrap()))
}

fn parse_worker_output(b: &[u8]) -> Option<(WorkerOut, Vec<u64>, Vec<u64>)> {
	let mut at = 0;
	let n = take_u64(b, &mut at)? as usize;
	let out: WorkerOut = serde_json::from_slice(b.get(at..at + n)?).ok()?;
	at += n;
	let mut lists: Vec<Vec<u64>> = Vec::new();
	for _ in 0..2 {
		let k = take_u64(b, &mut at)? as usize;
		let mut v = Vec::with_capacity(k);
		for _ in 0..k {
			v.push(take_u64(b, &mut at)?);
		}
		lists.push(v);
	}
	let o = lists.pop()?;
	let nt = lists.pop()?;
	Some((out, nt, o))
}

enum Spawned {
	Finished(WorkerOut, Vec<u64>, Vec<u64>),
	Hang(usize),
	/// died (signal / unexpected exit code); case index from the progress file
	Died(Option<usize>, String),
	Machinery(String),
}

/// Workers on snappy files may legitimately need gigabytes (a corrupted length preamble makes the
/// crate zero a buffer of up to 4 GiB before `snap` rejects the block): bound how many run at once.
struct Permits {
	free: std::sync::Mutex<usize>,
	cv: std::sync::Condvar,
}
static SNAPPY_PERMITS: Permits = Permits { free: std::sync::Mutex::new(3), cv: std::sync::Condvar::new() };
struct Permit;
impl Permits {
	fn acquire(&'static self) -> Permit {
		let mut g = self.free.lock().unwrap();
		while *g == 0 {
			g = self.cv.wait(g).unwrap();
		}
		*g -= 1;
		Permit
	}
}
impl Drop for Permit {
	fn drop(&mut self) {
		*SNAPPY_PERMITS.free.lock().unwrap() += 1;
		SNAPPY_PERMITS.cv.notify_one();
	}
}

fn spawn_worker(tier: &str, unit: usize, part: usize, parts: usize, from: usize, to: Option<usize>, tag: &str) -> Spawned {
	let exe = std::env::current_exe().expect("current_exe");
	let progress = std::env::temp_dir().join(format!("vcheck-c17-{}-{unit}-{part}-{tag}.progress", std::process::id()));
	let _ = std::fs::remove_file(&progress);
	let out = std::process::Command::new(exe)
		.args(["worker", "C17", tier, &unit.to_string(), &part.to_string(), &parts.to_string(), &from.to_string(), &to.map(|o| o.to_string()).unwrap_or_else(|| "-".into())])
		.arg(&progress)
		.stdin(std::process::Stdio::null())
		.output();
	let last = std::fs::read(&progress).ok().and_then(|b| b.get(..8).map(|s| u64::from_le_bytes(s.try_into().unwrap())));
	let _ = std::fs::remove_file(&progress);
	let out = match out {
		Ok(o) => o,
		Err(e) => return Spawned::Machinery(format!("cannot spawn worker: {e}")),
	};
	let stderr = String::from_utf8_lossy(&out.stderr).into_owned();
	match out.status.code() {
		Some(0) => match parse_worker_output(&out.stdout) {
			Some((o, nt, oc)) => Spawned::Finished(o, nt, oc),
			None => Spawned::Machinery(format!("worker output unreadable; stderr: {stderr}")),
		},
		Some(3) => match stderr.lines().find_map(|l| l.strip_prefix("HANG ").and_then(|n| n.trim().parse::<usize>().ok())) {
			Some(i) => Spawned::Hang(i),
			None => Spawned::Machinery(format!("worker exit 3 without HANG line; stderr: {stderr}")),
		},
		Some(2) => Spawned::Machinery(format!("worker reported a machinery error: {stderr}")),
		other => Spawned::Died(last.filter(|&l| l != u64::MAX).map(|l| l as usize), format!("status {other:?} ({}); stderr: {}", out.status, crate::report::truncate(&stderr, 300))),
	}
}

fn merge_out(cover: &mut Cover, vio: &mut Vec<Violation>, o: WorkerOut, nt: Vec<u64>, oc: Vec<u64>) {
	cover.states += o.states;
	cover.transitions += o.transitions;
	cover.evaluations += o.evaluations;
	cover.impl_runs += o.impl_runs;
	cover.nontrivial.extend(nt);
	cover.outcomes.extend(oc);
	for s in o.samples {
		cover.sample(s);
	}
	for (k, v) in o.counters {
		cover.count(&k, v);
	}
	for (k, v) in o.shapes {
		cover.count(&format!("shape {k}"), v);
	}
	for (class, what, replay) in o.violations {
		vio.push(Violation { class, what, replay });
	}
}

/// Run one (unit, part) to completion, attributing hangs and crashes to single cases.
fn run_part(tier: &str, thorough: bool, unit: usize, desc: &UnitDesc, part: usize, parts: usize) -> (Cover, Vec<Violation>) {
	let mut cover = Cover::default();
	let mut vio = Vec::new();
	let mut from = 0usize;
	let mut incidents = 0;
	let _permit = if CODECS[desc.codec] == "snappy" { Some(SNAPPY_PERMITS.acquire()) } else { None };
	loop {
		match spawn_worker(tier, unit, part, parts, from, None, "run") {
			Spawned::Finished(o, nt, oc) => {
				merge_out(&mut cover, &mut vio, o, nt, oc);
				return (cover, vio);
			}
			Spawned::Machinery(m) => {
				eprintln!("MACHINERY: C17 unit {unit} {desc:?} part {part}/{parts}: {m}");
				std::process::exit(2);
			}
			incident => {
				// a hang or a crash: attribute it to one case (progress marker / HANG line), confirm it on
				// that case alone, re-run the cases whose results died with the worker, continue behind it
				let (idx, kind, detail) = match incident {
					Spawned::Hang(i) => (Some(i), "hang", format!("did not return within {} s", horizon_s())),
					Spawned::Died(i, d) => (i, "abort", format!("worker process died: {d}")),
					_ => unreachable!(),
				};
				let Some(idx) = idx else {
					eprintln!("MACHINERY: C17 unit {unit} {desc:?} part {part}/{parts}: worker died and the failing case is unknown: {detail}");
					std::process::exit(2);
				};
				// confirm on the single case
				let confirmed = match spawn_worker(tier, unit, part, parts, idx, Some(idx + 1), "confirm") {
					Spawned::Hang(_) => kind == "hang",
					Spawned::Died(..) => kind == "abort",
					_ => false,
				};
				if !confirmed {
					eprintln!("MACHINERY: C17 unit {unit} {desc:?}: {kind} at case {idx} is not reproducible on the single case: {detail}");
					std::process::exit(2);
				}
				let u = build(desc).expect("unit built before");
				let cs = cases(&u, thorough);
				let c = &cs[idx];
				let (bytes, _) = apply(&u, c);
				vio.push(Violation {
					class: kind.to_owned(),
					what: format!(
						"{detail}; file: codec {} schema {} blocks {:?} ({} bytes, hex {}); damage {:?} -> {} bytes (hex {}) read through {}",
						CODECS[u.desc.codec],
						u.schema_text,
						u.desc.layout,
						u.bytes.len(),
						hex(&u.bytes).replace(' ', ""),
						c,
						bytes.len(),
						hex(&bytes).replace(' ', ""),
						KINDS[c.kind()]
					),
					replay: replay_token(&u, c),
				});
				// the cases of this part before idx were executed by the dead worker but their results are
				// lost; re-run them
				if idx > from {
					match spawn_worker_range(tier, unit, part, parts, from, idx) {
						Some((o, nt, oc)) => merge_out(&mut cover, &mut vio, o, nt, oc),
						None => cover.caps.push(format!("unit {unit} part {part}: results of cases {from}..{idx} lost with a dead worker")),
					}
				}
				from = idx + 1;
				incidents += 1;
				if incidents >= 3 {
					cover.caps.push(format!("unit {unit} part {part}: 3 hangs/aborts attributed, remaining cases from {from} not executed"));
					return (cover, vio);
				}
			}
		}
	}
}

/// Re-run cases `from..to` of a part (their results were lost with a worker that died later).
fn spawn_worker_range(tier: &str, unit: usize, part: usize, parts: usize, from: usize, to: usize) -> Option<(WorkerOut, Vec<u64>, Vec<u64>)> {
	match spawn_worker(tier, unit, part, parts, from, Some(to), "range") {
		Spawned::Finished(o, nt, oc) => Some((o, nt, oc)),
		_ => None,
	}
}

pub fn run(rep: &mut Report) {
	rep.level = "fault_enumeration".into();
	let thorough = rep.thorough();
	let tier = rep.tier.clone();
	let descs = units(thorough);
	// build every unit once in the parent: a unit that cannot be built is a machinery error
	let mut sizes = Vec::new();
	let mut fallbacks: Vec<String> = Vec::new();
	let mut reference_files = 0u64;
	for (i, d) in descs.iter().enumerate() {
		match build(d) {
			Ok(u) => {
				sizes.push(u.bytes.len());
				if u.reference_written {
					reference_files += 1;
				}
				if let Some(why) = &u.fallback {
					fallbacks.push(format!("codec {} schema {} blocks {:?}: the file written by the crate's Writer is not accepted by the independent parser ({why}); the reference-written file is used as base", CODECS[d.codec], u.schema_text, d.layout));
				}
			}
			Err(e) => {
				eprintln!("MACHINERY: C17 cannot build unit {i} {d:?}: {e}");
				std::process::exit(2);
			}
		}
	}
	rep.rule = format!(
		"Fault enumeration: {} valid container files (6 codecs x schemas long/string/record{{a:long,b:string}}, 1-3 blocks of {} datums, pairwise distinct values; plus null-schema files for the no-panic part; written by the crate's Writer with pinned sync marker, plus reference-written files (vmodel::cf_write: by-the-book multi-block files [2,1], [1,2,1], [4,4,4] and files with empty blocks) for every codec; each cross-checked with vmodel::cf_parse, a crate-written file the independent parser does not accept is replaced by the reference-written one (counted, listed in the evidence); {}..{} bytes) x [truncation at every offset 0..=len] x [single-byte corruption at every offset with {}] x [I/O error at every read-call index, reader kinds only]{} x [framing damage located by the model: header sync / block sync bytes {}, declared size +-1, declared count +-1, snappy CRC bytes] x reader kind {{slice, ChunkedBufRead 1-byte chunks, ChunkedBufRead whole buffer{}}}; every case = one damaged file on the real Reader, called until end of stream has been reported (+5 calls) but at most B+{} times, B = sum of the declared object counts + blocks + 8 from a lenient model walk over the damaged file's block framing (n+8 calls when a declared count exceeds 10000 or the header cannot be walked: no progress verdict, counted), in a worker subprocess with a {} s per-case horizon. Every case is consumed a second time through the iterator API on a fresh reader over the same bytes and faults: reader.deserialize::<T>() taken for at most B items must yield, item by item (kind, value, I/O flag), what the deserialize_next loop returns before its first Ok(None), end exactly there, and one further deserialize_next must return what the loop returns next; on the slice reader of null-codec files with a string in the schema also deserialize_next_borrowed::<&str / struct with &str>() (a schema-agnostic borrowing observer when the damage touched the header) call by call and deserialize_borrowed() as iterator: same results as the owned loop, every borrowed value pointing into the file slice. Oracle: the undamaged file reads, through every reader kind and both consumption modes, as exactly the written values and then end of stream; never a panic/hang; progress (all classes): Ok(None) is reported within B calls also when the caller keeps calling after errors; truncation and read errors: the Ok(Some) results are exactly a prefix of the written values and none follows the first Err/None; the error reported for a truncated file is followed only by Ok(None); an Err carrying an I/O error is followed only by Ok(None); an injected read error is reported by exactly one call and then Ok(None); model-located sync/size/count/CRC damage yields an Err before end of stream (sync: then only Ok(None)); corruption: no panic, no hang, I/O-error-then-EOS. states = cases + deserialize_next results, transitions = deserialize_next results. Non-trivial = damaged case in which the Reader was constructed and then reported an error, ended early or returned a changed value; distinct on (file, damage, reader kind).",
		descs.len(),
		if thorough { "1, 2 or 4 (all 39 layouts, plus [3] and [1,2,1])" } else { "1, 2 or 4 (all 12 layouts of <= 2 blocks, plus [3], [2,1] and [1,2,1])" },
		sizes.iter().min().unwrap(),
		sizes.iter().max().unwrap(),
		if thorough { "{^0x01, ^0x80, =0x00, =0xff} (every other byte value on the deep files = layouts [1],[3],[2,1],[1,2,1] and all layouts of <= 2 blocks)" } else { "{^0x01, ^0x80, =0x00, =0xff}" },
		if thorough { " x [truncation at every offset + I/O error at every read-call index, on the deep files]" } else { "" },
		if thorough { "0..16 x {^0x01, ^0x80}" } else { "{0, 7, 15} x ^0x01" },
		if thorough { ", 3-byte chunks, 16-byte chunks" } else { "" },
		CALLS_AFTER_STOP,
		horizon_s()
	);
	rep.assumptions.push("vmodel::container::cf_parse (independent parser: libflate, streaming bzip2/xz, snap::raw + own CRC-32, zstd decode_all) accepts exactly valid container files; it is the judge of the undamaged files and the locator of framing fields".into());
	rep.assumptions.push("a case that needs more than the horizon is a hang; the horizon is the only use of a clock".into());
	let mut work: Vec<(usize, usize, usize)> = Vec::new();
	for (i, d) in descs.iter().enumerate() {
		let parts = if d.deep { 12 } else { 1 };
		for p in 0..parts {
			work.push((i, p, parts));
		}
	}
	// heavy parts first
	work.sort_by_key(|&(i, p, parts)| (std::cmp::Reverse(parts), i, p));
	let results: Vec<(usize, usize, Cover, Vec<Violation>)> = work
		.par_iter()
		.map(|&(i, p, parts)| {
			let (c, v) = run_part(&tier, thorough, i, &descs[i], p, parts);
			(i, p, c, v)
		})
		.collect();
	let mut results = results;
	results.sort_by_key(|r| (r.0, r.1));
	for (_, _, c, v) in results {
		rep.cover.merge(c);
		rep.violations.extend(v);
	}
	rep.cover.states += descs.len() as u64;
	rep.extra.insert("files".into(), json!(descs.len()));
	rep.cover.count("base_files_reference_written", reference_files);
	rep.cover.count("base_files_crate_written_rejected_by_the_independent_parser(replaced by reference-written; C05/C06's business)", fallbacks.len() as u64);
	rep.extra.insert("crate_written_base_files_replaced".into(), json!({"count": fallbacks.len(), "first": fallbacks.iter().take(3).collect::<Vec<_>>()}));
	rep.extra.insert("file_bytes_min_max".into(), json!([sizes.iter().min(), sizes.iter().max()]));
	// vacuity guards: the behaviours the oracle relies on must have been exercised
	let need = [
		"undamaged_read_completely",
		"undamaged_reference_written_multi_block_read_completely",
		"trunc_partial_prefix_then_err",
		"trunc_prefix_then_clean_eos",
		"trunc_err_io",
		"trunc_err_non_io",
		"trunc_construction_err",
		"io_injected_reported_as_io_error",
		"io_after_values",
		"corrupt_err",
		"corrupt_changed_a_value(not judged)",
		"sync_damage_reported",
		"size_damage_reported",
		"count_damage_reported",
		"crc_damage_reported",
		"progress_judged",
		"progress_eos_reached_after_several_errors",
		"progress_no_verdict_huge_declared_count",
		"iter_mode_cases",
		"iter_values_then_one_error_then_end",
		"iter_continued_after_a_recoverable_error",
		"iter_ended_then_next_reports_end_of_stream",
		"borrow_mode_cases",
		"borrow_cases_with_borrowed_values_inside_the_input",
		"borrow_values_then_error",
	];
	// (a run that already has an unlisted violation is decided by that violation, not by the guards)
	let known = crate::report::load_known();
	let unlisted = rep.violations.iter().any(|v| !known.iter().any(|k| k.status == "known" && k.property == "C17" && k.class == v.class && k.what_contains.iter().all(|c| v.what.contains(c.as_str()))));
	for k in need {
		if !unlisted && rep.cover.counters.get(k).copied().unwrap_or(0) == 0 {
			eprintln!("MACHINERY: C17 vacuity guard: behaviour '{k}' was never observed");
			std::process::exit(2);
		}
	}
}

pub fn replay(v: &serde_json::Value) -> i32 {
	let r = &v["replay"];
	let desc: UnitDesc = match serde_json::from_value(r["unit"].clone()) {
		Ok(d) => d,
		Err(e) => {
			eprintln!("replay: bad unit: {e}");
			return 2;
		}
	};
	let case: Case = match serde_json::from_value(r["case"].clone()) {
		Ok(d) => d,
		Err(e) => {
			eprintln!("replay: bad case: {e}");
			return 2;
		}
	};
	let u = match build(&desc) {
		Ok(u) => u,
		Err(e) => {
			eprintln!("replay: cannot build the file: {e}");
			return 2;
		}
	};
	// a hang shows as exit 1 after the horizon
	CUR.store(0, Ordering::SeqCst);
	TICK.fetch_add(1, Ordering::SeqCst);
	start_watchdog(1);
	let (bytes, fail_at) = apply(&u, &case);
	let e = exec_raw(&bytes, fail_at, case.kind(), u.written.len());
	let it = exec_iter_raw(&bytes, fail_at, case.kind(), iter_horizon(&e, u.written.len()));
	let br = if borrow_applies(&u, &case) { Some(exec_borrow(&u, &bytes, &e)) } else { None };
	DONE.store(true, Ordering::SeqCst);
	println!("{}", describe(&u, &case, &bytes, &e));
	let show = |v: &[Res]| rle(&v.iter().map(|r| r.short()).collect::<Vec<_>>());
	println!("  reader.deserialize::<T>() on a fresh reader: [{}]{}; then deserialize_next: {}", show(&it.items), if it.ended { ", ended" } else { ", did not end within the horizon" }, it.after.as_ref().map(|r| r.short()).unwrap_or_else(|| "-".into()));
	let mut vs = judge(&u, &case, &e);
	vs.extend(judge_iter(&e, &it));
	if let Some(b) = &br {
		println!("  deserialize_next_borrowed calls: [{}]; deserialize_borrowed(): [{}]{}; {} borrowed values, {} outside the input", show(&b.next), show(&b.iter), if b.iter_ended { ", ended" } else { ", did not end" }, b.borrowed_values, b.outside.len());
		vs.extend(judge_borrow(&e, b));
	}
	for (class, why) in &vs {
		println!("  [{class}] {why}");
	}
	if vs.is_empty() {
		println!("  property holds on this case");
		0
	} else {
		1
	}
}
