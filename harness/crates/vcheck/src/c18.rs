//! C18 — single-object encoding: `C3 01 ‖ LE64(CRC-64-AVRO(PCF(schema))) ‖ datum`, verified on read.
//!
//! SAE over a small AST set (with pairs that differ only in one name, and pairs with the same
//! canonical form but a different spelling / logical type) x values from `gen::gen_value`;
//! per message: every single-bit flip of the 10 header bytes, truncation to every length, slice and
//! reader under every chunking (all compositions for short messages); all ordered schema pairs.

use crate::envs::{sink_menu, ChunkedBufRead, ScheduledSink, SinkAnswer};
use crate::explore::{explore, hash64, Chooser, Cover};
use crate::gen::{self, ObsMode, RecordStyle, UnionStyle};
use crate::pres::Pres;
use std::cell::{Cell, RefCell};
use crate::obs::{Hint, ObsSeed, O};
use crate::report::{hex, Report, Violation};
use crate::subj::{guarded, Out};
use rayon::prelude::*;
use serde::de::DeserializeSeed;
use serde_avro_fast::ser::SerializerConfig;
use serde_avro_fast::Schema;
use serde_json::json;
use vmodel::schema::{pcf, spell, Env, Logical, RSchema, SpellCfg};
use vmodel::value::{RValue, Verdict};

/// Observation target usable where the API wants a `Deserialize` type.
struct AnyObs(O);
impl<'de> serde::Deserialize<'de> for AnyObs {
	fn deserialize<D: serde::Deserializer<'de>>(d: D) -> Result<Self, D::Error> {
		ObsSeed(&Hint::Any).deserialize(d).map(AnyObs)
	}
}

// ---------------------------------------------------------------------------------------------
// Schema set

pub struct Sch {
	pub label: &'static str,
	pub ast: RSchema,
}

pub fn asts() -> Vec<Sch> {
	use RSchema as S;
	let rec = |name: &str, a: &str, at: RSchema, bt: RSchema| S::record(name, vec![(a, at), ("b", bt)]);
	let v = vec![
		("long", S::Long),
		("string", S::String),
		("bytes", S::Bytes),
		("int", S::Int),
		("ns.R{a:long,b:string}", rec("ns.R", "a", S::Long, S::String)),
		("ns.S{a:long,b:string} (record name differs)", rec("ns.S", "a", S::Long, S::String)),
		("other.R{a:long,b:string} (namespace differs)", rec("other.R", "a", S::Long, S::String)),
		("R{a:long,b:string} (null namespace)", rec("R", "a", S::Long, S::String)),
		("ns.R{a2:long,b:string} (field name differs)", rec("ns.R", "a2", S::Long, S::String)),
		("ns.R{a:long,b:[null,string]}", rec("ns.R", "a", S::Long, S::Union(vec![S::Null, S::String]))),
		("ns.R{a:long}", S::record("ns.R", vec![("a", S::Long)])),
		("enum ns.E{A,B,C}", S::enum_("ns.E", &["A", "B", "C"])),
		("enum ns.E{A,B,D} (symbol differs)", S::enum_("ns.E", &["A", "B", "D"])),
		("enum ns.E2{A,B,C} (name differs)", S::enum_("ns.E2", &["A", "B", "C"])),
		("fixed ns.F(4)", S::fixed("ns.F", 4)),
		("fixed ns.G(4) (name differs)", S::fixed("ns.G", 4)),
		("fixed ns.F(5)", S::fixed("ns.F", 5)),
		("array<long>", S::array(S::Long)),
		("array<int>", S::array(S::Int)),
		("map<string>", S::map(S::String)),
		("[null,long,string]", S::Union(vec![S::Null, S::Long, S::String])),
		("[null,string,long]", S::Union(vec![S::Null, S::String, S::Long])),
		("ns.Outer{f:fixed ns.F(4),g:ns.F,e:enum ns.E}", S::record("ns.Outer", vec![("f", S::fixed("ns.F", 4)), ("g", S::rf("ns.F")), ("e", S::enum_("ns.E", &["A", "B"]))])),
		("List{v:int,next:[null,List]}", S::record("List", vec![("v", S::Int), ("next", S::Union(vec![S::Null, S::rf("List")]))])),
		("fixed ns.D(12)", S::fixed("ns.D", 12)),
		// named types in the null namespace (their `Name` can be built from "X" or from ".X")
		("enum Kind{A,B}", S::enum_("Kind", &["A", "B"])),
		("enum ns.Kind{A,B} (namespace differs)", S::enum_("ns.Kind", &["A", "B"])),
		("fixed F4(4) (null namespace)", S::fixed("F4", 4)),
		("Msg{k:enum Kind,f:fixed F4,again:Kind}", S::record("Msg", vec![("k", S::enum_("Kind", &["A", "B"])), ("f", S::fixed("F4", 4)), ("again", S::rf("Kind"))])),
		("ns.Msg{k:enum ns.Kind,f:fixed ns.F4,again:ns.Kind} (namespace differs)", S::record("ns.Msg", vec![("k", S::enum_("ns.Kind", &["A", "B"])), ("f", S::fixed("ns.F4", 4)), ("again", S::rf("ns.Kind"))])),
		// same canonical form as an entry above, different logical type
		("timestamp-micros(long) ~long", S::logical(Logical::TimestampMicros, S::Long)),
		("timestamp-millis(long) ~long", S::logical(Logical::TimestampMillis, S::Long)),
		("uuid(string) ~string", S::logical(Logical::Uuid, S::String)),
		("decimal(bytes,10,2) ~bytes", S::decimal_bytes(10, 2)),
		("date(int) ~int", S::logical(Logical::Date, S::Int)),
		("decimal(fixed ns.F(4),8,2) ~fixed ns.F(4)", S::decimal_fixed("ns.F", 4, 8, 2)),
		("duration(fixed ns.D(12)) ~fixed ns.D(12)", S::logical(Logical::Duration, S::fixed("ns.D", 12))),
		("ns.R{a:timestamp-micros,b:uuid} ~ns.R{a:long,b:string}", rec("ns.R", "a", S::logical(Logical::TimestampMicros, S::Long), S::logical(Logical::Uuid, S::String))),
		("array<time-micros(long)> ~array<long>", S::array(S::logical(Logical::TimeMicros, S::Long))),
	];
	v.into_iter().map(|(label, ast)| Sch { label, ast }).collect()
}

/// A `Pick` that always takes the last option (drives `spell` to the least plain spelling).
struct Last;
impl vmodel::Pick for Last {
	fn pick(&mut self, n: usize) -> usize {
		n - 1
	}
}
/// Alternates between the last and the first option.
struct Alt(usize);
impl vmodel::Pick for Alt {
	fn pick(&mut self, n: usize) -> usize {
		self.0 += 1;
		if self.0 % 2 == 1 {
			n - 1
		} else {
			0
		}
	}
}

/// Spellings of an AST: 0 = plain; the others have the same canonical form by construction.
pub fn spellings(s: &RSchema) -> Vec<String> {
	let plain = gen::schema_text(s);
	let mut out = vec![plain];
	let cfgs = [
		SpellCfg { vary_names: false, vary_refs: false, vary_prims: true, vary_scale: true, attr_order: 1, extras: 1, whitespace: 1 },
		SpellCfg { vary_names: true, vary_refs: true, vary_prims: true, vary_scale: false, attr_order: 2, extras: 2, whitespace: 0 },
		SpellCfg { vary_names: true, vary_refs: true, vary_prims: false, vary_scale: false, attr_order: 0, extras: 0, whitespace: 1 },
	];
	for (i, cfg) in cfgs.iter().enumerate() {
		let t = if i == 1 { spell(s, &mut Alt(0), cfg) } else { spell(s, &mut Last, cfg) };
		if !out.contains(&t) {
			out.push(t);
		}
	}
	out
}

pub struct Unit {
	#[allow(dead_code)]
	pub id: usize,
	pub label: &'static str,
	pub ast: RSchema,
	pub pcf: String,
	pub fp: [u8; 8],
	/// (spelling text, parsed schema) — entry 0 is the plain spelling
	pub schemas: Vec<(String, Schema)>,
	/// per entry of `schemas`: 0 parsed spelling; 1 built node by node, Names from "ns.X" / "X";
	/// 2 parsed from the json() of 1; 3 built, null-namespace Names from ".X"; 4 parsed from the json() of 3
	pub kinds: Vec<u8>,
	pub skipped_spellings: Vec<String>,
	/// why a built variant is not among `schemas` (no verdict: C09/C19's question)
	pub skipped_built: Vec<String>,
}

// ---------------------------------------------------------------------------------------------
// Schemas built node by node through the public API

#[derive(Clone, Copy, PartialEq, Eq, Debug)]
pub enum NameStyle {
	/// `Name::from_fully_qualified_name("ns.X")` / `("X")`
	Plain,
	/// null-namespace names through the documented leading-dot form `Name::from_fully_qualified_name(".X")`
	LeadingDot,
}

fn has_null_namespace_named(s: &RSchema) -> bool {
	match s {
		RSchema::Record { name, fields } => !name.contains('.') || fields.iter().any(|(_, f)| has_null_namespace_named(f)),
		RSchema::Enum { name, .. } | RSchema::Fixed { name, .. } => !name.contains('.'),
		RSchema::Array(i) | RSchema::Map(i) | RSchema::Logical(_, i) => has_null_namespace_named(i),
		RSchema::Union(v) => v.iter().any(has_null_namespace_named),
		_ => false,
	}
}

/// The node vector of `ast` for `SchemaMut::from_nodes` (root = node 0; a named type is one node,
/// references are keys to it).
pub fn build_nodes(ast: &RSchema, style: NameStyle) -> Result<Vec<serde_avro_fast::schema::SchemaNode>, String> {
	use serde_avro_fast::schema as cs;
	fn mk_name(full: &str, style: NameStyle) -> cs::Name {
		if style == NameStyle::LeadingDot && !full.contains('.') {
			cs::Name::from_fully_qualified_name(format!(".{full}"))
		} else {
			cs::Name::from_fully_qualified_name(full)
		}
	}
	fn logical(l: &Logical) -> cs::LogicalType {
		match l {
			Logical::Decimal { precision, scale } => cs::LogicalType::Decimal(cs::Decimal::new(*scale, *precision)),
			Logical::Uuid => cs::LogicalType::Uuid,
			Logical::Date => cs::LogicalType::Date,
			Logical::TimeMillis => cs::LogicalType::TimeMillis,
			Logical::TimeMicros => cs::LogicalType::TimeMicros,
			Logical::TimestampMillis => cs::LogicalType::TimestampMillis,
			Logical::TimestampMicros => cs::LogicalType::TimestampMicros,
			Logical::Duration => cs::LogicalType::Duration,
			Logical::BigDecimal => cs::LogicalType::BigDecimal,
			Logical::Unknown(n) => cs::LogicalType::Unknown(cs::UnknownLogicalType::new(n.clone())),
		}
	}
	fn go(s: &RSchema, nodes: &mut Vec<cs::SchemaNode>, defs: &mut std::collections::HashMap<String, usize>, style: NameStyle) -> Result<cs::SchemaKey, String> {
		if let RSchema::Ref(n) = s {
			return defs.get(n).map(|&i| cs::SchemaKey::from_idx(i)).ok_or_else(|| format!("reference to {n} before its definition"));
		}
		if let RSchema::Logical(l, b) = s {
			if matches!(**b, RSchema::Ref(_)) {
				return Err("logical type on a reference".into());
			}
			let k = go(b, nodes, defs, style)?;
			nodes[k.idx()].logical_type = Some(logical(l));
			return Ok(k);
		}
		let idx = nodes.len();
		nodes.push(cs::SchemaNode::new(cs::RegularType::Null));
		if let Some(n) = s.fullname() {
			defs.insert(n.to_owned(), idx);
		}
		let t = match s {
			RSchema::Null => cs::RegularType::Null,
			RSchema::Boolean => cs::RegularType::Boolean,
			RSchema::Int => cs::RegularType::Int,
			RSchema::Long => cs::RegularType::Long,
			RSchema::Float => cs::RegularType::Float,
			RSchema::Double => cs::RegularType::Double,
			RSchema::Bytes => cs::RegularType::Bytes,
			RSchema::String => cs::RegularType::String,
			RSchema::Array(i) => cs::RegularType::Array(cs::Array::new(go(i, nodes, defs, style)?)),
			RSchema::Map(i) => cs::RegularType::Map(cs::Map::new(go(i, nodes, defs, style)?)),
			RSchema::Union(v) => {
				let mut keys = Vec::new();
				for b in v {
					keys.push(go(b, nodes, defs, style)?);
				}
				cs::RegularType::Union(cs::Union::new(keys))
			}
			RSchema::Record { name, fields } => {
				let mut fs = Vec::new();
				for (fname, ft) in fields {
					fs.push(cs::RecordField::new(fname.clone(), go(ft, nodes, defs, style)?));
				}
				cs::RegularType::Record(cs::Record::new(mk_name(name, style), fs))
			}
			RSchema::Enum { name, symbols } => cs::RegularType::Enum(cs::Enum::new(mk_name(name, style), symbols.clone())),
			RSchema::Fixed { name, size } => cs::RegularType::Fixed(cs::Fixed::new(mk_name(name, style), *size)),
			RSchema::Ref(_) | RSchema::Logical(..) => unreachable!(),
		};
		nodes[idx].type_ = t;
		Ok(cs::SchemaKey::from_idx(idx))
	}
	let mut nodes = Vec::new();
	let mut defs = std::collections::HashMap::new();
	go(ast, &mut nodes, &mut defs, style)?;
	Ok(nodes)
}

fn build_schema(ast: &RSchema, style: NameStyle) -> Result<Schema, String> {
	let nodes = build_nodes(ast, style)?;
	match guarded(|| serde_avro_fast::schema::SchemaMut::from_nodes(nodes).freeze().map_err(|e| e.to_string())) {
		Out::Ok(s) => Ok(s),
		Out::Err(e) => Err(format!("freeze: {e}")),
		Out::Panic(e) => Err(format!("freeze panicked: {e}")),
	}
}

/// Number of ASTs of the hand-made set (the pair part is quantified over these).
pub fn n_base() -> usize {
	asts().len()
}

/// The hand-made set followed by the shared schema alphabet Σ_S of the given level.
pub fn units(level: usize) -> Result<Vec<Unit>, String> {
	let mut out = Vec::new();
	let mut all = asts();
	for ast in gen::schema_alphabet(level) {
		all.push(Sch { label: "Σ_S", ast });
	}
	for (id, s) in all.into_iter().enumerate() {
		let p = pcf(&s.ast);
		let fp = vmodel::crc::fingerprint_le(p.as_bytes());
		let mut schemas = Vec::new();
		let mut skipped = Vec::new();
		for (i, text) in spellings(&s.ast).into_iter().enumerate() {
			match text.parse::<Schema>() {
				Ok(sc) => {
					// an alternative spelling is only used when the crate gives it the fingerprint of the
					// canonical form (whether it does is C07/C08's question, not C18's)
					if i > 0 && sc.rabin_fingerprint() != &fp {
						skipped.push(text);
					} else {
						schemas.push((text, sc));
					}
				}
				Err(e) => {
					if i == 0 {
						return Err(format!("the crate rejects the plain spelling {text}: {e}"));
					}
					skipped.push(text);
				}
			}
		}
		let mut kinds: Vec<u8> = vec![0; schemas.len()];
		let mut skipped_built = Vec::new();
		// built variants are used whatever fingerprint the crate gives them: that the header of a
		// built schema carries the fingerprint of the schema it denotes is C18's own question
		let mut styles = vec![(NameStyle::Plain, 1u8, "built with SchemaMut::from_nodes, every Name from from_fully_qualified_name(\"ns.X\" / \"X\")")];
		if has_null_namespace_named(&s.ast) {
			styles.push((NameStyle::LeadingDot, 3u8, "built with SchemaMut::from_nodes, null-namespace Names from from_fully_qualified_name(\".X\")"));
		}
		for (style, kind, what) in styles {
			match build_schema(&s.ast, style) {
				Ok(b) => {
					let json = b.json().to_owned();
					schemas.push((format!("{what}, denoting {}", schemas[0].0), b));
					kinds.push(kind);
					match json.parse::<Schema>() {
						Ok(pj) => {
							schemas.push((format!("parsed from the json() of the schema {what}: {json}"), pj));
							kinds.push(kind + 1);
						}
						Err(e) => skipped_built.push(format!("json() of the schema {what} does not parse: {json}: {e}")),
					}
				}
				Err(e) => skipped_built.push(format!("{what}: {e}")),
			}
		}
		out.push(Unit { id, label: s.label, ast: s.ast, pcf: p, fp, schemas, kinds, skipped_spellings: skipped, skipped_built });
	}
	Ok(out)
}

// ---------------------------------------------------------------------------------------------
// Subject calls

fn so_slice(bytes: &[u8], schema: &Schema) -> Out<O> {
	guarded(|| serde_avro_fast::from_single_object_slice::<AnyObs>(bytes, schema).map(|a| a.0.unborrowed()).map_err(|e| e.to_string()))
}

fn so_reader(bytes: &[u8], sizes: &[usize], uniform: usize, schema: &Schema) -> Out<O> {
	guarded(|| {
		let mut rd = ChunkedBufRead::new(bytes, sizes.to_vec(), uniform);
		serde_avro_fast::from_single_object_reader::<_, AnyObs>(&mut rd, schema).map(|a| a.0.unborrowed()).map_err(|e| e.to_string())
	})
}

fn datum_slice(bytes: &[u8], schema: &Schema) -> Out<O> {
	guarded(|| serde_avro_fast::from_datum_slice::<AnyObs>(bytes, schema).map(|a| a.0.unborrowed()).map_err(|e| e.to_string()))
}

fn datum_reader(bytes: &[u8], uniform: usize, schema: &Schema) -> Out<O> {
	guarded(|| {
		let mut rd = ChunkedBufRead::uniform(bytes, uniform);
		serde_avro_fast::from_datum_reader::<_, AnyObs>(&mut rd, schema).map(|a| a.0.unborrowed()).map_err(|e| e.to_string())
	})
}

fn show<T: std::fmt::Debug>(o: &Out<T>) -> String {
	match o {
		Out::Ok(v) => format!("Ok({v:?})"),
		Out::Err(e) => format!("Err({e})"),
		Out::Panic(e) => format!("PANIC({e})"),
	}
}

/// Ok/Err/Panic kind plus the observation (messages are never compared).
fn same<T: PartialEq>(a: &Out<T>, b: &Out<T>) -> bool {
	match (a, b) {
		(Out::Ok(x), Out::Ok(y)) => x == y,
		(Out::Err(_), Out::Err(_)) => true,
		_ => false,
	}
}

/// Chunkings of a message of `len` bytes: (explicit chunk sizes, uniform size afterwards; 0 = rest at once).
fn chunkings(len: usize, all_compositions_up_to: usize) -> Vec<(Vec<usize>, usize)> {
	let mut out: Vec<(Vec<usize>, usize)> = Vec::new();
	if len >= 1 && len <= all_compositions_up_to {
		// every composition of len: bit i of mask set = cut after byte i+1
		for mask in 0u32..(1u32 << (len - 1)) {
			let mut sizes = Vec::new();
			let mut cur = 1;
			for i in 0..len - 1 {
				if mask & (1 << i) != 0 {
					sizes.push(cur);
					cur = 1;
				} else {
					cur += 1;
				}
			}
			sizes.push(cur);
			out.push((sizes, 0));
		}
	} else {
		out.push((vec![], 0));
		for k in 1..=12usize {
			out.push((vec![], k));
		}
		// one cut at every position of the header (and just behind it), the rest at once / byte-wise
		for k in 1..=11usize.min(len.saturating_sub(1)) {
			out.push((vec![k], 0));
			out.push((vec![k], 1));
		}
	}
	out
}

/// Reduced chunking set for the damaged-header sweeps.
fn header_chunkings(len: usize) -> Vec<(Vec<usize>, usize)> {
	let mut out: Vec<(Vec<usize>, usize)> = vec![(vec![], 0), (vec![], 1), (vec![], 3)];
	for k in 1..=10usize.min(len.saturating_sub(1)) {
		out.push((vec![k], 0));
	}
	out
}


// ---------------------------------------------------------------------------------------------
// Serialization through a sink that is free to accept fewer bytes than offered

/// One serialization of `p` through a `ScheduledSink` whose answers come from `decide`; checks
/// "sink bytes == expected whenever no hard fault was injected, Err whenever one was".
/// Returns (a short write or interrupt happened, a short write landed inside the 10-byte header).
fn sink_run(schema: &Schema, p: &Pres, expected: &[u8], mut decide: impl FnMut(usize, &[usize]) -> SinkAnswer, schedule: &dyn Fn() -> String, viol: &mut dyn FnMut(&str, String, Option<usize>)) -> (bool, bool) {
	let accepted = Cell::new(0usize);
	let header_short = Cell::new(false);
	let (sink, st) = ScheduledSink::with(|call, lens| {
		let a = decide(call, lens);
		let total: usize = lens.iter().sum();
		let k = match a {
			SinkAnswer::All => total,
			SinkAnswer::Accept(k) => k.clamp(1, total),
			_ => 0,
		};
		if matches!(a, SinkAnswer::All | SinkAnswer::Accept(_)) && accepted.get() < 10 && k < total {
			header_short.set(true);
		}
		accepted.set(accepted.get() + k);
		a
	});
	let mut config = SerializerConfig::new(schema);
	let r = guarded(|| serde_avro_fast::to_single_object(p, sink, &mut config).map(|_| ()).map_err(|e| e.to_string()));
	let st = st.borrow();
	let disturbed = st.short_writes > 0 || st.interrupts > 0 || st.hard_fault_at.is_some();
	match (&r, st.hard_fault_at) {
		(Out::Panic(m), _) => viol("sink-panic", format!("to_single_object into a sink ({}) panicked: {m}", schedule()), None),
		(Out::Ok(()), Some(call)) => viol("sink-fault-swallowed", format!("to_single_object into a sink ({}) returned Ok although write call {call} failed hard (error / Ok(0)); sink holds [{}]", schedule(), hex(&st.bytes)), None),
		(Out::Err(_), Some(_)) => {}
		(Out::Err(e), None) => viol("sink-err-without-fault", format!("to_single_object into a sink ({}) returned Err({e}) although every write call eventually accepted bytes", schedule()), None),
		(Out::Ok(()), None) => {
			if st.bytes != expected {
				viol(
					"sink-bytes-differ",
					format!("to_single_object into a sink ({}) returned Ok, the sink received [{}], into a Vec the same call gives [{}]", schedule(), hex(&st.bytes), hex(expected)),
					None,
				);
			}
		}
	}
	(disturbed, header_short.get())
}

/// Every regular "at most k bytes per call" schedule, k = 1..=12, then every schedule with at most
/// two deviations from "accept everything" (short writes from `sink_menu`, Interrupted, hard error of kind Other or WouldBlock, Ok(0)).
fn sink_part(a: usize, schema: &Schema, p: &Pres, expected: &[u8], t: &Tier, cover: &mut Cover, viol: &mut dyn FnMut(&str, String, Option<usize>)) {
	for k in 1..=12usize {
		cover.impl_runs += 1;
		let (disturbed, hdr) = sink_run(schema, p, expected, |_, _| SinkAnswer::Accept(k), &|| format!("every write/write_vectored call accepts at most {k} bytes"), viol);
		if disturbed {
			cover.nontrivial.insert(hash64(&(a, "sink-regular", k, expected)));
			cover.count("sink_regular_schedule_with_short_writes", 1);
		}
		if hdr {
			cover.count("sink_short_write_inside_header", 1);
		}
	}
	let st = explore(Some(2), t.sink_leaf_cap, |ch| {
		let cell = RefCell::new(ch);
		let log: RefCell<Vec<String>> = RefCell::new(Vec::new());
		cover.impl_runs += 1;
		let (disturbed, hdr) = sink_run(
			schema,
			p,
			expected,
			|call, lens| {
				let menu = sink_menu(lens, true);
				let i = cell.borrow_mut().dev(menu.len());
				if i != 0 {
					log.borrow_mut().push(format!("call {call} offering {lens:?} bytes answered {:?}", menu[i]));
				}
				menu[i]
			},
			&|| format!("accepts everything except: {}", log.borrow().join("; ")),
			viol,
		);
		let choices = cell.borrow().choices();
		if disturbed {
			cover.nontrivial.insert(hash64(&(a, "sink-dev", &choices, expected)));
		}
		let log = log.borrow();
		if log.iter().any(|l| l.contains("HardError") || l.contains("WouldBlock") || l.contains("Zero")) {
			cover.count("sink_hard_fault_injected", 1);
		} else if !log.is_empty() {
			cover.count("sink_deviating_schedule_without_fault", 1);
		}
		if log.iter().any(|l| l.contains("Interrupted")) {
			cover.count("sink_interrupted", 1);
		}
		if hdr {
			cover.count("sink_short_write_inside_header", 1);
		}
		true
	});
	cover.add_tree(&st, &format!("schema {a}: sink schedules with <= 2 deviations"));
}



// ---------------------------------------------------------------------------------------------
// HIST: histories of single-object serializations on ONE `SerializerConfig`

/// A schema of the history exploration with two values and presentations that genuinely do not fit.
pub struct HSchema {
	pub label: &'static str,
	pub ast: RSchema,
	pub values: Vec<RValue>,
	pub mismatches: Vec<Pres>,
}

pub fn hist_schemas() -> Vec<HSchema> {
	use RSchema as S;
	let st = |s: &str| RValue::Str(s.to_owned());
	vec![
		HSchema { label: "long", ast: S::Long, values: vec![RValue::Long(1), RValue::Long(-70000)], mismatches: vec![Pres::str("x"), Pres::seq(vec![Pres::I64(1)])] },
		HSchema { label: "string", ast: S::String, values: vec![st("a"), st("hello")], mismatches: vec![Pres::I64(5), Pres::Bool(true)] },
		HSchema {
			label: "ns.R{a:long,b:string}",
			ast: S::record("ns.R", vec![("a", S::Long), ("b", S::String)]),
			values: vec![RValue::Record(vec![RValue::Long(300), st("bc")]), RValue::Record(vec![RValue::Long(-2), st("")])],
			// second field of the wrong type (the first is written before the mismatch is met); unknown field
			mismatches: vec![Pres::strukt("R", vec![("a", Pres::I64(7)), ("b", Pres::I64(8))]), Pres::strukt("R", vec![("a", Pres::I64(7)), ("zz", Pres::str("q"))])],
		},
		HSchema {
			label: "array<long>",
			ast: S::array(S::Long),
			values: vec![RValue::Array(vec![RValue::Long(1), RValue::Long(-2), RValue::Long(300)]), RValue::Array(vec![])],
			// a str after two good elements
			mismatches: vec![Pres::seq(vec![Pres::I64(1), Pres::I64(2), Pres::str("x")]), Pres::str("x")],
		},
		HSchema {
			label: "[null,long,string]",
			ast: S::Union(vec![S::Null, S::Long, S::String]),
			values: vec![RValue::Union(1, Box::new(RValue::Long(5))), RValue::Union(2, Box::new(st("x")))],
			mismatches: vec![Pres::Bool(true), Pres::seq(vec![Pres::I64(1)])],
		},
		HSchema {
			label: "enum ns.E{A,B,C}",
			ast: S::enum_("ns.E", &["A", "B", "C"]),
			values: vec![RValue::Enum(0), RValue::Enum(2)],
			// unknown symbol
			mismatches: vec![Pres::UnitVariant { name: "E", idx: 7, variant: "Z" }, Pres::str("Z")],
		},
	]
}

#[derive(Clone, Copy, Debug, PartialEq, Eq, Hash)]
pub enum HOp {
	/// `to_single_object_vec` of value i
	OkVec(usize),
	/// `to_single_object` of value i into a fresh `Vec`
	OkWriter(usize),
	/// value i, its k-th nested `serialize` call fails; through the Vec / the writer variant
	FailVec(usize, usize),
	FailWriter(usize, usize),
	/// mismatching presentation j
	MisVec(usize),
	MisWriter(usize),
}

pub struct HUnit {
	pub label: &'static str,
	pub text: String,
	pub schema: Schema,
	pub pres: Vec<Pres>,
	pub values: Vec<RValue>,
	pub mismatches: Vec<Pres>,
	/// model message per value
	pub msgs: Vec<Vec<u8>>,
	pub ops: Vec<HOp>,
	/// ops dropped because they do not behave as their name says on a fresh configuration (no verdict)
	pub dropped: Vec<String>,
	/// a failing op leaves a partial datum behind (seen through the writer variant)
	pub partial_datum_ops: usize,
}

fn hist_apply(u: &HUnit, op: HOp, config: &mut SerializerConfig<'_>) -> (Out<Vec<u8>>, usize) {
	let vec_call = |p: &Pres, config: &mut SerializerConfig<'_>| guarded(|| serde_avro_fast::to_single_object_vec(p, config).map_err(|e| e.to_string()));
	// the writer variant: returns what reached the writer also on failure (second component)
	let writer_call = |p: &Pres, config: &mut SerializerConfig<'_>| {
		let mut buf: Vec<u8> = Vec::new();
		let r = guarded(|| serde_avro_fast::to_single_object(p, &mut buf, config).map(|_| ()).map_err(|e| e.to_string()));
		let n = buf.len();
		(r.map(|()| buf), n)
	};
	match op {
		HOp::OkVec(i) => (vec_call(&u.pres[i], config), 0),
		HOp::OkWriter(i) => writer_call(&u.pres[i], config),
		HOp::FailVec(i, k) => (crate::pres::with_failure(Some(k), || vec_call(&u.pres[i], config)).0, 0),
		HOp::FailWriter(i, k) => crate::pres::with_failure(Some(k), || writer_call(&u.pres[i], config)).0,
		HOp::MisVec(j) => (vec_call(&u.mismatches[j], config), 0),
		HOp::MisWriter(j) => writer_call(&u.mismatches[j], config),
	}
}

fn hist_expect_ok(op: HOp) -> Option<usize> {
	match op {
		HOp::OkVec(i) | HOp::OkWriter(i) => Some(i),
		_ => None,
	}
}

fn hist_show_op(u: &HUnit, op: HOp) -> String {
	match op {
		HOp::OkVec(i) => format!("to_single_object_vec({:?})", u.values[i]),
		HOp::OkWriter(i) => format!("to_single_object({:?}, Vec::new())", u.values[i]),
		HOp::FailVec(i, k) => format!("to_single_object_vec({:?} whose serialize call #{k} fails)", u.values[i]),
		HOp::FailWriter(i, k) => format!("to_single_object({:?} whose serialize call #{k} fails, Vec::new())", u.values[i]),
		HOp::MisVec(j) => format!("to_single_object_vec(mismatching {:?})", u.mismatches[j]),
		HOp::MisWriter(j) => format!("to_single_object(mismatching {:?}, Vec::new())", u.mismatches[j]),
	}
}

pub fn hist_units() -> Result<Vec<HUnit>, String> {
	let mut out = Vec::new();
	for h in hist_schemas() {
		let env = Env::new(&h.ast);
		let text = gen::schema_text(&h.ast);
		let schema = gen::to_crate_schema(&h.ast)?;
		let fp = vmodel::crc::fingerprint_le(pcf(&h.ast).as_bytes());
		let mut pres = Vec::new();
		let mut msgs = Vec::new();
		for v in &h.values {
			pres.push(gen::pres_of(v, &h.ast, &env, UnionStyle::ByTypeWhereUnambiguous, RecordStyle::Struct));
			let mut m = vec![0xC3, 0x01];
			m.extend_from_slice(&fp);
			m.extend_from_slice(&vmodel::value::encode(v, &h.ast, &env, &mut vmodel::value::Canonical)?);
			msgs.push(m);
		}
		let mut u = HUnit { label: h.label, text, schema, pres, values: h.values, mismatches: h.mismatches, msgs, ops: Vec::new(), dropped: Vec::new(), partial_datum_ops: 0 };
		// candidate ops, each validated on a FRESH configuration: an op that does not behave as named is dropped
		let mut cands: Vec<HOp> = Vec::new();
		for i in 0..u.values.len() {
			cands.push(HOp::OkVec(i));
			cands.push(HOp::OkWriter(i));
			let (_, ncalls) = crate::pres::with_failure(None, || {
				let mut c = SerializerConfig::new(&u.schema);
				let _ = guarded(|| serde_avro_fast::to_single_object_vec(&u.pres[i], &mut c).map_err(|e| e.to_string()));
			});
			for k in 0..ncalls {
				cands.push(HOp::FailVec(i, k));
				cands.push(HOp::FailWriter(i, k));
			}
		}
		for j in 0..u.mismatches.len() {
			cands.push(HOp::MisVec(j));
			cands.push(HOp::MisWriter(j));
		}
		for op in cands {
			let mut c = SerializerConfig::new(&u.schema);
			let (r, reached_writer) = hist_apply(&u, op, &mut c);
			let fine = match hist_expect_ok(op) {
				Some(i) => r == Out::Ok(u.msgs[i].clone()),
				None => r.is_err(),
			};
			if fine {
				if hist_expect_ok(op).is_none() && reached_writer > 10 {
					u.partial_datum_ops += 1;
				}
				u.ops.push(op);
			} else {
				u.dropped.push(format!("{} on a fresh configuration returned {}", hist_show_op(&u, op), show(&r)));
			}
		}
		out.push(u);
	}
	Ok(out)
}

/// Execute one history on one fresh configuration; verdict on its LAST call (the earlier calls are
/// the last calls of its prefixes). Returns (result of the last call, verdict).
fn hist_eval(u: &HUnit, history: &[HOp]) -> (Option<Out<Vec<u8>>>, Result<(), (&'static str, String)>) {
	let mut config = SerializerConfig::new(&u.schema);
	let mut last = None;
	for &op in history {
		last = Some(hist_apply(u, op, &mut config).0);
	}
	let (Some(r), Some(&op)) = (&last, history.last()) else { return (last, Ok(())) };
	let verdict = match (hist_expect_ok(op), r) {
		(_, Out::Panic(m)) => Err(("history-panic", format!("panicked: {m}"))),
		(Some(i), Out::Ok(b)) if *b == u.msgs[i] => Ok(()),
		(Some(i), Out::Ok(b)) => Err(("history-bytes-differ", format!("returned [{}]; a fresh configuration (and the model) gives [{}]", hex(b), hex(&u.msgs[i])))),
		(Some(_), Out::Err(e)) => Err(("history-ok-became-err", format!("returned Err({e}); on a fresh configuration the same call succeeds"))),
		(None, Out::Ok(b)) => Err(("history-err-became-ok", format!("returned Ok([{}]); on a fresh configuration the same call fails", hex(b)))),
		(None, Out::Err(_)) => Ok(()),
	};
	(last, verdict)
}

fn hist_describe(u: &HUnit, history: &[HOp]) -> String {
	format!("schema {} — one SerializerConfig, calls in order: {}", u.text, history.iter().enumerate().map(|(i, op)| format!("({}) {}", i + 1, hist_show_op(u, *op))).collect::<Vec<_>>().join("; "))
}

fn run_hist_unit(ui: usize, u: &HUnit, depth: usize) -> (Cover, Vec<Violation>) {
	let mut cover = Cover::default();
	let mut out = Vec::new();
	let mut runs = 0u64;
	let mut ok_after_failure = 0u64;
	let mut evals = 0u64;
	let mut found: Vec<(Vec<HOp>, &'static str, String)> = Vec::new();
	let mut nontrivial: Vec<u64> = Vec::new();
	let (b, capped) = crate::explore::bfs(&u.ops, depth, 5_000_000, |h: &[HOp]| {
		runs += h.len() as u64;
		evals += 1;
		let (_, verdict) = hist_eval(u, h);
		if h.len() >= 2 && hist_expect_ok(h[h.len() - 1]).is_some() && h[..h.len() - 1].iter().any(|op| hist_expect_ok(*op).is_none()) {
			ok_after_failure += 1;
			nontrivial.push(hash64(&(ui, "hist", h)));
		}
		let inv = match verdict {
			Ok(()) => Ok(()),
			Err((class, why)) => {
				if found.len() < 40 {
					found.push((h.to_vec(), class, why.clone()));
				}
				Err(why)
			}
		};
		// the key is the history itself: nothing is merged (the configuration has state no hook shows)
		(hash64(&(ui, h)), inv, true)
	});
	cover.states += b.states;
	cover.transitions += b.transitions;
	cover.nontrivial.extend(nontrivial);
	cover.evaluations += evals;
	cover.impl_runs += runs;
	if capped {
		cover.caps.push(format!("history exploration of {}: state cap hit", u.label));
	}
	cover.count("hist_histories", evals);
	cover.count("hist_ok_call_after_a_failed_call_on_the_same_config", ok_after_failure);
	cover.count("hist_failing_ops_leaving_a_partial_datum", u.partial_datum_ops as u64);
	cover.count("hist_ops", u.ops.len() as u64);
	cover.count("hist_ops_dropped(not as named on a fresh config; no verdict)", u.dropped.len() as u64);
	for (h, class, why) in found {
		let idx: Vec<usize> = h.iter().map(|op| u.ops.iter().position(|o| o == op).unwrap()).collect();
		cover.nontrivial.insert(hash64(&(ui, "hist", &idx)));
		out.push(Violation { class: class.to_owned(), what: format!("call ({}) {why}; {}", h.len(), hist_describe(u, &h)), replay: json!({"check": "C18", "hist": {"schema": ui, "label": u.label, "ops": idx}}) });
	}
	(cover, out)
}

fn replay_hist(r: &serde_json::Value) -> i32 {
	let us = match hist_units() {
		Ok(u) => u,
		Err(e) => {
			eprintln!("replay: {e}");
			return 2;
		}
	};
	let ui = r["schema"].as_u64().unwrap_or(0) as usize;
	let Some(u) = us.get(ui) else {
		eprintln!("replay: no history schema {ui}");
		return 2;
	};
	if r["label"].as_str() != Some(u.label) {
		eprintln!("replay: history schema {ui} is {}, not the recorded one", u.label);
		return 2;
	}
	let idx: Vec<usize> = r["ops"].as_array().map(|a| a.iter().map(|x| x.as_u64().unwrap() as usize).collect()).unwrap_or_default();
	if idx.iter().any(|&i| i >= u.ops.len()) {
		eprintln!("replay: op index out of range (the op alphabet changed)");
		return 2;
	}
	let h: Vec<HOp> = idx.iter().map(|&i| u.ops[i]).collect();
	println!("{}", hist_describe(u, &h));
	let mut bad = 0;
	for n in 1..=h.len() {
		let (last, verdict) = hist_eval(u, &h[..n]);
		println!("  call ({n}) returned {}", last.map(|r| show(&r.map(|b| hex(&b)))).unwrap_or_default());
		if let Err((class, why)) = verdict {
			println!("  [{class}] call ({n}) {why}");
			bad += 1;
		}
	}
	if bad == 0 {
		println!("  property holds on this history");
		0
	} else {
		1
	}
}

// ---------------------------------------------------------------------------------------------
// One leaf: (schema A, value) with every damage, and against every other schema B

pub struct Tier {
	pub thorough: bool,
	pub max_leaves: u64,
	pub pair_values: u64,
	pub compositions_up_to: usize,
	pub max_items: usize,
	/// level of the shared schema alphabet added to the hand-made set
	pub level: usize,
	pub n_base: usize,
	/// (schema, value) leaves per schema that are also serialized through scheduled sinks
	pub sink_values: u64,
	/// leaf cap of one deviation-bounded sink exploration
	pub sink_leaf_cap: u64,
	/// length of the call histories on one SerializerConfig
	pub hist_depth: usize,
}

pub fn tier(thorough: bool) -> Tier {
	if thorough {
		Tier { thorough, max_leaves: 20000, pair_values: 256, compositions_up_to: 13, max_items: 3, level: 2, n_base: n_base(), sink_values: 24, sink_leaf_cap: 50_000, hist_depth: 4 }
	} else {
		Tier { thorough, max_leaves: 20000, pair_values: 32, compositions_up_to: 12, max_items: 2, level: 1, n_base: n_base(), sink_values: 4, sink_leaf_cap: 5_000, hist_depth: 3 }
	}
}

#[allow(clippy::too_many_arguments)]
pub fn run_leaf(us: &[Unit], a: usize, ch: &mut Chooser, leaf_no: u64, t: &Tier, cover: &mut Cover, out: &mut Vec<Violation>) {
	let u = &us[a];
	let n_base = t.n_base;
	let env = Env::new(&u.ast);
	let v: RValue = gen::gen_value(&u.ast, &env, ch, true, t.max_items, 2);
	let choices = ch.choices();
	let text0 = &u.schemas[0].0;
	let mut viol = |class: &str, what: String, b: Option<usize>| {
		out.push(Violation {
			class: class.to_owned(),
			what: format!("schema A = {text0} value {v:?}: {what}"),
			replay: json!({"check": "C18", "a": a, "b": b, "choices": choices, "schema": text0, "thorough": t.thorough}),
		});
	};
	let datum = match vmodel::value::encode(&v, &u.ast, &env, &mut vmodel::value::Canonical) {
		Ok(d) => d,
		Err(e) => panic!("MACHINERY: model cannot encode its own value {v:?}: {e}"),
	};
	let mut msg = vec![0xC3, 0x01];
	msg.extend_from_slice(&u.fp);
	msg.extend_from_slice(&datum);
	let expect = gen::expect_obs(&v, &u.ast, &env, ObsMode::Any, false).unborrowed();

	// (1) serialization under every spelling / built variant: header exactly, datum denotes the value;
	// a built schema and its parsed equivalent produce identical messages
	let mut bytes0: Option<Vec<u8>> = None;
	for (si, (text, schema)) in u.schemas.iter().enumerate() {
		let p = gen::pres_of(&v, &u.ast, &env, UnionStyle::ByTypeWhereUnambiguous, RecordStyle::Struct);
		let mut config = SerializerConfig::new(schema);
		cover.impl_runs += 1;
		let r = guarded(|| serde_avro_fast::to_single_object_vec(&p, &mut config).map_err(|e| e.to_string()));
		if si == 0 {
			if let Out::Ok(b) = &r {
				bytes0 = Some(b.clone());
			}
		} else if u.kinds[si] != 0 {
			if let (Some(b0), Out::Ok(b)) = (&bytes0, &r) {
				if b0 != b {
					viol("built-and-parsed-messages-differ", format!("to_single_object_vec under the schema {text} wrote [{}], under the schema parsed from {} it wrote [{}]", hex(b), u.schemas[0].0, hex(b0)), None);
				} else {
					cover.count("built_schema_message_identical_to_parsed", 1);
				}
			}
		}
		match r {
			Out::Ok(bytes) => {
				if bytes.len() < 10 || bytes[..2] != [0xC3, 0x01] || bytes[2..10] != u.fp {
					viol(
						"ser-header",
						format!("to_single_object_vec (spelling {si}: {text}) wrote [{}]; expected header c3 01 ‖ LE64(CRC-64-AVRO(PCF)) = [{}] (PCF {})", hex(&bytes), hex(&msg[..10]), u.pcf),
						None,
					);
				} else {
					match vmodel::value::decode(&bytes[10..], &u.ast, &env) {
						Verdict::Valid(v2, n) if v2 == v && n == bytes.len() - 10 => {
							if bytes == msg {
								cover.count("ser_bytes_identical_to_model", 1);
							} else {
								cover.count("ser_datum_other_valid_layout", 1);
							}
						}
						other => viol("ser-datum", format!("to_single_object_vec (spelling {si}) wrote [{}] whose datum part the reference decodes as {other:?}", hex(&bytes)), None),
					}
				}
			}
			other => viol("ser-failed", format!("to_single_object_vec (spelling {si}: {text}) returned {}", show(&other)), None),
		}
	}

	// (2) decoding the message under every spelling: slice and every chunking return the value
	let chunks = chunkings(msg.len(), t.compositions_up_to);
	for (si, (text, schema)) in u.schemas.iter().enumerate() {
		cover.impl_runs += 1;
		let r = so_slice(&msg, schema);
		if r != Out::Ok(expect.clone()) {
			viol("de-slice", format!("from_single_object_slice([{}]) under spelling {si} ({text}) returned {}, expected Ok({expect:?})", hex(&msg), show(&r)), None);
		} else {
			cover.count("decoded_ok_slice", 1);
			match u.kinds[si] {
				0 if si > 0 => cover.count("decoded_ok_under_other_spelling", 1),
				1 => cover.count("decoded_ok_under_built_schema", 1),
				3 => cover.count("decoded_ok_under_built_schema_with_leading_dot_names", 1),
				2 | 4 => cover.count("decoded_ok_under_schema_parsed_from_built_json", 1),
				_ => {}
			}
		}
		let cs: &[(Vec<usize>, usize)] = if si == 0 { &chunks } else { &chunks[..chunks.len().min(4)] };
		for (sizes, uniform) in cs {
			cover.impl_runs += 1;
			let r = so_reader(&msg, sizes, *uniform, schema);
			if r != Out::Ok(expect.clone()) {
				viol("de-reader", format!("from_single_object_reader([{}]) chunks {sizes:?} then uniform {uniform} under spelling {si} returned {}, expected Ok({expect:?})", hex(&msg), show(&r)), None);
			} else {
				cover.count("decoded_ok_reader", 1);
				if sizes.len() > 1 && sizes[0] < 10 {
					cover.count("reader_header_straddles_refill", 1);
				}
			}
		}
	}
	let schema = &u.schemas[0].1;

	// (3) header damage: every single-bit flip of the 10 header bytes => Err on every path
	let hchunks = header_chunkings(msg.len());
	for byte in 0..10 {
		for bit in 0..8 {
			let mut m = msg.clone();
			m[byte] ^= 1 << bit;
			cover.nontrivial.insert(hash64(&(a, "flip", &m)));
			cover.impl_runs += 1;
			let r = so_slice(&m, schema);
			if !r.is_err() {
				viol("damaged-header-accepted", format!("header byte {byte} bit {bit} flipped: from_single_object_slice([{}]) returned {}", hex(&m), show(&r)), None);
			} else {
				cover.count(if byte < 2 { "marker_damage_rejected" } else { "fingerprint_damage_rejected" }, 1);
			}
			for (sizes, uniform) in &hchunks {
				cover.impl_runs += 1;
				let r = so_reader(&m, sizes, *uniform, schema);
				if !r.is_err() {
					viol("damaged-header-accepted", format!("header byte {byte} bit {bit} flipped: from_single_object_reader([{}]) chunks {sizes:?} then uniform {uniform} returned {}", hex(&m), show(&r)), None);
				}
			}
		}
	}

	// (4) truncation to every length: shorter than the header => Err; otherwise slice ≡ reader
	for len in 0..msg.len() {
		let m = &msg[..len];
		cover.nontrivial.insert(hash64(&(a, "cut", m)));
		cover.impl_runs += 1;
		let rs = so_slice(m, schema);
		if matches!(rs, Out::Panic(_)) || (len < 10 && !rs.is_err()) {
			viol("short-input", format!("input cut to {len} bytes: from_single_object_slice([{}]) returned {}", hex(m), show(&rs)), None);
		} else if len < 10 {
			cover.count("short_header_rejected", 1);
		}
		for (sizes, uniform) in &hchunks {
			cover.impl_runs += 1;
			let rr = so_reader(m, sizes, *uniform, schema);
			if matches!(rr, Out::Panic(_)) || (len < 10 && !rr.is_err()) {
				viol("short-input", format!("input cut to {len} bytes: from_single_object_reader([{}]) chunks {sizes:?} then uniform {uniform} returned {}", hex(m), show(&rr)), None);
			} else if !same(&rs, &rr) {
				viol("slice-reader-differ", format!("input cut to {len} bytes [{}]: slice returned {}, reader (chunks {sizes:?} then uniform {uniform}) returned {}", hex(m), show(&rs), show(&rr)), None);
			}
		}
	}

	// (5) every other schema B: different canonical form => never decoded; same canonical form => decodes like the datum
	if leaf_no < t.pair_values {
		for (b, ub) in us.iter().enumerate().take(n_base) {
			if b == a {
				continue;
			}
			let sb = &ub.schemas[0].1;
			cover.nontrivial.insert(hash64(&(a, "under", b, &msg)));
			if ub.pcf != u.pcf {
				if ub.fp == u.fp {
					cover.count("fingerprint_collision_abstained", 1);
					continue;
				}
				cover.impl_runs += 3;
				let rs = [("slice", so_slice(&msg, sb)), ("reader whole", so_reader(&msg, &[], 0, sb)), ("reader 1-byte chunks", so_reader(&msg, &[], 1, sb))];
				let mut bad = false;
				for (path, r) in &rs {
					if !r.is_err() {
						bad = true;
						viol(
							"foreign-schema-decoded",
							format!("message [{}] written under A (PCF {}) was given to schema B = {} (PCF {}): {path} returned {}", hex(&msg), u.pcf, ub.schemas[0].0, ub.pcf, show(r)),
							Some(b),
						);
					}
				}
				for (bi, (btext, bs)) in ub.schemas.iter().enumerate() {
					if ub.kinds[bi] == 1 || ub.kinds[bi] == 3 {
						cover.impl_runs += 1;
						let r = so_slice(&msg, bs);
						if !r.is_err() {
							bad = true;
							viol("foreign-schema-decoded", format!("message [{}] written under A (PCF {}) was given to schema B {btext} (PCF {}): slice returned {}", hex(&msg), u.pcf, ub.pcf, show(&r)), Some(b));
						} else {
							cover.count("foreign_schema_rejected_by_built_schema", 1);
						}
					}
				}
				if !bad {
					cover.count("foreign_schema_rejected", 1);
					if datum_slice(&datum, sb).is_ok() {
						// the interesting half: the datum alone *would* decode under B
						cover.count("foreign_schema_rejected_though_datum_decodes", 1);
					}
				}
			} else {
				// same canonical form: the header must be accepted, i.e. the result is that of the bare datum under B
				cover.impl_runs += 6;
				let ds = datum_slice(&datum, sb);
				let rs = so_slice(&msg, sb);
				if !same(&ds, &rs) {
					viol(
						"same-pcf-not-decoded",
						format!("message [{}] given to schema B = {} with the same canonical form {}: from_single_object_slice returned {}, from_datum_slice on the datum returns {}", hex(&msg), ub.schemas[0].0, ub.pcf, show(&rs), show(&ds)),
						Some(b),
					);
				}
				for uniform in [0usize, 1] {
					let dr = datum_reader(&datum, uniform, sb);
					let rr = so_reader(&msg, &[], uniform, sb);
					if !same(&dr, &rr) {
						viol(
							"same-pcf-not-decoded",
							format!(
								"message [{}] given to schema B = {} with the same canonical form {}: from_single_object_reader (uniform {uniform}) returned {}, from_datum_reader on the datum returns {}",
								hex(&msg),
								ub.schemas[0].0,
								ub.pcf,
								show(&rr),
								show(&dr)
							),
							Some(b),
						);
					}
				}
				if rs.is_ok() {
					cover.count("same_pcf_other_logical_type_decoded", 1);
				} else {
					cover.count("same_pcf_other_logical_type_datum_err(not judged)", 1);
				}
			}
		}
	}
	// (6) the same serialization through sinks that accept fewer bytes than offered / fail
	if leaf_no < t.sink_values {
		let p = gen::pres_of(&v, &u.ast, &env, UnionStyle::ByTypeWhereUnambiguous, RecordStyle::Struct);
		let mut config = SerializerConfig::new(schema);
		cover.impl_runs += 1;
		if let Out::Ok(vec_out) = guarded(|| serde_avro_fast::to_single_object_vec(&p, &mut config).map_err(|e| e.to_string())) {
			sink_part(a, schema, &p, &vec_out, t, cover, &mut viol);
		}
	}
	cover.evaluations += 1;
	cover.nontrivial.insert(hash64(&(a, "whole", &msg)));
	cover.outcomes.insert(hash64(&msg));
	if cover.samples.is_empty() && datum.len() > 3 {
		cover.sample(json!({"schema": text0, "pcf": u.pcf, "value": format!("{v:?}"), "message": hex(&msg)}));
	}
}

fn run_unit(us: &[Unit], a: usize, t: &Tier) -> (Cover, Vec<Violation>) {
	let mut cover = Cover::default();
	let mut out = Vec::new();
	let mut leaf_no = 0u64;
	let st = explore(None, t.max_leaves, |ch| {
		run_leaf(us, a, ch, leaf_no, t, &mut cover, &mut out);
		leaf_no += 1;
		out.len() < 100
	});
	cover.add_tree(&st, &format!("schema {} ({})", a, us[a].label));
	cover.count("spellings_used", us[a].schemas.len() as u64);
	cover.count("spellings_skipped(C07/C08's business)", us[a].skipped_spellings.len() as u64);
	cover.count("built_variants_used", us[a].kinds.iter().filter(|&&k| k == 1 || k == 3).count() as u64);
	cover.count("built_variants_with_leading_dot_names_used", us[a].kinds.iter().filter(|&&k| k == 3).count() as u64);
	cover.count("built_variants_skipped(freeze or json() failed: C09/C19's business)", us[a].skipped_built.len() as u64);
	(cover, out)
}

pub fn run(rep: &mut Report) {
	let thorough = rep.thorough();
	let t = tier(thorough);
	let us = match units(t.level) {
		Ok(u) => u,
		Err(e) => {
			eprintln!("MACHINERY: C18: {e}");
			std::process::exit(2);
		}
	};
	let distinct_pcf: std::collections::HashSet<&str> = us.iter().map(|u| u.pcf.as_str()).collect();
	let same_pcf_pairs = us.iter().enumerate().map(|(i, a)| us.iter().enumerate().take(t.n_base).filter(|(j, b)| *j != i && b.pcf == a.pcf).count()).sum::<usize>();
	rep.rule = format!(
		"SAE: {} hand-made ASTs plus the {} schemas of the shared alphabet Σ_S level {} ({} distinct canonical forms; the hand-made set incl. pairs differing only in a record/enum/fixed name, namespace, field name or symbol, and {} ordered pairs with the same canonical form but another logical type), each in up to 4 spellings of the same canonical form (attribute order, extra attributes, whitespace, name/namespace forms; used only if the crate gives them the canonical fingerprint) and, as further writer/reader schemas, built node by node with SchemaMut::from_nodes(..).freeze() (every Name from Name::from_fully_qualified_name('ns.X' / 'X'); when the AST has a null-namespace named type also with those Names from the leading-dot form '.X') plus the schema parsed from each built schema's json() — built variants are used whatever fingerprint the crate gives them and must write byte-identical messages to the parsed schema; built variants of B also have to reject foreign messages, x every value of gen::gen_value (full boundary alphabet, collections <= {} items, leaf cap {} per schema). Per (schema, value): to_single_object_vec = c3 01 ‖ fingerprint_le(pcf(AST)) ‖ datum that the reference decodes to the value; message (built by the model) decoded from the slice and from a ChunkedBufRead under {} returns the expected observation; each of the 10 header bytes x 8 bit flips => Err (slice + {} chunkings incl. a cut at every header position); truncation to every length: < 10 => Err, otherwise slice ≡ reader (Ok/Err + observation); for the first {} values per schema A, every B of the hand-made set: PCF differs => Err on slice / whole / 1-byte reader, PCF equal => same result as from_datum_* of the bare datum under B. For the first {} values per schema the message is also written with to_single_object into an envs::ScheduledSink: every regular schedule 'at most k bytes per write call' k = 1..=12, then every schedule with <= 2 deviations from accept-everything (short writes of envs::sink_menu, Interrupted, hard error, Ok(0); ENV, leaf cap {} per value): without a hard fault the call is Ok and the sink holds exactly the bytes the Vec variant produces, with a hard fault the call is Err. HIST: for {} schemas (long, string, record, array, union, enum) every history of <= {} calls on ONE SerializerConfig over the ops {{to_single_object_vec(v), to_single_object(v, Vec), the same with the k-th nested serialize call failing (every k, pres::with_failure), genuinely mismatching presentations (wrong type, wrong type after a written prefix, unknown field / branch / symbol)}} x 2 values, each op validated on a fresh configuration; after every call: an ok-op returns exactly the message a fresh configuration (= the model) gives, a failing op still fails, no panic (no state merging: the key is the history). Error messages never compared. Non-trivial: every history in which an ok-op follows a failed op on the same configuration, and every (schema, input bytes, decoding schema) case — whole message, one flipped header bit, one truncation, one foreign/equivalent schema; distinct on exactly that triple.",
		t.n_base,
		us.len() - t.n_base,
		t.level,
		distinct_pcf.len(),
		same_pcf_pairs,
		t.max_items,
		t.max_leaves,
		format!("every composition into chunks for messages <= {} bytes, else whole / uniform 1..12 / one cut at each of the first 11 positions", t.compositions_up_to),
		"13",
		t.pair_values,
		t.sink_values,
		t.sink_leaf_cap,
		hist_schemas().len(),
		t.hist_depth
	);
	rep.assumptions.push("vmodel::schema::pcf + bit-serial CRC-64-AVRO give the fingerprint the specification prescribes; vmodel::value::encode gives a valid datum encoding".into());
	let results: Vec<(Cover, Vec<Violation>)> = (0..us.len()).into_par_iter().map(|a| run_unit(&us, a, &t)).collect();
	for (c, v) in results {
		rep.cover.merge(c);
		rep.violations.extend(v);
	}
	// HIST: call histories on one SerializerConfig
	let hus = match hist_units() {
		Ok(u) => u,
		Err(e) => {
			eprintln!("MACHINERY: C18 history part: {e}");
			std::process::exit(2);
		}
	};
	let hres: Vec<(Cover, Vec<Violation>)> = hus.par_iter().enumerate().map(|(i, u)| run_hist_unit(i, u, t.hist_depth)).collect();
	for (c, v) in hres {
		rep.cover.merge(c);
		rep.violations.extend(v);
	}
	rep.extra.insert("history_schemas".into(), json!(hus.iter().map(|u| json!({"schema": u.text, "ops": u.ops.len(), "dropped_ops": u.dropped})).collect::<Vec<_>>()));
	let sb: Vec<&String> = us.iter().flat_map(|u| u.skipped_built.iter()).collect();
	rep.extra.insert("built_variants_not_used".into(), json!({"count": sb.len(), "first": sb.iter().take(4).collect::<Vec<_>>()}));
	rep.extra.insert("schemas".into(), json!(us.len()));
	let skipped: Vec<&String> = us.iter().flat_map(|u| u.skipped_spellings.iter()).collect();
	rep.extra.insert("spellings_not_used_because_rejected_or_fingerprinted_differently".into(), json!({"count": skipped.len(), "first": skipped.iter().take(4).collect::<Vec<_>>()}));
	rep.extra.insert("distinct_canonical_forms".into(), json!(distinct_pcf.len()));
	let need = [
		"ser_bytes_identical_to_model",
		"decoded_ok_slice",
		"decoded_ok_reader",
		"decoded_ok_under_other_spelling",
		"reader_header_straddles_refill",
		"marker_damage_rejected",
		"fingerprint_damage_rejected",
		"short_header_rejected",
		"foreign_schema_rejected",
		"foreign_schema_rejected_though_datum_decodes",
		"same_pcf_other_logical_type_decoded",
		"sink_regular_schedule_with_short_writes",
		"sink_short_write_inside_header",
		"sink_hard_fault_injected",
		"sink_interrupted",
		"sink_deviating_schedule_without_fault",
		"hist_ok_call_after_a_failed_call_on_the_same_config",
		"hist_failing_ops_leaving_a_partial_datum",
		"decoded_ok_under_built_schema",
		"decoded_ok_under_built_schema_with_leading_dot_names",
		"decoded_ok_under_schema_parsed_from_built_json",
		"built_schema_message_identical_to_parsed",
		"foreign_schema_rejected_by_built_schema",
	];
	if rep.violations.is_empty() {
		for k in need {
			if rep.cover.counters.get(k).copied().unwrap_or(0) == 0 {
				eprintln!("MACHINERY: C18 vacuity guard: behaviour '{k}' was never observed");
				std::process::exit(2);
			}
		}
	}
}

pub fn replay(v: &serde_json::Value) -> i32 {
	let r = &v["replay"];
	if !r["hist"].is_null() {
		return replay_hist(&r["hist"]);
	}
	let a = r["a"].as_u64().unwrap_or(0) as usize;
	let choices: Vec<usize> = r["choices"].as_array().map(|c| c.iter().map(|c| c.as_u64().unwrap() as usize).collect()).unwrap_or_default();
	let t = tier(r["thorough"].as_bool().unwrap_or(false));
	let us = match units(t.level) {
		Ok(u) => u,
		Err(e) => {
			eprintln!("replay: {e}");
			return 2;
		}
	};
	if a >= us.len() || us[a].schemas[0].0 != r["schema"].as_str().unwrap_or("") {
		eprintln!("replay: schema {a} is not the recorded one (it is {:?})", us.get(a).map(|u| u.schemas[0].0.as_str()));
		return 2;
	}
	let mut ch = Chooser::replay(choices);
	let mut cover = Cover::default();
	let mut out = Vec::new();
	// leaf_no 0: the pair part is always executed on replay
	run_leaf(&us, a, &mut ch, 0, &t, &mut cover, &mut out);
	println!("replayed schema {} ({}), {} executions on the crate", a, us[a].schemas[0].0, cover.impl_runs);
	for v in &out {
		println!("  [{}] {}", v.class, v.what);
	}
	if out.is_empty() {
		println!("  property holds on this case");
		0
	} else {
		1
	}
}
