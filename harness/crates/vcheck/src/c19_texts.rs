//! C19 — text cases: JSON shapes at the positions the schema parser looks at, near-miss
//! schemas, truncated documents, nesting ladders and the text-side scaling ladders.

use vmodel::json::J;

pub const SEEDS: [&str; 30] = [
	r#""int""#,
	r#"{"type":"string"}"#,
	r#"["null","string"]"#,
	r#"{"type":"array","items":"long"}"#,
	r#"{"type":"map","values":{"type":"array","items":"int"}}"#,
	r#"{"type":"record","name":"R","fields":[{"name":"a","type":"int"},{"name":"b","type":["null","R"]}]}"#,
	r#"{"type":"enum","name":"E","symbols":["A","B"]}"#,
	r#"{"type":"fixed","name":"F","size":4}"#,
	r#"{"type":"bytes","logicalType":"decimal","precision":4,"scale":2}"#,
	r#"{"type":"fixed","name":"D","size":16,"logicalType":"decimal","precision":30,"scale":0}"#,
	r#"{"type":"fixed","name":"Du","size":12,"logicalType":"duration"}"#,
	r#"{"type":"string","logicalType":"uuid"}"#,
	r#"{"type":"long","logicalType":"timestamp-micros"}"#,
	r#"{"type":"record","name":"a.b.R","namespace":"x","fields":[{"name":"f","type":{"type":"enum","name":"E","symbols":["A"]}},{"name":"g","type":"a.b.E"}]}"#,
	r#"{"type":"record","name":"R","namespace":"ns","fields":[{"name":"f","type":{"type":"fixed","name":"F","namespace":"","size":2}},{"name":"g","type":["null","ns.R"]}]}"#,
	r#"[{"type":"record","name":"A","fields":[{"name":"n","type":"B"}]},{"type":"record","name":"B","fields":[]}]"#,
	r#"{"type":"record","name":"L","fields":[{"name":"v","type":"int","default":0,"doc":"x","aliases":["w"]},{"name":"next","type":["null","L"],"default":null}]}"#,
	r#"{"type":"array","items":["null",{"type":"map","values":"bytes"}]}"#,
	r#"{"type":"int","logicalType":"date"}"#,
	r#"{"type":"bytes","logicalType":"big-decimal"}"#,
	// --- forward references (a name used before its definition), in various positions
	// after a scalar sibling; defined by a later field
	r#"{"type":"record","name":"R","fields":[{"name":"a","type":"int"},{"name":"b","type":"Later"},{"name":"c","type":{"type":"enum","name":"Later","symbols":["X"]}}]}"#,
	// after an inline-defined sibling
	r#"{"type":"record","name":"R","fields":[{"name":"a","type":{"type":"fixed","name":"F","size":2}},{"name":"b","type":"Later"},{"name":"c","type":{"type":"record","name":"Later","fields":[]}}]}"#,
	// the first forward reference is nested deeper than a later one
	r#"{"type":"record","name":"R","fields":[{"name":"a","type":{"type":"record","name":"In","fields":[{"name":"x","type":"int"},{"name":"y","type":["null","L1"]}]}},{"name":"b","type":"L2"},{"name":"c","type":{"type":"enum","name":"L1","symbols":["X"]}},{"name":"d","type":{"type":"fixed","name":"L2","size":1}}]}"#,
	// held by a union, an array and a map
	r#"{"type":"record","name":"R","fields":[{"name":"a","type":"int"},{"name":"u","type":["null","Later"]},{"name":"arr","type":{"type":"array","items":"Later"}},{"name":"m","type":{"type":"map","values":"Later"}},{"name":"def","type":{"type":"enum","name":"Later","symbols":["X"]}}]}"#,
	// two forward references to the same type and one to another
	r#"{"type":"record","name":"R","fields":[{"name":"a","type":"long"},{"name":"b","type":"T1"},{"name":"c","type":"T1"},{"name":"d","type":"T2"},{"name":"e","type":{"type":"enum","name":"T1","symbols":["A"]}},{"name":"f","type":{"type":"fixed","name":"T2","size":3}}]}"#,
	// to a type defined inside a later field's nested record
	r#"{"type":"record","name":"R","fields":[{"name":"a","type":"string"},{"name":"b","type":"Deep"},{"name":"c","type":{"type":"record","name":"Mid","fields":[{"name":"p","type":"int"},{"name":"q","type":{"type":"enum","name":"Deep","symbols":["X"]}}]}}]}"#,
	// namespaced: by fullname and by the enclosing namespace
	r#"{"type":"record","name":"ns.R","fields":[{"name":"a","type":"int"},{"name":"b","type":"ns.Later"},{"name":"c","type":"Later"},{"name":"d","type":{"type":"fixed","name":"Later","size":1}}]}"#,
	// top-level union: forward references from a branch and from a record inside a branch
	r#"["null","Later",{"type":"record","name":"Holder","fields":[{"name":"x","type":"int"},{"name":"y","type":"Later"}]},{"type":"enum","name":"Later","symbols":["X"]}]"#,
	// union holder whose earlier branch defines a node, inside an array
	r#"{"type":"array","items":[{"type":"fixed","name":"F","size":1},"Later",{"type":"record","name":"Later","fields":[{"name":"v","type":"F"}]}]}"#,
	// a later holder (union) sits before an earlier, deeper holder in node order
	r#"{"type":"record","name":"R","fields":[{"name":"u","type":["int",{"type":"record","name":"In","fields":[{"name":"p","type":"boolean"},{"name":"q","type":"L1"}]},"L2"]},{"name":"d1","type":{"type":"enum","name":"L1","symbols":["A"]}},{"name":"d2","type":{"type":"enum","name":"L2","symbols":["B"]}}]}"#,
];

pub const ATOMS: [&str; 12] = ["null", "true", "0", "-1", "1e99", "18446744073709551616", r#""""#, r#""int""#, r#""record""#, r#""X""#, "[]", "{}"];
pub const KEYS: [&str; 11] = ["type", "name", "namespace", "fields", "symbols", "items", "values", "size", "logicalType", "precision", "scale"];

const BASES: [&str; 9] = [
	r#"{"type":"array"}"#,
	r#"{"type":"map"}"#,
	r#"{"type":"record","name":"X"}"#,
	r#"{"type":"record","name":"X","fields":[]}"#,
	r#"{"type":"enum","name":"X"}"#,
	r#"{"type":"fixed","name":"X"}"#,
	r#"{"type":"int"}"#,
	r#"{"type":"bytes","logicalType":"decimal"}"#,
	r#"{"type":"fixed","name":"X","size":4,"logicalType":"decimal","precision":4}"#,
];

/// holes are written `@`
pub const WRAPPERS: [&str; 9] = [
	r#"[@]"#,
	r#"[@,"int"]"#,
	r#"{"type":"array","items":@}"#,
	r#"{"type":"map","values":@}"#,
	r#"{"type":@}"#,
	r#"{"type":"record","name":"W","fields":[{"name":"f","type":@}]}"#,
	r#"{"type":"record","name":"W","fields":@}"#,
	r#"{"type":"record","name":"W","fields":[@]}"#,
	r#"{"type":"enum","name":"W","symbols":@}"#,
];

fn set_key(base: &J, key: &str, val: &str) -> String {
	// replace the member if present, else append; the value is spliced as raw text
	let J::Obj(kv) = base else { unreachable!() };
	let mut kv = kv.clone();
	match kv.iter_mut().find(|(k, _)| k == key) {
		Some(m) => m.1 = J::Num(val.to_owned()),
		None => kv.push((key.to_owned(), J::Num(val.to_owned()))),
	}
	J::Obj(kv).to_min_string()
}

/// Shapes of depth <= 1: atoms, one-element arrays, `{key: atom}`, and base objects with one
/// attribute set to an atom.
pub fn shapes1() -> Vec<String> {
	let mut v: Vec<String> = ATOMS.iter().map(|s| s.to_string()).collect();
	for a in ATOMS {
		v.push(format!("[{a}]"));
	}
	for k in KEYS {
		for a in ATOMS {
			v.push(format!("{{\"{k}\":{a}}}"));
		}
	}
	for b in BASES {
		let base = vmodel::json::parse(b).expect("base object parses");
		for k in KEYS {
			for a in ATOMS {
				v.push(set_key(&base, k, a));
			}
		}
	}
	// field-level attributes
	for a in ATOMS {
		v.push(format!(r#"{{"type":"record","name":"X","fields":[{{"name":{a},"type":"int"}}]}}"#));
		v.push(format!(r#"{{"type":"record","name":"X","fields":[{{"name":"f","type":{a}}}]}}"#));
		v.push(format!(r#"{{"type":"record","name":"X","fields":[{{"name":"f"}},{a}]}}"#));
		v.push(format!(r#"{{"type":"enum","name":"X","symbols":[{a}]}}"#));
	}
	// lexically valid values that cannot be materialised (see ODD_VALUES)
	v.extend(ODD_VALUES.iter().map(|s| s.to_string()));
	v
}

/// A small replacement set for the quick near-miss sweep.
pub fn shapes0() -> Vec<String> {
	let mut v: Vec<String> = ATOMS.iter().map(|s| s.to_string()).collect();
	v.extend(["[null]", r#"["int"]"#, r#"["int","int"]"#, r#"{"type":"int"}"#, r#"{"type":"record"}"#, r#"{"type":null}"#, r#"{"name":"X"}"#, r#"[[]]"#, r#"[{}]"#, r#"{"type":"array","items":"X"}"#, r#""a.b.E""#, r#""R""#, "1.5", "-0", "4294967296", r#""decimal""#, r#""duration""#, r#""\u0000""#, "1e999", "123456789012345678901234567890", r#""\ud800""#, r#""\udc00\ud800""#].map(String::from));
	v
}

pub fn wrap(w: usize, inner: &str) -> String {
	WRAPPERS[w].replacen('@', inner, 1)
}

#[derive(Clone, Debug)]
pub enum PathEl {
	Key(usize),
	Idx(usize),
}

pub fn paths(j: &J, cur: &mut Vec<PathEl>, out: &mut Vec<Vec<PathEl>>) {
	if !cur.is_empty() {
		out.push(cur.clone());
	}
	match j {
		J::Arr(a) => {
			for (i, x) in a.iter().enumerate() {
				cur.push(PathEl::Idx(i));
				paths(x, cur, out);
				cur.pop();
			}
		}
		J::Obj(kv) => {
			for (i, (_, x)) in kv.iter().enumerate() {
				cur.push(PathEl::Key(i));
				paths(x, cur, out);
				cur.pop();
			}
		}
		_ => {}
	}
}

#[derive(Clone, Copy)]
pub enum Edit<'a> {
	Replace(&'a str),
	Delete,
	Duplicate,
}

pub fn edit(j: &J, path: &[PathEl], e: Edit) -> J {
	if path.len() == 1 {
		return match (j, &path[0]) {
			(J::Arr(a), PathEl::Idx(i)) => {
				let mut a = a.clone();
				match e {
					Edit::Replace(t) => a[*i] = J::Num(t.to_owned()),
					Edit::Delete => {
						a.remove(*i);
					}
					Edit::Duplicate => {
						let x = a[*i].clone();
						a.insert(*i, x);
					}
				}
				J::Arr(a)
			}
			(J::Obj(kv), PathEl::Key(i)) => {
				let mut kv = kv.clone();
				match e {
					Edit::Replace(t) => kv[*i].1 = J::Num(t.to_owned()),
					Edit::Delete => {
						kv.remove(*i);
					}
					Edit::Duplicate => {
						let x = kv[*i].clone();
						kv.push(x);
					}
				}
				J::Obj(kv)
			}
			_ => unreachable!("path does not fit the document"),
		};
	}
	match (j, &path[0]) {
		(J::Arr(a), PathEl::Idx(i)) => {
			let mut a = a.clone();
			a[*i] = edit(&a[*i], &path[1..], e);
			J::Arr(a)
		}
		(J::Obj(kv), PathEl::Key(i)) => {
			let mut kv = kv.clone();
			kv[*i].1 = edit(&kv[*i].1, &path[1..], e);
			J::Obj(kv)
		}
		_ => unreachable!("path does not fit the document"),
	}
}

pub struct NearMiss {
	pub docs: Vec<(J, Vec<Vec<PathEl>>)>,
	pub repl: Vec<String>,
	/// cumulative case counts per seed
	pub offsets: Vec<u64>,
}

impl NearMiss {
	pub fn new(thorough: bool) -> NearMiss {
		let repl = if thorough { shapes1() } else { shapes0() };
		let mut docs = Vec::new();
		let mut offsets = vec![0u64];
		for s in SEEDS {
			let j = vmodel::json::parse(s).expect("seed parses as JSON");
			let mut ps = Vec::new();
			paths(&j, &mut Vec::new(), &mut ps);
			let n = ps.len() as u64 * (repl.len() as u64 + 2) + repl.len() as u64; // + replacing the whole document
			offsets.push(offsets.last().unwrap() + n);
			docs.push((j, ps));
		}
		NearMiss { docs, repl, offsets }
	}
	pub fn count(&self) -> u64 {
		*self.offsets.last().unwrap()
	}
	pub fn case(&self, idx: u64) -> (String, String) {
		let s = self.offsets.iter().rposition(|o| *o <= idx).unwrap().min(self.docs.len() - 1);
		let mut r = idx - self.offsets[s];
		let (j, ps) = &self.docs[s];
		let per = self.repl.len() as u64 + 2;
		if r >= ps.len() as u64 * per {
			r -= ps.len() as u64 * per;
			return (self.repl[r as usize].clone(), format!("near-miss: seed {s} replaced entirely by shape {r}"));
		}
		let (p, e) = ((r / per) as usize, (r % per) as usize);
		let (ed, how) = if e < self.repl.len() {
			(Edit::Replace(&self.repl[e]), format!("value replaced by {}", self.repl[e]))
		} else if e == self.repl.len() {
			(Edit::Delete, "member deleted".to_owned())
		} else {
			(Edit::Duplicate, "member duplicated".to_owned())
		};
		(edit(j, &ps[p], ed).to_min_string(), format!("near-miss: seed {s} ({}), path {:?}: {how}", SEEDS[s], ps[p]))
	}
}

pub const MISC: [&str; 26] = [
	r#"{"type":"record","name":"R","fields":[{"name":"a","type":"int"},{"name":"b","type":"Never"}]}"#,
	r#"{"type":"record","name":"R","fields":[{"name":"a","type":"int"},{"name":"b","type":["null","Never"]},{"name":"c","type":{"type":"enum","name":"Other","symbols":["X"]}}]}"#,
	"", " ", "\u{feff}\"int\"", "\0", "nul", "int", "'int'", "\"int", "\"\\ud800\"", "\"\\u0000\"", "\"int\" \"int\"", "\"int\",", "{\"type\":\"int\"}}", "[\"int\"]]", "// c\n\"int\"", "NaN", "-", "1e99999", "{\"type\":\"int\",}", "{type:\"int\"}",
	"{\"type\":\"fixed\",\"name\":\"F\",\"size\":-1}", "{\"type\":\"fixed\",\"name\":\"F\",\"size\":1.0}", "{\"type\":\"fixed\",\"name\":\"F\",\"size\":18446744073709551615}", "{\"type\":\"bytes\",\"logicalType\":\"decimal\",\"precision\":18446744073709551615,\"scale\":4294967295}",
];

/// every prefix (at char boundaries) of every seed, then the miscellaneous non-JSON strings
pub struct Prefixes {
	pub offsets: Vec<u64>,
}
impl Prefixes {
	pub fn new() -> Prefixes {
		let mut offsets = vec![0u64];
		for s in SEEDS {
			offsets.push(offsets.last().unwrap() + s.chars().count() as u64 + 1);
		}
		Prefixes { offsets }
	}
	pub fn count(&self) -> u64 {
		*self.offsets.last().unwrap() + MISC.len() as u64
	}
	pub fn case(&self, idx: u64) -> (String, String) {
		let total = *self.offsets.last().unwrap();
		if idx >= total {
			let m = (idx - total) as usize;
			return (MISC[m].to_owned(), format!("non-JSON / odd document #{m}"));
		}
		let s = self.offsets.iter().rposition(|o| *o <= idx).unwrap();
		let k = (idx - self.offsets[s]) as usize;
		let text: String = SEEDS[s].chars().take(k).collect();
		let full = k == SEEDS[s].chars().count();
		(text, if full { format!("seed {s} unmodified") } else { format!("seed {s} truncated to its first {k} characters") })
	}
	pub fn seed_full_indices(&self) -> Vec<u64> {
		(0..SEEDS.len()).map(|s| self.offsets[s + 1] - 1).collect()
	}
}

pub const NEST_PATTERNS: usize = 8;
pub fn nest_depths(thorough: bool) -> Vec<usize> {
	let mut d: Vec<usize> = (1..=200).collect();
	if thorough {
		d.extend([300, 1000, 10_000, 100_000]);
	}
	d
}
pub fn nest(pattern: usize, d: usize) -> (String, String) {
	let rep = |open: &str, mid: &str, close: &str, closed: bool| {
		let mut s = String::with_capacity(d * (open.len() + close.len()) + mid.len());
		for _ in 0..d {
			s.push_str(open);
		}
		if closed {
			s.push_str(mid);
			for _ in 0..d {
				s.push_str(close);
			}
		}
		s
	};
	let (text, what) = match pattern {
		0 => (rep("[", "\"int\"", "]", true), "[[…\"int\"…]]"),
		1 => (rep("[", "", "", false), "[[[… unclosed"),
		2 => (rep("{\"type\":\"array\",\"items\":", "\"int\"", "}", true), "array of array … of int"),
		3 => (rep("{\"type\":\"array\",\"items\":", "", "", false), "array of array … unclosed"),
		4 => (rep("{\"type\":\"map\",\"values\":", "\"int\"", "}", true), "map of map … of int"),
		5 => {
			let mut s = String::new();
			for i in 0..d {
				s.push_str(&format!("{{\"type\":\"record\",\"name\":\"N{i}\",\"fields\":[{{\"name\":\"f\",\"type\":"));
			}
			s.push_str("\"int\"");
			for _ in 0..d {
				s.push_str("}]}");
			}
			(s, "record in record … (3 JSON levels per record)")
		}
		6 => (rep("{\"type\":", "\"int\"", "}", true), "{\"type\":{\"type\":…"),
		_ => (rep("{\"a\":", "0", "}", true), "{\"a\":{\"a\":… (not a schema)"),
	};
	(text, format!("nesting ladder: {what}, depth {d}"))
}

// ------------------------------------------------------------------------------------------
// scaling ladders (text side)

fn record(name: &str, fields: &[(String, String)]) -> String {
	let fs: Vec<String> = fields.iter().map(|(n, t)| format!("{{\"name\":\"{n}\",\"type\":{t}}}")).collect();
	format!("{{\"type\":\"record\",\"name\":\"{name}\",\"fields\":[{}]}}", fs.join(","))
}

/// diamond chain by nesting: R0{a: <definition of R1>, b: "R1"}, …, last record has int fields
pub fn diamond_nest(n: usize) -> String {
	let mut inner = record(&format!("R{}", n - 1), &[("a".into(), "\"int\"".into()), ("b".into(), "\"int\"".into())]);
	for i in (0..n - 1).rev() {
		inner = record(&format!("R{i}"), &[("a".into(), inner), ("b".into(), format!("\"R{}\"", i + 1))]);
	}
	inner
}
/// diamond chain, flat union with forward references
pub fn diamond_fwd(n: usize) -> String {
	let rs: Vec<String> = (0..n)
		.map(|i| {
			let t = if i + 1 < n { format!("\"R{}\"", i + 1) } else { "\"int\"".to_owned() };
			record(&format!("R{i}"), &[("a".into(), t.clone()), ("b".into(), t)])
		})
		.collect();
	format!("[{}]", rs.join(","))
}
/// flat union of n records, each referring to the next
pub fn ref_chain(n: usize) -> String {
	let rs: Vec<String> = (0..n)
		.map(|i| {
			let t = if i + 1 < n { format!("\"R{}\"", i + 1) } else { "\"int\"".to_owned() };
			record(&format!("R{i}"), &[("next".into(), t)])
		})
		.collect();
	format!("[{}]", rs.join(","))
}
pub const WIDE_TEXT_KINDS: usize = 5;
pub fn wide(kind: usize, n: usize) -> (String, &'static str) {
	match kind {
		0 => (record("W", &(0..n).map(|i| (format!("f{i}"), "\"int\"".to_owned())).collect::<Vec<_>>()), "record of n int fields"),
		1 => (format!("[{}]", (0..n).map(|i| format!("{{\"type\":\"fixed\",\"name\":\"F{i}\",\"size\":1}}")).collect::<Vec<_>>().join(",")), "union of n distinct fixed types"),
		2 => (format!("{{\"type\":\"enum\",\"name\":\"E\",\"symbols\":[{}]}}", (0..n).map(|i| format!("\"S{i}\"")).collect::<Vec<_>>().join(",")), "enum of n symbols"),
		3 => (
			record("W", &(0..n).map(|i| (format!("f{i}"), if i == 0 { record("X", &[("v".into(), "\"int\"".into())]) } else { "\"X\"".to_owned() })).collect::<Vec<_>>()),
			"record of n fields all referring to one record",
		),
		_ => (format!("[{}]", vec!["\"int\""; n].join(",")), "union of n times \"int\" (not blessed by the specification)"),
	}
}

// ------------------------------------------------------------------------------------------
// lexically valid JSON values that cannot be materialised (or only just can)

/// Values a JSON *lexer* accepts but a parser that builds the value rejects (number literals
/// outside the f64 range, string escapes with unpaired surrogates), next to harmless relatives
/// (underflow to 0, an integer beyond u64, a valid surrogate pair, an escaped NUL). A parser
/// that skips a value sees only the lexical shape; a second pass that materialises it does not.
pub const ODD_VALUES: [&str; 12] = [
	"1e999",
	"-1E+400",
	"1e-999",
	"123456789012345678901234567890",
	"0.1e400",
	"-0.0e-0",
	r#""\ud800""#,
	r#""\udc00""#,
	r#""\udc00\ud800""#,
	r#""😀""#,
	r#""\u0000""#,
	r#""a\ud800b""#,
];

/// Positions (hole `@`): ignored attributes of every node kind, nested inside objects / arrays of
/// an ignored attribute, attribute keys, and the positions the schema model reads.
pub const ODD_TEMPLATES: [&str; 56] = [
	// --- ignored attributes, primitive written as an object
	r#"{"type":"int","default":@}"#,
	r#"{"type":"int","x-custom":@}"#,
	r#"{"type":"string","doc":@}"#,
	r#"{"doc":@,"type":"int"}"#,
	r#"{"type":"long","logicalType":"timestamp-millis","x":@}"#,
	// --- record, before and after its fields
	r#"{"type":"record","name":"R","doc":@,"fields":[]}"#,
	r#"{"type":"record","name":"R","fields":[{"name":"a","type":"int"}],"x":@}"#,
	r#"{"type":"record","name":"R","aliases":[@],"fields":[]}"#,
	// --- record field
	r#"{"type":"record","name":"R","fields":[{"name":"a","type":"int","default":@}]}"#,
	r#"{"type":"record","name":"R","fields":[{"name":"a","type":"int","doc":@}]}"#,
	r#"{"type":"record","name":"R","fields":[{"name":"a","type":"int","aliases":[@,"b"]}]}"#,
	r#"{"type":"record","name":"R","fields":[{"name":"a","type":"int","order":@}]}"#,
	r#"{"type":"record","name":"R","fields":[{"default":@,"name":"a","type":"int"},{"name":"b","type":"R2"},{"name":"c","type":{"type":"fixed","name":"R2","size":1}}]}"#,
	// --- enum (default of an enum is not modelled by the crate), fixed, array, map
	r#"{"type":"enum","name":"E","symbols":["A"],"doc":@}"#,
	r#"{"type":"enum","name":"E","symbols":["A"],"default":@}"#,
	r#"{"type":"enum","name":"E","symbols":["A"],"aliases":[@]}"#,
	r#"{"type":"fixed","name":"F","size":4,"doc":@}"#,
	r#"{"type":"fixed","name":"F","size":4,"aliases":[@,"G"]}"#,
	r#"{"type":"array","items":"int","default":@}"#,
	r#"{"type":"array","items":"int","default":[@]}"#,
	r#"{"type":"map","values":"int","default":@}"#,
	r#"{"type":"map","values":"int","default":{"k":@}}"#,
	// --- nested inside an object / array of an ignored attribute
	r#"{"type":"int","meta":{"a":{"b":@}}}"#,
	r#"{"type":"int","meta":[1,[2,@]]}"#,
	r#"{"type":"int","meta":{"a":[{"b":@},null]}}"#,
	r#"{"type":"record","name":"R","fields":[{"name":"a","type":{"type":"array","items":{"type":"map","values":"int","doc":@}}}]}"#,
	r#"{"type":"record","name":"R","fields":[{"name":"a","type":"int","default":{"x":[@]}}]}"#,
	r#"["null",{"type":"int","doc":@}]"#,
	r#"["null",{"type":"record","name":"R","fields":[],"x":{"y":@}}]"#,
	// --- attribute keys (string values give a key; number values give invalid JSON)
	r#"{"type":"int",@:1}"#,
	r#"{@:1,"type":"int"}"#,
	r#"{"type":"int","meta":{@:1}}"#,
	r#"{"type":"record","name":"R","fields":[{"name":"a","type":"int",@:0}]}"#,
	r#"{"type":"enum","name":"E","symbols":["A"],@:[]}"#,
	// --- positions the schema model reads
	r#"@"#,
	r#"{"type":@}"#,
	r#"["null",@]"#,
	r#"{"type":"array","items":@}"#,
	r#"{"type":"map","values":@}"#,
	r#"{"type":"fixed","name":@,"size":1}"#,
	r#"{"type":"fixed","name":"F","namespace":@,"size":1}"#,
	r#"{"type":"fixed","name":"F","size":@}"#,
	r#"{"type":"enum","name":"E","symbols":[@]}"#,
	r#"{"type":"enum","name":"E","symbols":["A",@]}"#,
	r#"{"type":"enum","name":@,"symbols":["A"]}"#,
	r#"{"type":"record","name":@,"fields":[]}"#,
	r#"{"type":"record","name":"R","namespace":@,"fields":[]}"#,
	r#"{"type":"record","name":"R","fields":@}"#,
	r#"{"type":"record","name":"R","fields":[{"name":@,"type":"int"}]}"#,
	r#"{"type":"record","name":"R","fields":[{"name":"a","type":@}]}"#,
	r#"{"type":"bytes","logicalType":"decimal","precision":@,"scale":0}"#,
	r#"{"type":"bytes","logicalType":"decimal","precision":4,"scale":@}"#,
	r#"{"type":"int","logicalType":@}"#,
	r#"{"type":"bytes","logicalType":@,"precision":4,"scale":0}"#,
	// --- after / around the document
	r#"{"type":"int"} @"#,
	r#"[@,"int"]"#,
];

pub fn odd_count() -> u64 {
	(ODD_TEMPLATES.len() * ODD_VALUES.len()) as u64
}
pub fn odd_case(idx: u64) -> (String, String) {
	let (t, v) = ((idx as usize) / ODD_VALUES.len(), (idx as usize) % ODD_VALUES.len());
	(ODD_TEMPLATES[t].replace('@', ODD_VALUES[v]), format!("odd JSON value {} at the hole of template {}", ODD_VALUES[v], ODD_TEMPLATES[t]))
}
