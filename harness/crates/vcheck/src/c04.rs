//! C04 — decoding untrusted bytes is total and resource-bounded under the configured limits.
//!
//! Explicit-state search over the decoder's input-consumption tree (see `hostile.rs`), every node
//! decoded under a covering set of limit configurations, on three input paths and with several
//! targets; plus the literal adversarial seeds of the property text. Everything that calls into the
//! subject runs in worker subprocesses (`vcheck worker C04 …`): a stack overflow, an allocation
//! failure or a hang kills a worker, never the check, and is attributed to a single case by
//! re-running the unit in trace mode.

use crate::envs::ChunkedBufRead;
use crate::explore::{hash64, Cover};
use crate::gen;
use crate::hostile::{self, consumption_tree, de_chunked, de_slice, Expand, Probe, Target, TypedTarget, Val};
use crate::obs::Hint;
use crate::report::{hex, unhex, Report, Violation};
use crate::subj::{Limits, Out};
use rayon::prelude::*;
use serde::Deserialize;
use serde_avro_fast::de::read::{ReaderRead, SliceRead};
use serde_avro_fast::de::{DeError, DeserializerState};
use serde_json::{json, Value};
use std::io::{BufRead, BufReader};
use std::process::{Command, Stdio};
use std::sync::mpsc;
use std::time::{Duration, Instant};
use vmodel::schema::{Env, Logical, RSchema};
use vmodel::value::{Canonical, RValue, Verdict};

#[path = "c04_scratch.rs"]
mod scratch;

// ---------------------------------------------------------------------------------------------
// Typed targets

struct HashW(u64);
impl std::fmt::Write for HashW {
	fn write_str(&mut self, s: &str) -> std::fmt::Result {
		for b in s.bytes() {
			self.0 = (self.0 ^ b as u64).wrapping_mul(0x100000001b3);
		}
		Ok(())
	}
}
/// Hash of the `Debug` rendering, computed without allocating.
fn dbg_hash<T: std::fmt::Debug>(t: &T) -> u64 {
	use std::fmt::Write;
	let mut w = HashW(0xcbf29ce484222325);
	let _ = write!(w, "{t:?}");
	w.0
}

#[derive(Deserialize, Debug)]
#[allow(dead_code)]
struct RecBorrowed<'a> {
	a: i32,
	b: &'a str,
	#[serde(with = "serde_bytes")]
	c: &'a [u8],
}
#[derive(Deserialize, Debug)]
#[allow(dead_code)]
struct RecOwned {
	a: i32,
	b: String,
	c: serde_bytes::ByteBuf,
}
/// Lacks the record's `skipped` field: the subject has to skip it (`IgnoredAny` inside a struct).
#[derive(Deserialize, Debug)]
#[allow(dead_code)]
struct Kept {
	kept: i32,
}
#[derive(Deserialize, Debug)]
#[allow(dead_code)]
struct List {
	v: i32,
	next: Option<Box<List>>,
}

macro_rules! typed {
	($sl:ident, $ch:ident, $ts:ty, $to:ty) => {
		fn $sl<'a, 'b, 'c>(st: &'a mut DeserializerState<'b, SliceRead<'c>>) -> Result<u64, DeError> {
			let t: $ts = Deserialize::deserialize(st.deserializer())?;
			Ok(dbg_hash(&t))
		}
		fn $ch<'a, 'b, 'c>(st: &'a mut DeserializerState<'b, ReaderRead<Probe<ChunkedBufRead<'c>>>>) -> Result<u64, DeError> {
			let t: $to = Deserialize::deserialize(st.deserializer())?;
			Ok(dbg_hash(&t))
		}
	};
}
typed!(rec_s, rec_c, RecBorrowed<'_>, RecOwned);
typed!(list_s, list_c, List, List);
typed!(kept_s, kept_c, Kept, Kept);
typed!(veclong_s, veclong_c, Vec<i64>, Vec<i64>);
typed!(vecunit_s, vecunit_c, Vec<()>, Vec<()>);
typed!(mapunit_s, mapunit_c, std::collections::BTreeMap<String, ()>, std::collections::BTreeMap<String, ()>);
typed!(str_s, str_c, &str, String);
typed!(bytes_s, bytes_c, &serde_bytes::Bytes, serde_bytes::ByteBuf);
typed!(dec_s, dec_c, rust_decimal::Decimal, rust_decimal::Decimal);
typed!(optlist_s, optlist_c, Option<List>, Option<List>);

static T_REC: TypedTarget = TypedTarget { name: "RecBorrowed{a:i32,b:&str,c:&[u8]}", slice: rec_s, chunked: rec_c, non_allocating_on_slice: true };
static T_KEPT: TypedTarget = TypedTarget { name: "Kept{kept:i32} (field `skipped` absent)", slice: kept_s, chunked: kept_c, non_allocating_on_slice: true };
static T_LIST: TypedTarget = TypedTarget { name: "List{v:i32,next:Option<Box<List>>}", slice: list_s, chunked: list_c, non_allocating_on_slice: false };
static T_VECLONG: TypedTarget = TypedTarget { name: "Vec<i64>", slice: veclong_s, chunked: veclong_c, non_allocating_on_slice: false };
static T_VECUNIT: TypedTarget = TypedTarget { name: "Vec<()>", slice: vecunit_s, chunked: vecunit_c, non_allocating_on_slice: true };
static T_MAPUNIT: TypedTarget = TypedTarget { name: "BTreeMap<String,()>", slice: mapunit_s, chunked: mapunit_c, non_allocating_on_slice: false };
static T_STR: TypedTarget = TypedTarget { name: "&str", slice: str_s, chunked: str_c, non_allocating_on_slice: true };
static T_BYTES: TypedTarget = TypedTarget { name: "&[u8]", slice: bytes_s, chunked: bytes_c, non_allocating_on_slice: true };
static T_DEC: TypedTarget = TypedTarget { name: "rust_decimal::Decimal", slice: dec_s, chunked: dec_c, non_allocating_on_slice: true };
static T_OPTLIST: TypedTarget = TypedTarget { name: "Option<List>", slice: optlist_s, chunked: optlist_c, non_allocating_on_slice: false };

// ---------------------------------------------------------------------------------------------
// Units

pub struct Unit {
	pub id: usize,
	pub schema: RSchema,
	pub typed: Option<&'static TypedTarget>,
	pub hostile: bool,
}

fn list_schema(name: &str) -> RSchema {
	RSchema::record(name, vec![("v", RSchema::Int), ("next", RSchema::Union(vec![RSchema::Null, RSchema::rf(name)]))])
}

fn hostile_set() -> Vec<(RSchema, Option<&'static TypedTarget>)> {
	use RSchema as S;
	vec![
		(S::array(S::Null), Some(&T_VECUNIT)),
		(S::array(S::record("h.Empty", vec![])), None),
		(S::map(S::Null), Some(&T_MAPUNIT)),
		(S::array(S::array(S::Null)), None),
		(list_schema("h.R"), Some(&T_LIST)),
		(S::Union(vec![S::Null, list_schema("h.R2")]), Some(&T_OPTLIST)),
		(S::Bytes, Some(&T_BYTES)),
		(S::String, Some(&T_STR)),
		(S::logical(Logical::BigDecimal, S::Bytes), Some(&T_DEC)),
		(S::decimal_fixed("h.D16", 16, 38, 2), Some(&T_DEC)),
		(S::decimal_fixed("h.D17", 17, 40, 2), Some(&T_DEC)),
		(S::decimal_bytes(20, 3), Some(&T_DEC)),
		(S::array(S::Long), Some(&T_VECLONG)),
		(S::record("h.Rec", vec![("a", S::Int), ("b", S::String), ("c", S::Bytes)]), Some(&T_REC)),
		(S::map(S::array(S::String)), None),
		(S::array(S::Union(vec![S::Null, S::map(S::Bytes)])), None),
		(S::record("h.Tree", vec![("v", S::Null), ("kids", S::array(S::rf("h.Tree")))]), None),
		// nesting ladders: every level of an array^k must be charged, also when the target ignores it
		(S::array(S::array(S::Int)), None),
		(S::array(S::array(S::array(S::Int))), None),
		(S::array(S::array(S::array(S::array(S::Null)))), None),
		(S::map(S::map(S::array(S::Null))), None),
		// a nested array the target has no field for, in front of a field it keeps
		(S::record("h.Skip", vec![("skipped", S::array(S::array(S::Int))), ("kept", S::Int)]), Some(&T_KEPT)),
		(S::record("h.Skip3", vec![("skipped", S::array(S::array(S::array(S::Null)))), ("kept", S::Int)]), Some(&T_KEPT)),
		// zero-byte items the target has no field for: their number must still be capped by max_seq_size
		(S::record("h.SkipN", vec![("skipped", S::array(S::Null)), ("kept", S::Int)]), Some(&T_KEPT)),
		(S::record("h.SkipM", vec![("skipped", S::map(S::Null)), ("kept", S::Int)]), Some(&T_KEPT)),
	]
}

pub fn units(thorough: bool) -> Vec<Unit> {
	let mut out = Vec::new();
	for (schema, typed) in hostile_set() {
		out.push(Unit { id: out.len(), schema, typed, hostile: true });
	}
	for schema in gen::schema_alphabet(if thorough { 2 } else { 1 }) {
		out.push(Unit { id: out.len(), schema, typed: None, hostile: false });
	}
	out
}

#[derive(Clone, Copy, Debug)]
pub struct Params {
	pub max_len: usize,
	pub cap_hostile: u64,
	pub cap_sigma: u64,
}
/// Node caps. The Σ_S part shares one node budget, so that the cost of a tier does not grow with
/// the shared schema alphabet.
pub fn params(thorough: bool, n_sigma_units: usize) -> Params {
	let n = n_sigma_units.max(1) as u64;
	if thorough {
		Params { max_len: 12, cap_hostile: 1_500_000, cap_sigma: (50_000_000 / n).clamp(2_000, 120_000) }
	} else {
		Params { max_len: 8, cap_hostile: 80_000, cap_sigma: (2_000_000 / n).clamp(1_000, 8_000) }
	}
}

// ---------------------------------------------------------------------------------------------
// Limit configurations, paths

#[derive(Clone, Copy, Debug, PartialEq, Eq)]
pub struct Cfg {
	pub depth: usize,
	pub seq: usize,
	pub alloc: usize,
}
/// generous configuration of the sweep: the documented depth default, a sequence cap that keeps
/// every decode short, and a small allocation cap (DESIGN "lessons from the prototype" (i))
pub const G: Cfg = Cfg { depth: 64, seq: 1000, alloc: 64 };
const DEPTH_CFGS: [usize; 3] = [0, 1, 2];
const SEQ_CFGS: [usize; 3] = [0, 1, 3];
const ALLOC_CFGS: [usize; 3] = [0, 1, 8];

impl Cfg {
	fn limits(&self) -> Limits {
		Limits { allowed_depth: Some(self.depth), max_seq_size: Some(self.seq), max_alloc_size: Some(self.alloc) }
	}
	fn json(&self) -> Value {
		json!({"allowed_depth": self.depth, "max_seq_size": self.seq, "max_alloc_size": self.alloc})
	}
	fn from_json(v: &Value) -> Cfg {
		Cfg { depth: v["allowed_depth"].as_u64().unwrap() as usize, seq: v["max_seq_size"].as_u64().unwrap() as usize, alloc: v["max_alloc_size"].as_u64().unwrap() as usize }
	}
}

#[derive(Clone, Copy, Debug, PartialEq, Eq)]
pub enum Path {
	Slice,
	Reader1,
	ReaderWhole,
}
impl Path {
	fn name(&self) -> &'static str {
		match self {
			Path::Slice => "slice",
			Path::Reader1 => "reader(1-byte refills)",
			Path::ReaderWhole => "reader(one refill)",
		}
	}
	fn from_name(s: &str) -> Path {
		match s {
			"slice" => Path::Slice,
			"reader(1-byte refills)" => Path::Reader1,
			_ => Path::ReaderWhole,
		}
	}
}

// ---------------------------------------------------------------------------------------------
// What the reference model says about a datum

#[derive(Clone, Debug, Default)]
struct Shape {
	/// array / map / record / non-null union branch levels on the deepest path
	depth: usize,
	/// most items in one array/map
	max_coll: usize,
	/// largest field that the decoder has to hand out as a slice (string, bytes, fixed, uuid, map key)
	max_heap_field: usize,
}

fn shape(s: &RSchema, v: &RValue, env: &Env) -> Shape {
	let r = env.resolve(s);
	if let RSchema::Logical(l, b) = r {
		return match l {
			// read into a fixed stack buffer: no slice is handed out
			Logical::Decimal { .. } | Logical::BigDecimal | Logical::Duration => Shape::default(),
			_ => shape(b, v, env),
		};
	}
	match (r, v) {
		(RSchema::Bytes, RValue::Bytes(b)) => Shape { max_heap_field: b.len(), ..Shape::default() },
		(RSchema::String, RValue::Str(x)) => Shape { max_heap_field: x.len(), ..Shape::default() },
		(RSchema::Fixed { size, .. }, _) => Shape { max_heap_field: *size, ..Shape::default() },
		(RSchema::Array(item), RValue::Array(items)) => {
			let mut sh = Shape { depth: 1, max_coll: items.len(), max_heap_field: 0 };
			for i in items {
				let x = shape(item, i, env);
				sh.depth = sh.depth.max(1 + x.depth);
				sh.max_coll = sh.max_coll.max(x.max_coll);
				sh.max_heap_field = sh.max_heap_field.max(x.max_heap_field);
			}
			sh
		}
		(RSchema::Map(item), RValue::Map(items)) => {
			let mut sh = Shape { depth: 1, max_coll: items.len(), max_heap_field: 0 };
			for (k, i) in items {
				let x = shape(item, i, env);
				sh.depth = sh.depth.max(1 + x.depth);
				sh.max_coll = sh.max_coll.max(x.max_coll);
				sh.max_heap_field = sh.max_heap_field.max(x.max_heap_field).max(k.len());
			}
			sh
		}
		(RSchema::Union(branches), RValue::Union(i, inner)) => {
			// a null branch nests nothing: `deserialize_option` does not charge a level for it
			// (`deserialize_any` does, which is allowed: only Ok where Err is demanded is judged)
			if matches!(**inner, RValue::Null) {
				return Shape::default();
			}
			let x = shape(&branches[*i], inner, env);
			Shape { depth: 1 + x.depth, ..x }
		}
		(RSchema::Record { fields, .. }, RValue::Record(vals)) => {
			let mut sh = Shape { depth: 1, ..Shape::default() };
			for ((_, f), fv) in fields.iter().zip(vals) {
				let x = shape(f, fv, env);
				sh.depth = sh.depth.max(1 + x.depth);
				sh.max_coll = sh.max_coll.max(x.max_coll);
				sh.max_heap_field = sh.max_heap_field.max(x.max_heap_field);
			}
			sh
		}
		_ => Shape::default(),
	}
}

struct Model {
	/// `Some` iff the reference decoder accepts a prefix of the input as a datum
	valid: Option<(Shape, usize)>,
	/// the accepted prefix is written in the one-block-per-collection layout (no byte sizes): only
	/// then does an ignoring target visit every element
	canonical: bool,
}

fn model_of(u: &Unit, env: &Env, bytes: &[u8]) -> Model {
	match vmodel::value::decode(bytes, &u.schema, env) {
		Verdict::Valid(v, n) => {
			let canonical = vmodel::value::encode(&v, &u.schema, env, &mut Canonical).map(|e| e == bytes[..n]).unwrap_or(false);
			Model { valid: Some((shape(&u.schema, &v, env), n)), canonical }
		}
		_ => Model { valid: None, canonical: false },
	}
}

// ---------------------------------------------------------------------------------------------
// Per-decode horizon inside the worker

/// exit code of a worker that killed itself because one decode exceeded its CPU horizon
const EXIT_TIMEOUT: i32 = 17;
/// CPU seconds a single decode of the sweep may burn before the worker gives up on it (inputs are
/// <= 12 bytes and max_seq_size <= 1000: a correct decoder needs microseconds)
const DECODE_CPU_HORIZON_S: f64 = 2.0;
/// wall seconds (a decode that blocks without burning CPU)
const DECODE_WALL_HORIZON_S: f64 = 180.0;
/// a decode that returned, but only after this much CPU time, is reported as `work-not-bounded`
const DECODE_SLOW_CPU_S: f64 = 0.05;

mod watchdog {
	use std::sync::Mutex;
	use std::time::Instant;

	/// The decode in flight, in a form the watchdog thread can print without help.
	pub struct Slot {
		pub active: bool,
		pub seq: u64,
		pub started: Option<Instant>,
		pub len: usize,
		pub bytes: [u8; 16],
		pub target: u8,
		pub path: u8,
		pub limits: (usize, usize, usize),
		/// seeds worker: index of the seed
		pub seed: usize,
		pub cpu_horizon_s: f64,
	}
	pub static SLOT: Mutex<Slot> = Mutex::new(Slot { active: false, seq: 0, started: None, len: 0, bytes: [0; 16], target: 0, path: 0, limits: (0, 0, 0), seed: 0, cpu_horizon_s: 4.0 });

	pub fn process_cpu_s() -> f64 {
		let mut ts = libc::timespec { tv_sec: 0, tv_nsec: 0 };
		unsafe { libc::clock_gettime(libc::CLOCK_PROCESS_CPUTIME_ID, &mut ts) };
		ts.tv_sec as f64 + ts.tv_nsec as f64 * 1e-9
	}
	pub fn thread_cpu_s() -> f64 {
		let mut ts = libc::timespec { tv_sec: 0, tv_nsec: 0 };
		unsafe { libc::clock_gettime(libc::CLOCK_THREAD_CPUTIME_ID, &mut ts) };
		ts.tv_sec as f64 + ts.tv_nsec as f64 * 1e-9
	}

	pub fn begin_node(bytes: &[u8], target: u8, path: u8, limits: (usize, usize, usize), cpu_horizon_s: f64) {
		let mut s = SLOT.lock().unwrap();
		s.active = true;
		s.seq += 1;
		s.started = Some(Instant::now());
		s.len = bytes.len().min(16);
		let n = s.len;
		s.bytes[..n].copy_from_slice(&bytes[..n]);
		s.target = target;
		s.path = path;
		s.limits = limits;
		s.cpu_horizon_s = cpu_horizon_s;
	}
	pub fn begin_seed(seed: usize, cpu_horizon_s: f64) {
		let mut s = SLOT.lock().unwrap();
		s.active = true;
		s.seq += 1;
		s.started = Some(Instant::now());
		s.seed = seed;
		s.cpu_horizon_s = cpu_horizon_s;
	}
	pub fn end() {
		SLOT.lock().unwrap().active = false;
	}

	/// Spawns the watchdog thread: when the decode in flight has burnt more CPU than its horizon
	/// (or has blocked for the wall horizon) it prints `T <json>` and ends the process.
	pub fn start(wall_horizon_s: f64, exit_code: i32) {
		std::thread::spawn(move || {
			// (sequence number under observation, process CPU when first seen)
			let mut watching: Option<(u64, f64)> = None;
			loop {
				std::thread::sleep(std::time::Duration::from_millis(100));
				let s = SLOT.lock().unwrap();
				if !s.active {
					watching = None;
					continue;
				}
				let age = s.started.map_or(0.0, |t| t.elapsed().as_secs_f64());
				if age < 0.3 {
					continue;
				}
				let cpu = process_cpu_s();
				let cpu0 = match watching {
					Some(w) if w.0 == s.seq => w.1,
					_ => {
						watching = Some((s.seq, cpu));
						cpu
					}
				};
				if cpu - cpu0 >= s.cpu_horizon_s || age >= wall_horizon_s {
					let hex: Vec<String> = s.bytes[..s.len].iter().map(|b| format!("{b:02x}")).collect();
					println!(
						"T {{\"bytes\":\"{}\",\"target\":{},\"path\":{},\"limits\":[{},{},{}],\"seed\":{},\"cpu_s\":{:.1},\"wall_s\":{:.1}}}",
						hex.join(" "),
						s.target,
						s.path,
						s.limits.0,
						s.limits.1,
						s.limits.2,
						s.seed,
						cpu - cpu0,
						age
					);
					unsafe { libc::_exit(exit_code) };
				}
			}
		});
	}
}

fn target_code(t: &Target) -> u8 {
	match t {
		Target::Obs(Hint::Any) => 0,
		Target::Obs(Hint::Ignored) => 1,
		Target::Fold => 2,
		Target::Typed(_) => 3,
		Target::Obs(_) => 4,
	}
}
fn path_code(p: Path) -> u8 {
	match p {
		Path::Slice => 0,
		Path::Reader1 => 1,
		Path::ReaderWhole => 2,
	}
}
fn path_of_code(c: u64) -> Path {
	match c {
		0 => Path::Slice,
		1 => Path::Reader1,
		_ => Path::ReaderWhole,
	}
}

// ---------------------------------------------------------------------------------------------
// One decode, judged

/// memory constant: error values, small bookkeeping
const K_MEM: i64 = 2048;

struct Judged {
	ok: bool,
	expand: Expand,
	violations: Vec<(String, String)>,
	limit_fired: bool,
	calls: u64,
	allocs_on_ok_slice: u64,
}

fn run_one(cs: &serde_avro_fast::Schema, bytes: &[u8], cfg: &Cfg, path: Path, t: &Target) -> (Out<Val>, crate::envs::AllocStats, Option<hostile::ReadRun>) {
	match path {
		Path::Slice => {
			let r = de_slice(cs, bytes, t, &cfg.limits(), false);
			(r.out, r.allocs, None)
		}
		Path::Reader1 | Path::ReaderWhole => {
			let rd = ChunkedBufRead::uniform(bytes, if path == Path::Reader1 { 1 } else { 0 });
			let mut r = de_chunked(cs, rd, t, &cfg.limits(), false);
			let out = std::mem::replace(&mut r.out, Out::Err(String::new()));
			(out, r.allocs, Some(r))
		}
	}
}

fn judge(cs: &serde_avro_fast::Schema, bytes: &[u8], m: &Model, cfg: &Cfg, path: Path, t: &Target) -> Judged {
	let (out, allocs, rr) = run_one(cs, bytes, cfg, path, t);
	let mut j = Judged { ok: out.is_ok(), expand: Expand::No, violations: Vec::new(), limit_fired: false, calls: 0, allocs_on_ok_slice: 0 };
	if let Out::Panic(p) = &out {
		j.violations.push(("panic".into(), format!("panicked: {p}")));
		return j;
	}
	// limits: a datum the reference model accepts and that exceeds a limit must be rejected
	if let Some((sh, _n)) = &m.valid {
		// a target that ignores (part of) the datum skips sized blocks by their byte size without
		// descending: the demand holds for it only when the datum is written with unsized blocks
		let ignores = match t {
			Target::Obs(Hint::Ignored) => true,
			Target::Typed(tt) => tt.name.starts_with("Kept"),
			_ => false,
		};
		let visits_everything = !ignores || m.canonical;
		if visits_everything {
			let mut demand: Vec<&str> = Vec::new();
			if sh.depth > cfg.depth {
				demand.push("allowed_depth");
			}
			if sh.max_coll > cfg.seq {
				demand.push("max_seq_size");
			}
			if path == Path::Reader1 && sh.max_heap_field >= 2 && sh.max_heap_field > cfg.alloc {
				demand.push("max_alloc_size");
			}
			if !demand.is_empty() {
				j.limit_fired = true;
				if out.is_ok() {
					j.violations.push((
						format!("limit-not-enforced:{}", demand[0]),
						format!(
							"returned Ok although the datum (per the reference model: nesting {}, longest array/map {}, largest slice field {} bytes) exceeds {}",
							sh.depth,
							sh.max_coll,
							sh.max_heap_field,
							demand.join(" and ")
						),
					));
				}
			}
		}
	}
	// allocation: nothing on the slice path on success
	if path == Path::Slice && out.is_ok() && t.non_allocating() {
		j.allocs_on_ok_slice = allocs.allocs;
		if allocs.allocs != 0 {
			j.violations.push(("slice-alloc".into(), format!("Ok with {} heap allocation(s) (largest {} bytes) on the slice path", allocs.allocs, allocs.biggest)));
		}
	}
	// memory: bounded by input length and the allocation cap, not by numbers written in the input
	let mem_bound = match (t, path) {
		(Target::Fold | Target::Obs(Hint::Ignored), Path::Slice) => Some(K_MEM),
		(Target::Fold | Target::Obs(Hint::Ignored), _) => Some(K_MEM + cfg.alloc as i64 + bytes.len() as i64),
		(Target::Typed(_), Path::Slice) => Some(K_MEM + 64 * bytes.len() as i64),
		(Target::Typed(_), _) => Some(K_MEM + cfg.alloc as i64 + 64 * bytes.len() as i64),
		_ => None,
	};
	if let Some(b) = mem_bound {
		if allocs.peak_extra > b {
			j.violations.push(("memory".into(), format!("peak live heap during the decode {} bytes (largest single allocation {}), bound {} for {} input bytes and max_alloc_size {}", allocs.peak_extra, allocs.biggest, b, bytes.len(), cfg.alloc)));
		}
	}
	// work: calls into the environment bounded by the input length
	if let Some(r) = &rr {
		j.calls = r.calls;
		// zero-byte elements (fixed(0), empty strings…) cost a call each without consuming input: their
		// number is bounded by max_seq_size per array, and exactly known when the fold target succeeded
		let elems = match &out {
			Out::Ok(Val::F(f)) => f.elems,
			_ => cfg.seq as u64 * bytes.len() as u64,
		};
		let bound = 4 * bytes.len() as u64 + 2 * elems + 16;
		if r.calls > bound {
			j.violations.push(("work".into(), format!("{} fill_buf/read calls for {} input bytes (bound {bound})", r.calls, bytes.len())));
		}
		if path == Path::Reader1 {
			j.expand = Expand::from_parts(out.is_ok(), r.eof_seen, r.eof_chain);
		}
	}
	j
}

fn targets_of(u: &Unit) -> Vec<Target> {
	let mut t = vec![Target::Obs(Hint::Any), Target::Obs(Hint::Ignored), Target::Fold];
	if let Some(tt) = u.typed {
		t.push(Target::Typed(tt));
	}
	t
}

fn target_by_name(u: &Unit, name: &str) -> Option<Target> {
	targets_of(u).into_iter().find(|t| t.name() == name)
}

// ---------------------------------------------------------------------------------------------
// One unit = one schema: its consumption tree

#[derive(Default)]
pub struct UnitOut {
	pub cover: Cover,
	pub nontrivial: u64,
	pub violations: Vec<Violation>,
	pub completed_depth: usize,
	pub max_calls_per_byte_x100: u64,
}

fn run_unit(u: &Unit, p: &Params, trace: bool) -> UnitOut {
	let mut out = UnitOut::default();
	let env = Env::new(&u.schema);
	let text = gen::schema_text(&u.schema);
	let cs = match gen::to_crate_schema(&u.schema) {
		Ok(s) => s,
		Err(e) => {
			out.violations.push(Violation { class: "schema-rejected".into(), what: e, replay: json!({"check": "C04", "unit": u.id}) });
			return out;
		}
	};
	let targets = targets_of(u);
	let cap = if u.hostile { p.cap_hostile } else { p.cap_sigma };
	let mut per_class: std::collections::BTreeMap<String, usize> = Default::default();
	let mut stopped_early = false;
	let mut slow_decodes = 0u32;
	let tree = consumption_tree(p.max_len, cap, |bytes| {
		if stopped_early {
			// (the rest of the current frontier is not decoded any more)
			return Expand::No;
		}
		let m = model_of(u, &env, bytes);
		let mut expand = Expand::No;
		let mut any_limit = false;
		let mut run = |cfg: &Cfg, path: Path, t: &Target, out: &mut UnitOut| -> Judged {
			if trace {
				println!("S {} | {} | {} | {}", hex(bytes), t.name(), path.name(), cfg.json());
			}
			watchdog::begin_node(bytes, target_code(t), path_code(path), (cfg.depth, cfg.seq, cfg.alloc), DECODE_CPU_HORIZON_S);
			let t0 = Instant::now();
			let mut j = judge(&cs, bytes, &m, cfg, path, t);
			watchdog::end();
			out.cover.impl_runs += 1;
			if t0.elapsed().as_secs_f64() > DECODE_SLOW_CPU_S {
				// it came back, but slowly: measure the CPU it needs (wall time alone may be the machine's load)
				let c0 = watchdog::thread_cpu_s();
				watchdog::begin_node(bytes, target_code(t), path_code(path), (cfg.depth, cfg.seq, cfg.alloc), DECODE_CPU_HORIZON_S);
				let _ = judge(&cs, bytes, &m, cfg, path, t);
				watchdog::end();
				let cpu = watchdog::thread_cpu_s() - c0;
				if cpu > DECODE_SLOW_CPU_S {
					j.violations.retain(|v| v.0 != "work-not-bounded");
					j.violations.push(("work-not-bounded".into(), format!("the decode of {} input bytes under max_seq_size {} burnt {:.2} s of CPU: work dictated by numbers written in the input, not by its length and the limits", bytes.len(), cfg.seq, cpu)));
					slow_decodes += 1;
				}
			}
			if !j.violations.is_empty() {
				// determinism guard: a violation must reproduce before it is reported
				watchdog::begin_node(bytes, target_code(t), path_code(path), (cfg.depth, cfg.seq, cfg.alloc), DECODE_CPU_HORIZON_S);
				let again = judge(&cs, bytes, &m, cfg, path, t);
				watchdog::end();
				let a: Vec<&String> = j.violations.iter().map(|v| &v.0).filter(|c| *c != "work-not-bounded").collect();
				let b: Vec<&String> = again.violations.iter().map(|v| &v.0).collect();
				if a != b {
					eprintln!("MACHINERY: C04 nondeterministic verdict for bytes [{}]: {a:?} then {b:?}", hex(bytes));
					std::process::exit(3);
				}
			}
			for (class, msg) in &j.violations {
				let n = per_class.entry(class.clone()).or_insert(0);
				*n += 1;
				if *n <= 20 {
					let v = Violation {
						class: class.clone(),
						what: format!("schema {text} bytes [{}] target {} path {} limits {}: {msg}", hex(bytes), t.name(), path.name(), cfg.json()),
						replay: json!({"check": "C04", "kind": "node", "unit": u.id, "schema": text, "bytes": hex(bytes), "target": t.name(), "path": path.name(), "limits": cfg.json(), "class": class}),
					};
					// streamed at once, so that it survives a worker that is killed later on
					println!("V {}", json!({"class": v.class, "what": v.what, "replay": v.replay}));
					out.violations.push(v);
				}
			}
			if j.calls > 0 && !bytes.is_empty() {
				out.max_calls_per_byte_x100 = out.max_calls_per_byte_x100.max(j.calls * 100 / bytes.len() as u64);
			}
			j
		};
		// generous limits: every target on every path; the 1-byte reader decides hunger
		let mut sig: Vec<(bool, bool, bool)> = Vec::new();
		for t in &targets {
			let a = run(&G, Path::Slice, t, &mut out);
			let b = run(&G, Path::Reader1, t, &mut out);
			let c = run(&G, Path::ReaderWhole, t, &mut out);
			expand = expand.or(b.expand);
			any_limit |= a.limit_fired | b.limit_fired | c.limit_fired;
			sig.push((a.ok, b.ok, c.ok));
			if a.ok && t.non_allocating() {
				out.cover.count("slice_ok_zero_alloc_checked", 1);
			}
		}
		// one limit tightened at a time
		for d in DEPTH_CFGS {
			let cfg = Cfg { depth: d, ..G };
			let a = run(&cfg, Path::Slice, &Target::Fold, &mut out);
			let b = run(&cfg, Path::Reader1, &Target::Obs(Hint::Any), &mut out);
			// the ignoring target has decoding paths of its own (`deserialize_ignored_any`): same demand
			let ig = run(&cfg, Path::Slice, &Target::Obs(Hint::Ignored), &mut out);
			let ig2 = run(&cfg, Path::Reader1, &Target::Obs(Hint::Ignored), &mut out);
			any_limit |= a.limit_fired | b.limit_fired | ig.limit_fired | ig2.limit_fired;
			if ig.limit_fired {
				out.cover.count("depth_limit_rejections_demanded_of_ignoring_target", 1);
			}
			if a.limit_fired {
				out.cover.count("depth_limit_rejections_demanded", 1);
			}
			if let Some(tt) = u.typed {
				let c = run(&cfg, Path::Slice, &Target::Typed(tt), &mut out);
				let c2 = run(&cfg, Path::Reader1, &Target::Typed(tt), &mut out);
				any_limit |= c.limit_fired | c2.limit_fired;
				if c.limit_fired {
					out.cover.count("depth_limit_rejections_demanded_of_typed_target", 1);
				}
			}
		}
		for s in SEQ_CFGS {
			let cfg = Cfg { seq: s, ..G };
			let a = run(&cfg, Path::Slice, &Target::Fold, &mut out);
			let b = run(&cfg, Path::Reader1, &Target::Obs(Hint::Any), &mut out);
			let ig = run(&cfg, Path::Slice, &Target::Obs(Hint::Ignored), &mut out);
			any_limit |= a.limit_fired | b.limit_fired | ig.limit_fired;
			if ig.limit_fired {
				out.cover.count("seq_limit_rejections_demanded_of_ignoring_target", 1);
			}
			if a.limit_fired {
				out.cover.count("seq_limit_rejections_demanded", 1);
			}
			if let Some(tt) = u.typed {
				let c = run(&cfg, Path::Slice, &Target::Typed(tt), &mut out);
				any_limit |= c.limit_fired;
			}
		}
		for al in ALLOC_CFGS {
			let cfg = Cfg { alloc: al, ..G };
			let a = run(&cfg, Path::Reader1, &Target::Obs(Hint::Any), &mut out);
			let b = run(&cfg, Path::Reader1, &Target::Obs(Hint::Ignored), &mut out);
			let _ = run(&cfg, Path::ReaderWhole, &Target::Fold, &mut out);
			any_limit |= a.limit_fired | b.limit_fired;
			if a.limit_fired {
				out.cover.count("alloc_limit_rejections_demanded", 1);
			}
		}
		out.cover.evaluations += 1;
		if bytes.len() >= 2 || any_limit {
			out.nontrivial += 1;
		}
		out.cover.outcomes.insert(hash64(&(m.valid.is_some(), any_limit, &sig, expand != Expand::No)));
		if per_class.values().sum::<usize>() >= 200 || slow_decodes >= 6 {
			// enough evidence: do not keep paying for a broken decoder (huge allocations, long loops)
			if !stopped_early {
				out.cover.caps.push(format!("unit {} schema {text}: stopped after {} violating decodes", u.id, per_class.values().sum::<usize>()));
			}
			stopped_early = true;
			return Expand::No;
		}
		if expand != Expand::No {
			out.cover.count("hungry_nodes", 1);
			if expand == Expand::Narrow {
				out.cover.count("hungry_in_fixed_size_read", 1);
			}
		}
		if m.valid.is_some() {
			out.cover.count("model_valid_nodes", 1);
		}
		if out.cover.samples.len() < 1 && bytes.len() >= 4 && any_limit {
			out.cover.samples.push(json!({"schema": text, "bytes": hex(bytes), "note": "reference model accepts the datum and some limit configuration must reject it"}));
		}
		expand
	});
	out.cover.states = tree.nodes;
	out.cover.transitions = tree.nodes.saturating_sub(1);
	out.completed_depth = tree.completed_depth;
	if tree.capped {
		out.cover.caps.push(format!("unit {} schema {}: node cap {} hit, depth completed {}", u.id, text, cap, tree.completed_depth));
	}
	out
}

fn unit_out_json(o: &UnitOut) -> Value {
	json!({
		"states": o.cover.states, "transitions": o.cover.transitions, "evaluations": o.cover.evaluations, "impl_runs": o.cover.impl_runs,
		"nontrivial": o.nontrivial,
		"outcomes": o.cover.outcomes.iter().collect::<Vec<_>>(),
		"samples": o.cover.samples, "counters": o.cover.counters, "caps": o.cover.caps,
		"completed_depth": o.completed_depth, "max_calls_per_byte_x100": o.max_calls_per_byte_x100,
		"violations": o.violations.iter().map(|v| json!({"class": v.class, "what": v.what, "replay": v.replay})).collect::<Vec<_>>(),
	})
}

fn unit_out_from_json(v: &Value) -> UnitOut {
	let mut o = UnitOut::default();
	o.cover.states = v["states"].as_u64().unwrap_or(0);
	o.cover.transitions = v["transitions"].as_u64().unwrap_or(0);
	o.cover.evaluations = v["evaluations"].as_u64().unwrap_or(0);
	o.cover.impl_runs = v["impl_runs"].as_u64().unwrap_or(0);
	o.nontrivial = v["nontrivial"].as_u64().unwrap_or(0);
	for h in v["outcomes"].as_array().into_iter().flatten() {
		o.cover.outcomes.insert(h.as_u64().unwrap_or(0));
	}
	o.cover.samples = v["samples"].as_array().cloned().unwrap_or_default();
	for (k, n) in v["counters"].as_object().into_iter().flatten() {
		o.cover.counters.insert(k.clone(), n.as_u64().unwrap_or(0));
	}
	for c in v["caps"].as_array().into_iter().flatten() {
		o.cover.caps.push(c.as_str().unwrap_or("").to_owned());
	}
	o.completed_depth = v["completed_depth"].as_u64().unwrap_or(0) as usize;
	o.max_calls_per_byte_x100 = v["max_calls_per_byte_x100"].as_u64().unwrap_or(0);
	for x in v["violations"].as_array().into_iter().flatten() {
		o.violations.push(Violation { class: x["class"].as_str().unwrap_or("").to_owned(), what: x["what"].as_str().unwrap_or("").to_owned(), replay: x["replay"].clone() });
	}
	o
}

// ---------------------------------------------------------------------------------------------
// Seeds: the literal adversarial inputs of the property text

struct Seed {
	name: &'static str,
	schema: RSchema,
	bytes: Vec<u8>,
	/// None = the crate's defaults
	limits: Limits,
	path: Path,
	target: Target,
	/// what the property demands: Some(true) = must be Err; None = Ok or Err, just return
	must_err: bool,
	/// bound on the peak of live heap bytes during the decode (None: not judged)
	mem_bound: Option<i64>,
}

fn varint(n: i64) -> Vec<u8> {
	vmodel::value::long_bytes(n)
}

fn seeds(thorough: bool) -> Vec<Seed> {
	use RSchema as S;
	let mut out = Vec::new();
	let defaults = Limits::none();
	let small_seq = Limits { allowed_depth: None, max_seq_size: Some(3), max_alloc_size: Some(64) };
	let zero_byte_schemas: Vec<(&'static str, RSchema)> = vec![("array<null>", S::array(S::Null)), ("array<record{}>", S::array(S::record("s.Empty", vec![]))), ("map-free array<array<null>>", S::array(S::array(S::Null)))];
	let paths = [Path::Slice, Path::Reader1, Path::ReaderWhole];
	let targets = [Target::Obs(Hint::Any), Target::Obs(Hint::Ignored), Target::Fold];
	// block count i64::MIN (with and without a byte size after it)
	for (name, s) in &zero_byte_schemas {
		for path in paths {
			for t in &targets {
				let mut b = varint(i64::MIN);
				b.extend(varint(0));
				b.extend(varint(0));
				out.push(Seed { name: "block count i64::MIN", schema: s.clone(), bytes: b, limits: defaults.clone(), path, target: t.clone(), must_err: !matches!(t, Target::Obs(Hint::Ignored)), mem_bound: Some(K_MEM + 64) });
				let _ = name;
			}
		}
	}
	for path in paths {
		for t in &targets {
			let mut b = varint(i64::MIN);
			b.extend(varint(0));
			out.push(Seed { name: "map block count i64::MIN", schema: S::map(S::Null), bytes: b, limits: defaults.clone(), path, target: t.clone(), must_err: !matches!(t, Target::Obs(Hint::Ignored)), mem_bound: Some(K_MEM + 64) });
		}
	}
	// string / bytes length 2^62, i64::MAX, and just above what is present
	for s in [S::String, S::Bytes, S::logical(Logical::Uuid, S::String), S::map(S::Int), S::logical(Logical::BigDecimal, S::Bytes), S::decimal_bytes(10, 2)] {
		let is_map = matches!(s, S::Map(_));
		for len in [1i64 << 62, i64::MAX, 1 << 40, 600 * 1024 * 1024, -1, i64::MIN] {
			for path in paths {
				for t in &targets {
					let mut b = if is_map { varint(1) } else { vec![] };
					b.extend(varint(len));
					b.extend_from_slice(b"abcdefgh");
					// default max_alloc_size is 512 MiB: all of these exceed it or the input, none may be allocated
					out.push(Seed { name: "hostile length prefix", schema: s.clone(), bytes: b, limits: defaults.clone(), path, target: t.clone(), must_err: true, mem_bound: Some(K_MEM + 64) });
				}
			}
		}
	}
	// zero-byte elements: a huge count
	for (si, (_, s)) in zero_byte_schemas[..2].iter().enumerate() {
		for t in [Target::Obs(Hint::Ignored), Target::Fold] {
			for path in [Path::Slice, Path::Reader1] {
				// 10^9 elements under max_seq_size 10^9: allowed, finishes (work bounded by the limit)
				let mut b = varint(1_000_000_000);
				b.extend(varint(0));
				if thorough || (si == 0 && path == Path::Slice && matches!(t, Target::Fold)) {
					out.push(Seed { name: "10^9 zero-byte elements under max_seq_size 10^9", schema: s.clone(), bytes: b.clone(), limits: defaults.clone(), path, target: t.clone(), must_err: false, mem_bound: Some(K_MEM + 64) });
				}
				// one more than the cap: rejected
				let mut b1 = varint(1_000_000_001);
				b1.extend(varint(0));
				out.push(Seed { name: "10^9+1 zero-byte elements under max_seq_size 10^9", schema: s.clone(), bytes: b1, limits: defaults.clone(), path, target: t.clone(), must_err: true, mem_bound: Some(K_MEM + 64) });
				// split over blocks: 6*10^8 + 6*10^8
				let mut b2 = varint(600_000_000);
				b2.extend(varint(600_000_000));
				b2.extend(varint(0));
				if thorough {
					out.push(Seed { name: "two blocks of 6*10^8 zero-byte elements under max_seq_size 10^9", schema: s.clone(), bytes: b2, limits: defaults.clone(), path, target: t.clone(), must_err: true, mem_bound: Some(K_MEM + 64) });
				}
				// under a small cap
				out.push(Seed { name: "10^9 zero-byte elements under max_seq_size 3", schema: s.clone(), bytes: b, limits: small_seq.clone(), path, target: t.clone(), must_err: true, mem_bound: Some(K_MEM + 64) });
				let mut b3 = varint(2);
				b3.extend(varint(2));
				b3.extend(varint(0));
				out.push(Seed { name: "2+2 zero-byte elements in two blocks under max_seq_size 3", schema: s.clone(), bytes: b3, limits: small_seq.clone(), path, target: t.clone(), must_err: true, mem_bound: Some(K_MEM + 64) });
			}
		}
	}
	// typed Vec target: a size hint must not turn a count into an allocation
	for count in [1_000_000i64, 999_999_999] {
		let mut b = varint(count);
		b.extend(varint(2));
		out.push(Seed { name: "array<long> with a huge count and one element, into Vec<i64>", schema: S::array(S::Long), bytes: b, limits: defaults.clone(), path: Path::Slice, target: Target::Typed(&T_VECLONG), must_err: true, mem_bound: Some(K_MEM + 64 * 8) });
	}
	// recursion: nesting far beyond the default depth limit of 64 must be rejected, not overflow the stack
	let list = list_schema("s.R");
	for levels in [65usize, 100_000] {
		let mut b = Vec::new();
		for _ in 0..levels {
			b.push(0x00); // v = 0
			b.push(0x02); // next = branch 1 (R)
		}
		b.push(0x00);
		b.push(0x00);
		for path in paths {
			for t in [Target::Obs(Hint::Any), Target::Obs(Hint::Ignored), Target::Fold, Target::Typed(&T_LIST)] {
				out.push(Seed { name: "recursive record nested beyond allowed_depth 64", schema: list.clone(), bytes: b.clone(), limits: defaults.clone(), path, target: t, must_err: true, mem_bound: None });
			}
		}
	}
	let tree = S::record("s.Tree", vec![("kids", S::array(S::rf("s.Tree")))]);
	{
		let mut b = Vec::new();
		for _ in 0..100_000 {
			b.push(0x02); // one kid
		}
		for path in paths {
			for t in &targets {
				out.push(Seed { name: "recursive array-of-self nested 10^5 deep", schema: tree.clone(), bytes: b.clone(), limits: defaults.clone(), path, target: t.clone(), must_err: true, mem_bound: None });
			}
		}
	}
	// sequences the target ignores are capped by max_seq_size like visited ones (unsized blocks)
	{
		let skipn = S::record("s.SkipN", vec![("skipped", S::array(S::Null)), ("kept", S::Int)]);
		let skipm = S::record("s.SkipM", vec![("skipped", S::map(S::Int)), ("kept", S::Int)]);
		let kept_hint = || Target::Obs(Hint::Struct("Skip", vec![("kept", Hint::I32)]));
		for (cap, counts) in [(3usize, vec![4i64, 5]), (1000, vec![1001, 1 << 40])] {
			let l = Limits { allowed_depth: None, max_seq_size: Some(cap), max_alloc_size: Some(64) };
			for count in counts {
				let name: &'static str = if count == 1 << 40 { "2^40 zero-byte elements in an unsized block under max_seq_size 1000" } else { "unsized block with a count just above max_seq_size" };
				let mut b = varint(count);
				b.extend(varint(0));
				for path in [Path::Slice, Path::Reader1] {
					for t in [Target::Obs(Hint::Ignored), Target::Fold, Target::Obs(Hint::Any)] {
						out.push(Seed { name, schema: S::array(S::Null), bytes: b.clone(), limits: l.clone(), path, target: t, must_err: true, mem_bound: Some(K_MEM + 64) });
					}
					let mut rb = b.clone();
					rb.push(0x0e);
					for t in [Target::Typed(&T_KEPT), kept_hint(), Target::Obs(Hint::Ignored)] {
						out.push(Seed { name, schema: skipn.clone(), bytes: rb.clone(), limits: l.clone(), path, target: t, must_err: true, mem_bound: Some(K_MEM + 64) });
					}
				}
			}
			// a map with one entry too many, two unsized blocks: (cap) + 1 entries of ("", 0)
			if cap == 3 {
				let mut b = varint(3);
				for _ in 0..3 {
					b.extend([0x00, 0x00]);
				}
				b.extend(varint(1));
				b.extend([0x00, 0x00]);
				b.extend(varint(0));
				b.push(0x0e);
				for t in [Target::Typed(&T_KEPT), kept_hint(), Target::Obs(Hint::Ignored), Target::Fold] {
					out.push(Seed { name: "ignored map, 3+1 entries in two unsized blocks under max_seq_size 3", schema: skipm.clone(), bytes: b.clone(), limits: l.clone(), path: Path::Slice, target: t, must_err: true, mem_bound: Some(K_MEM + 64) });
				}
			}
		}
	}
	// a nested array that the target ignores (no such field / IgnoredAny) is charged like a visited one
	{
		let skip = S::record("s.Skip", vec![("skipped", S::array(S::array(S::array(S::array(S::Int))))), ("kept", S::Int)]);
		// [[[[1]]]] in unsized one-item blocks, then kept = 7
		let b: Vec<u8> = vec![0x02, 0x02, 0x02, 0x02, 0x02, 0x00, 0x00, 0x00, 0x00, 0x0e];
		for depth in [1usize, 3, 4] {
			let l = Limits { allowed_depth: Some(depth), max_seq_size: None, max_alloc_size: Some(64) };
			for path in paths {
				for t in [Target::Typed(&T_KEPT), Target::Obs(Hint::Ignored), Target::Fold, Target::Obs(Hint::Struct("Skip", vec![("kept", Hint::I32)]))] {
					out.push(Seed { name: "record{skipped: array^4<int>, kept: int} = [[[[1]]]], 7: nesting 5 under a smaller allowed_depth, field `skipped` ignored by the target", schema: skip.clone(), bytes: b.clone(), limits: l.clone(), path, target: t, must_err: true, mem_bound: None });
				}
			}
		}
		let l5 = Limits { allowed_depth: Some(5), max_seq_size: None, max_alloc_size: Some(64) };
		out.push(Seed { name: "record{skipped: array^4<int>, kept: int} = [[[[1]]]], 7 under allowed_depth 5 (fits)", schema: skip.clone(), bytes: b.clone(), limits: l5, path: Path::Slice, target: Target::Typed(&T_KEPT), must_err: false, mem_bound: None });
		for k in [2usize, 3, 4] {
			let mut s = S::Int;
			let mut bytes = Vec::new();
			for _ in 0..k {
				s = S::array(s);
				bytes.push(0x02);
			}
			bytes.push(0x02);
			bytes.extend(std::iter::repeat(0x00).take(k));
			for depth in 0..k {
				let l = Limits { allowed_depth: Some(depth), max_seq_size: None, max_alloc_size: Some(64) };
				for path in [Path::Slice, Path::Reader1] {
					for t in [Target::Obs(Hint::Ignored), Target::Fold] {
						out.push(Seed { name: "array^k<int> (unsized blocks) under allowed_depth < k", schema: s.clone(), bytes: bytes.clone(), limits: l.clone(), path, target: t, must_err: true, mem_bound: None });
					}
				}
			}
		}
	}
	// nesting ladders array^k<int> around the default limit
	for k in [63usize, 64, 65, 70] {
		let mut s = S::Int;
		for _ in 0..k {
			s = S::array(s);
		}
		let mut b = Vec::new();
		for _ in 0..k {
			b.push(0x02);
		}
		b.push(0x54);
		for _ in 0..k {
			b.push(0x00);
		}
		for path in [Path::Slice, Path::Reader1] {
			out.push(Seed { name: "ladder array^k<int> around allowed_depth 64", schema: s.clone(), bytes: b.clone(), limits: defaults.clone(), path, target: Target::Fold, must_err: k > 64, mem_bound: None });
		}
	}
	// the default allocation cap (512 MiB), spot-checked: a length just under the cap with a short input
	// is "bounded by the limits" (the reader may zero a buffer of that size), a length above it is not allocated
	out.push(Seed { name: "length just above the default max_alloc_size", schema: S::Bytes, bytes: { let mut b = varint(512 * 1024 * 1024 + 1); b.extend_from_slice(b"xy"); b }, limits: defaults.clone(), path: Path::Reader1, target: Target::Fold, must_err: true, mem_bound: Some(K_MEM + 64) });
	if thorough {
		out.push(Seed { name: "length just under the default max_alloc_size", schema: S::Bytes, bytes: { let mut b = varint(512 * 1024 * 1024 - 1); b.extend_from_slice(b"xy"); b }, limits: defaults.clone(), path: Path::Reader1, target: Target::Fold, must_err: true, mem_bound: Some(K_MEM + 512 * 1024 * 1024) });
	}
	out
}

fn limits_json(l: &Limits) -> Value {
	json!({"allowed_depth": l.allowed_depth, "max_seq_size": l.max_seq_size, "max_alloc_size": l.max_alloc_size})
}

fn seed_what(s: &Seed) -> String {
	let b = if s.bytes.len() > 40 { format!("{} … ({} bytes)", hex(&s.bytes[..24]), s.bytes.len()) } else { hex(&s.bytes) };
	format!("seed '{}': schema {} bytes [{}] target {} path {} limits {}", s.name, crate::report::truncate(&gen::schema_text(&s.schema), 200), b, s.target.name(), s.path.name(), limits_json(&s.limits))
}

/// CPU seconds a seed may take: the seeds that legitimately walk 10^9 zero-byte elements (allowed by
/// the default max_seq_size) get minutes, everything else must answer at once.
fn seed_cpu_budget_s(s: &Seed) -> f64 {
	// (a first block of 6*10^8 elements is walked before the second block's header exceeds the cap)
	let walks_up_to_the_default_cap = s.name.contains("under max_seq_size 10^9") && !s.name.contains("10^9+1");
	if walks_up_to_the_default_cap {
		240.0
	} else {
		3.0
	}
}

/// Runs one seed; returns violations (class, message).
fn run_seed(s: &Seed) -> (Vec<(String, String)>, &'static str) {
	let cs = match gen::to_crate_schema(&s.schema) {
		Ok(c) => c,
		Err(e) => return (vec![("schema-rejected".into(), e)], "-"),
	};
	let (out, allocs) = match s.path {
		Path::Slice => {
			let r = de_slice(&cs, &s.bytes, &s.target, &s.limits, false);
			(r.out, r.allocs)
		}
		p => {
			let rd = ChunkedBufRead::uniform(&s.bytes, if p == Path::Reader1 { 1 } else { 0 });
			let r = de_chunked(&cs, rd, &s.target, &s.limits, false);
			(r.out, r.allocs)
		}
	};
	let mut v = Vec::new();
	match &out {
		Out::Panic(p) => v.push(("panic".to_owned(), format!("panicked: {p}"))),
		Out::Ok(_) if s.must_err => v.push(("limit-not-enforced:seed".to_owned(), "returned Ok where the configured limits (or the end of the input) demand Err".to_owned())),
		_ => {}
	}
	if let Some(b) = s.mem_bound {
		if allocs.peak_extra > b {
			v.push(("memory".to_owned(), format!("peak live heap {} bytes (largest allocation {}), bound {}", allocs.peak_extra, allocs.biggest, b)));
		}
	}
	(v, out.kind())
}

// ---------------------------------------------------------------------------------------------
// Worker side

/// `vcheck worker C04 unit <tier> <id> [trace]` | `seeds <tier> [from]` | `case <json>`
pub fn worker(args: &[String]) -> i32 {
	// a decoder that tries to allocate what a hostile length says must fail here, not take the
	// machine down: address space capped at 6 GiB (the legitimate 512 MiB spot check fits)
	unsafe {
		let lim = libc::rlimit { rlim_cur: 6 << 30, rlim_max: 6 << 30 };
		libc::setrlimit(libc::RLIMIT_AS, &lim);
	}
	watchdog::start(DECODE_WALL_HORIZON_S, EXIT_TIMEOUT);
	match args.first().map(|s| s.as_str()) {
		Some("unit") => {
			let thorough = args[1] == "thorough";
			let id: usize = args[2].parse().unwrap();
			let trace = args.get(3).map_or(false, |s| s == "trace");
			let us = units(thorough);
			let o = run_unit(&us[id], &params(thorough, us.iter().filter(|u| !u.hostile).count()), trace);
			println!("R {}", unit_out_json(&o));
			0
		}
		Some("seeds") => {
			let thorough = args[1] == "thorough";
			let from: usize = args.get(2).and_then(|s| s.parse().ok()).unwrap_or(0);
			let lane: usize = args.get(3).and_then(|s| s.parse().ok()).unwrap_or(0);
			let lanes: usize = args.get(4).and_then(|s| s.parse().ok()).unwrap_or(1);
			for (i, s) in seeds(thorough).iter().enumerate().skip(from) {
				if i % lanes != lane {
					continue;
				}
				println!("S {i}");
				watchdog::begin_seed(i, seed_cpu_budget_s(s));
				let (v, kind) = run_seed(s);
				watchdog::end();
				println!("D {i} {}", json!({"kind": kind, "violations": v}));
			}
			0
		}
		Some("templates") => {
			// `templates <from>`: the scratch-buffer cases of c04_scratch.rs, one after the other
			let from: usize = args.get(1).and_then(|s| s.parse().ok()).unwrap_or(0);
			let all = scratch::cases();
			let (mut decodes, mut demanded, mut refused_after_fill, mut accepted) = (0u64, 0u64, 0u64, 0u64);
			for (i, c) in all.iter().enumerate().skip(from) {
				println!("S {i}");
				watchdog::begin_seed(i, 3.0);
				let o = scratch::run_case(c);
				watchdog::end();
				decodes += o.decodes;
				demanded += o.demanded as u64;
				refused_after_fill += o.refused_after_fill as u64;
				accepted += o.accepted_within_cap as u64;
				if !o.violations.is_empty() {
					println!("D {i} {}", json!({"violations": o.violations}));
				}
			}
			println!("R {}", json!({"cases": all.len() - from.min(all.len()), "decodes": decodes, "demanded": demanded, "refused_after_fill": refused_after_fill, "accepted_within_cap": accepted}));
			0
		}
		Some("seedlist") => {
			for (i, s) in seeds(args.get(1).map_or(false, |t| t == "thorough")).iter().enumerate() {
				println!("{i}: {}", seed_what(s));
			}
			0
		}
		Some("case") => {
			let r: Value = serde_json::from_str(&args[1]).expect("case json");
			watchdog::begin_seed(0, 20.0);
			let (viol, kind) = replay_case(&r);
			watchdog::end();
			println!("D 0 {}", json!({"kind": kind, "violations": viol}));
			0
		}
		_ => {
			eprintln!("usage: vcheck worker C04 unit|seeds|case …");
			2
		}
	}
}

fn replay_case(r: &Value) -> (Vec<(String, String)>, String) {
	if r["kind"] == "template" {
		let all = scratch::cases();
		let i = r["index"].as_u64().unwrap() as usize;
		let o = scratch::run_case(&all[i]);
		return (o.violations, format!("demand made: {}, refused after the scratch buffer was filled: {}", o.demanded, o.refused_after_fill));
	}
	if r["kind"] == "seed" {
		let thorough = r["tier"] == "thorough";
		let i = r["seed"].as_u64().unwrap() as usize;
		let all = seeds(thorough);
		let s = &all[i];
		let (v, kind) = run_seed(s);
		return (v, kind.to_owned());
	}
	let unit = r["unit"].as_u64().unwrap() as usize;
	for thorough in [false, true] {
		let us = units(thorough);
		let Some(u) = us.get(unit) else { continue };
		let text = gen::schema_text(&u.schema);
		if text != r["schema"].as_str().unwrap_or("") {
			continue;
		}
		let env = Env::new(&u.schema);
		let cs = gen::to_crate_schema(&u.schema).unwrap();
		let bytes = unhex(r["bytes"].as_str().unwrap());
		let cfg = Cfg::from_json(&r["limits"]);
		let path = Path::from_name(r["path"].as_str().unwrap());
		let t = target_by_name(u, r["target"].as_str().unwrap()).expect("target");
		let m = model_of(u, &env, &bytes);
		let (out, allocs, _) = run_one(&cs, &bytes, &cfg, path, &t);
		let j = judge(&cs, &bytes, &m, &cfg, path, &t);
		let kind = format!("{} (reference model: {}; {} allocation(s), peak {} bytes)", match &out { Out::Ok(v) => format!("Ok({v:?})"), Out::Err(e) => format!("Err({e})"), Out::Panic(p) => format!("Panic({p})") }, match &m.valid { Some((sh, n)) => format!("valid datum of {n} bytes, {sh:?}"), None => "not a valid datum / unspecified".to_owned() }, allocs.allocs, allocs.peak_extra);
		return (j.violations, kind);
	}
	(vec![("machinery".into(), "unit not found".into())], "-".into())
}

// ---------------------------------------------------------------------------------------------
// Parent side: subprocess driver

enum End {
	Exited(i32),
	Signaled(String),
	TimedOut,
}

/// Runs `vcheck worker C04 <args>`; every stdout line goes to `on_line`; the worker is killed if no
/// line arrives within `line_horizon` or the whole run exceeds `total_horizon`.
fn spawn_worker(args: &[String], line_horizon: Duration, total_horizon: Duration, mut on_line: impl FnMut(&str)) -> End {
	let exe = std::env::current_exe().expect("current_exe");
	let mut child = Command::new(exe).arg("worker").arg("C04").args(args).stdin(Stdio::null()).stdout(Stdio::piped()).stderr(Stdio::null()).spawn().expect("spawn worker");
	let stdout = child.stdout.take().unwrap();
	let (tx, rx) = mpsc::channel::<String>();
	let th = std::thread::spawn(move || {
		for line in BufReader::new(stdout).lines() {
			match line {
				Ok(l) => {
					if tx.send(l).is_err() {
						break;
					}
				}
				Err(_) => break,
			}
		}
	});
	let start = Instant::now();
	let mut timed_out = false;
	loop {
		let left = total_horizon.checked_sub(start.elapsed()).unwrap_or(Duration::ZERO);
		match rx.recv_timeout(line_horizon.min(left)) {
			Ok(l) => on_line(&l),
			Err(mpsc::RecvTimeoutError::Disconnected) => break,
			Err(mpsc::RecvTimeoutError::Timeout) => {
				timed_out = true;
				let _ = child.kill();
				break;
			}
		}
	}
	let status = child.wait().expect("wait worker");
	let _ = th.join();
	// drain what was still in flight
	while let Ok(l) = rx.try_recv() {
		on_line(&l);
	}
	if timed_out {
		return End::TimedOut;
	}
	match status.code() {
		Some(c) => End::Exited(c),
		None => {
			use std::os::unix::process::ExitStatusExt;
			End::Signaled(format!("signal {}", status.signal().unwrap_or(0)))
		}
	}
}

fn machinery(msg: &str) -> ! {
	eprintln!("MACHINERY: {msg}");
	std::process::exit(2)
}

fn timeout_what(cpu: f64, wall: f64) -> String {
	format!("no answer: the decode was still running after {cpu:.1} s of CPU ({wall:.1} s wall) and was killed — work not bounded by input length and limits")
}

/// Runs one unit in a worker. Violations are streamed (`V` lines) and survive the worker. A decode
/// that exceeds its CPU horizon is reported by the worker's own watchdog (`T` line, exit code 17) =
/// class `timeout` with exactly that decode; a crash (signal) is attributed by a traced re-run.
fn drive_unit(u: &Unit, tier: &str, unit_horizon: Duration) -> UnitOut {
	let mut result: Option<UnitOut> = None;
	let mut streamed: Vec<Violation> = Vec::new();
	let mut timeout: Option<Value> = None;
	let end = spawn_worker(&["unit".into(), tier.into(), u.id.to_string()], unit_horizon, unit_horizon, |l| {
		if let Some(j) = l.strip_prefix("R ") {
			if let Ok(v) = serde_json::from_str::<Value>(j) {
				result = Some(unit_out_from_json(&v));
			}
		} else if let Some(j) = l.strip_prefix("V ") {
			if let Ok(x) = serde_json::from_str::<Value>(j) {
				streamed.push(Violation { class: x["class"].as_str().unwrap_or("").to_owned(), what: x["what"].as_str().unwrap_or("").to_owned(), replay: x["replay"].clone() });
			}
		} else if let Some(j) = l.strip_prefix("T ") {
			timeout = serde_json::from_str::<Value>(j).ok();
		}
	});
	let text = gen::schema_text(&u.schema);
	match (end, result) {
		(End::Exited(0), Some(r)) => r,
		(End::Exited(EXIT_TIMEOUT), _) if timeout.is_some() => {
			let t = timeout.unwrap();
			let targets = targets_of(u);
			let tname = targets.get(t["target"].as_u64().unwrap_or(0) as usize).map(|t| t.name()).unwrap_or_else(|| "?".into());
			let path = path_of_code(t["path"].as_u64().unwrap_or(0));
			let cfg = Cfg { depth: t["limits"][0].as_u64().unwrap_or(0) as usize, seq: t["limits"][1].as_u64().unwrap_or(0) as usize, alloc: t["limits"][2].as_u64().unwrap_or(0) as usize };
			let bytes = t["bytes"].as_str().unwrap_or("").to_owned();
			let mut o = UnitOut::default();
			o.violations = streamed;
			o.violations.push(Violation {
				class: "timeout".into(),
				what: format!("schema {text} bytes [{bytes}] target {tname} path {} limits {}: {}", path.name(), cfg.json(), timeout_what(t["cpu_s"].as_f64().unwrap_or(0.0), t["wall_s"].as_f64().unwrap_or(0.0))),
				replay: json!({"check": "C04", "kind": "node", "unit": u.id, "schema": text, "bytes": bytes, "target": tname, "path": path.name(), "limits": cfg.json(), "class": "timeout"}),
			});
			o.cover.impl_runs = 1;
			o.cover.evaluations = 1;
			o.cover.states = 1;
			o.cover.count("decodes_killed_by_the_per_decode_horizon", 1);
			o.cover.caps.push(format!("unit {} schema {text}: stopped at a decode that exceeded its CPU horizon, tree not completed", u.id));
			o
		}
		(End::Exited(c), _) if c != 0 => machinery(&format!("C04 worker for unit {} exited with code {c}", u.id)),
		(End::Exited(_), None) => machinery(&format!("C04 worker for unit {} returned no result", u.id)),
		(End::TimedOut, _) => {
			// no single decode exceeded its CPU horizon (the worker's watchdog would have said so): the
			// unit as a whole did not get enough CPU within its horizon. A cap, not a verdict.
			let mut o = UnitOut::default();
			o.violations = streamed;
			o.cover.caps.push(format!("unit {} schema {text}: unit horizon of {} s exceeded without any single decode exceeding its CPU horizon (machine load); results of this unit dropped", u.id, unit_horizon.as_secs()));
			o
		}
		(end, _) => {
			// crash: trace mode identifies the decode
			let how = match &end {
				End::Signaled(s) => format!("worker died ({s})"),
				_ => "worker failed".to_owned(),
			};
			let mut last: Option<String> = None;
			let mut result: Option<UnitOut> = None;
			let end2 = spawn_worker(&["unit".into(), tier.into(), u.id.to_string(), "trace".into()], Duration::from_secs(DECODE_WALL_HORIZON_S as u64 + 30), unit_horizon * 4, |l| {
				if let Some(s) = l.strip_prefix("S ") {
					last = Some(s.to_owned());
				} else if let Some(j) = l.strip_prefix("R ") {
					if let Ok(v) = serde_json::from_str::<Value>(j) {
						result = Some(unit_out_from_json(&v));
					}
				}
			});
			match (end2, last) {
				(End::Exited(0), _) if result.is_some() => machinery(&format!("C04 unit {}: {how}, but the traced re-run completed: not attributable to a case", u.id)),
				(End::Signaled(sig), Some(case)) => {
					let parts: Vec<&str> = case.split(" | ").collect();
					let mut o = UnitOut::default();
					o.violations = streamed;
					o.violations.push(Violation {
						class: "abort".into(),
						what: format!("schema {text} bytes [{}] target {} path {} limits {}: the process was killed ({sig}: stack overflow / allocation failure / abort)", parts[0], parts.get(1).unwrap_or(&""), parts.get(2).unwrap_or(&""), parts.get(3).unwrap_or(&"")),
						replay: json!({"check": "C04", "kind": "node", "unit": u.id, "schema": text, "bytes": parts[0], "target": parts.get(1), "path": parts.get(2), "limits": serde_json::from_str::<Value>(parts.get(3).unwrap_or(&"null")).unwrap_or(Value::Null), "class": "abort"}),
					});
					o.cover.caps.push(format!("unit {}: aborted at a crashing case, tree not completed", u.id));
					o
				}
				_ => machinery(&format!("C04 unit {}: {how}, and the traced re-run did not reproduce it", u.id)),
			}
		}
	}
}

/// Runs the seeds in workers, restarting after a crashing/hanging seed.
fn drive_seeds(tier: &str, rep: &mut Report, per_seed: Duration, lane: usize, lanes: usize) {
	let thorough = tier == "thorough";
	let all = seeds(thorough);
	let mut from = 0usize;
	let mut done = vec![false; all.len()];
	while from < all.len() {
		let mut current: Option<usize> = None;
		let mut results: Vec<(usize, Value)> = Vec::new();
		let mut timed_out_seed: Option<Value> = None;
		let end = spawn_worker(&["seeds".into(), tier.into(), from.to_string(), lane.to_string(), lanes.to_string()], per_seed, per_seed * (all.len() as u32 + 1), |l| {
			if let Some(i) = l.strip_prefix("S ") {
				current = i.trim().parse().ok();
			} else if let Some(rest) = l.strip_prefix("D ") {
				let (i, j) = rest.split_once(' ').unwrap_or((rest, "null"));
				if let (Ok(i), Ok(v)) = (i.parse::<usize>(), serde_json::from_str::<Value>(j)) {
					results.push((i, v));
				}
			} else if let Some(j) = l.strip_prefix("T ") {
				timed_out_seed = serde_json::from_str::<Value>(j).ok();
			}
		});
		for (i, v) in &results {
			done[*i] = true;
			rep.cover.impl_runs += 1;
			rep.cover.evaluations += 1;
			rep.cover.states += 1;
			rep.cover.count("seeds_run", 1);
			rep.cover.count(&format!("seed_outcome_{}", v["kind"].as_str().unwrap_or("?")), 1);
			rep.cover.nontrivial.insert(hash64(&("seed", i)));
			for x in v["violations"].as_array().into_iter().flatten() {
				let class = x[0].as_str().unwrap_or("?");
				rep.violation(class, format!("{}: {}", seed_what(&all[*i]), x[1].as_str().unwrap_or("")), json!({"check": "C04", "kind": "seed", "tier": tier, "seed": i, "class": class}));
			}
		}
		match end {
			End::Exited(0) => break,
			End::Exited(EXIT_TIMEOUT) if timed_out_seed.is_some() => {
				let t = timed_out_seed.unwrap();
				let i = t["seed"].as_u64().unwrap_or(0) as usize;
				rep.violation("timeout", format!("{}: {}", seed_what(&all[i]), timeout_what(t["cpu_s"].as_f64().unwrap_or(0.0), t["wall_s"].as_f64().unwrap_or(0.0))), json!({"check": "C04", "kind": "seed", "tier": tier, "seed": i, "class": "timeout"}));
				rep.cover.count("seeds_run", 1);
				rep.cover.count("decodes_killed_by_the_per_decode_horizon", 1);
				rep.cover.impl_runs += 1;
				from = i + 1;
			}
			End::Exited(c) => machinery(&format!("C04 seed worker exited with code {c}")),
			End::Signaled(_) | End::TimedOut => {
				let Some(i) = current.filter(|i| !done[*i]) else { machinery("C04 seed worker died between cases") };
				let (class, observed) = match end {
					End::Signaled(s) => ("abort", format!("the process was killed ({s}: stack overflow / allocation failure / abort)")),
					_ => ("hang", format!("no answer within {} s", per_seed.as_secs())),
				};
				rep.violation(class, format!("{}: {observed}", seed_what(&all[i])), json!({"check": "C04", "kind": "seed", "tier": tier, "seed": i, "class": class}));
				rep.cover.count("seeds_run", 1);
				rep.cover.impl_runs += 1;
				from = i + 1;
			}
		}
	}
}

/// Runs the scratch-buffer templates in a worker, restarting behind a crashing / timed-out case.
fn drive_templates(rep: &mut Report) {
	let all = scratch::cases();
	let mut from = 0usize;
	let mut clean = true;
	while from < all.len() {
		let mut current: Option<usize> = None;
		let mut found: Vec<(usize, Value)> = Vec::new();
		let mut summary: Option<Value> = None;
		let mut timed_out: Option<Value> = None;
		let end = spawn_worker(&["templates".into(), from.to_string()], Duration::from_secs(900), Duration::from_secs(3600), |l| {
			if let Some(i) = l.strip_prefix("S ") {
				current = i.trim().parse().ok();
			} else if let Some(rest) = l.strip_prefix("D ") {
				let (i, j) = rest.split_once(' ').unwrap_or((rest, "null"));
				if let (Ok(i), Ok(v)) = (i.parse::<usize>(), serde_json::from_str::<Value>(j)) {
					found.push((i, v));
				}
			} else if let Some(j) = l.strip_prefix("R ") {
				summary = serde_json::from_str(j).ok();
			} else if let Some(j) = l.strip_prefix("T ") {
				timed_out = serde_json::from_str(j).ok();
			}
		});
		for (i, v) in &found {
			for x in v["violations"].as_array().into_iter().flatten() {
				let class = x[0].as_str().unwrap_or("?");
				rep.violation(class, format!("{}: {}", scratch::describe(&all[*i]), x[1].as_str().unwrap_or("")), json!({"check": "C04", "kind": "template", "index": i, "class": class}));
			}
		}
		let done_until = current.map_or(from, |c| c + 1);
		let n = (done_until - from) as u64;
		rep.cover.states += n;
		rep.cover.evaluations += n;
		rep.cover.count("scratch_template_cases", n);
		if let Some(s) = &summary {
			rep.cover.impl_runs += s["decodes"].as_u64().unwrap_or(0);
			rep.cover.count("scratch_cases_where_a_field_above_the_cap_must_be_refused", s["demanded"].as_u64().unwrap_or(0));
			rep.cover.count("scratch_filled_to_the_cap_then_larger_field_refused", s["refused_after_fill"].as_u64().unwrap_or(0));
			rep.cover.count("scratch_gathered_fields_within_the_cap_accepted", s["accepted_within_cap"].as_u64().unwrap_or(0));
		} else {
			rep.cover.impl_runs += n;
		}
		match end {
			End::Exited(0) if summary.is_some() => break,
			End::Exited(EXIT_TIMEOUT) if timed_out.is_some() => {
				let t = timed_out.unwrap();
				let i = t["seed"].as_u64().unwrap_or(0) as usize;
				rep.violation("timeout", format!("{}: {}", scratch::describe(&all[i]), timeout_what(t["cpu_s"].as_f64().unwrap_or(0.0), t["wall_s"].as_f64().unwrap_or(0.0))), json!({"check": "C04", "kind": "template", "index": i, "class": "timeout"}));
				clean = false;
				from = i + 1;
			}
			End::Signaled(sig) => {
				let Some(i) = current else { machinery("C04 template worker died before its first case") };
				rep.violation("abort", format!("{}: the process was killed ({sig}: stack overflow / allocation failure / abort)", scratch::describe(&all[i])), json!({"check": "C04", "kind": "template", "index": i, "class": "abort"}));
				clean = false;
				from = i + 1;
			}
			End::Exited(c) => machinery(&format!("C04 template worker exited with code {c}")),
			End::TimedOut => machinery("C04 template worker exceeded its horizon without any case exceeding its CPU horizon"),
		}
	}
	for i in 0..all.len().min(200_000) {
		rep.cover.nontrivial.insert(hash64(&("template", i)));
	}
	if clean {
		rep.cover.count("scratch_templates_completed", 1);
	}
}

// ---------------------------------------------------------------------------------------------

pub fn run(rep: &mut Report) {
	let thorough = rep.thorough();
	let tier = rep.tier.clone();
	let us = units(thorough);
	let p = params(thorough, us.iter().filter(|u| !u.hostile).count());
	rep.rule = format!(
		"Explicit-state search over the decoder's input-consumption tree, one tree per schema: {} hostile schemas (zero-byte elements, recursion, length-prefixed and decimal leaves; node cap {}) + the shared alphabet Σ_S level {} ({} schemas; node cap {}). Root = empty input; a prefix p is expanded by every byte of Σ_B = {{00,01,02,03,04,7f,80,81,fe,ff}} iff decoding p over a 1-byte-refill reader under the generous limits ended in Err after the reader had reported end of input, for at least one target (inside a fixed-size read the alphabet shrinks to {{00,ff}}); depth <= {} bytes. Every node is decoded under limits G=(allowed_depth 64, max_seq_size 1000, max_alloc_size 64) on slice / 1-byte-refill reader / one-refill reader with targets deserialize_any observation, IgnoredAny, non-allocating fold (+ a typed Rust target — borrowed struct, Vec, BTreeMap, recursive Box list, &str, &[u8], Decimal — for {} hostile schemas), and with one limit tightened at a time: allowed_depth in {{0,1,2}}, max_seq_size in {{0,1,3}} (fold, deserialize_any, IgnoredAny and the typed target — among them a struct that lacks a nested-array field), max_alloc_size in {{0,1,8}}. Oracle per decode: returns (no panic; abort = death of the worker subprocess, attributed by a traced re-run; a decode still running after 2 s of CPU is killed by the worker's own watchdog and reported as class timeout with exactly that decode, one that returns after more than 0.05 s of CPU as work-not-bounded); if the reference model accepts the input as a datum whose nesting / longest array or map / largest slice-delivered field (reader, >= 2 bytes, i.e. not already buffered) exceeds the configured limit then Err; Ok on the slice path with a non-allocating target => 0 heap allocations; peak live heap <= {} + max_alloc_size + |input| (non-allocating targets; 64·|input| for typed ones); fill_buf/read calls <= 4·|input| + 2·(values delivered; max_seq_size·|input| when unknown) + 16. Plus {} literal adversarial seeds under the crate's default limits (i64::MIN block counts, 2^62 / i64::MAX / negative lengths, 10^9 zero-byte elements at and above max_seq_size, 10^5-deep recursion, depth ladders around 64, default 512 MiB allocation cap). Plus the scratch-buffer templates (c04_scratch.rs, {} cases): a length-prefixed field of exactly max_alloc_size bytes followed by one of cap .. 2·cap+1 bytes (all sizes for caps 1, 8, 64; 7 sizes for cap 1000) as the next record field, array item (same and next block), map key / value, union branch, the next datum decoded from the same ReaderRead (same DeserializerState, or a new one around into_reader()), the next block of a null-codec container file (Reader::new over a capped ReaderRead); readers: slice, uniform refills of 1..7, 16, 64 bytes, one refill, std BufReader capacity 8 and 32; targets fold / IgnoredAny / deserialize_any; demand: Err whenever a field larger than the cap is not wholly inside the reader's buffer when it is asked for (computed from the field's offset and the refill grid), and peak live heap <= 768 + max_alloc_size. Non-trivial: nodes of >= 2 bytes, template cases, nodes where a limit must reject a model-valid datum, and seeds; tree nodes are pairwise distinct (schema, byte string) pairs by construction.",
		us.iter().filter(|u| u.hostile).count(),
		p.cap_hostile,
		if thorough { 2 } else { 1 },
		us.iter().filter(|u| !u.hostile).count(),
		p.cap_sigma,
		p.max_len,
		us.iter().filter(|u| u.typed.is_some()).count(),
		K_MEM,
		seeds(thorough).len(),
		scratch::cases().len(),
	);
	rep.assumptions.push("a decode that returned Err/Ok without the 1-byte-refill reader having reported end of input behaves identically on every extension of its input (the decoder is deterministic in the bytes it has read); within the depth bound no path can see the end of the input earlier than that reader does (max_alloc_size 64 >= depth bound)".into());
	rep.assumptions.push("limits are judged only where the reference model (vmodel) accepts the input as a datum; with an ignoring target only when the datum is written without block byte sizes (a sized block is skipped, not visited)".into());
	rep.assumptions.push("fields read into fixed stack buffers (decimal, big-decimal, duration, float, double) are not subject to max_alloc_size: nothing is allocated for them".into());

	let unit_horizon = Duration::from_secs(if thorough { 3000 } else { 300 });
	// seeds run concurrently with the trees
	let (seed_rep, results): (Report, (Report, Vec<UnitOut>)) = rayon::join(
		|| {
			// the seeds are dealt to 4 lanes of workers (a broken decoder makes many of them run into
			// their CPU horizon one after the other)
			const LANES: usize = 4;
			let parts: Vec<Report> = (0..LANES)
				.into_par_iter()
				.map(|lane| {
					let mut r = Report::new("C04", &tier);
					drive_seeds(&tier, &mut r, Duration::from_secs(900), lane, LANES);
					r
				})
				.collect();
			let mut r = Report::new("C04", &tier);
			for p in parts {
				r.cover.merge(p.cover);
				r.violations.extend(p.violations);
			}
			r
		},
		|| {
			rayon::join(
				|| {
					let mut r = Report::new("C04", &tier);
					drive_templates(&mut r);
					r
				},
				|| us.par_iter().map(|u| drive_unit(u, &tier, unit_horizon)).collect::<Vec<UnitOut>>(),
			)
		},
	);
	let (tpl_rep, results) = results;
	rep.cover.merge(tpl_rep.cover);
	rep.violations.extend(tpl_rep.violations);
	rep.cover.merge(seed_rep.cover);
	rep.violations.extend(seed_rep.violations);
	let mut nontrivial_total: u64 = rep.cover.nontrivial.len() as u64;
	let mut depth_hist: std::collections::BTreeMap<usize, u64> = Default::default();
	let mut max_cpb = 0u64;
	const NT_BUDGET: u64 = 3_000_000;
	for (u, o) in us.iter().zip(results) {
		*depth_hist.entry(o.completed_depth).or_insert(0) += 1;
		max_cpb = max_cpb.max(o.max_calls_per_byte_x100);
		for i in 0..o.nontrivial {
			if (rep.cover.nontrivial.len() as u64) < NT_BUDGET {
				rep.cover.nontrivial.insert(hash64(&("node", u.id, i)));
			}
		}
		nontrivial_total += o.nontrivial;
		rep.violations.extend(o.violations);
		rep.cover.merge(o.cover);
	}
	if nontrivial_total > rep.cover.nontrivial.len() as u64 {
		rep.extra.insert("distinct_nontrivial".into(), json!(nontrivial_total));
		rep.extra.insert("distinct_nontrivial_note".into(), json!("tree nodes are pairwise distinct by construction; the in-memory set is capped, this is the exact count"));
	}
	rep.extra.insert("schemas".into(), json!(us.len()));
	rep.extra.insert("depth_completed_histogram".into(), json!(depth_hist.iter().map(|(k, v)| (k.to_string(), *v)).collect::<std::collections::BTreeMap<_, _>>()));
	rep.extra.insert("max_env_calls_per_input_byte".into(), json!(max_cpb as f64 / 100.0));
	// vacuity guards
	let c = |k: &str| rep.cover.counters.get(k).copied().unwrap_or(0);
	for k in ["hungry_nodes", "hungry_in_fixed_size_read", "model_valid_nodes", "depth_limit_rejections_demanded", "seq_limit_rejections_demanded", "alloc_limit_rejections_demanded", "slice_ok_zero_alloc_checked", "seeds_run", "depth_limit_rejections_demanded_of_ignoring_target", "seq_limit_rejections_demanded_of_ignoring_target", "depth_limit_rejections_demanded_of_typed_target"] {
		if c(k) == 0 {
			machinery(&format!("C04 vacuity guard: counter {k} is 0"));
		}
	}
	if c("scratch_templates_completed") == 1 {
		for k in ["scratch_filled_to_the_cap_then_larger_field_refused", "scratch_gathered_fields_within_the_cap_accepted", "scratch_cases_where_a_field_above_the_cap_must_be_refused"] {
			if c(k) == 0 {
				machinery(&format!("C04 vacuity guard: counter {k} is 0"));
			}
		}
	}
	if c("seed_outcome_Ok") == 0 || c("seed_outcome_Err") == 0 {
		machinery("C04 vacuity guard: the seeds did not produce both Ok and Err outcomes");
	}
}

pub fn replay(v: &Value) -> i32 {
	let r = &v["replay"];
	println!("replaying {}", v["what"].as_str().unwrap_or(""));
	let mut result: Option<Value> = None;
	let end = spawn_worker(&["case".into(), r.to_string()], Duration::from_secs(300), Duration::from_secs(300), |l| {
		if let Some(rest) = l.strip_prefix("D 0 ") {
			result = serde_json::from_str(rest).ok();
		}
	});
	match (end, result) {
		(End::Exited(0), Some(res)) => {
			println!("  observed: {}", res["kind"].as_str().unwrap_or("?"));
			let viol = res["violations"].as_array().cloned().unwrap_or_default();
			for x in &viol {
				println!("  [{}] {}", x[0].as_str().unwrap_or(""), x[1].as_str().unwrap_or(""));
			}
			if viol.is_empty() {
				println!("  no violation any more");
				0
			} else {
				1
			}
		}
		(End::Signaled(s), _) => {
			println!("  [abort] the worker process was killed ({s})");
			1
		}
		(End::TimedOut, _) | (End::Exited(EXIT_TIMEOUT), _) => {
			println!("  [timeout] the decode was still running when its CPU horizon expired");
			1
		}
		_ => {
			eprintln!("MACHINERY: replay worker failed");
			2
		}
	}
}
