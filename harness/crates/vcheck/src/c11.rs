//! C11 — slice and streamed input decode identically, however the stream is chunked.
//!
//! For every (schema, byte string) of four families (valid encodings, hostile byte strings from the
//! decoder's input-consumption tree, single-object messages, container files) the slice result is
//! the reference; the same bytes are then delivered through a harness-owned `BufRead` under every
//! composition of the byte string into `fill_buf` chunks (inputs <= 12 bytes) or under all uniform
//! chunk sizes plus deviation-bounded irregular cuts (longer inputs), and through real
//! `std::io::BufReader`s of capacity 1, 2, 3 and 8192.

use crate::envs::ChunkedBufRead;
use crate::explore::{explore, hash64, Chooser, Cover};
use crate::gen::{self, ObsMode};
use crate::hostile::{consumption_tree, de_bufread, de_slice, Expand, Probe, ReadRun, SliceRun, Target, Val, SENTINEL, SENTINEL_VALUE};
use crate::obs::{Hint, ObsSeed, O};
use crate::report::{hex, unhex, Report, Violation};
use crate::subj::{guarded, Limits, Out};
use rayon::prelude::*;
use serde_json::{json, Value};
use std::io::BufReader;
use vmodel::schema::{Env, Logical, RSchema};
use vmodel::value::{Block, Canonical, Layout, RValue};

const EXHAUSTIVE_LEN: usize = 12;

// ---------------------------------------------------------------------------------------------
// Chunkings

/// How the bytes are handed to the subject.
#[derive(Clone, Debug, PartialEq)]
pub enum Env_ {
	/// `ChunkedBufRead` with exactly these chunk sizes (they sum to the input length)
	Chunks(Vec<usize>),
	/// `std::io::BufReader::with_capacity(cap, &input[..])`
	BufReader(usize),
}

impl Env_ {
	fn json(&self) -> Value {
		match self {
			Env_::Chunks(c) => json!({"chunks": c}),
			Env_::BufReader(c) => json!({"bufreader": c}),
		}
	}
	fn from_json(v: &Value) -> Env_ {
		if let Some(c) = v["bufreader"].as_u64() {
			Env_::BufReader(c as usize)
		} else {
			Env_::Chunks(v["chunks"].as_array().unwrap().iter().map(|x| x.as_u64().unwrap() as usize).collect())
		}
	}
	fn describe(&self) -> String {
		match self {
			Env_::Chunks(c) => format!("fill_buf chunks {}", compact(c)),
			Env_::BufReader(c) => format!("std BufReader capacity {c}"),
		}
	}
}

fn compact(c: &[usize]) -> String {
	// run-length rendering: 1x7,3,2x2
	let mut out = Vec::new();
	let mut i = 0;
	while i < c.len() {
		let mut j = i;
		while j < c.len() && c[j] == c[i] {
			j += 1;
		}
		out.push(if j - i > 1 { format!("{}x{}", c[i], j - i) } else { c[i].to_string() });
		i = j;
	}
	format!("[{}]", out.join(","))
}

/// chunk sizes from a sorted list of interior boundaries
fn sizes_from_cuts(n: usize, cuts: &[usize]) -> Vec<usize> {
	let mut out = Vec::with_capacity(cuts.len() + 1);
	let mut prev = 0;
	for &c in cuts {
		if c > prev && c < n {
			out.push(c - prev);
			prev = c;
		}
	}
	if n > prev {
		out.push(n - prev);
	}
	out
}

fn uniform_cuts(n: usize, c: usize) -> Vec<usize> {
	if c == 0 {
		return vec![];
	}
	(1..n).filter(|i| i % c == 0).collect()
}

#[derive(Clone, Copy)]
pub struct Plan {
	/// inputs up to this length get every composition
	pub exhaustive_len: usize,
	/// uniform sizes 1..=min(n, this)
	pub uniform_max: usize,
	/// bases (uniform sizes; 0 = one chunk) on top of which single irregular cuts are placed
	pub cut_bases: &'static [usize],
	/// inputs up to this length also get every pair of irregular cuts on the one-chunk base
	pub pair_len: usize,
	pub leaf_cap: u64,
}

/// Calls `f` for every environment of the plan; `f` returns false to stop. Returns (environments, capped).
fn for_each_env(n: usize, plan: &Plan, cover: &mut Cover, mut f: impl FnMut(&Env_) -> bool) {
	if n <= plan.exhaustive_len {
		// every composition of n into chunks = every subset of the n-1 interior boundaries
		let bits = n.saturating_sub(1);
		for mask in 0u32..(1u32 << bits) {
			let cuts: Vec<usize> = (1..n).filter(|i| mask >> (i - 1) & 1 == 1).collect();
			let sizes = sizes_from_cuts(n, &cuts);
			cover.states += 1;
			cover.transitions += 1;
			if !f(&Env_::Chunks(sizes)) {
				return;
			}
		}
		cover.count("inputs_with_all_compositions", 1);
	} else {
		// uniform sizes, no deviation
		for c in (1..=n.min(plan.uniform_max)).chain(std::iter::once(0)) {
			cover.states += 1;
			cover.transitions += 1;
			if !f(&Env_::Chunks(sizes_from_cuts(n, &uniform_cuts(n, c)))) {
				return;
			}
		}
		// ENV: deviation = one extra boundary; budget 1 on every base, budget 2 on the one-chunk base
		let stop = std::cell::Cell::new(false);
		for (bases, budget) in [(plan.cut_bases, 1usize), (&[0usize][..], if n <= plan.pair_len { 2 } else { 0 })] {
			if budget == 0 || stop.get() {
				continue;
			}
			let st = explore(Some(budget), plan.leaf_cap, |ch: &mut Chooser| {
				let base = bases[ch.pick(bases.len())];
				let mut cuts = uniform_cuts(n, base);
				let mut extra = 0;
				for off in 1..n {
					if base != 0 && off % base == 0 {
						continue;
					}
					if ch.dev(2) == 1 {
						cuts.push(off);
						extra += 1;
					}
				}
				// executions with fewer deviations than the budget were already run (uniform pass /
				// budget-1 pass)
				if extra < budget {
					return true;
				}
				cuts.sort_unstable();
				if !f(&Env_::Chunks(sizes_from_cuts(n, &cuts))) {
					stop.set(true);
					return false;
				}
				true
			});
			cover.add_tree(&st, "irregular cuts");
			cover.count("inputs_with_deviation_bounded_cuts", 1);
		}
	}
	for cap in [1usize, 2, 3, 8192] {
		cover.states += 1;
		cover.transitions += 1;
		if !f(&Env_::BufReader(cap)) {
			return;
		}
	}
}

// ---------------------------------------------------------------------------------------------
// Datum cases

fn limits_for(n: usize) -> Limits {
	// the property assumes the allocation cap does not bite: cap >= input length (DESIGN §7)
	Limits { allowed_depth: None, max_seq_size: Some(1000), max_alloc_size: Some(n.max(64)) }
}

fn run_reader(cs: &serde_avro_fast::Schema, input: &[u8], t: &Target, env: &Env_) -> ReadRun {
	let l = limits_for(input.len());
	match env {
		Env_::Chunks(sizes) => de_bufread(cs, ChunkedBufRead::new(input, sizes.clone(), 0), t, &l, true),
		Env_::BufReader(cap) => de_bufread(cs, BufReader::with_capacity(*cap, crate::envs::HorizonRead::new(input)), t, &l, true),
	}
}

fn show_out<T: std::fmt::Debug>(o: &Out<T>) -> String {
	match o {
		Out::Ok(v) => crate::report::truncate(&format!("Ok({v:?})"), 160),
		Out::Err(e) => format!("Err({})", crate::report::truncate(e, 120)),
		Out::Panic(p) => format!("Panic({})", crate::report::truncate(p, 120)),
	}
}

/// Does the byte string contain a varint of more than 5 bytes whose value still fits 32 bits
/// (four arbitrary continuation bytes, a fifth in 80..=8f, any number of 80, then 00)? That is the
/// exact shape on which an `int`-typed read differs between `decode_var` and the byte-wise fallback.
fn has_long_varint(b: &[u8]) -> bool {
	for start in 0..b.len() {
		if b.len() - start < 6 || !b[start..start + 4].iter().all(|x| x & 0x80 != 0) || !(0x80..=0x8f).contains(&b[start + 4]) {
			continue;
		}
		let mut i = start + 5;
		while i < b.len() && b[i] == 0x80 {
			i += 1;
		}
		if i < b.len() && b[i] == 0x00 {
			return true;
		}
	}
	false
}

fn has_int_node(s: &RSchema) -> bool {
	match s {
		RSchema::Int => true,
		RSchema::Array(i) | RSchema::Map(i) => has_int_node(i),
		RSchema::Logical(l, b) => match l {
			Logical::Date | Logical::TimeMillis => true,
			Logical::Unknown(_) => has_int_node(b),
			_ => false,
		},
		RSchema::Union(v) => v.iter().any(has_int_node),
		RSchema::Record { fields, .. } => fields.iter().any(|(_, f)| has_int_node(f)),
		_ => false,
	}
}

/// Compare one streamed run with the slice reference. Returns (class, details).
fn compare(sref: &SliceRun, r: &ReadRun) -> Option<(&'static str, String)> {
	if sref.out.is_panic() || r.out.is_panic() {
		return Some(("panic", format!("slice={} reader={}", show_out(&sref.out), show_out(&r.out))));
	}
	match (&sref.out, &r.out) {
		(Out::Err(_), Out::Err(_)) => None,
		(Out::Ok(a), Out::Ok(b)) => {
			if a.unborrowed() != b.unborrowed() {
				Some(("value-differs", format!("slice={} reader={}", show_out(&sref.out), show_out(&r.out))))
			} else if sref.consumed != r.consumed {
				Some(("consumed-differs", format!("same value, but slice consumed {} bytes and the reader {} bytes", sref.consumed, r.consumed)))
			} else if sref.sentinel != r.sentinel && !(matches!(sref.sentinel, Some(Out::Err(_))) && matches!(r.sentinel, Some(Out::Err(_)))) {
				Some(("following-data-differs", format!("same value and consumption, but the datum that follows decodes as slice={} reader={}", sref.sentinel.as_ref().map(show_out).unwrap_or_default(), r.sentinel.as_ref().map(show_out).unwrap_or_default())))
			} else {
				None
			}
		}
		_ => Some(("outcome-differs", format!("slice={} reader={}", show_out(&sref.out), show_out(&r.out)))),
	}
}

struct Sink<'a> {
	cover: &'a mut Cover,
	out: &'a mut Vec<Violation>,
	per_class: std::collections::BTreeMap<String, usize>,
}

impl<'a> Sink<'a> {
	fn push(&mut self, class: &str, tag: &str, what: String, replay: Value) {
		let n = self.per_class.entry(format!("{class}{tag}")).or_insert(0);
		*n += 1;
		if *n <= 12 {
			self.out.push(Violation { class: class.to_owned(), what, replay });
		}
	}
}

/// One (schema, input, target): slice reference, then every environment of the plan.
#[allow(clippy::too_many_arguments)]
fn datum_case(cs: &serde_avro_fast::Schema, schema: &RSchema, text: &str, input: &[u8], t: &Target, plan: &Plan, sink: &mut Sink, replay_base: &Value) -> bool {
	let sref = de_slice(cs, input, t, &limits_for(input.len()), true);
	sink.cover.impl_runs += 1;
	sink.cover.evaluations += 1;
	let tags = format!("{}{}", if has_long_varint(input) { " [varint of more than 5 bytes with a 32-bit value]" } else { "" }, if has_int_node(schema) { " [schema has an int-typed node]" } else { "" });
	let mut runs = 0u64;
	let (mut n_vf, mut n_sc, mut n_sent) = (0u64, 0u64, 0u64);
	let mut straddle = false;
	let mut cover = std::mem::take(sink.cover);
	let mut found: Vec<(&'static str, String, Env_)> = Vec::new();
	for_each_env(input.len(), plan, &mut cover, |env| {
		let r = run_reader(cs, input, t, env);
		runs += 1;
		if r.varint_fallbacks > 0 {
			n_vf += 1;
			straddle = true;
		}
		if r.scratch_copies > 0 {
			n_sc += 1;
			straddle = true;
		}
		if matches!(r.sentinel, Some(Out::Ok(SENTINEL_VALUE))) {
			n_sent += 1;
		}
		if let Some((class, msg)) = compare(&sref, &r) {
			if found.len() < 4 {
				// determinism guard: must reproduce from scratch before it is reported
				let s2 = de_slice(cs, input, t, &limits_for(input.len()), true);
				let r2 = run_reader(cs, input, t, env);
				if compare(&s2, &r2).map(|c| c.0) != Some(class) {
					eprintln!("MACHINERY: C11 nondeterministic comparison for input [{}]", hex(input));
					std::process::exit(2);
				}
				found.push((class, msg, env.clone()));
			}
		}
		true
	});
	*sink.cover = cover;
	sink.cover.impl_runs += runs;
	sink.cover.count("runs_with_bytewise_varint_fallback", n_vf);
	sink.cover.count("runs_with_scratch_buffer_copy", n_sc);
	sink.cover.count("runs_where_the_following_datum_was_read_back", n_sent);
	for (class, msg, env) in found {
		let mut rp = replay_base.clone();
		rp["input"] = json!(hex(input));
		rp["target"] = json!(t.name());
		rp["env"] = env.json();
		rp["class"] = json!(class);
		sink.push(class, &tags, format!("schema {text} input [{}] target {} {}:{tags} {msg}", hex(input), t.name(), env.describe()), rp);
	}
	if straddle && input.len() >= 2 {
		sink.cover.nontrivial.insert(hash64(&(text, input, t.name())));
		if sink.cover.samples.is_empty() && input.len() >= 6 {
			sink.cover.sample(json!({"schema": text, "input": hex(input), "target": t.name(), "environments_run": runs, "runs_with_varint_fallback": n_vf, "runs_with_scratch_copy": n_sc, "slice": show_out(&sref.out)}));
		}
	}
	sink.cover.outcomes.insert(hash64(&(sref.out.kind(), sref.consumed.min(3), sref.sentinel.as_ref().map(|s| s.kind()))));
	sink.out.len() < 400
}

// ---------------------------------------------------------------------------------------------
// Family A: valid encodings

/// Block layouts beyond the canonical one: 1 = every collection as one block with a byte size;
/// 2 = one item per block, each with a byte size (so an ignoring target skips block by block).
struct FixedLayout(u8, bool);
impl Layout for FixedLayout {
	fn blocks(&mut self, n: usize) -> Vec<Block> {
		if n == 0 {
			return vec![];
		}
		self.1 = true;
		match self.0 {
			1 => vec![Block { items: n, sized: true }],
			_ => (0..n).map(|i| Block { items: 1, sized: i % 2 == 0 }).collect(),
		}
	}
}

pub struct ValidUnit {
	pub id: usize,
	pub schema: RSchema,
}

fn valid_units(level: usize) -> Vec<ValidUnit> {
	gen::schema_alphabet(level).into_iter().enumerate().map(|(id, schema)| ValidUnit { id, schema }).collect()
}

fn valid_targets(v: &RValue, s: &RSchema, env: &Env) -> Vec<Target> {
	let mut t = vec![Target::Obs(Hint::Any), Target::Obs(Hint::Ignored)];
	let h = gen::hint_for(v, s, env, ObsMode::Hinted);
	if h != Hint::Any {
		t.push(Target::Obs(h));
	}
	t
}

#[allow(clippy::too_many_arguments)]
fn valid_leaf(u: &ValidUnit, level: usize, cs: &serde_avro_fast::Schema, env: &Env, text: &str, ch: &mut Chooser, max_items: usize, plan: &Plan, malform: bool, only: Option<(usize, &str, &Env_)>, sink: &mut Sink) -> bool {
	let v = gen::gen_value(&u.schema, env, ch, true, max_items, 2);
	let choices = ch.choices();
	let mut encodings: Vec<(usize, Vec<u8>)> = Vec::new();
	let canon = vmodel::value::encode(&v, &u.schema, env, &mut Canonical).expect("model encodes its own value");
	encodings.push((0, canon));
	for mode in [1u8, 2] {
		let mut l = FixedLayout(mode, false);
		let e = vmodel::value::encode(&v, &u.schema, env, &mut l).unwrap();
		if l.1 && !encodings.iter().any(|(_, x)| *x == e) {
			encodings.push((mode as usize, e));
		}
	}
	// layouts 100+k: the canonical encoding cut after k bytes; 1000+2*pos+j: byte `pos` replaced
	let mut inputs: Vec<(usize, Vec<u8>)> = Vec::new();
	for (layout, enc) in &encodings {
		let mut input = enc.clone();
		input.extend_from_slice(&SENTINEL);
		inputs.push((*layout, input));
	}
	if malform {
		let enc = encodings[0].1.clone();
		let cuts: Vec<usize> = if enc.len() <= 24 { (0..enc.len()).collect() } else { vec![1, enc.len() / 2, enc.len() - 1] };
		for k in cuts {
			inputs.push((100 + k, enc[..k].to_vec()));
		}
		let positions: Vec<usize> = if enc.len() <= 24 { (0..enc.len()).collect() } else { vec![0, 1, enc.len() / 2, enc.len() - 1] };
		for pos in positions {
			for (j, x) in [0xffu8, enc[pos] ^ 0x80].into_iter().enumerate() {
				if x != enc[pos] {
					let mut m = enc.clone();
					m[pos] = x;
					m.extend_from_slice(&SENTINEL);
					inputs.push((1000 + 2 * pos + j, m));
				}
			}
		}
		sink.cover.count("malformed_variants_of_valid_encodings", (inputs.len() - encodings.len()) as u64);
	}
	for (layout, input) in &inputs {
		let input = input.clone();
		for (ti, t) in valid_targets(&v, &u.schema, env).iter().enumerate() {
			let base = json!({"check": "C11", "kind": "valid", "level": level, "unit": u.id, "schema": text, "choices": choices, "max_items": max_items, "layout": layout, "target_index": ti});
			if let Some((l, tname, e)) = only {
				// replay of one environment
				if l != *layout || tname != t.name() {
					continue;
				}
				let sref = de_slice(cs, &input, t, &limits_for(input.len()), true);
				let r = run_reader(cs, &input, t, e);
				println!("  value {v:?}\n  input [{}] target {} {}", hex(&input), t.name(), e.describe());
				println!("  slice : {} consumed {} following {:?}", show_out(&sref.out), sref.consumed, sref.sentinel);
				println!("  reader: {} consumed {} following {:?}", show_out(&r.out), r.consumed, r.sentinel);
				if let Some((class, msg)) = compare(&sref, &r) {
					sink.push(class, "", msg, base.clone());
				}
				continue;
			}
			if !datum_case(cs, &u.schema, text, &input, t, plan, sink, &base) {
				return false;
			}
		}
	}
	true
}

fn run_valid_unit(u: &ValidUnit, level: usize, max_items: usize, max_leaves: u64, malform_leaves: u64, plan: &Plan) -> (Cover, Vec<Violation>) {
	let mut cover = Cover::default();
	let mut out = Vec::new();
	let env = Env::new(&u.schema);
	let text = gen::schema_text(&u.schema);
	let cs = match gen::to_crate_schema(&u.schema) {
		Ok(s) => s,
		Err(e) => {
			out.push(Violation { class: "schema-rejected".into(), what: e, replay: json!({"check": "C11"}) });
			return (cover, out);
		}
	};
	let mut sink = Sink { cover: &mut cover, out: &mut out, per_class: Default::default() };
	let mut leaf_no = 0u64;
	let st = explore(None, max_leaves, |ch| {
		leaf_no += 1;
		valid_leaf(u, level, &cs, &env, &text, ch, max_items, plan, leaf_no <= malform_leaves, None, &mut sink)
	});
	cover.add_tree(&st, &format!("valid unit {} ({text})", u.id));
	cover.count("valid_values", st.leaves);
	(cover, out)
}

// ---------------------------------------------------------------------------------------------
// Family B: hostile byte strings = nodes of the input-consumption tree

pub struct HostileUnit {
	pub id: usize,
	pub schema: RSchema,
	pub extra_hints: Vec<Hint>,
}

fn hostile_units() -> Vec<HostileUnit> {
	use RSchema as S;
	let mut n = gen::Names(5000);
	let mut out: Vec<HostileUnit> = Vec::new();
	let mut add = |schema: RSchema, extra: Vec<Hint>| {
		let id = out.len();
		out.push(HostileUnit { id, schema, extra_hints: extra })
	};
	// leaves with every dedicated deserialize_* path
	for i in 0..gen::N_LEAVES {
		let s = gen::leaf(i, &mut n);
		let extra = match env_free_base(&s) {
			S::Bytes if matches!(s, S::Logical(Logical::Decimal { .. }, _) | S::Logical(Logical::BigDecimal, _)) => vec![Hint::I64, Hint::U64, Hint::I128, Hint::F64],
			S::Fixed { .. } if matches!(s, S::Logical(Logical::Decimal { .. }, _)) => vec![Hint::I64, Hint::U128, Hint::F64],
			S::Fixed { .. } if matches!(s, S::Logical(Logical::Duration, _)) => vec![Hint::Bytes, Hint::Tuple(3, Box::new(Hint::U32)), Hint::Seq(Box::new(Hint::Any))],
			S::Bytes => vec![Hint::Str, Hint::Bytes],
			S::String => vec![Hint::Bytes, Hint::Str],
			S::Fixed { .. } => vec![Hint::Str],
			S::Enum { .. } => vec![Hint::U64, Hint::Identifier],
			S::Int | S::Long => vec![Hint::Identifier, Hint::Option(Box::new(Hint::Any))],
			_ => vec![],
		};
		add(s, extra);
	}
	let list = |name: &str| S::record(name, vec![("v", S::Int), ("next", S::Union(vec![S::Null, S::rf(name)]))]);
	add(S::array(S::Null), vec![]);
	add(S::array(S::record("h.Empty", vec![])), vec![]);
	add(S::map(S::Null), vec![]);
	add(S::array(S::array(S::Null)), vec![]);
	add(list("h.R"), vec![]);
	add(S::Union(vec![S::Null, list("h.R2")]), vec![Hint::Option(Box::new(Hint::Any))]);
	add(S::array(S::Int), vec![Hint::Seq(Box::new(Hint::I32))]);
	add(S::array(S::String), vec![]);
	add(S::map(S::Bytes), vec![]);
	add(S::map(S::array(S::Long)), vec![]);
	add(S::record("h.Rec", vec![("a", S::Int), ("b", S::String), ("c", S::Bytes)]), vec![]);
	add(S::record("h.Rec2", vec![("a", S::String), ("b", S::String)]), vec![]);
	add(S::Union(vec![S::Null, S::String]), vec![Hint::Option(Box::new(Hint::Str))]);
	add(S::Union(vec![S::Int, S::Long, S::Bytes]), vec![]);
	add(S::array(S::Union(vec![S::Null, S::map(S::Bytes)])), vec![]);
	add(S::record("h.Tree", vec![("v", S::Null), ("kids", S::array(S::rf("h.Tree")))]), vec![]);
	add(S::array(S::fixed("h.Fx3", 3)), vec![]);
	add(S::array(S::Boolean), vec![]);
	out
}

fn env_free_base(s: &RSchema) -> &RSchema {
	s.base()
}

/// Literal hostile spines that reach 12 bytes whatever the tree's node cap: over-long varints,
/// maximal varints, a length prefix followed by payload.
fn literals() -> Vec<Vec<u8>> {
	let mut out = Vec::new();
	for k in 1..=11usize {
		let mut a = vec![0x80u8; k];
		a.push(0x00);
		out.push(a);
		let mut b = vec![0xffu8; k];
		b.push(0x01);
		out.push(b);
		let mut c = vec![0x80u8; k];
		c.push(0x01);
		c.push(0x02);
		out.push(c);
	}
	out.push(vec![0x10, b'a', b'b', b'c', b'd', b'e', b'f', b'g', b'h', 0x00]);
	out.push(vec![0x02, 0x10, b'a', b'b', b'c', b'd', b'e', b'f', b'g', b'h', 0x00]);
	out.push(vec![0x03, 0x06, 0x02, 0x02, 0x04, 0x00]);
	out.push(vec![0x04, 0x02, 0x61, 0x02, 0x62, 0x01, 0x04, 0x02, 0x63, 0x00]);
	out
}

fn hostile_targets(u: &HostileUnit) -> Vec<Target> {
	let mut t = vec![Target::Obs(Hint::Any), Target::Obs(Hint::Ignored)];
	t.extend(u.extra_hints.iter().cloned().map(Target::Obs));
	t
}

fn target_label(u: &HostileUnit, ti: usize) -> String {
	match &hostile_targets(u)[ti] {
		Target::Obs(h) if ti >= 2 => format!("hint {h:?}"),
		t => t.name(),
	}
}

fn run_hostile_unit(u: &HostileUnit, max_len: usize, node_cap: u64, plan: &Plan) -> (Cover, Vec<Violation>) {
	let mut cover = Cover::default();
	let mut out = Vec::new();
	let text = gen::schema_text(&u.schema);
	let cs = match gen::to_crate_schema(&u.schema) {
		Ok(s) => s,
		Err(e) => {
			out.push(Violation { class: "schema-rejected".into(), what: e, replay: json!({"check": "C11"}) });
			return (cover, out);
		}
	};
	let targets = hostile_targets(u);
	let mut sink = Sink { cover: &mut cover, out: &mut out, per_class: Default::default() };
	let node = |bytes: &[u8], sink: &mut Sink| -> Expand {
		let mut expand = Expand::No;
		for (ti, t) in targets.iter().enumerate() {
			// hunger: 1-byte refills
			let probe = de_bufread(&cs, ChunkedBufRead::uniform(bytes, 1), t, &limits_for(bytes.len()), false);
			sink.cover.impl_runs += 1;
			expand = expand.or(Expand::of(&probe));
			let base = json!({"check": "C11", "kind": "hostile", "unit": u.id, "schema": text, "target_index": ti});
			datum_case(&cs, &u.schema, &format!("{text} ({})", target_label(u, ti)), bytes, t, plan, sink, &base);
			if probe.out.is_ok() {
				// what follows a successfully decoded hostile datum must stay untouched
				let mut with = bytes.to_vec();
				with.extend_from_slice(&SENTINEL);
				datum_case(&cs, &u.schema, &format!("{text} ({})", target_label(u, ti)), &with, t, plan, sink, &base);
			}
		}
		expand
	};
	let tree = consumption_tree(max_len, node_cap, |b| node(b, &mut sink));
	for l in literals() {
		node(&l, &mut sink);
	}
	cover.states += tree.nodes;
	cover.transitions += tree.nodes;
	cover.count("hostile_tree_nodes", tree.nodes);
	if tree.capped {
		cover.caps.push(format!("hostile unit {} schema {text}: node cap {node_cap} hit, depth completed {}", u.id, tree.completed_depth));
	}
	(cover, out)
}

// ---------------------------------------------------------------------------------------------
// Family C: single-object messages

struct OAny(O);
impl<'de> serde::Deserialize<'de> for OAny {
	fn deserialize<D: serde::Deserializer<'de>>(d: D) -> Result<Self, D::Error> {
		serde::de::DeserializeSeed::deserialize(ObsSeed(&Hint::Any), d).map(OAny)
	}
}

struct SingleCase {
	schema: RSchema,
	/// complete input (header + datum + whatever follows)
	input: Vec<u8>,
	what: &'static str,
}

fn single_cases() -> Vec<SingleCase> {
	use RSchema as S;
	let mut out = Vec::new();
	let schemas: Vec<(RSchema, Vec<RValue>)> = vec![
		(S::Int, vec![RValue::Int(0), RValue::Int(-65), RValue::Int(i32::MAX)]),
		(S::Long, vec![RValue::Long(i64::MIN)]),
		(S::String, vec![RValue::Str("".into()), RValue::Str("a".into()), RValue::Str("héllo wörld".into())]),
		(S::record("so.Rec", vec![("a", S::Int), ("b", S::String)]), vec![RValue::Record(vec![RValue::Int(8192), RValue::Str("xy".into())])]),
		(S::array(S::Int), vec![RValue::Array(vec![RValue::Int(1), RValue::Int(-1), RValue::Int(64)])]),
		(S::Union(vec![S::Null, S::String]), vec![RValue::Union(0, Box::new(RValue::Null)), RValue::Union(1, Box::new(RValue::Str("é".into())))]),
	];
	for (s, vals) in &schemas {
		let env = Env::new(s);
		let fp = vmodel::crc::fingerprint_le(vmodel::schema::pcf(s).as_bytes());
		let mut header = vec![0xc3, 0x01];
		header.extend_from_slice(&fp);
		for v in vals {
			let datum = vmodel::value::encode(v, s, &env, &mut Canonical).unwrap();
			let mut msg = header.clone();
			msg.extend_from_slice(&datum);
			let mut with = msg.clone();
			with.extend_from_slice(&SENTINEL);
			out.push(SingleCase { schema: s.clone(), input: with, what: "valid message followed by another datum" });
			out.push(SingleCase { schema: s.clone(), input: msg.clone(), what: "valid message" });
			for k in 0..msg.len() {
				out.push(SingleCase { schema: s.clone(), input: msg[..k].to_vec(), what: "truncated message" });
			}
			for (pos, x) in [(0usize, 0xc2u8), (1, 0x00), (2, fp[0] ^ 1), (9, fp[7] ^ 0x80)] {
				let mut bad = msg.clone();
				bad[pos] = x;
				out.push(SingleCase { schema: s.clone(), input: bad, what: "corrupted header" });
			}
		}
		// hostile datums behind a valid header
		for d in [vec![0x80u8], vec![0x80, 0x80, 0x80, 0x80, 0x80, 0x00], vec![0xff, 0xff, 0xff, 0xff, 0x0f], vec![0xff, 0xff, 0xff, 0xff, 0x1f], vec![0x7f], vec![0x10, 0x61], vec![0x03, 0x02, 0x02, 0x00]] {
			let mut msg = header.clone();
			msg.extend_from_slice(&d);
			out.push(SingleCase { schema: s.clone(), input: msg, what: "valid header, hostile datum" });
		}
	}
	out
}

struct SingleRun {
	out: Out<O>,
	consumed: usize,
	varint_fallbacks: u64,
	scratch_copies: u64,
}

fn single_slice(cs: &serde_avro_fast::Schema, input: &[u8]) -> (Out<O>, usize) {
	let out = guarded(|| serde_avro_fast::from_single_object_slice::<OAny>(input, cs).map(|o| o.0.unborrowed()).map_err(|e| e.to_string()));
	// the slice API does not say how much it consumed: it is header + what `from_datum_slice` consumes
	let consumed = if out.is_ok() { 10 + de_slice(cs, &input[10..], &Target::Obs(Hint::Any), &Limits::none(), false).consumed } else { 0 };
	(out, consumed)
}

fn single_reader(cs: &serde_avro_fast::Schema, input: &[u8], env: &Env_) -> SingleRun {
	let mut run = SingleRun { out: Out::Err(String::new()), consumed: 0, varint_fallbacks: 0, scratch_copies: 0 };
	run.out = guarded(|| match env {
		Env_::Chunks(sizes) => {
			let mut p = Probe::new(ChunkedBufRead::new(input, sizes.clone(), 0));
			let r = serde_avro_fast::from_single_object_reader::<_, OAny>(&mut p, cs);
			run.consumed = p.consumed;
			run.varint_fallbacks = p.varint_fallbacks;
			run.scratch_copies = p.scratch_copies;
			r.map(|o| o.0).map_err(|e| e.to_string())
		}
		Env_::BufReader(cap) => {
			let mut p = Probe::new(BufReader::with_capacity(*cap, crate::envs::HorizonRead::new(input)));
			let r = serde_avro_fast::from_single_object_reader::<_, OAny>(&mut p, cs);
			run.consumed = p.consumed;
			run.varint_fallbacks = p.varint_fallbacks;
			run.scratch_copies = p.scratch_copies;
			r.map(|o| o.0).map_err(|e| e.to_string())
		}
	});
	run
}

fn compare_single(sref: &(Out<O>, usize), r: &SingleRun) -> Option<(&'static str, String)> {
	if sref.0.is_panic() || r.out.is_panic() {
		return Some(("single-panic", format!("slice={} reader={}", show_out(&sref.0), show_out(&r.out))));
	}
	match (&sref.0, &r.out) {
		(Out::Err(_), Out::Err(_)) => None,
		(Out::Ok(a), Out::Ok(b)) => {
			if a.unborrowed() != b.unborrowed() {
				Some(("single-value-differs", format!("slice={} reader={}", show_out(&sref.0), show_out(&r.out))))
			} else if sref.1 != r.consumed {
				Some(("single-consumed-differs", format!("same value, but the slice path consumes {} bytes and the reader consumed {}", sref.1, r.consumed)))
			} else {
				None
			}
		}
		_ => Some(("single-outcome-differs", format!("slice={} reader={}", show_out(&sref.0), show_out(&r.out)))),
	}
}

fn run_single(idx: usize, c: &SingleCase, plan: &Plan) -> (Cover, Vec<Violation>) {
	let mut cover = Cover::default();
	let mut out = Vec::new();
	let text = gen::schema_text(&c.schema);
	let cs = gen::to_crate_schema(&c.schema).expect("single-object schema");
	let sref = single_slice(&cs, &c.input);
	cover.impl_runs += 1;
	cover.evaluations += 1;
	cover.count(if sref.0.is_ok() { "single_object_slice_ok" } else { "single_object_slice_err" }, 1);
	let tags = format!("{}{}", if has_long_varint(&c.input[c.input.len().min(10)..]) { " [varint of more than 5 bytes with a 32-bit value]" } else { "" }, if has_int_node(&c.schema) { " [schema has an int-typed node]" } else { "" });
	let mut runs = 0;
	let mut found = Vec::new();
	let mut straddle = false;
	let mut cv = std::mem::take(&mut cover);
	for_each_env(c.input.len(), plan, &mut cv, |env| {
		let r = single_reader(&cs, &c.input, env);
		runs += 1;
		if r.varint_fallbacks > 0 || r.scratch_copies > 0 {
			straddle = true;
		}
		if let Some((class, msg)) = compare_single(&sref, &r) {
			if found.len() < 3 {
				found.push((class, msg, env.clone()));
			}
		}
		true
	});
	cover = cv;
	cover.impl_runs += runs;
	if straddle || c.input.len() > 10 {
		cover.nontrivial.insert(hash64(&("single", &text, &c.input)));
	}
	cover.outcomes.insert(hash64(&("single", sref.0.kind())));
	for (class, msg, env) in found {
		out.push(Violation {
			class: class.into(),
			what: format!("single-object ({}) schema {text} input [{}] {}:{tags} {msg}", c.what, hex(&c.input), env.describe()),
			replay: json!({"check": "C11", "kind": "single", "case": idx, "schema": text, "input": hex(&c.input), "env": env.json(), "class": class}),
		});
	}
	(cover, out)
}

// ---------------------------------------------------------------------------------------------
// Family D: container files

const SYNC: [u8; 16] = [0x11, 0x22, 0x33, 0x44, 0x55, 0x66, 0x77, 0x88, 0x99, 0xaa, 0xbb, 0xcc, 0xdd, 0xee, 0xff, 0x01];
const CODECS: [&str; 6] = ["null", "deflate", "bzip2", "snappy", "xz", "zstandard"];

struct FileCase {
	codec: &'static str,
	#[allow(dead_code)]
	schema: RSchema,
	desc: String,
	bytes: Vec<u8>,
	/// read every datum with `IgnoredAny` (sized blocks are then skipped inside the block reader)
	ignored: bool,
}

fn file_cases() -> Vec<FileCase> {
	use RSchema as S;
	let mut out = Vec::new();
	let schemas: Vec<(RSchema, Vec<RValue>)> = vec![
		(S::Long, vec![RValue::Long(1), RValue::Long(-2), RValue::Long(1 << 40)]),
		(S::String, vec![RValue::Str("a".into()), RValue::Str("héllo wörld, héllo wörld".into())]),
		(S::record("cf.Rec", vec![("a", S::Long), ("b", S::String)]), vec![RValue::Record(vec![RValue::Long(300), RValue::Str("xy".into())]), RValue::Record(vec![RValue::Long(-1), RValue::Str("".into())])]),
	];
	for codec in CODECS {
		for (s, vals) in &schemas {
			let env = Env::new(s);
			let text = gen::schema_text(s);
			let meta = vec![("avro.schema".to_owned(), text.clone().into_bytes()), ("avro.codec".to_owned(), codec.as_bytes().to_vec())];
			let layout = vmodel::container::MetaLayout { blocks: vec![2], sized: false };
			let datums: Vec<Vec<u8>> = vals.iter().map(|v| vmodel::value::encode(v, s, &env, &mut Canonical).unwrap()).collect();
			let partitions: Vec<(&str, Vec<(u64, Vec<u8>)>)> = vec![
				("one block", vec![(datums.len() as u64, datums.concat())]),
				("one datum per block", datums.iter().map(|d| (1u64, d.clone())).collect()),
				("no block", vec![]),
				("one datum", vec![(1, datums[0].clone())]),
			];
			for (pname, blocks) in partitions {
				let bytes = vmodel::container::cf_write(&meta, &layout, SYNC, codec, &blocks).expect("model writes container");
				out.push(FileCase { codec, schema: s.clone(), desc: format!("codec={codec} schema {text}, {} datum(s), {pname}", blocks.iter().map(|b| b.0).sum::<u64>()), bytes, ignored: false });
			}
		}
		// datums whose arrays are written as sized blocks, skipped by an ignoring target: the
		// block-limited sub-readers have to skip, too
		let s = S::array(S::String);
		let env = Env::new(&s);
		let text = gen::schema_text(&s);
		let meta = vec![("avro.schema".to_owned(), text.clone().into_bytes()), ("avro.codec".to_owned(), codec.as_bytes().to_vec())];
		let layout = vmodel::container::MetaLayout { blocks: vec![2], sized: false };
		let vals = [RValue::Array(vec![RValue::Str("a".into()), RValue::Str("bcd".into())]), RValue::Array(vec![]), RValue::Array(vec![RValue::Str("héllo".into())])];
		let datums: Vec<Vec<u8>> = vals.iter().map(|v| vmodel::value::encode(v, &s, &env, &mut FixedLayout(1, false)).unwrap()).collect();
		for (pname, blocks) in [("one block", vec![(3u64, datums.concat())]), ("one datum per block", datums.iter().map(|d| (1u64, d.clone())).collect::<Vec<_>>())] {
			let bytes = vmodel::container::cf_write(&meta, &layout, SYNC, codec, &blocks).expect("model writes container");
			for ignored in [true, false] {
				out.push(FileCase { codec, schema: s.clone(), desc: format!("codec={codec} schema {text} (arrays as sized blocks, target {}), 3 datum(s), {pname}", if ignored { "IgnoredAny" } else { "any" }), bytes: bytes.clone(), ignored });
			}
		}
	}
	out
}

#[derive(Clone, Debug, PartialEq)]
enum Step {
	Value(O),
	End,
	Err(String),
	InitErr(String),
	Panic(String),
}

fn drain<'de, R>(rd: Result<serde_avro_fast::object_container_file_encoding::Reader<R>, serde_avro_fast::object_container_file_encoding::FailedToInitializeReader>, hint: &Hint) -> Vec<Step>
where
	R: serde_avro_fast::de::read::ReadSlice<'de> + serde_avro_fast::de::read::take::Take + std::io::BufRead,
	<R as serde_avro_fast::de::read::take::Take>::Take: serde_avro_fast::de::read::ReadSlice<'de> + std::io::BufRead,
{
	let mut steps = Vec::new();
	let mut rd = match rd {
		Ok(r) => r,
		Err(e) => return vec![Step::InitErr(e.to_string())],
	};
	for _ in 0..64 {
		match rd.deserialize_seed_next(ObsSeed(hint)) {
			Ok(Some(o)) => steps.push(Step::Value(o.unborrowed())),
			Ok(None) => {
				steps.push(Step::End);
				break;
			}
			Err(e) => {
				steps.push(Step::Err(e.to_string()));
				break;
			}
		}
	}
	steps
}

fn file_slice(bytes: &[u8], hint: &Hint) -> Vec<Step> {
	match guarded(|| Ok(drain(serde_avro_fast::object_container_file_encoding::Reader::from_slice(bytes), hint))) {
		Out::Ok(s) => s,
		Out::Err(e) | Out::Panic(e) => vec![Step::Panic(e)],
	}
}

fn file_reader(bytes: &[u8], env: &Env_, hint: &Hint) -> (Vec<Step>, usize) {
	let mut consumed = 0;
	let steps = match guarded(|| {
		Ok(match env {
			Env_::Chunks(sizes) => {
				let mut p = Probe::new(ChunkedBufRead::new(bytes, sizes.clone(), 0));
				let s = drain(serde_avro_fast::object_container_file_encoding::Reader::from_reader(&mut p), hint);
				consumed = p.consumed;
				s
			}
			Env_::BufReader(cap) => {
				let mut p = Probe::new(BufReader::with_capacity(*cap, crate::envs::HorizonRead::new(bytes)));
				let s = drain(serde_avro_fast::object_container_file_encoding::Reader::from_reader(&mut p), hint);
				consumed = p.consumed;
				s
			}
		})
	}) {
		Out::Ok(s) => s,
		Out::Err(e) | Out::Panic(e) => vec![Step::Panic(e)],
	};
	(steps, consumed)
}

fn describe_steps(s: &[Step]) -> String {
	let values = s.iter().filter(|x| matches!(x, Step::Value(_))).count();
	match s.last() {
		Some(Step::End) => format!("complete ({values} value(s), then end of file)"),
		Some(Step::Err(e)) => format!("Err after {values} value(s): {}", crate::report::truncate(e, 120)),
		Some(Step::InitErr(e)) => format!("Err opening the file: {}", crate::report::truncate(e, 120)),
		Some(Step::Panic(e)) => format!("Panic: {}", crate::report::truncate(e, 120)),
		_ => format!("{values} value(s), no end within 64 steps"),
	}
}

fn same_outcome(a: &[Step], b: &[Step]) -> bool {
	// same values in the same order, then both end, or both fail (messages are not compared)
	if a.len() != b.len() {
		return false;
	}
	a.iter().zip(b).all(|(x, y)| match (x, y) {
		(Step::Value(p), Step::Value(q)) => p == q,
		(Step::End, Step::End) => true,
		(Step::Err(_), Step::Err(_)) | (Step::InitErr(_), Step::InitErr(_)) => true,
		_ => false,
	})
}

fn run_file(idx: usize, c: &FileCase, plan: &Plan) -> (Cover, Vec<Violation>) {
	let mut cover = Cover::default();
	let mut out = Vec::new();
	let hint = if c.ignored { Hint::Ignored } else { Hint::Any };
	let sref = file_slice(&c.bytes, &hint);
	cover.impl_runs += 1;
	cover.evaluations += 1;
	let complete = matches!(sref.last(), Some(Step::End));
	cover.count(&format!("container_slice_{}_{}", if complete { "complete" } else { "failed" }, c.codec), 1);
	if sref.iter().any(|s| matches!(s, Step::Panic(_))) {
		out.push(Violation { class: "container-panic".into(), what: format!("{}: file [{}] slice path panicked: {}", c.desc, hex(&c.bytes), describe_steps(&sref)), replay: json!({"check": "C11", "kind": "container", "case": idx, "env": {"chunks": [c.bytes.len()]}}) });
	}
	let mut runs = 0;
	let mut bad = 0u64;
	let mut found: Vec<(String, Env_)> = Vec::new();
	let mut cv = std::mem::take(&mut cover);
	for_each_env(c.bytes.len(), plan, &mut cv, |env| {
		let (steps, consumed) = file_reader(&c.bytes, env, &hint);
		runs += 1;
		let mut msg = None;
		if !same_outcome(&sref, &steps) {
			let first_diff = sref.iter().zip(&steps).position(|(a, b)| matches!((a, b), (Step::Value(x), Step::Value(y)) if x != y));
			let values = match first_diff {
				Some(i) => format!(" (value #{i} differs: slice {:?}, reader {:?})", sref[i], steps[i]),
				None => String::new(),
			};
			msg = Some(format!("slice={} reader={}{values}", describe_steps(&sref), describe_steps(&steps)));
		} else if complete && consumed != c.bytes.len() {
			msg = Some(format!("slice={} reader=the same, but the reader consumed {consumed} of {} bytes", describe_steps(&sref), c.bytes.len()));
		}
		if let Some(m) = msg {
			bad += 1;
			// keep the extremes: the first (smallest refills) and the last (largest) failing environments
			if found.len() < 2 {
				found.push((m, env.clone()));
			} else {
				found[1] = (m, env.clone());
			}
		}
		true
	});
	cover = cv;
	cover.impl_runs += runs;
	cover.nontrivial.insert(hash64(&("file", &c.bytes)));
	cover.outcomes.insert(hash64(&("file", complete, bad > 0)));
	for (m, env) in found {
		out.push(Violation {
			class: "container-differs".into(),
			what: format!("{}: file of {} bytes [{}] {} ({bad} of {runs} environments differ): {m}", c.desc, c.bytes.len(), hex(&c.bytes), env.describe()),
			replay: json!({"check": "C11", "kind": "container", "case": idx, "desc": c.desc, "env": env.json(), "class": "container-differs"}),
		});
	}
	(cover, out)
}

// ---------------------------------------------------------------------------------------------

static QUICK_BASES: [usize; 6] = [0, 2, 3, 7, 16, 64];
static THOROUGH_BASES: [usize; 65] = {
	let mut a = [0usize; 65];
	let mut i = 0;
	while i < 65 {
		a[i] = i;
		i += 1;
	}
	a
};

fn plans(thorough: bool) -> (Plan, Plan, Plan) {
	// (datum, single-object, container)
	if thorough {
		(
			Plan { exhaustive_len: EXHAUSTIVE_LEN, uniform_max: 64, cut_bases: &THOROUGH_BASES, pair_len: 160, leaf_cap: 2_000_000 },
			Plan { exhaustive_len: 16, uniform_max: 64, cut_bases: &THOROUGH_BASES, pair_len: 64, leaf_cap: 2_000_000 },
			Plan { exhaustive_len: 0, uniform_max: 400, cut_bases: &QUICK_BASES, pair_len: 200, leaf_cap: 2_000_000 },
		)
	} else {
		(
			Plan { exhaustive_len: EXHAUSTIVE_LEN, uniform_max: 64, cut_bases: &QUICK_BASES, pair_len: 24, leaf_cap: 200_000 },
			Plan { exhaustive_len: EXHAUSTIVE_LEN, uniform_max: 64, cut_bases: &QUICK_BASES, pair_len: 24, leaf_cap: 200_000 },
			Plan { exhaustive_len: 0, uniform_max: 64, cut_bases: &[0], pair_len: 0, leaf_cap: 200_000 },
		)
	}
}

enum UnitRef<'a> {
	Valid(&'a ValidUnit),
	Hostile(&'a HostileUnit),
	Single(usize, &'a SingleCase),
	File(usize, &'a FileCase),
}

pub fn run(rep: &mut Report) {
	let thorough = rep.thorough();
	let level = if thorough { 2 } else { 1 };
	let vu = valid_units(level);
	// the Σ_S part shares one budget of values, so that the cost of a tier does not grow with the alphabet
	let nv = vu.len().max(1) as u64;
	let (max_items, max_leaves, malform_leaves) = if thorough { (3, (400_000 / nv).clamp(100, 1_000), (40_000 / nv).clamp(10, 100)) } else { (2, (50_000 / nv).clamp(40, 200), (3_000 / nv).clamp(3, 12)) };
	let (h_len, h_cap) = if thorough { (12usize, 20_000u64) } else { (8usize, 3_000u64) };
	let (p_datum, p_single, p_file) = plans(thorough);
	let hu = hostile_units();
	let sc = single_cases();
	let fc = file_cases();
	rep.rule = format!(
		"Reference = the slice result (value by observation, bytes consumed, and the `long` that follows). Inputs: (A) Σ_S level {level} ({} schemas) x boundary values (<= {max_items} items, first {max_leaves} values per schema) encoded by the reference encoder in up to 3 block layouts (canonical; one sized block; one item per block, alternately sized) and followed by a sentinel datum, plus — for the first {malform_leaves} values per schema — every truncation of the canonical encoding and every single-byte replacement (ff, bit 7 flipped) at every position (encodings <= 24 bytes; 3-4 positions otherwise), targets deserialize_any / IgnoredAny / typed hints; (B) hostile byte strings = nodes of the decoder's input-consumption tree over Σ_B (expanded iff a 1-byte-refill reader ran out of input; depth <= {h_len}, node cap {h_cap} per schema, {} schemas incl. every leaf kind with its dedicated deserialize_* hints) plus {} literal spines up to 12 bytes, each also followed by the sentinel when it decodes; (C) {} single-object inputs (valid, every truncation, corrupted header, hostile datum behind a valid header); (D) {} container files written by the reference writer (6 codecs x (3 schemas x 4 block partitions + array<string> written as sized blocks x 2 partitions x targets any and IgnoredAny), sync marker pinned). Environments per input: EVERY composition of the byte string into fill_buf chunks when it has <= {} bytes (2^(n-1)); otherwise every uniform chunk size 1..min(n,{}) and one chunk, plus ENV deviation-bounded irregular cuts (Chooser::dev: one extra boundary at every offset on uniform bases {}, two extra boundaries on the one-chunk base for inputs <= {} bytes); plus std::io::BufReader capacities 1, 2, 3, 8192. Oracle: both Err, or both Ok with the same value, the same consumption and the same following datum; container files: the same sequence of values then end-of-file (or an error in both) and, when complete, every byte consumed. max_alloc_size = max(64, |input|), max_seq_size = 1000 on both paths. Non-trivial: (input, target) pairs for which at least one environment made the reader take the byte-wise varint fallback or the scratch-buffer copy; single-object inputs longer than the header; container files.",
		vu.len(),
		hu.len(),
		literals().len(),
		sc.len(),
		fc.len(),
		p_datum.exhaustive_len,
		p_datum.uniform_max,
		if thorough { "0..64" } else { "{one chunk,2,3,7,16,64}" },
		p_datum.pair_len,
	);
	rep.assumptions.push("max_alloc_size >= input length (the property is about chunking, not about the allocation cap)".into());
	rep.assumptions.push("byte-wise varint fallback and scratch-buffer copy are recognised from the call pattern on the harness's reader (fill_buf returning only continuation bytes followed by a 1-byte read; fill_buf followed by a larger read)".into());

	let mut all: Vec<UnitRef> = Vec::new();
	all.extend(fc.iter().enumerate().map(|(i, c)| UnitRef::File(i, c)));
	all.extend(hu.iter().map(UnitRef::Hostile));
	all.extend(vu.iter().map(UnitRef::Valid));
	all.extend(sc.iter().enumerate().map(|(i, c)| UnitRef::Single(i, c)));
	let results: Vec<(Cover, Vec<Violation>)> = all
		.par_iter()
		.map(|u| match u {
			UnitRef::Valid(u) => run_valid_unit(u, level, max_items, max_leaves, malform_leaves, &p_datum),
			UnitRef::Hostile(u) => run_hostile_unit(u, h_len, h_cap, &p_datum),
			UnitRef::Single(i, c) => run_single(*i, c, &p_single),
			UnitRef::File(i, c) => run_file(*i, c, &p_file),
		})
		.collect();
	for (c, v) in results {
		rep.cover.merge(c);
		rep.violations.extend(v);
	}
	rep.extra.insert("schemas_valid".into(), json!(vu.len()));
	rep.extra.insert("schemas_hostile".into(), json!(hu.len()));
	rep.extra.insert("single_object_inputs".into(), json!(sc.len()));
	rep.extra.insert("container_files".into(), json!(fc.len()));
	let c = |k: &str| rep.cover.counters.get(k).copied().unwrap_or(0);
	for k in ["runs_with_bytewise_varint_fallback", "runs_with_scratch_buffer_copy", "runs_where_the_following_datum_was_read_back", "inputs_with_all_compositions", "inputs_with_deviation_bounded_cuts", "single_object_slice_ok", "single_object_slice_err", "hostile_tree_nodes"] {
		if c(k) == 0 {
			eprintln!("MACHINERY: C11 vacuity guard: counter {k} is 0");
			std::process::exit(2);
		}
	}
	for codec in CODECS {
		if c(&format!("container_slice_complete_{codec}")) == 0 {
			eprintln!("MACHINERY: C11 vacuity guard: no {codec} container file was read completely from a slice");
			std::process::exit(2);
		}
	}
}

pub fn replay(v: &Value) -> i32 {
	let r = &v["replay"];
	println!("replaying: {}", crate::report::truncate(v["what"].as_str().unwrap_or(""), 400));
	let env = Env_::from_json(&r["env"]);
	match r["kind"].as_str().unwrap_or("") {
		"valid" => {
			let level = r["level"].as_u64().unwrap() as usize;
			let us = valid_units(level);
			let u = &us[r["unit"].as_u64().unwrap() as usize];
			let text = gen::schema_text(&u.schema);
			if text != r["schema"].as_str().unwrap_or("") {
				eprintln!("unit does not match the recorded schema");
				return 2;
			}
			let menv = Env::new(&u.schema);
			let cs = gen::to_crate_schema(&u.schema).unwrap();
			let choices: Vec<usize> = r["choices"].as_array().unwrap().iter().map(|c| c.as_u64().unwrap() as usize).collect();
			let mut ch = Chooser::replay(choices);
			let mut cover = Cover::default();
			let mut out = Vec::new();
			let mut sink = Sink { cover: &mut cover, out: &mut out, per_class: Default::default() };
			let (p, _, _) = plans(false);
			let tname = r["target"].as_str().unwrap_or("any").to_owned();
			valid_leaf(u, level, &cs, &menv, &text, &mut ch, r["max_items"].as_u64().unwrap_or(2) as usize, &p, true, Some((r["layout"].as_u64().unwrap() as usize, &tname, &env)), &mut sink);
			for v in &out {
				println!("  [{}] {}", v.class, v.what);
			}
			if out.is_empty() {
				0
			} else {
				1
			}
		}
		"hostile" => {
			let us = hostile_units();
			let u = &us[r["unit"].as_u64().unwrap() as usize];
			if gen::schema_text(&u.schema) != r["schema"].as_str().unwrap_or("") {
				eprintln!("unit does not match the recorded schema");
				return 2;
			}
			let cs = gen::to_crate_schema(&u.schema).unwrap();
			let t = hostile_targets(u)[r["target_index"].as_u64().unwrap() as usize].clone();
			let input = unhex(r["input"].as_str().unwrap());
			let sref = de_slice(&cs, &input, &t, &limits_for(input.len()), true);
			let rr = run_reader(&cs, &input, &t, &env);
			println!("  input [{}] target {} {}", hex(&input), target_label(u, r["target_index"].as_u64().unwrap() as usize), env.describe());
			println!("  slice : {} consumed {} following {:?}", show_out(&sref.out), sref.consumed, sref.sentinel);
			println!("  reader: {} consumed {} following {:?} (byte-wise varint fallbacks {}, scratch copies {})", show_out(&rr.out), rr.consumed, rr.sentinel, rr.varint_fallbacks, rr.scratch_copies);
			match compare(&sref, &rr) {
				Some((class, msg)) => {
					println!("  [{class}] {msg}");
					1
				}
				None => 0,
			}
		}
		"single" => {
			let cases = single_cases();
			let c = &cases[r["case"].as_u64().unwrap() as usize];
			if hex(&c.input) != r["input"].as_str().unwrap_or("") {
				eprintln!("case does not match the recorded input");
				return 2;
			}
			let cs = gen::to_crate_schema(&c.schema).unwrap();
			let sref = single_slice(&cs, &c.input);
			let rr = single_reader(&cs, &c.input, &env);
			println!("  input [{}] {}", hex(&c.input), env.describe());
			println!("  slice : {} consumed {}", show_out(&sref.0), sref.1);
			println!("  reader: {} consumed {}", show_out(&rr.out), rr.consumed);
			match compare_single(&sref, &rr) {
				Some((class, msg)) => {
					println!("  [{class}] {msg}");
					1
				}
				None => 0,
			}
		}
		"container" => {
			let cases = file_cases();
			let c = &cases[r["case"].as_u64().unwrap() as usize];
			let hint = if c.ignored { Hint::Ignored } else { Hint::Any };
			let sref = file_slice(&c.bytes, &hint);
			let (steps, consumed) = file_reader(&c.bytes, &env, &hint);
			println!("  {} ({} bytes) {}", c.desc, c.bytes.len(), env.describe());
			println!("  slice : {}", describe_steps(&sref));
			println!("  reader: {} (consumed {consumed} bytes)", describe_steps(&steps));
			if !same_outcome(&sref, &steps) || (matches!(sref.last(), Some(Step::End)) && consumed != c.bytes.len()) {
				println!("  [container-differs]");
				1
			} else {
				0
			}
		}
		other => {
			eprintln!("unknown replay kind {other:?}");
			2
		}
	}
}

#[allow(dead_code)]
fn _unused(_: &Val) {}
