//! HIST — explicit-state exploration of API histories on one `SchemaMut` and its clone:
//! fingerprint(), serde_json::to_string(), clone, edits through nodes_mut(), freeze.
//! Invariant after every operation: what the object reports equals what a FRESH
//! `SchemaMut::from_nodes(current nodes)` reports and what the reference model computes for the
//! current nodes (a parsed, never edited object reports its original document on freeze).
//! Used by C08 (fingerprints) and C09 (JSON).

use crate::explore::{bfs, hash64, Cover};
use crate::ggen::{self, GKind, GNode};
use crate::report::Violation;
use crate::subj::{guarded, Out};
use rayon::prelude::*;
use serde_avro_fast::schema::{Name, RegularType, SchemaMut};
use serde_json::json;
use vmodel::crc::fingerprint_le;
use vmodel::schema::{pcf, resolve_text, ResolveCfg};

#[derive(Clone, Copy, Debug, PartialEq, Eq, Hash)]
pub enum Op {
	/// canonical_form_rabin_fingerprint() on slot
	Fp(u8),
	/// serde_json::to_string(&slot)
	Json(u8),
	/// slot.freeze() (consumes the slot) -> rabin_fingerprint(), json()
	Freeze(u8),
	/// edit k through slot.nodes_mut()
	Edit(u8, u8),
	/// B = A.clone()
	CloneAB,
	/// slot.clone_from(&other slot)
	CloneFrom(u8),
}

pub const N_EDITS: u8 = 5;

pub fn op_name(op: &Op) -> String {
	let slot = |s: &u8| if *s == 0 { "a" } else { "b" };
	match op {
		Op::Fp(s) => format!("{}.canonical_form_rabin_fingerprint()", slot(s)),
		Op::Json(s) => format!("serde_json::to_string(&{})", slot(s)),
		Op::Freeze(s) => format!("{}.freeze()", slot(s)),
		Op::Edit(s, k) => format!("{}.nodes_mut():{}", slot(s), ["no change", "rename first field", "add symbol", "fixed size + 1", "rename first named type (alternately to q.Q and, via Name::from_fully_qualified_name(\".Q\"), to the null-namespace Q)"][*k as usize]),
		Op::CloneAB => "b = a.clone()".into(),
		Op::CloneFrom(0) => "a.clone_from(&b)".into(),
		Op::CloneFrom(_) => "b.clone_from(&a)".into(),
	}
}

pub fn all_ops() -> Vec<Op> {
	let mut v = vec![Op::CloneAB, Op::CloneFrom(0), Op::CloneFrom(1)];
	for s in 0..2u8 {
		v.push(Op::Fp(s));
		v.push(Op::Json(s));
		v.push(Op::Freeze(s));
		for k in 0..N_EDITS {
			v.push(Op::Edit(s, k));
		}
	}
	v
}

pub fn op_to_json(op: &Op) -> serde_json::Value {
	match op {
		Op::Fp(s) => json!(["fp", s]),
		Op::Json(s) => json!(["json", s]),
		Op::Freeze(s) => json!(["freeze", s]),
		Op::Edit(s, k) => json!(["edit", s, k]),
		Op::CloneAB => json!(["clone"]),
		Op::CloneFrom(s) => json!(["clone_from", s]),
	}
}

pub fn op_from_json(v: &serde_json::Value) -> Option<Op> {
	let a = v.as_array()?;
	let n = |i: usize| a.get(i).and_then(|x| x.as_u64()).map(|x| x as u8);
	Some(match a.first()?.as_str()? {
		"fp" => Op::Fp(n(1)?),
		"json" => Op::Json(n(1)?),
		"freeze" => Op::Freeze(n(1)?),
		"edit" => Op::Edit(n(1)?, n(2)?),
		"clone" => Op::CloneAB,
		"clone_from" => Op::CloneFrom(n(1)?),
		_ => return None,
	})
}

#[derive(Clone)]
pub enum Base {
	Parsed(&'static str),
	Built(Vec<GNode>),
}

pub fn bases() -> Vec<(&'static str, Base)> {
	let p = GNode::plain;
	vec![
		(
			"parsed record with enum, fixed, recursion and extra attributes",
			Base::Parsed(r#"{ "type": "record", "name": "R", "namespace": "a", "doc": "kept", "fields": [ {"name": "q", "type": "int", "default": 1}, {"name": "e", "type": {"type": "enum", "name": "E", "symbols": ["B", "A"]}}, {"name": "f", "type": {"type": "fixed", "name": "b.F", "size": 3}}, {"name": "next", "type": ["null", "R"]} ] }"#),
		),
		(
			"built record with enum and fixed",
			Base::Built(vec![p(GKind::Record("N0".into(), vec![("f0".into(), 1), ("g".into(), 2), ("h".into(), 1)])), p(GKind::Enum("a.N1".into(), vec!["B".into(), "A".into()])), p(GKind::Fixed("N2".into(), 2))]),
		),
		(
			"built array on a cycle through a record",
			Base::Built(vec![p(GKind::Array(1)), p(GKind::Record("a.N1".into(), vec![("f0".into(), 0), ("e".into(), 2)])), p(GKind::Enum("N2".into(), vec![]))]),
		),
		("parsed enum without symbols", Base::Parsed(r#"{"type":"enum","name":"b.E","symbols":[]}"#)),
		("built fixed", Base::Built(vec![p(GKind::Fixed("a.b.F".into(), 16))])),
		(
			"built record with a field of every primitive kind",
			Base::Built(vec![
				p(GKind::Record("a.P".into(), vec![("b".into(), 1), ("f".into(), 2), ("d".into(), 3), ("n".into(), 4), ("l".into(), 5), ("y".into(), 6), ("s".into(), 7), ("i".into(), 8)])),
				p(GKind::Boolean),
				p(GKind::Float),
				p(GKind::Double),
				p(GKind::Null),
				GNode { kind: GKind::Long, logical: Some(vmodel::schema::Logical::TimestampMicros) },
				GNode { kind: GKind::Bytes, logical: Some(vmodel::schema::Logical::Decimal { precision: 5, scale: 2 }) },
				GNode { kind: GKind::Str, logical: Some(vmodel::schema::Logical::Unknown("x-custom".into())) },
				p(GKind::Int),
			]),
		),
	]
}

struct Slot {
	sm: SchemaMut,
	/// the model's own copy of the nodes (names as the edits MEAN them, not as the crate reports)
	model: Vec<GNode>,
	/// `Some(minified original)` while the object still is the parsed, never edited schema
	original: Option<String>,
}

fn make(base: &Base) -> Slot {
	match base {
		Base::Parsed(text) => {
			let sm: SchemaMut = text.parse().unwrap_or_else(|e| {
				eprintln!("MACHINERY: history base {text} does not parse: {e}");
				std::process::exit(2)
			});
			let min = vmodel::json::parse(text).expect("base is JSON").to_min_string();
			let model = ggen::from_crate(sm.nodes()).expect("base nodes are in the alphabet");
			Slot { sm, model, original: Some(min) }
		}
		Base::Built(g) => Slot { sm: SchemaMut::from_nodes(ggen::to_crate(g)), model: g.clone(), original: None },
	}
}

/// Apply edit `k` to the object (through nodes_mut()) and to the model; false when the schema
/// has no node the edit applies to.
fn apply_edit(sm: &mut SchemaMut, model: &mut [GNode], k: u8) -> bool {
	let nodes = sm.nodes_mut();
	match k {
		0 => true,
		1 => {
			for (n, m) in nodes.iter_mut().zip(model.iter_mut()) {
				if let (RegularType::Record(r), GKind::Record(_, mf)) = (&mut n.type_, &mut m.kind) {
					if let (Some(f), Some(mf)) = (r.fields.first_mut(), mf.first_mut()) {
						let new = if mf.0 == "zz" { "yy" } else { "zz" };
						f.name = new.into();
						mf.0 = new.into();
						return true;
					}
				}
			}
			false
		}
		2 => {
			for (n, m) in nodes.iter_mut().zip(model.iter_mut()) {
				if let (RegularType::Enum(e), GKind::Enum(_, ms)) = (&mut n.type_, &mut m.kind) {
					let s = format!("S{}", ms.len());
					e.symbols.push(s.clone());
					ms.push(s);
					return true;
				}
			}
			false
		}
		3 => {
			for (n, m) in nodes.iter_mut().zip(model.iter_mut()) {
				if let (RegularType::Fixed(f), GKind::Fixed(_, ms)) = (&mut n.type_, &mut m.kind) {
					f.size += 1;
					*ms += 1;
					return true;
				}
			}
			false
		}
		_ => {
			// alternates between q.Q and the null-namespace Q, the latter said as ".Q"
			for (n, m) in nodes.iter_mut().zip(model.iter_mut()) {
				if let Some(name) = n.type_.name_mut() {
					let mname = match &mut m.kind {
						GKind::Record(nm, _) | GKind::Enum(nm, _) | GKind::Fixed(nm, _) => nm,
						_ => return false,
					};
					if mname == "q.Q" {
						*name = Name::from_fully_qualified_name(".Q");
						*mname = "Q".into();
					} else {
						*name = Name::from_fully_qualified_name("q.Q");
						*mname = "q.Q".into();
					}
					return true;
				}
			}
			false
		}
	}
}

/// What the reference says about the current nodes (the model's copy): fingerprint, the JSON a
/// fresh object renders, the canonical form, and whether that rendering denotes the model.
fn expected(slot: &Slot) -> Result<([u8; 8], String, String, Result<(), String>), String> {
	let ast = ggen::unfold(&slot.model);
	let text = pcf(&ast);
	let fresh = SchemaMut::from_nodes(slot.sm.nodes().to_vec());
	let fresh_json = serde_json::to_string(&fresh).map_err(|e| format!("fresh object does not render: {e}"))?;
	let denotes = match resolve_text(&fresh_json, &ResolveCfg { allow_forward: false, allow_leading_dot: true }) {
		Ok(back) if back == ast => Ok(()),
		other => Err(format!("the rendering {fresh_json} does not denote the current nodes {text}: the reference resolver reads it as {other:?}")),
	};
	Ok((fingerprint_le(text.as_bytes()), fresh_json, text, denotes))
}

#[derive(Clone, Copy, PartialEq)]
pub enum Judge {
	Fingerprint,
	Json,
}

/// Replay a history on fresh objects. Returns (exact key, invariant of the LAST operation,
/// expandable). Histories that address a missing slot or an inapplicable edit are invalid
/// (one shared key, not expanded).
pub fn run_history(base: &Base, hist: &[Op], judge: Judge) -> (u64, Result<(), String>, bool) {
	const INVALID: u64 = u64::MAX;
	let mut slots: [Option<Slot>; 2] = [Some(make(base)), None];
	let mut results: Vec<String> = Vec::new();
	let mut verdict: Result<(), String> = Ok(());
	for (i, op) in hist.iter().enumerate() {
		let last = i + 1 == hist.len();
		let mut check = |relevant: Judge, ok: bool, msg: String| {
			if last && relevant == judge && !ok && verdict.is_ok() {
				verdict = Err(msg);
			}
		};
		match *op {
			Op::CloneAB => {
				let Some(a) = &slots[0] else { return (INVALID, Ok(()), false) };
				slots[1] = Some(Slot { sm: a.sm.clone(), model: a.model.clone(), original: a.original.clone() });
				results.push("clone".into());
			}
			Op::CloneFrom(d) => {
				let (l, r) = slots.split_at_mut(1);
				let (dst, src) = if d == 0 { (&mut l[0], &r[0]) } else { (&mut r[0], &l[0]) };
				let (Some(dst), Some(src)) = (dst.as_mut(), src.as_ref()) else { return (INVALID, Ok(()), false) };
				dst.sm.clone_from(&src.sm);
				dst.model = src.model.clone();
				dst.original = src.original.clone();
				results.push("clone_from".into());
			}
			Op::Edit(s, k) => {
				let Some(slot) = slots[s as usize].as_mut() else { return (INVALID, Ok(()), false) };
				if !apply_edit(&mut slot.sm, &mut slot.model, k) {
					return (INVALID, Ok(()), false);
				}
				slot.original = None;
				results.push("edit".into());
			}
			Op::Fp(s) => {
				let Some(slot) = slots[s as usize].as_ref() else { return (INVALID, Ok(()), false) };
				let (want, _, text, _) = match expected(slot) {
					Ok(x) => x,
					Err(e) => return (hash64(&(hist, "machinery")), Err(format!("MACHINERY: {e}")), false),
				};
				let got = guarded(|| slot.sm.canonical_form_rabin_fingerprint().map_err(|e| e.to_string()));
				check(Judge::Fingerprint, got == Out::Ok(want), format!("canonical_form_rabin_fingerprint() = {got:02x?}, but the current nodes have canonical form {text}, fingerprint {want:02x?} (what a fresh SchemaMut::from_nodes(current nodes) reports: {:02x?})", SchemaMut::from_nodes(slot.sm.nodes().to_vec()).canonical_form_rabin_fingerprint().ok()));
				results.push(format!("{got:?}"));
			}
			Op::Json(s) => {
				let Some(slot) = slots[s as usize].as_ref() else { return (INVALID, Ok(()), false) };
				let (_, want, _, denotes) = match expected(slot) {
					Ok(x) => x,
					Err(e) => return (hash64(&(hist, "machinery")), Err(format!("MACHINERY: {e}")), false),
				};
				let got = guarded(|| serde_json::to_string(&slot.sm).map_err(|e| e.to_string()));
				if let Err(e) = &denotes {
					check(Judge::Json, false, e.clone());
				}
				check(Judge::Json, got == Out::Ok(want.clone()), format!("serde_json::to_string = {got:?}, a fresh SchemaMut::from_nodes(current nodes) renders {want}"));
				results.push(format!("{got:?}"));
			}
			Op::Freeze(s) => {
				let Some(slot) = slots[s as usize].take() else { return (INVALID, Ok(()), false) };
				let (want_fp, fresh_json, text, _) = match expected(&slot) {
					Ok(x) => x,
					Err(e) => return (hash64(&(hist, "machinery")), Err(format!("MACHINERY: {e}")), false),
				};
				let want_json = slot.original.clone().unwrap_or(fresh_json);
				let slot_model = slot.model.clone();
				let sm = slot.sm;
				let got = guarded(|| sm.freeze().map(|f| (*f.rabin_fingerprint(), f.json().to_owned())).map_err(|e| e.to_string()));
				match &got {
					Out::Ok((fp, js)) => {
						check(Judge::Fingerprint, *fp == want_fp, format!("freeze().rabin_fingerprint() = {fp:02x?}, but the current nodes have canonical form {text}, fingerprint {want_fp:02x?}"));
						// never edited: the original document, key by key; otherwise: any document that
						// denotes the current nodes (the property asks for no particular text)
						let ok = if slot.original.is_some() {
							match (vmodel::json::parse(js), vmodel::json::parse(&want_json)) {
								(Ok(a), Ok(b)) => crate::sgen::json_same(&a, &b),
								_ => false,
							}
						} else {
							let cur = ggen::unfold(&slot_model);
							matches!(resolve_text(js, &ResolveCfg { allow_forward: false, allow_leading_dot: true }), Ok(back) if back == cur)
						};
						check(Judge::Json, ok, format!("freeze().json() = {js}, expected {} {want_json}", if slot.original.is_some() { "the original document (the object was never edited):" } else { "a document denoting the current nodes, such as what a fresh SchemaMut::from_nodes(current nodes) renders:" }));
					}
					other => {
						check(Judge::Fingerprint, false, format!("freeze() = {other:?}"));
						check(Judge::Json, false, format!("freeze() = {other:?}"));
					}
				}
				results.push(format!("{got:?}"));
			}
		}
	}
	(hash64(&(hist, &results)), verdict, true)
}

fn interesting(hist: &[Op]) -> bool {
	// observation or clone, then an edit, then an observation
	let obs = |o: &Op| matches!(o, Op::Fp(_) | Op::Json(_) | Op::Freeze(_) | Op::CloneAB | Op::CloneFrom(_));
	(0..hist.len()).any(|i| obs(&hist[i]) && (i + 1..hist.len()).any(|j| matches!(hist[j], Op::Edit(..)) && (j + 1..hist.len()).any(|k| obs(&hist[k]) && !matches!(hist[k], Op::CloneAB | Op::CloneFrom(_)))))
}

/// Explore all histories up to `depth` operations over every base.
pub fn explore_histories(check: &str, depth: usize, judge: Judge) -> (Cover, Vec<Violation>) {
	let ops = all_ops();
	let bs = bases();
	let units: Vec<(usize, Op)> = (0..bs.len()).flat_map(|b| ops.iter().map(move |o| (b, *o))).collect();
	let results: Vec<(Cover, Vec<Violation>)> = units
		.par_iter()
		.map(|(bi, first)| {
			let (label, base) = &bs[*bi];
			let mut cover = Cover::default();
			let mut out = Vec::new();
			let mut nontrivial: Vec<u64> = Vec::new();
			let (res, capped) = bfs(&ops, depth - 1, u64::MAX, |h: &[Op]| {
				let mut full = vec![*first];
				full.extend_from_slice(h);
				let (k, inv, expandable) = run_history(base, &full, judge);
				if expandable && interesting(&full) {
					nontrivial.push(hash64(&(bi, &full)));
				}
				(k, inv, expandable)
			});
			cover.states += res.states;
			cover.transitions += res.transitions + 1;
			cover.evaluations += res.transitions + 1;
			cover.impl_runs += res.transitions + 1;
			cover.nontrivial.extend(nontrivial);
			cover.count("history_states", res.states);
			cover.count("histories_observe_edit_observe", cover.nontrivial.len() as u64);
			if capped {
				cover.caps.push(format!("histories on base {label} starting with {}: state cap", op_name(first)));
			}
			for (h, msg) in res.violations {
				let mut full = vec![*first];
				full.extend_from_slice(&h);
				if msg.starts_with("MACHINERY") {
					eprintln!("{msg} (base {label}, history {:?})", full.iter().map(op_name).collect::<Vec<_>>());
					std::process::exit(2);
				}
				let names: Vec<String> = full.iter().map(op_name).collect();
				out.push(Violation {
					class: match judge {
						Judge::Fingerprint => "history-stale-fingerprint".into(),
						Judge::Json => "history-stale-json".into(),
					},
					what: format!("history on one SchemaMut ({label}): {} — after the last operation: {msg}", names.join("; ")),
					replay: json!({"check": check, "kind": "history", "base": bi, "ops": full.iter().map(op_to_json).collect::<Vec<_>>()}),
				});
			}
			(cover, out)
		})
		.collect();
	let mut cover = Cover::default();
	let mut out = Vec::new();
	for (c, v) in results {
		cover.merge(c);
		out.extend(v);
	}
	cover.outcomes.insert(hash64(&("histories", cover.states)));
	(cover, out)
}

pub fn replay_history(v: &serde_json::Value, judge: Judge) -> i32 {
	let bs = bases();
	let bi = v["base"].as_u64().unwrap_or(0) as usize;
	let Some((label, base)) = bs.get(bi) else {
		eprintln!("no such base");
		return 2;
	};
	let ops: Vec<Op> = v["ops"].as_array().map(|a| a.iter().filter_map(op_from_json).collect()).unwrap_or_default();
	println!("base: {label}");
	let mut code = 0;
	for n in 1..=ops.len() {
		let (_, inv, _) = run_history(base, &ops[..n], judge);
		println!("  {} -> {}", op_name(&ops[n - 1]), match &inv {
			Ok(()) => "ok".to_owned(),
			Err(e) => format!("VIOLATION: {e}"),
		});
		if inv.is_err() {
			code = 1;
		}
	}
	if code == 0 {
		println!("no violation");
	}
	code
}
