//! C05 — container-file round trip: codec x level x approx_block_size x flush/push pattern x
//! reader kind. Every file is written by the crate's `Writer` (sync marker pinned), parsed by
//! the independent `vmodel::container::cf_parse`, and read back by the crate's `Reader` through
//! every reader kind. Cases run in single-threaded worker subprocesses (`vcheck worker C05 …`)
//! so that an abort (allocation failure, stack overflow, hang) is attributed to one case.

use crate::envs::ChunkedBufRead;
use crate::explore::{hash64, Cover};
use crate::report::{truncate, Report, Violation};
use crate::subj::{guarded, Out};
use rayon::prelude::*;
use serde::ser::SerializeStruct;
use serde::{Deserialize, Serialize};
use serde_avro_fast::de::read::take::Take;
use serde_avro_fast::de::read::{ReadSlice, ReaderRead, SliceRead};
use serde_avro_fast::object_container_file_encoding::{Compression, CompressionLevel, Reader, WriterBuilder};
use serde_avro_fast::ser::SerializerConfig;
use serde_json::{json, Value};
use std::collections::{BTreeMap, BTreeSet};
use std::io::Write as _;
use std::panic::{catch_unwind, AssertUnwindSafe};
use vmodel::container::cf_parse;

#[path = "c05_api.rs"]
pub mod api;
#[path = "c05_leaf.rs"]
pub mod leaf;

/// The pinned sync marker (does not occur in any header this check produces).
pub const SYNC: [u8; 16] = [0xC5, 0x05, 0x5A, 0xA5, 0x00, 0xFF, 0x10, 0x01, 0x7E, 0x81, 0x33, 0xCC, 0x0D, 0x0A, 0xFE, 0xED];

// ---------------------------------------------------------------------------------------------
// configuration alphabet

#[derive(Clone, Copy, Debug, PartialEq, Eq, Hash, PartialOrd, Ord, Serialize, Deserialize)]
pub enum Codec {
	Null,
	Deflate,
	Bzip2,
	Snappy,
	Xz,
	Zstd,
}

impl Codec {
	pub const ALL: [Codec; 6] = [Codec::Null, Codec::Deflate, Codec::Bzip2, Codec::Snappy, Codec::Xz, Codec::Zstd];
	/// the codec's name in the specification
	pub fn name(self) -> &'static str {
		match self {
			Codec::Null => "null",
			Codec::Deflate => "deflate",
			Codec::Bzip2 => "bzip2",
			Codec::Snappy => "snappy",
			Codec::Xz => "xz",
			Codec::Zstd => "zstandard",
		}
	}
	pub fn has_levels(self) -> bool {
		!matches!(self, Codec::Null | Codec::Snappy)
	}
	pub fn slow(self) -> bool {
		matches!(self, Codec::Bzip2 | Codec::Xz)
	}
}

/// level 0 = the codec's default
pub fn compression(c: Codec, level: u8) -> Compression {
	let lv = if level == 0 { CompressionLevel::default() } else { CompressionLevel::new(level) };
	match c {
		Codec::Null => Compression::Null,
		Codec::Deflate => Compression::Deflate { level: lv },
		Codec::Bzip2 => Compression::Bzip2 { level: lv },
		Codec::Snappy => Compression::Snappy,
		Codec::Xz => Compression::Xz { level: lv },
		Codec::Zstd => Compression::Zstandard { level: lv },
	}
}

#[derive(Clone, Copy, Debug, PartialEq, Eq, Hash, PartialOrd, Ord, Serialize, Deserialize)]
pub enum Sk {
	Bytes,
	Long,
	Str,
	Rec,
	Null,
	/// array<long>
	ArrLong,
	/// record{xs: array<int>, m: map<string>}
	RecColl,
}

impl Sk {
	pub const ALL: [Sk; 5] = [Sk::Bytes, Sk::Long, Sk::Str, Sk::Rec, Sk::Null];
	/// schemas whose values contain collections
	pub const COLL: [Sk; 2] = [Sk::ArrLong, Sk::RecColl];
	pub fn is_coll(self) -> bool {
		matches!(self, Sk::ArrLong | Sk::RecColl)
	}
	pub fn json(self) -> &'static str {
		match self {
			Sk::Bytes => "\"bytes\"",
			Sk::Long => "\"long\"",
			Sk::Str => "\"string\"",
			Sk::Rec => "{\"type\":\"record\",\"name\":\"R\",\"fields\":[{\"name\":\"a\",\"type\":\"long\"},{\"name\":\"b\",\"type\":\"string\"}]}",
			Sk::Null => "\"null\"",
			Sk::ArrLong => "{\"type\":\"array\",\"items\":\"long\"}",
			Sk::RecColl => "{\"type\":\"record\",\"name\":\"C\",\"fields\":[{\"name\":\"xs\",\"type\":{\"type\":\"array\",\"items\":\"int\"}},{\"name\":\"m\",\"type\":{\"type\":\"map\",\"values\":\"string\"}}]}",
		}
	}
	pub fn label(self) -> &'static str {
		match self {
			Sk::Bytes => "bytes",
			Sk::Long => "long",
			Sk::Str => "string",
			Sk::Rec => "record{a:long,b:string}",
			Sk::Null => "null(zero-byte datums)",
			Sk::ArrLong => "array<long>",
			Sk::RecColl => "record{xs:array<int>,m:map<string>}",
		}
	}
}

// ---------------------------------------------------------------------------------------------
// values

#[derive(Clone, PartialEq, Eq, Hash)]
pub enum Val {
	Bytes(Vec<u8>),
	Long(i64),
	Str(String),
	Rec(i64, String),
	Null,
	Arr(Vec<i64>),
	Coll(Vec<i32>, BTreeMap<String, String>),
}

impl Val {
	/// size of the largest array/map inside the value
	pub fn max_collection_len(&self) -> usize {
		match self {
			Val::Arr(v) => v.len(),
			Val::Coll(xs, m) => xs.len().max(m.len()),
			_ => 0,
		}
	}
}

impl std::fmt::Debug for Val {
	fn fmt(&self, f: &mut std::fmt::Formatter<'_>) -> std::fmt::Result {
		match self {
			Val::Bytes(b) if b.len() > 24 => write!(f, "Bytes(len={}, hash={:016x})", b.len(), hash64(b)),
			Val::Bytes(b) => write!(f, "Bytes({})", crate::report::hex(b)),
			Val::Long(n) => write!(f, "Long({n})"),
			Val::Str(s) if s.len() > 24 => write!(f, "Str(len={}, hash={:016x})", s.len(), hash64(s)),
			Val::Str(s) => write!(f, "Str({s:?})"),
			Val::Rec(a, s) if s.len() > 24 => write!(f, "Rec(a={a}, b: len={}, hash={:016x})", s.len(), hash64(s)),
			Val::Rec(a, s) => write!(f, "Rec(a={a}, b={s:?})"),
			Val::Null => write!(f, "Null"),
			Val::Arr(v) if v.len() > 6 => write!(f, "Arr({} longs, hash={:016x})", v.len(), hash64(v)),
			Val::Arr(v) => write!(f, "Arr({v:?})"),
			Val::Coll(xs, m) if xs.len() > 6 || m.len() > 3 => write!(f, "Coll(xs: {} ints, m: {} entries, hash={:016x})", xs.len(), m.len(), hash64(&(xs, m))),
			Val::Coll(xs, m) => write!(f, "Coll(xs={xs:?}, m={m:?})"),
		}
	}
}

impl Serialize for Val {
	fn serialize<S: serde::Serializer>(&self, s: S) -> Result<S::Ok, S::Error> {
		match self {
			Val::Bytes(b) => s.serialize_bytes(b),
			Val::Long(n) => s.serialize_i64(*n),
			Val::Str(x) => s.serialize_str(x),
			Val::Rec(a, b) => {
				let mut st = s.serialize_struct("R", 2)?;
				st.serialize_field("a", a)?;
				st.serialize_field("b", b)?;
				st.end()
			}
			Val::Null => s.serialize_unit(),
			Val::Arr(v) => s.collect_seq(v.iter()),
			Val::Coll(xs, m) => {
				let mut st = s.serialize_struct("C", 2)?;
				st.serialize_field("xs", xs)?;
				st.serialize_field("m", m)?;
				st.end()
			}
		}
	}
}

#[derive(Deserialize)]
pub struct CollT {
	pub xs: Vec<i32>,
	pub m: BTreeMap<String, String>,
}

#[derive(Deserialize)]
pub struct RecT {
	pub a: i64,
	pub b: String,
}

/// Reference encoding of one datum (Avro binary encoding, from the specification).
pub fn enc(v: &Val, out: &mut Vec<u8>) {
	enc_layout(v, 0, false, out)
}

/// blocks of an array/map: `chunk` items per block (0 = all in one block), `sized` = negative count + byte size
fn enc_blocks(n: usize, chunk: usize, sized: bool, out: &mut Vec<u8>, mut item: impl FnMut(usize, &mut Vec<u8>)) {
	use vmodel::value::write_long;
	let chunk = if chunk == 0 { n.max(1) } else { chunk };
	let mut i = 0;
	while i < n {
		let k = chunk.min(n - i);
		let mut body = Vec::new();
		for j in i..i + k {
			item(j, &mut body);
		}
		if sized {
			write_long(-(k as i64), out);
			write_long(body.len() as i64, out);
		} else {
			write_long(k as i64, out);
		}
		out.extend_from_slice(&body);
		i += k;
	}
	write_long(0, out);
}

/// Reference encoding with a chosen block layout for the arrays/maps inside the value.
pub fn enc_layout(v: &Val, chunk: usize, sized: bool, out: &mut Vec<u8>) {
	use vmodel::value::write_long;
	match v {
		Val::Arr(xs) => enc_blocks(xs.len(), chunk, sized, out, |j, o| write_long(xs[j], o)),
		Val::Coll(xs, m) => {
			enc_blocks(xs.len(), chunk, sized, out, |j, o| write_long(xs[j] as i64, o));
			let pairs: Vec<(&String, &String)> = m.iter().collect();
			enc_blocks(pairs.len(), chunk, sized, out, |j, o| {
				write_long(pairs[j].0.len() as i64, o);
				o.extend_from_slice(pairs[j].0.as_bytes());
				write_long(pairs[j].1.len() as i64, o);
				o.extend_from_slice(pairs[j].1.as_bytes());
			});
		}
		Val::Bytes(b) => {
			write_long(b.len() as i64, out);
			out.extend_from_slice(b);
		}
		Val::Long(n) => write_long(*n, out),
		Val::Str(s) => {
			write_long(s.len() as i64, out);
			out.extend_from_slice(s.as_bytes());
		}
		Val::Rec(a, s) => {
			write_long(*a, out);
			write_long(s.len() as i64, out);
			out.extend_from_slice(s.as_bytes());
		}
		Val::Null => {}
	}
}

pub fn rd_long(b: &[u8], i: &mut usize) -> Result<i64, String> {
	let mut u: u64 = 0;
	let mut shift = 0u32;
	loop {
		let Some(&x) = b.get(*i) else { return Err(format!("premature end of block data at {}", *i)) };
		*i += 1;
		if shift >= 64 {
			return Err("varint too long".into());
		}
		u |= ((x & 0x7f) as u64) << shift;
		shift += 7;
		if x & 0x80 == 0 {
			return Ok(vmodel::value::unzigzag(u));
		}
	}
}

fn rd_len_bytes<'a>(b: &'a [u8], i: &mut usize) -> Result<&'a [u8], String> {
	let n = rd_long(b, i)?;
	if n < 0 || (n as u64) > (b.len() - *i) as u64 {
		return Err(format!("length {n} at {} exceeds the block data", *i));
	}
	let s = &b[*i..*i + n as usize];
	*i += n as usize;
	Ok(s)
}

/// blocks of an array/map (any layout): calls `item` once per element
fn rd_blocks(b: &[u8], i: &mut usize, mut item: impl FnMut(&[u8], &mut usize) -> Result<(), String>) -> Result<(), String> {
	loop {
		let n = rd_long(b, i)?;
		if n == 0 {
			return Ok(());
		}
		let count = if n < 0 {
			let _size = rd_long(b, i)?;
			n.unsigned_abs()
		} else {
			n as u64
		};
		for _ in 0..count {
			item(b, i)?;
		}
	}
}

fn rd_string(b: &[u8], i: &mut usize) -> Result<String, String> {
	Ok(std::str::from_utf8(rd_len_bytes(b, i)?).map_err(|e| e.to_string())?.to_owned())
}

/// Reference decoding of a block: exactly `count` datums that use exactly `data`.
pub fn dec_block(sk: Sk, data: &[u8], count: u64) -> Result<Vec<Val>, String> {
	let mut i = 0usize;
	let mut out = Vec::new();
	for _ in 0..count {
		let v = match sk {
			Sk::Bytes => Val::Bytes(rd_len_bytes(data, &mut i)?.to_vec()),
			Sk::Long => Val::Long(rd_long(data, &mut i)?),
			Sk::Str => Val::Str(std::str::from_utf8(rd_len_bytes(data, &mut i)?).map_err(|e| e.to_string())?.to_owned()),
			Sk::Rec => {
				let a = rd_long(data, &mut i)?;
				let s = std::str::from_utf8(rd_len_bytes(data, &mut i)?).map_err(|e| e.to_string())?.to_owned();
				Val::Rec(a, s)
			}
			Sk::Null => Val::Null,
			Sk::ArrLong => {
				let mut xs = Vec::new();
				rd_blocks(data, &mut i, |b, i| Ok(xs.push(rd_long(b, i)?)))?;
				Val::Arr(xs)
			}
			Sk::RecColl => {
				let mut xs = Vec::new();
				rd_blocks(data, &mut i, |b, i| {
					let n = rd_long(b, i)?;
					xs.push(i32::try_from(n).map_err(|_| format!("int out of range: {n}"))?);
					Ok(())
				})?;
				let mut m = BTreeMap::new();
				rd_blocks(data, &mut i, |b, i| {
					let k = rd_string(b, i)?;
					let v = rd_string(b, i)?;
					if m.insert(k.clone(), v).is_some() {
						return Err(format!("duplicate map key {k:?}"));
					}
					Ok(())
				})?;
				Val::Coll(xs, m)
			}
		};
		out.push(v);
	}
	if i != data.len() {
		return Err(format!("{} datums use {} of the block's {} bytes", count, i, data.len()));
	}
	Ok(out)
}

// deterministic payloads -----------------------------------------------------------------------

pub struct XorShift(u64);
impl XorShift {
	pub fn new(seed: u64) -> Self {
		XorShift(seed.wrapping_mul(0x9E37_79B9_7F4A_7C15) | 1)
	}
	pub fn next(&mut self) -> u64 {
		let mut x = self.0;
		x ^= x << 13;
		x ^= x >> 7;
		x ^= x << 17;
		self.0 = x;
		x
	}
}

/// `inc` = incompressible (xorshift); otherwise a short repeating pattern.
pub fn payload_bytes(seed: u64, n: usize, inc: bool) -> Vec<u8> {
	let mut out = Vec::with_capacity(n + 8);
	if inc {
		let mut r = XorShift::new(seed);
		while out.len() < n {
			out.extend_from_slice(&r.next().to_le_bytes());
		}
		out.truncate(n);
	} else {
		out.extend((0..n).map(|i| (i % 13) as u8 ^ seed as u8));
	}
	out
}

const TEXT: &[u8; 64] = b"ABCDEFGHIJKLMNOPQRSTUVWXYZabcdefghijklmnopqrstuvwxyz0123456789+/";

pub fn payload_text(seed: u64, n: usize, inc: bool) -> String {
	let mut out = Vec::with_capacity(n + 8);
	if inc {
		let mut r = XorShift::new(seed);
		while out.len() < n {
			let mut x = r.next();
			for _ in 0..10 {
				out.push(TEXT[(x & 63) as usize]);
				x >>= 6;
			}
		}
		out.truncate(n);
	} else {
		out.extend((0..n).map(|i| b'a' + ((i as u64 + seed) % 7) as u8));
	}
	String::from_utf8(out).unwrap()
}

fn varint_len(n: i64) -> usize {
	vmodel::value::long_bytes(n).len()
}

/// payload length p with p + |varint(p)| == total, if it exists
fn len_prefixed_payload(total: usize) -> Option<usize> {
	for vl in 1..=5usize {
		if total >= vl {
			let p = total - vl;
			if varint_len(p as i64) == vl {
				return Some(p);
			}
		}
	}
	None
}

/// One datum whose encoding is exactly `s` bytes long (None if no such datum of this schema exists).
pub fn big_val(sk: Sk, s: usize, inc: bool, seed: u64) -> Option<Val> {
	match sk {
		Sk::Bytes => len_prefixed_payload(s).map(|p| Val::Bytes(payload_bytes(seed, p, inc))),
		Sk::Str => len_prefixed_payload(s).map(|p| Val::Str(payload_text(seed, p, inc))),
		Sk::Rec => {
			if s < 2 {
				return None;
			}
			len_prefixed_payload(s - 1).map(|p| Val::Rec((seed % 64) as i64, payload_text(seed, p, inc)))
		}
		Sk::Long => {
			if (1..=10).contains(&s) {
				Some(Val::Long(long_of_len(s, if inc { seed } else { 0 })))
			} else {
				None
			}
		}
		Sk::Null | Sk::ArrLong | Sk::RecColl => None,
	}
}

/// A value of a collection schema with n elements (`big_map`: the map too has n entries).
pub fn coll_val(sk: Sk, n: usize, big_map: bool, seed: u64) -> Option<Val> {
	const INTS: [i32; 8] = [0, -1, 64, -65, 8192, i32::MIN, i32::MAX, 1];
	let mut r = XorShift::new(seed ^ 0xC011);
	match sk {
		Sk::ArrLong => Some(Val::Arr((0..n).map(|i| if i % 3 == 0 { long_of_len(1 + (r.next() % 10) as usize, r.next()) } else { (r.next() % 200) as i64 - 100 }).collect())),
		Sk::RecColl => {
			let xs: Vec<i32> = (0..n).map(|i| if i % 5 == 0 { INTS[(r.next() % 8) as usize] } else { (r.next() % 20000) as i32 - 10000 }).collect();
			let entries = if big_map { n } else { n.min(2) };
			let m: BTreeMap<String, String> = (0..entries).map(|i| (format!("k{i}"), if i % 2 == 0 { "v".to_owned() } else { format!("\u{e9}{}", r.next() % 1000) })).collect();
			Some(Val::Coll(xs, m))
		}
		_ => None,
	}
}

/// a long whose zig-zag varint has exactly k bytes
fn long_of_len(k: usize, seed: u64) -> i64 {
	match k {
		1 => (seed % 64) as i64,
		10 => i64::MIN + (seed % 1000) as i64,
		_ => {
			let base = 1i64 << (7 * (k - 1) - 1);
			base + (seed % (base as u64)) as i64
		}
	}
}

/// Many small datums whose encodings add up to exactly `s` bytes (for `null`: `s` datums).
pub fn run_vals(sk: Sk, s: usize, inc: bool, seed: u64) -> Option<Vec<Val>> {
	let mut r = XorShift::new(seed ^ 0x5bd1e995);
	let mut out = Vec::new();
	let mut left = s;
	match sk {
		Sk::Null => return Some(vec![Val::Null; s]),
		Sk::ArrLong | Sk::RecColl => return None,
		Sk::Long => {
			while left > 10 {
				let k = if inc { 1 + (r.next() % 10) as usize } else { 2 };
				out.push(Val::Long(long_of_len(k, if inc { r.next() } else { 5 })));
				left -= k;
			}
			if left > 0 {
				out.push(Val::Long(long_of_len(left, if inc { r.next() } else { 5 })));
			}
		}
		Sk::Bytes | Sk::Str | Sk::Rec => {
			let min = if sk == Sk::Rec { 2 } else { 1 };
			while left > 63 {
				let k = if inc { 3 + (r.next() % 29) as usize } else { 16 };
				out.push(big_val(sk, k, inc, r.next())?);
				left -= k;
			}
			if left >= min {
				out.push(big_val(sk, left, inc, r.next())?);
			} else if left > 0 {
				return None;
			}
		}
	}
	Some(out)
}

pub fn small_val(sk: Sk, i: usize) -> Val {
	const LONGS: [i64; 10] = [0, -1, 64, -65, 8192, i64::MIN, 1, 63, i64::MAX, -8193];
	const STRS: [&str; 6] = ["", "a", "\u{e9}", "\u{1F600}", "block", "sync\u{0}marker"];
	match sk {
		Sk::Bytes => match i % 5 {
			0 => Val::Bytes(vec![]),
			1 => Val::Bytes(vec![0]),
			2 => Val::Bytes(vec![0xff, 0x00]),
			3 => Val::Bytes(SYNC.to_vec()),
			_ => Val::Bytes(payload_bytes(i as u64, 9, true)),
		},
		Sk::Long => Val::Long(LONGS[i % LONGS.len()]),
		Sk::Str => Val::Str(STRS[i % STRS.len()].to_owned()),
		Sk::Rec => Val::Rec(LONGS[i % LONGS.len()], STRS[(i / 2) % STRS.len()].to_owned()),
		Sk::Null => Val::Null,
		Sk::ArrLong | Sk::RecColl => coll_val(sk, [0usize, 1, 3, 2][i % 4], i % 2 == 1, i as u64).expect("collection schema"),
	}
}

// ---------------------------------------------------------------------------------------------
// file specifications

#[derive(Clone, Debug, PartialEq, Eq, Hash, Serialize, Deserialize)]
pub enum Op {
	/// serialize one small value
	S,
	/// serialize one datum of exactly s encoded bytes
	Big { s: usize, inc: bool },
	/// serialize many small datums adding up to exactly s encoded bytes
	Run { s: usize, inc: bool },
	/// push_serialized(two small pre-serialized objects)
	P,
	/// push_serialized(&[], 0)
	P0,
	/// push_serialized(one pre-serialized datum of exactly s bytes)
	PBig { s: usize, inc: bool },
	/// push_serialized(many small pre-serialized datums adding up to s bytes)
	PRun { s: usize, inc: bool },
	/// finish_block
	F,
	/// serialize n datums of exactly `len` encoded bytes each
	Mid { n: usize, len: usize, inc: bool },
	/// one value of a collection schema with n elements (`map`: the map too has n entries); `push`: through push_serialized
	Coll { n: usize, map: bool, push: bool },
}

impl Op {
	fn short(&self) -> String {
		let k = |inc: &bool| if *inc { "inc" } else { "cmp" };
		match self {
			Op::S => "S".into(),
			Op::Big { s, inc } => format!("Big({s},{})", k(inc)),
			Op::Run { s, inc } => format!("Run({s},{})", k(inc)),
			Op::P => "P".into(),
			Op::P0 => "P0".into(),
			Op::PBig { s, inc } => format!("PBig({s},{})", k(inc)),
			Op::PRun { s, inc } => format!("PRun({s},{})", k(inc)),
			Op::F => "F".into(),
			Op::Mid { n, len, inc } => format!("Mid({n}x{len},{})", k(inc)),
			Op::Coll { n, map, push } => format!("{}Coll({n} elements{})", if *push { "P" } else { "" }, if *map { ", map too" } else { "" }),
		}
	}
}

#[derive(Clone, Debug, PartialEq, Eq, Hash, Serialize, Deserialize)]
pub struct FileSpec {
	pub codec: Codec,
	/// 0 = default
	pub level: u8,
	pub sk: Sk,
	pub abs: u32,
	pub ops: Vec<Op>,
	/// user metadata variant (C06); 0 = none (`build`)
	#[serde(default)]
	pub meta: u8,
	/// true: an "API variants" case (c05_api.rs): the same history through the other public entry
	/// points of the writer and the reader
	#[serde(default)]
	pub api: bool,
}

impl FileSpec {
	pub fn label(&self) -> String {
		format!(
			"codec={} level={} schema={} approx_block_size={} ops=[{}]{}",
			self.codec.name(),
			if self.level == 0 { "default".to_owned() } else { self.level.to_string() },
			self.sk.label(),
			self.abs,
			self.ops.iter().map(|o| o.short()).collect::<Vec<_>>().join(","),
			if self.meta == 0 { String::new() } else { format!(" user_metadata=#{}", self.meta) }
		) + if self.api { " [API variants]" } else { "" }
	}
}

pub enum Step {
	Ser(Val),
	Push(Vec<Val>),
	Finish,
}

impl Step {
	fn kind(&self) -> &'static str {
		match self {
			Step::Ser(_) => "serialize",
			Step::Push(_) => "push_serialized",
			Step::Finish => "finish_block",
		}
	}
	fn short(&self) -> String {
		match self {
			Step::Ser(v) => format!("serialize({v:?})"),
			Step::Push(vs) => format!("push_serialized({} objects)", vs.len()),
			Step::Finish => "finish_block()".into(),
		}
	}
}

/// Expand the operations into writer calls. None: a requested size does not exist for the schema.
pub fn plan(spec: &FileSpec) -> Option<(Vec<Step>, Vec<Val>)> {
	let mut steps = Vec::new();
	let mut expected: Vec<Val> = Vec::new();
	for (oi, op) in spec.ops.iter().enumerate() {
		let seed = (oi as u64 + 1) * 1000 + expected.len() as u64;
		match op {
			Op::S => {
				let v = small_val(spec.sk, expected.len());
				expected.push(v.clone());
				steps.push(Step::Ser(v));
			}
			Op::Big { s, inc } => {
				let v = big_val(spec.sk, *s, *inc, seed)?;
				expected.push(v.clone());
				steps.push(Step::Ser(v));
			}
			Op::Run { s, inc } => {
				for v in run_vals(spec.sk, *s, *inc, seed)? {
					expected.push(v.clone());
					steps.push(Step::Ser(v));
				}
			}
			Op::P => {
				let vs = vec![small_val(spec.sk, expected.len()), small_val(spec.sk, expected.len() + 1)];
				expected.extend(vs.iter().cloned());
				steps.push(Step::Push(vs));
			}
			Op::P0 => steps.push(Step::Push(vec![])),
			Op::PBig { s, inc } => {
				let v = big_val(spec.sk, *s, *inc, seed)?;
				expected.push(v.clone());
				steps.push(Step::Push(vec![v]));
			}
			Op::PRun { s, inc } => {
				let vs = run_vals(spec.sk, *s, *inc, seed)?;
				expected.extend(vs.iter().cloned());
				steps.push(Step::Push(vs));
			}
			Op::F => steps.push(Step::Finish),
			Op::Coll { n, map, push } => {
				let v = coll_val(spec.sk, *n, *map, seed)?;
				expected.push(v.clone());
				steps.push(if *push { Step::Push(vec![v]) } else { Step::Ser(v) });
			}
			Op::Mid { n, len, inc } => {
				for i in 0..*n {
					let v = big_val(spec.sk, *len, *inc, seed * 31 + i as u64)?;
					expected.push(v.clone());
					steps.push(Step::Ser(v));
				}
			}
		}
	}
	Some((steps, expected))
}

/// The block partition a writer following the documented rule produces (a block is cut when
/// the open block has reached approx_block_size before or after a call). Used for labelling and
/// counters only — the partition chosen by the crate is not judged.
pub fn model_blocks(spec: &FileSpec, steps: &[Step]) -> Vec<(u64, Vec<u8>)> {
	let abs = spec.abs as usize;
	let mut blocks = Vec::new();
	let mut open: Vec<u8> = Vec::new();
	let mut n = 0u64;
	fn cut(blocks: &mut Vec<(u64, Vec<u8>)>, open: &mut Vec<u8>, n: &mut u64) {
		if *n > 0 {
			blocks.push((*n, std::mem::take(open)));
			*n = 0;
		}
	}
	for st in steps {
		match st {
			Step::Finish => cut(&mut blocks, &mut open, &mut n),
			Step::Ser(v) => {
				if open.len() >= abs {
					cut(&mut blocks, &mut open, &mut n);
				}
				enc(v, &mut open);
				n += 1;
				if open.len() >= abs {
					cut(&mut blocks, &mut open, &mut n);
				}
			}
			Step::Push(vs) => {
				if open.len() >= abs {
					cut(&mut blocks, &mut open, &mut n);
				}
				for v in vs {
					enc(v, &mut open);
				}
				n += vs.len() as u64;
				if open.len() >= abs {
					cut(&mut blocks, &mut open, &mut n);
				}
			}
		}
	}
	cut(&mut blocks, &mut open, &mut n);
	blocks
}

/// Label used to keep known-finding matches narrow: does some block of the documented partition
/// compress (reference compressor) to about 32 KiB or more?
pub fn big_block_tag(spec: &FileSpec, steps: &[Step]) -> &'static str {
	if spec.codec == Codec::Null {
		return "";
	}
	for (_, data) in model_blocks(spec, steps) {
		if data.len() < 8192 {
			continue;
		}
		if let Ok(c) = vmodel::container::compress(spec.codec.name(), &data) {
			if c.len() + 256 >= 32 * 1024 {
				return " [a block's reference compression is >= 32 KiB - 256]";
			}
		}
	}
	" [every block's reference compression is < 32 KiB - 256]"
}

pub type UserMeta = BTreeMap<String, serde_bytes::ByteBuf>;

/// user metadata variants (C06): what is passed to `build_with_user_metadata`
pub fn user_meta(variant: u8) -> Vec<(String, Vec<u8>)> {
	match variant {
		0 | 1 => vec![],
		2 => vec![("k".into(), b"v".to_vec())],
		3 => vec![("a.b".into(), vec![0xff])],
		4 => vec![("a.b".into(), vec![0xff, 0x00, 0x80]), ("k".into(), b"v".to_vec()), ("zz".into(), vec![])],
		_ => vec![("k".into(), "\u{e9}\u{1F600}".as_bytes().to_vec()), ("avro.codec.extra".into(), b"x".to_vec())],
	}
}

/// Write the file with the crate. Err(message) = a writer call failed.
pub fn write_file(spec: &FileSpec, steps: &[Step]) -> Out<Vec<u8>> {
	guarded(|| {
		let schema: serde_avro_fast::Schema = spec.sk.json().parse().map_err(|e| format!("MACHINERY: schema: {e}"))?;
		let mut config = SerializerConfig::new(&schema);
		let mut pre_config = SerializerConfig::new(&schema);
		let builder = WriterBuilder::new(&mut config).compression(compression(spec.codec, spec.level)).approx_block_size(spec.abs).sync_marker(SYNC);
		let built = match spec.meta {
			0 => builder.build(Vec::new()),
			1 => builder.build_with_user_metadata(Vec::new(), UserMeta::new()),
			2 => {
				// string values presented to the map<bytes> header schema
				let m: BTreeMap<String, String> = user_meta(2).into_iter().map(|(k, v)| (k, String::from_utf8(v).unwrap())).collect();
				builder.build_with_user_metadata(Vec::new(), m)
			}
			n => {
				let m: UserMeta = user_meta(n).into_iter().map(|(k, v)| (k, serde_bytes::ByteBuf::from(v))).collect();
				builder.build_with_user_metadata(Vec::new(), m)
			}
		};
		let mut w = built.map_err(|e| format!("WriterBuilder::build returned Err: {e}"))?;
		for (i, st) in steps.iter().enumerate() {
			let r = match st {
				Step::Ser(v) => w.serialize(v),
				Step::Push(vs) => {
					let mut buf = Vec::new();
					for v in vs {
						buf = serde_avro_fast::to_datum(v, buf, &mut pre_config).map_err(|e| format!("to_datum for push_serialized returned Err: {e}"))?;
					}
					w.push_serialized(&buf, vs.len() as u64)
				}
				Step::Finish => w.finish_block(),
			};
			if let Err(e) = r {
				let dropped = catch_unwind(AssertUnwindSafe(move || drop(w)));
				return Err(format!("writer call #{i} {} returned Err: \u{1}{} failed: {e}{}", st.short(), st.kind(), if dropped.is_err() { " [dropping the writer afterwards panicked]" } else { "" }));
			}
		}
		w.into_inner().map_err(|e| format!("into_inner returned Err: {e}"))
	})
}

// ---------------------------------------------------------------------------------------------
// reading back

#[derive(Clone, Copy, Debug, PartialEq, Eq, Hash, PartialOrd, Ord, Serialize, Deserialize)]
pub enum Rk {
	Slice,
	SliceBufRead,
	BufReader(usize),
	Chunked(usize),
}

impl Rk {
	pub fn label(&self) -> String {
		match self {
			Rk::Slice => "slice".into(),
			Rk::SliceBufRead => "&[u8]-as-BufRead".into(),
			Rk::BufReader(c) => format!("BufReader(capacity {c})"),
			Rk::Chunked(k) => format!("chunked(refill {k})"),
		}
	}
}

#[derive(Clone, Debug, PartialEq, Eq, Hash)]
pub enum Stop {
	/// Ok(None), and Ok(None) again
	Eof2,
	InitErr(String),
	/// Err after this many values
	ErrAt(usize, String),
	/// Ok(None), then something else
	EofThen(String),
	/// more values than the limit
	TooMany,
	Panic(String),
}

pub struct ReadObs {
	pub vals: Vec<Val>,
	pub stop: Stop,
	pub meta: Option<Vec<(String, Vec<u8>)>>,
}

fn next_val<'de, R>(rd: &mut Reader<R>, sk: Sk) -> Result<Option<Val>, String>
where
	R: serde_avro_fast::de::read::Read + Take + std::io::BufRead + ReadSlice<'de>,
	<R as Take>::Take: std::io::BufRead + ReadSlice<'de>,
{
	match sk {
		Sk::Bytes => rd.deserialize_next::<serde_bytes::ByteBuf>().map(|o| o.map(|b| Val::Bytes(b.into_vec()))),
		Sk::Long => rd.deserialize_next::<i64>().map(|o| o.map(Val::Long)),
		Sk::Str => rd.deserialize_next::<String>().map(|o| o.map(Val::Str)),
		Sk::Rec => rd.deserialize_next::<RecT>().map(|o| o.map(|r| Val::Rec(r.a, r.b))),
		Sk::Null => rd.deserialize_next::<()>().map(|o| o.map(|()| Val::Null)),
		Sk::ArrLong => rd.deserialize_next::<Vec<i64>>().map(|o| o.map(Val::Arr)),
		Sk::RecColl => rd.deserialize_next::<CollT>().map(|o| o.map(|c| Val::Coll(c.xs, c.m))),
	}
	.map_err(|e| e.to_string())
}

fn drain<'de, R>(rd: &mut Reader<R>, sk: Sk, limit: usize, vals: &mut Vec<Val>) -> Stop
where
	R: serde_avro_fast::de::read::Read + Take + std::io::BufRead + ReadSlice<'de>,
	<R as Take>::Take: std::io::BufRead + ReadSlice<'de>,
{
	loop {
		match next_val(rd, sk) {
			Ok(Some(v)) => {
				if vals.len() >= limit {
					return Stop::TooMany;
				}
				vals.push(v);
			}
			Ok(None) => {
				return match next_val(rd, sk) {
					Ok(None) => Stop::Eof2,
					Ok(Some(v)) => Stop::EofThen(format!("Ok(Some({v:?}))")),
					Err(e) => Stop::EofThen(format!("Err({e})")),
				}
			}
			Err(e) => return Stop::ErrAt(vals.len(), e),
		}
	}
}

fn open_and_drain<'de, R>(src: R, sk: Sk, limit: usize, want_meta: bool, vals: &mut Vec<Val>, meta: &mut Option<Vec<(String, Vec<u8>)>>) -> Stop
where
	R: serde_avro_fast::de::read::Read + Take + std::io::BufRead + ReadSlice<'de>,
	<R as Take>::Take: std::io::BufRead + ReadSlice<'de>,
{
	let mut rd = if want_meta {
		match Reader::new_and_metadata::<UserMeta>(src) {
			Ok((rd, m)) => {
				*meta = Some(m.into_iter().map(|(k, v)| (k, v.into_vec())).collect());
				rd
			}
			Err(e) => return Stop::InitErr(e.to_string()),
		}
	} else {
		match Reader::new(src) {
			Ok(rd) => rd,
			Err(e) => return Stop::InitErr(e.to_string()),
		}
	};
	drain(&mut rd, sk, limit, vals)
}

/// Read a container file with the crate through one reader kind.
pub fn read_file(bytes: &[u8], sk: Sk, rk: Rk, limit: usize, want_meta: bool) -> ReadObs {
	let mut vals = Vec::new();
	let mut meta = None;
	let out = guarded(|| {
		Ok(match rk {
			Rk::Slice => open_and_drain(SliceRead::new(bytes), sk, limit, want_meta, &mut vals, &mut meta),
			Rk::SliceBufRead => open_and_drain(ReaderRead::new(bytes), sk, limit, want_meta, &mut vals, &mut meta),
			Rk::BufReader(c) => open_and_drain(ReaderRead::new(std::io::BufReader::with_capacity(c, bytes)), sk, limit, want_meta, &mut vals, &mut meta),
			Rk::Chunked(k) => open_and_drain(ReaderRead::new(ChunkedBufRead::uniform(bytes, k)), sk, limit, want_meta, &mut vals, &mut meta),
		})
	});
	let stop = match out {
		Out::Ok(s) => s,
		Out::Err(e) => Stop::Panic(format!("(unexpected) {e}")),
		Out::Panic(p) => Stop::Panic(p),
	};
	ReadObs { vals, stop, meta }
}

/// How a read deviates from "exactly the expected values, then end of stream twice".
/// Returns (class stem, description).
pub fn judge_read(obs: &ReadObs, expected: &[Val]) -> Option<(&'static str, String)> {
	let n = expected.len();
	let first_diff = obs.vals.iter().zip(expected.iter()).position(|(a, b)| a != b);
	if let Some(i) = first_diff {
		return Some(("read-differs", format!("value #{i} is {:?}, written {:?}", obs.vals[i], expected[i])));
	}
	match &obs.stop {
		Stop::Eof2 if obs.vals.len() == n => None,
		Stop::Eof2 => Some(("read-short", format!("end of stream after {} of {n} values", obs.vals.len()))),
		Stop::InitErr(e) => Some(("read-init-err", format!("opening the reader failed: {e:?}"))),
		Stop::ErrAt(k, e) => Some(("read-err", format!("Err after {k} of {n} values: {e:?}"))),
		Stop::EofThen(x) => {
			if obs.vals.len() == n {
				Some(("read-eof-unstable", format!("Ok(None) after all {n} values, then {x}")))
			} else {
				Some(("read-short", format!("Ok(None) after {} of {n} values, then {x}", obs.vals.len())))
			}
		}
		Stop::TooMany => Some(("read-extra", format!("more than the {n} written values are yielded (value #{n} = {:?})", obs.vals.get(n)))),
		Stop::Panic(p) => Some(("read-panic", format!("panicked after {} of {n} values: {p:?}", obs.vals.len()))),
	}
}

pub fn reader_kinds(file_len: usize, n_values: usize, full_sweep_max: usize, thorough: bool) -> Vec<Rk> {
	let mut v = vec![Rk::Slice, Rk::SliceBufRead, Rk::BufReader(1), Rk::BufReader(7), Rk::BufReader(8192)];
	if file_len <= full_sweep_max && n_values <= 64 {
		v.extend((1..=file_len.max(1)).map(Rk::Chunked));
	} else {
		let mut ks: Vec<usize> = vec![1, 2, 3, 7, 4096, 8191, 8192, 8193];
		if thorough {
			ks.extend([5, 64, 32767, 32768, 32769, file_len - 1, file_len]);
		}
		ks.retain(|&k| k <= file_len);
		ks.sort();
		ks.dedup();
		v.extend(ks.into_iter().map(Rk::Chunked));
	}
	v
}

pub fn digits_normalised(s: &str) -> String {
	let mut out = String::new();
	let mut in_num = false;
	for c in s.chars() {
		if c.is_ascii_digit() {
			if !in_num {
				out.push('#');
			}
			in_num = true;
		} else {
			in_num = false;
			out.push(c);
		}
	}
	out
}

fn compact_readers(rks: &[Rk]) -> String {
	// chunked(refill a..=b) ranges, others by name
	let mut others: Vec<String> = Vec::new();
	let mut ks: Vec<usize> = Vec::new();
	for r in rks {
		match r {
			Rk::Chunked(k) => ks.push(*k),
			o => others.push(o.label()),
		}
	}
	ks.sort();
	let mut i = 0;
	while i < ks.len() {
		let mut j = i;
		while j + 1 < ks.len() && ks[j + 1] == ks[j] + 1 {
			j += 1;
		}
		others.push(if i == j { format!("chunked(refill {})", ks[i]) } else { format!("chunked(refill {}..={})", ks[i], ks[j]) });
		i = j + 1;
	}
	others.join(", ")
}

// ---------------------------------------------------------------------------------------------
// one case = one file through every reader kind

#[derive(Clone, Copy, Debug, Serialize, Deserialize)]
pub struct Params {
	pub full_sweep_max: usize,
	pub thorough: bool,
}

pub struct CaseOut {
	pub violations: Vec<Violation>,
	/// dedup signatures, parallel to `violations`
	pub sigs: Vec<String>,
}

fn block_summary(f: &vmodel::container::CfFile) -> String {
	let v: Vec<String> = f.blocks.iter().take(6).map(|b| format!("(count {}, {} bytes stored, {} bytes of data)", b.count, b.raw.len(), b.data.len())).collect();
	format!("{} block(s) [{}{}]", f.blocks.len(), v.join(", "), if f.blocks.len() > 6 { ", …" } else { "" })
}

pub fn run_case(spec: &FileSpec, params: &Params, only_reader: Option<Rk>, cover: &mut Cover, verbose: bool) -> CaseOut {
	if spec.api {
		return api::run_api_case(spec, params, cover, verbose);
	}
	let mut out = CaseOut { violations: Vec::new(), sigs: Vec::new() };
	let label = spec.label();
	let push = |out: &mut CaseOut, class: &str, what: String, reader: Option<Rk>, msg_for_sig: &str| {
		let sig = format!("{class}|{}|{}|{:?}|{}", spec.codec.name(), spec.level, spec.sk, truncate(&digits_normalised(msg_for_sig), 160));
		out.violations.push(Violation {
			class: class.to_owned(),
			what: format!("{label}: {what}"),
			replay: json!({"check": "C05", "spec": spec, "reader": reader, "params": params, "sig": sig}),
		});
		out.sigs.push(sig);
	};
	let Some((steps, expected)) = plan(spec) else {
		cover.count("specs_skipped_size_not_representable", 1);
		return out;
	};
	cover.evaluations += 1;
	cover.states += steps.len() as u64 + 1;
	cover.transitions += steps.len() as u64;
	cover.impl_runs += 1;
	let bytes = match write_file(spec, &steps) {
		Out::Ok(b) => b,
		Out::Err(e) => {
			cover.count("files_write_failed", 1);
			cover.outcomes.insert(hash64(&("write-err", digits_normalised(&e))));
			let tag = big_block_tag(spec, &steps);
			let sig_msg = format!("{}{tag}", e.rsplit('\u{1}').next().unwrap_or(""));
			let e = e.replace('\u{1}', "");
			push(&mut out, "write-err", format!("{e}{tag}; {} values were to be written, every writer call must succeed", expected.len()), None, &sig_msg);
			return out;
		}
		Out::Panic(p) => {
			cover.count("files_write_panicked", 1);
			let tag = big_block_tag(spec, &steps);
			push(&mut out, "write-panic", format!("the writer panicked: {p:?}{tag}"), None, &format!("{p}{tag}"));
			return out;
		}
	};
	cover.count("files_written", 1);
	cover.outcomes.insert(hash64(&bytes));
	if verbose {
		println!("  the crate wrote {} bytes{}", bytes.len(), if bytes.len() <= 400 { format!(": {}", crate::report::hex(&bytes)) } else { String::new() });
		println!("  values written: {}", truncate(&format!("{expected:?}"), 600));
	}
	// independent parse
	let parsed = match cf_parse(&bytes) {
		Ok(p) => p,
		Err(e) => {
			cover.count("files_unparseable", 1);
			let tag = big_block_tag(spec, &steps);
			push(&mut out, "file-unparseable", format!("the {}-byte file written by the crate is rejected by the independent parser: {e}{tag}", bytes.len()), None, &format!("{e}{tag}"));
			return out;
		}
	};
	let mut got: Vec<Val> = Vec::new();
	let mut bad_block: Option<String> = None;
	for (bi, b) in parsed.blocks.iter().enumerate() {
		match dec_block(spec.sk, &b.data, b.count) {
			Ok(vs) => got.extend(vs),
			Err(e) => {
				bad_block = Some(format!("block #{bi} (count {}, {} bytes of data): {e}", b.count, b.data.len()));
				break;
			}
		}
	}
	if bad_block.is_none() && parsed.codec != spec.codec.name() {
		bad_block = Some(format!("header says codec {:?}", parsed.codec));
	}
	if bad_block.is_none() && got != expected {
		let i = got.iter().zip(expected.iter()).position(|(a, b)| a != b).unwrap_or(got.len().min(expected.len()));
		bad_block = Some(format!("{} values found, {} written; first difference at #{i}: found {:?}, written {:?}", got.len(), expected.len(), got.get(i), expected.get(i)));
	}
	if let Some(e) = bad_block {
		cover.count("files_values_differ", 1);
		push(&mut out, "file-values-differ", format!("the independent parser reads the {}-byte file ({}) differently: {e}", bytes.len(), block_summary(&parsed)), None, &e);
		return out;
	}
	// coverage facts, measured on the file
	let mut nontrivial = parsed.blocks.len() >= 2;
	for b in &parsed.blocks {
		if b.raw.len() > 32 * 1024 {
			nontrivial = true;
			cover.count("blocks_stored_gt_32KiB", 1);
		}
		if b.raw.len() > 64 * 1024 {
			cover.count("blocks_stored_gt_64KiB", 1);
		}
		if b.raw.len() > 128 * 1024 {
			cover.count("blocks_stored_gt_128KiB", 1);
		}
		for t in [32 * 1024usize, 64 * 1024, 128 * 1024] {
			if b.raw.len() + 2 >= t && b.raw.len() <= t + 2 {
				cover.count("blocks_stored_within_2_of_32Ki_64Ki_128Ki", 1);
			}
			if b.raw.len() == t {
				cover.count("blocks_stored_exactly_32Ki_64Ki_128Ki", 1);
			}
		}
		if !b.data.is_empty() && b.data.len() % 8192 == 0 {
			nontrivial = true;
			cover.count("blocks_data_multiple_of_8192", 1);
		}
		if b.data.is_empty() {
			cover.count("blocks_with_zero_bytes_of_data", 1);
		}
	}
	if parsed.blocks.len() >= 2 {
		cover.count("files_with_2_or_more_blocks", 1);
	}
	{
		// a later block clearly larger than every earlier one (encoder buffers kept from earlier blocks)
		let mut max_prev = 0usize;
		let mut growing = false;
		for (bi, b) in parsed.blocks.iter().enumerate() {
			if bi > 0 && b.raw.len() >= 256 && b.raw.len() > 2 * max_prev {
				growing = true;
			}
			max_prev = max_prev.max(b.raw.len());
		}
		if growing {
			nontrivial = true;
			cover.count(&format!("files_with_a_later_block_more_than_twice_every_earlier_one(codec={})", spec.codec.name()), 1);
		}
	}
	let big_collections = expected.iter().any(|v| v.max_collection_len() > 1000);
	if big_collections {
		nontrivial = true;
		cover.count("files_with_a_value_holding_an_array_or_map_of_more_than_1000_elements", 1);
	}
	if parsed.blocks.is_empty() {
		cover.count("files_without_blocks", 1);
	}
	let model = model_blocks(spec, &steps);
	if model.len() == parsed.blocks.len() && model.iter().zip(parsed.blocks.iter()).all(|(m, b)| m.0 == b.count && m.1 == b.data) {
		cover.count("files_partitioned_as_documented", 1);
	} else {
		cover.count("files_partitioned_otherwise(not judged)", 1);
	}
	if nontrivial {
		cover.nontrivial.insert(hash64(spec));
	}
	if cover.samples.len() < 3 && nontrivial && spec.codec != Codec::Null {
		cover.sample(json!({"file": label, "bytes": bytes.len(), "blocks": block_summary(&parsed)}));
	}
	// read back through every reader kind
	let kinds = match only_reader {
		Some(r) => vec![r],
		None => reader_kinds(bytes.len(), expected.len(), params.full_sweep_max, params.thorough),
	};
	let limit = expected.len();
	// group failures: (class stem, normalised description) -> (first reader, first description, readers)
	let mut groups: BTreeMap<(String, String), (Rk, String, Vec<Rk>)> = BTreeMap::new();
	let mut slice_ok = true;
	let mut ok_readers: Vec<Rk> = Vec::new();
	for rk in &kinds {
		cover.impl_runs += 1;
		cover.states += 1;
		let obs = read_file(&bytes, spec.sk, *rk, limit, false);
		cover.transitions += obs.vals.len() as u64 + 1;
		let verdict = judge_read(&obs, &expected);
		if verbose {
			println!("  reader {:<28} -> {} value(s), {:?}{}", rk.label(), obs.vals.len(), obs.stop, if verdict.is_some() { "   <-- VIOLATES" } else { "" });
		}
		match verdict {
			None => {
				ok_readers.push(*rk);
				if big_collections {
					cover.count("reads_ok_of_files_with_collections_of_more_than_1000_elements", 1);
				}
				match rk {
					Rk::Slice => cover.count("reads_ok_slice", 1),
					Rk::SliceBufRead => cover.count("reads_ok_slice_as_bufread", 1),
					Rk::BufReader(_) => cover.count("reads_ok_bufreader", 1),
					Rk::Chunked(_) => cover.count("reads_ok_chunked", 1),
				}
			}
			Some((stem, desc)) => {
				cover.count("reads_failed", 1);
				cover.outcomes.insert(hash64(&(stem, digits_normalised(&desc))));
				if *rk == Rk::Slice {
					slice_ok = false;
				}
				let e = groups.entry((stem.to_owned(), digits_normalised(&desc))).or_insert((*rk, desc, Vec::new()));
				e.2.push(*rk);
			}
		}
	}
	for ((stem, norm), (first, desc, rks)) in groups {
		// a failure that depends on how the input is chunked: the very same file reads correctly from a slice
		let class = if stem == "read-panic" {
			stem.clone()
		} else if only_reader.is_some() {
			stem.clone()
		} else if slice_ok {
			format!("{stem}:refill-dependent")
		} else {
			format!("{stem}:incl-slice")
		};
		let what = format!(
			"the {}-byte file ({}) parses correctly with the independent parser, but reading it back through {{{}}} fails: {}; expected the {} written values then end of stream{}; values written: {}{}",
			bytes.len(),
			block_summary(&parsed),
			compact_readers(&rks),
			desc,
			expected.len(),
			if only_reader.is_some() { String::new() } else { format!("; readers that do read it correctly: {{{}}}", compact_readers(&ok_readers)) },
			truncate(&format!("{:?}", &expected[..expected.len().min(6)]), 300),
			if bytes.len() <= 200 { format!("; file bytes: {}", crate::report::hex(&bytes)) } else { String::new() }
		);
		push(&mut out, &class, what, Some(first), &norm);
	}
	out
}

// ---------------------------------------------------------------------------------------------
// the bounded space

pub fn header_len(bytes: &[u8]) -> Option<usize> {
	bytes.windows(16).position(|w| w == SYNC).map(|p| p + 16)
}

/// stored length of the block that holds one incompressible datum of s encoded bytes
fn probe_stored_len(codec: Codec, level: u8, s: usize) -> usize {
	let spec = FileSpec { codec, level, sk: Sk::Bytes, abs: s as u32, ops: vec![Op::Big { s, inc: true }], meta: 0, api: false };
	let Some((steps, _)) = plan(&spec) else { return s };
	if let Out::Ok(bytes) = write_file(&spec, &steps) {
		if let Some(h) = header_len(&bytes) {
			let mut i = h;
			if rd_long(&bytes, &mut i).is_ok() {
				if let Ok(sz) = rd_long(&bytes, &mut i) {
					if sz >= 0 && i + sz as usize + 16 == bytes.len() {
						return sz as usize;
					}
				}
			}
		}
	}
	// the crate could not write it: fall back to the reference compressor (only used to choose sizes)
	let mut data = Vec::new();
	if let Some(v) = big_val(Sk::Bytes, s, true, 1000) {
		enc(&v, &mut data);
	}
	vmodel::container::compress(codec.name(), &data).map(|c| c.len()).unwrap_or(s)
}

/// smallest datum size whose stored block reaches `target` bytes (bisection; sizes only steer the
/// enumeration, the counters `blocks_stored_*` measure what was actually hit)
fn calibrate(codec: Codec, level: u8, target: usize) -> usize {
	let (mut lo, mut hi) = (target.saturating_sub(4096), target + 64);
	if probe_stored_len(codec, level, lo) >= target {
		return lo;
	}
	while hi - lo > 1 {
		let mid = (lo + hi) / 2;
		if len_prefixed_payload(mid).is_none() {
			// not representable: nudge
			if probe_stored_len(codec, level, mid + 1) >= target {
				hi = mid + 1;
				if hi - lo <= 2 {
					break;
				}
				continue;
			}
			lo = mid + 1;
			continue;
		}
		if probe_stored_len(codec, level, mid) >= target {
			hi = mid;
		} else {
			lo = mid;
		}
	}
	hi
}

fn sequences(alphabet: &[Op], max_len: usize) -> Vec<Vec<Op>> {
	let mut out = vec![vec![]];
	let mut frontier = vec![vec![]];
	for _ in 0..max_len {
		let mut next = Vec::new();
		for p in &frontier {
			for o in alphabet {
				let mut q: Vec<Op> = p.clone();
				q.push(o.clone());
				next.push(q);
			}
		}
		out.extend(next.iter().cloned());
		frontier = next;
	}
	out
}

pub fn levels_of(c: Codec, thorough: bool) -> Vec<u8> {
	match c {
		Codec::Null | Codec::Snappy => vec![0],
		Codec::Zstd => {
			if thorough {
				vec![0, 1, 9, 19, 22, 200]
			} else {
				vec![0, 1, 22, 200]
			}
		}
		_ => {
			if thorough {
				vec![0, 1, 5, 9, 200]
			} else {
				vec![0, 1, 9, 200]
			}
		}
	}
}

/// The declared bounded space of this tier, as a list of file specifications.
pub fn all_specs(thorough: bool, cover: &mut Cover, cal_out: &mut Vec<Value>) -> Vec<FileSpec> {
	let mut specs: Vec<FileSpec> = Vec::new();
	// F1: histories of small operations; files small enough for the full refill sweep
	let (alpha, max_len): (Vec<Op>, usize) = if thorough { (vec![Op::S, Op::P, Op::F, Op::P0], 5) } else { (vec![Op::S, Op::P, Op::F], 3) };
	let seqs = sequences(&alpha, max_len);
	let abs_small: Vec<u32> = if thorough { vec![0, 1, 2, 3, 4, 5, 8, 16, 64 * 1024, u32::MAX] } else { vec![0, 1, 2, 3, 5, 64 * 1024] };
	for codec in Codec::ALL {
		for sk in Sk::ALL {
			for &abs in &abs_small {
				for ops in &seqs {
					if abs == u32::MAX && ops.len() > 3 {
						continue;
					}
					specs.push(FileSpec { codec, level: 0, sk, abs, ops: ops.clone(), meta: 0, api: false });
				}
			}
		}
	}
	let n_f1 = specs.len();
	// F2: sizes on the buffer boundaries
	let d: i64 = if thorough { 5 } else { 1 };
	let around = |c: usize, d: i64| -> Vec<usize> { (-d..=d).map(|k| (c as i64 + k) as usize).collect() };
	let mut unc_sizes: Vec<usize> = Vec::new();
	for c in [8192usize, 16384, 32768, 65536] {
		unc_sizes.extend(around(c, d));
	}
	if thorough {
		unc_sizes.extend(around(131072, 1));
		unc_sizes.extend([0usize, 1, 2, 24576, 1 << 20]);
	} else {
		unc_sizes.extend([131073usize]);
	}
	// calibrated sizes whose *stored* (compressed) length lands on 32 Ki / 64 Ki / 128 Ki
	let cal_jobs: Vec<(Codec, u8, usize)> = Codec::ALL.iter().flat_map(|&c| levels_of(c, thorough).into_iter().flat_map(move |l| [32 * 1024usize, 64 * 1024, 128 * 1024].into_iter().map(move |t| (c, l, t)))).filter(|(c, l, t)| !(c.slow() && *l != 0 && *t > 32 * 1024)).collect();
	let t_cal = std::time::Instant::now();
	let cal: BTreeMap<(Codec, u8, usize), usize> = cal_jobs.par_iter().map(|&(c, l, t)| ((c, l, t), calibrate(c, l, t))).collect();
	cover.count("calibration_probes(boundary sizes located by bisection)", cal.len() as u64);
	if std::env::var("C05_TIMING").is_ok() {
		eprintln!("calibration: {:.1}s {:?}", t_cal.elapsed().as_secs_f64(), cal);
	}
	for ((c, l, t), s) in &cal {
		cal_out.push(json!({"codec": c.name(), "level": l, "stored_block_reaches": t, "at_datum_size": s}));
	}
	let dc: i64 = if thorough { 4 } else { 1 };
	for codec in Codec::ALL {
		for level in levels_of(codec, thorough) {
			let main_level = level == 0;
			// (size, incompressible?) list for this codec/level
			let mut sized: Vec<(usize, bool)> = Vec::new();
			for t in [32 * 1024usize, 64 * 1024, 128 * 1024] {
				if let Some(&s) = cal.get(&(codec, level, t)) {
					for x in around(s, if main_level { dc } else { 1 }) {
						sized.push((x, true));
					}
				}
			}
			if main_level {
				for &s in &unc_sizes {
					sized.push((s, false));
					if codec == Codec::Null || s % 8192 == 0 || s == 131073 || s == 1 << 20 {
						sized.push((s, true));
					}
				}
			} else {
				sized.push((65536, false));
				if codec.slow() && !thorough {
					// bzip2/xz at non-default levels are slow (xz -9 sets up a 64 MiB dictionary per block)
					sized.retain(|&(s, inc)| !inc || Some(&s) == cal.get(&(codec, level, 32 * 1024)));
				}
			}
			sized.sort();
			sized.dedup();
			for &(s, inc) in &sized {
				let heavy = s > 300_000;
				let shapes: Vec<(Sk, bool)> = if !main_level && codec.slow() && !thorough {
					vec![(Sk::Bytes, true)]
				} else if main_level && !heavy {
					// (schema, one big datum?) ; runs of small datums exercise the 8 KiB block reader
					vec![(Sk::Bytes, true), (Sk::Str, true), (Sk::Bytes, false), (Sk::Long, false), (Sk::Rec, false)]
				} else {
					vec![(Sk::Bytes, true), (Sk::Long, false)]
				};
				for (sk, big) in shapes {
					if !thorough && !inc && !big && sk == Sk::Rec && s % 8192 != 0 {
						continue;
					}
					if !thorough && sk == Sk::Str && s % 8192 != 0 && !inc {
						continue;
					}
					let x = if big { Op::Big { s, inc } } else { Op::Run { s, inc } };
					let px = if big { Op::PBig { s, inc } } else { Op::PRun { s, inc } };
					let su = s as u32;
					let mut cases: Vec<(u32, Vec<Op>)> = vec![
						(su, vec![x.clone()]),
						(su.saturating_add(1), vec![Op::S, x.clone(), Op::S]),
						(64 * 1024, vec![x.clone(), Op::F, x.clone()]),
					];
					if main_level && !heavy {
						cases.push((su, vec![px.clone(), Op::S]));
						if big {
							cases.push((0, vec![x.clone(), Op::S]));
						}
						if thorough {
							cases.push((su.saturating_sub(1), vec![Op::S, x.clone()]));
							cases.push((u32::MAX, vec![x.clone(), Op::F, Op::S]));
							cases.push((64 * 1024, vec![x.clone(), px.clone(), Op::F, x.clone()]));
							cases.push((su / 2 + 1, vec![x.clone(), x.clone(), x.clone()]));
						}
					}
					for (abs, ops) in cases {
						specs.push(FileSpec { codec, level, sk, abs, ops, meta: 0, api: false });
					}
				}
			}
			// levels also on a small history
			if !main_level {
				for sk in [Sk::Long, Sk::Null] {
					specs.push(FileSpec { codec, level, sk, abs: 2, ops: vec![Op::S, Op::F, Op::P], meta: 0, api: false });
				}
			}
		}
		// the largest approx_block_size
		specs.push(FileSpec { codec, level: 0, sk: Sk::Long, abs: u32::MAX, ops: vec![Op::S, Op::F, Op::P, Op::S], meta: 0, api: false });
	}
	cover.count("specs_family_histories", n_f1 as u64);
	cover.count("specs_family_sizes", (specs.len() - n_f1) as u64);
	// F3: growing (and shrinking-then-growing) blocks: small -> medium -> large, incompressible
	let n_before = specs.len();
	for codec in Codec::ALL {
		let lvls = if thorough || codec == Codec::Zstd { levels_of(codec, thorough) } else { vec![0] };
		for level in lvls {
			let b = |s: usize| Op::Big { s, inc: true };
			let pb = |s: usize| Op::PBig { s, inc: true };
			let r = |s: usize| Op::Run { s, inc: true };
			let k64 = 64 * 1024u32;
			let mut cases: Vec<(Sk, u32, Vec<Op>)> = Vec::new();
			for sk in [Sk::Bytes, Sk::Str] {
				if sk == Sk::Str && level != 0 {
					continue;
				}
				for s in [600usize, 5000, 70000] {
					cases.push((sk, k64, vec![Op::S, Op::F, b(s)]));
					cases.push((sk, 0, vec![Op::S, b(s)]));
					cases.push((sk, k64, vec![Op::S, Op::F, pb(s)]));
				}
				cases.push((sk, k64, vec![b(10), Op::F, b(600), Op::F, b(5000), Op::F, b(70000)]));
				cases.push((sk, 0, vec![b(10), b(600), b(5000), b(70000)]));
				cases.push((sk, 1000, vec![Op::S, Op::S, b(600), Op::S, b(5000), pb(70000)]));
				cases.push((sk, k64, vec![b(5000), Op::F, b(10), Op::F, b(70000)]));
				cases.push((sk, k64, vec![b(600), Op::F, b(10), Op::F, b(600), Op::F, b(5000)]));
				cases.push((sk, 0, vec![b(70000), b(10), b(140000)]));
			}
			cases.push((Sk::Long, k64, vec![Op::S, Op::F, r(600), Op::F, r(5000), Op::F, r(70000)]));
			cases.push((Sk::Rec, k64, vec![Op::S, Op::F, Op::Mid { n: 5, len: 1000, inc: true }, Op::F, Op::Mid { n: 60, len: 1000, inc: true }]));
			for (sk, abs, ops) in cases {
				specs.push(FileSpec { codec, level, sk, abs, ops, meta: 0, api: false });
			}
		}
	}
	cover.count("specs_family_growing_blocks", (specs.len() - n_before) as u64);
	// F4: values that contain arrays / maps of 0, 1, 1000, 1001, ~5000 elements
	let n_before = specs.len();
	let ns: Vec<usize> = if thorough { vec![0, 1, 999, 1000, 1001, 1002, 5000, 20000] } else { vec![0, 1, 1000, 1001, 5000] };
	for codec in Codec::ALL {
		for sk in Sk::COLL {
			for &n in &ns {
				for map in [false, true] {
					if map && (sk == Sk::ArrLong || n < 1000) {
						continue;
					}
					let c = Op::Coll { n, map, push: false };
					let pc = Op::Coll { n, map, push: true };
					specs.push(FileSpec { codec, level: 0, sk, abs: 64 * 1024, ops: vec![c.clone()], meta: 0, api: false });
					specs.push(FileSpec { codec, level: 0, sk, abs: 0, ops: vec![Op::S, c.clone(), Op::S], meta: 0, api: false });
					specs.push(FileSpec { codec, level: 0, sk, abs: 64 * 1024, ops: vec![pc.clone(), Op::S, c.clone()], meta: 0, api: false });
				}
			}
			specs.push(FileSpec { codec, level: 0, sk, abs: 64 * 1024, ops: vec![Op::Coll { n: 1000, map: false, push: false }, Op::F, Op::Coll { n: 1001, map: false, push: false }], meta: 0, api: false });
			// small histories on the collection schemas
			for ops in sequences(&[Op::S, Op::P, Op::F], if thorough { 3 } else { 2 }) {
				specs.push(FileSpec { codec, level: 0, sk, abs: 2, ops, meta: 0, api: false });
			}
		}
	}
	cover.count("specs_family_collections", (specs.len() - n_before) as u64);
	// F5: the other public entry points (iterator / borrowed reader API, schema(); default sync marker,
	// write_all, serialize_all, owned configuration, inner()/inner_mut()) on a subset of the histories
	let n_before = specs.len();
	specs.extend(api::api_specs(thorough));
	cover.count("specs_family_api_variants", (specs.len() - n_before) as u64);
	// dedup, keeping order
	let mut seen = BTreeSet::new();
	specs.retain(|s| seen.insert(hash64(s)));
	specs
}

// ---------------------------------------------------------------------------------------------
// worker subprocesses

fn cover_to_json(c: &Cover) -> Value {
	json!({
		"states": c.states, "transitions": c.transitions, "evaluations": c.evaluations, "impl_runs": c.impl_runs,
		"nontrivial": c.nontrivial.iter().collect::<Vec<_>>(), "outcomes": c.outcomes.iter().collect::<Vec<_>>(),
		"samples": c.samples, "counters": c.counters, "caps": c.caps,
	})
}

fn cover_from_json(v: &Value) -> Cover {
	let mut c = Cover::default();
	c.states = v["states"].as_u64().unwrap_or(0);
	c.transitions = v["transitions"].as_u64().unwrap_or(0);
	c.evaluations = v["evaluations"].as_u64().unwrap_or(0);
	c.impl_runs = v["impl_runs"].as_u64().unwrap_or(0);
	c.nontrivial = v["nontrivial"].as_array().map(|a| a.iter().filter_map(|x| x.as_u64()).collect()).unwrap_or_default();
	c.outcomes = v["outcomes"].as_array().map(|a| a.iter().filter_map(|x| x.as_u64()).collect()).unwrap_or_default();
	c.samples = v["samples"].as_array().cloned().unwrap_or_default();
	if let Some(m) = v["counters"].as_object() {
		for (k, x) in m {
			c.counters.insert(k.clone(), x.as_u64().unwrap_or(0));
		}
	}
	c.caps = v["caps"].as_array().map(|a| a.iter().filter_map(|x| x.as_str().map(|s| s.to_owned())).collect()).unwrap_or_default();
	c
}

const KEEP_PER_SIG: usize = 3;

/// `vcheck worker C05 <batch.json> <out.json> <progress> [skip,skip,…]`
/// batch.json = {"params":…, "specs":[…]}; progress = index of the case being executed.
pub fn worker(args: &[String]) -> i32 {
	let batch: Value = serde_json::from_str(&std::fs::read_to_string(&args[0]).expect("batch file")).expect("batch json");
	let params: Params = serde_json::from_value(batch["params"].clone()).expect("params");
	let specs: Vec<FileSpec> = serde_json::from_value(batch["specs"].clone()).expect("specs");
	let skip: BTreeSet<usize> = args.get(3).map(|s| s.split(',').filter_map(|x| x.parse().ok()).collect()).unwrap_or_default();
	let mut progress = std::fs::OpenOptions::new().create(true).write(true).truncate(true).open(&args[2]).expect("progress file");
	let mut cover = Cover::default();
	let mut kept: Vec<Value> = Vec::new();
	let mut per_sig: BTreeMap<String, usize> = BTreeMap::new();
	for (i, spec) in specs.iter().enumerate() {
		if skip.contains(&i) {
			continue;
		}
		{
			use std::os::unix::fs::FileExt;
			let _ = progress.write_all_at(format!("{i:>10}\n").as_bytes(), 0);
		}
		let t0 = std::time::Instant::now();
		let out = run_case(spec, &params, None, &mut cover, false);
		if let Ok(f) = std::env::var("C05_TIMING") {
			let ms = t0.elapsed().as_millis();
			if ms > 300 {
				if let Ok(mut fh) = std::fs::OpenOptions::new().create(true).append(true).open(&f) {
					let _ = writeln!(fh, "{ms} ms  {}", spec.label());
				}
			}
		}
		for (v, sig) in out.violations.into_iter().zip(out.sigs) {
			let n = per_sig.entry(sig.clone()).or_insert(0);
			*n += 1;
			cover.count("violating_case_groups(before de-duplication)", 1);
			if *n <= KEEP_PER_SIG {
				// determinism guard: a reported case must fail the same way when executed again
				let again = run_case(spec, &params, None, &mut Cover::default(), false);
				if !again.violations.iter().any(|w| w.class == v.class && w.what == v.what) {
					eprintln!("MACHINERY: C05 case is not deterministic: {} / first run: [{}] {}", spec.label(), v.class, truncate(&v.what, 400));
					return 2;
				}
				cover.count("violations_confirmed_by_second_execution", 1);
				kept.push(json!({"class": v.class, "what": v.what, "replay": v.replay, "sig": sig}));
			}
		}
	}
	{
		use std::os::unix::fs::FileExt;
		let _ = progress.write_all_at(format!("{:>10}\n", "done").as_bytes(), 0);
	}
	let _ = progress.flush();
	let res = json!({"cover": cover_to_json(&cover), "violations": kept});
	std::fs::write(&args[1], serde_json::to_string(&res).unwrap()).expect("write worker result");
	0
}

static T0: std::sync::OnceLock<std::time::Instant> = std::sync::OnceLock::new();

enum Death {
	Signal(String),
	Hang,
}

/// Run one batch to completion in worker subprocesses; cases that kill or hang their worker are
/// isolated (confirmed by a run of that case alone) and reported.
fn run_batch(dir: &std::path::Path, bi: usize, specs: &[FileSpec], params: &Params, horizon_s: u64) -> (Cover, Vec<Value>) {
	let exe = std::env::current_exe().expect("current_exe");
	let bf = dir.join(format!("batch-{bi}.json"));
	let of = dir.join(format!("out-{bi}.json"));
	let pf = dir.join(format!("progress-{bi}"));
	std::fs::write(&bf, serde_json::to_string(&json!({"params": params, "specs": specs})).unwrap()).expect("write batch");
	let mut skip: Vec<usize> = Vec::new();
	let mut extra: Vec<Value> = Vec::new();
	let t_batch = std::time::Instant::now();
	loop {
		let _ = std::fs::remove_file(&of);
		let _ = std::fs::remove_file(&pf);
		let skip_arg = skip.iter().map(|x| x.to_string()).collect::<Vec<_>>().join(",");
		let mut child = std::process::Command::new(&exe)
			.args(["worker", "C05"])
			.arg(&bf)
			.arg(&of)
			.arg(&pf)
			.arg(&skip_arg)
			.stdout(std::process::Stdio::null())
			.stderr(std::process::Stdio::piped())
			.spawn()
			.unwrap_or_else(|e| {
				eprintln!("MACHINERY: cannot spawn worker: {e}");
				std::process::exit(2)
			});
		let mut last = String::new();
		let mut last_change = std::time::Instant::now();
		let death: Option<Death> = loop {
			match child.try_wait() {
				Ok(Some(st)) => {
					if st.success() {
						break None;
					}
					let mut err = String::new();
					if let Some(mut e) = child.stderr.take() {
						use std::io::Read;
						let _ = e.read_to_string(&mut err);
					}
					if err.contains("MACHINERY") {
						eprintln!("{err}");
						std::process::exit(2);
					}
					break Some(Death::Signal(format!("{st} {}", truncate(err.trim(), 300))));
				}
				Ok(None) => {
					let cur = std::fs::read_to_string(&pf).unwrap_or_default();
					if cur != last {
						last = cur;
						last_change = std::time::Instant::now();
					} else if last_change.elapsed().as_secs() > horizon_s {
						let _ = child.kill();
						let _ = child.wait();
						break Some(Death::Hang);
					}
					std::thread::sleep(std::time::Duration::from_millis(15));
				}
				Err(e) => {
					eprintln!("MACHINERY: waiting for worker: {e}");
					std::process::exit(2);
				}
			}
		};
		match death {
			None => {
				let text = std::fs::read_to_string(&of).unwrap_or_else(|e| {
					eprintln!("MACHINERY: worker result {}: {e}", of.display());
					std::process::exit(2)
				});
				let v: Value = serde_json::from_str(&text).expect("worker result json");
				let cover = cover_from_json(&v["cover"]);
				let mut viol = v["violations"].as_array().cloned().unwrap_or_default();
				viol.extend(extra);
				let _ = std::fs::remove_file(&bf);
				let _ = std::fs::remove_file(&of);
				let _ = std::fs::remove_file(&pf);
				if std::env::var("C05_TIMING").is_ok() {
					eprintln!("batch {bi}: {:.2}s ({} cases) finished at +{:.1}s", t_batch.elapsed().as_secs_f64(), specs.len(), T0.get().map(|t| t.elapsed().as_secs_f64()).unwrap_or(0.0));
				}
				return (cover, viol);
			}
			Some(d) => {
				let cur = std::fs::read_to_string(&pf).unwrap_or_default();
				let Ok(idx) = cur.trim().parse::<usize>() else {
					eprintln!("MACHINERY: worker for batch {bi} died ({}) and the case in progress is unknown ({cur:?})", match d { Death::Signal(s) => s, Death::Hang => "hang".into() });
					std::process::exit(2)
				};
				// confirm on the case alone
				let how = match &d {
					Death::Signal(s) => format!("the process died: {s}"),
					Death::Hang => format!("no progress for {horizon_s} s (killed)"),
				};
				let alone = run_single_in_subprocess(&specs[idx], params, horizon_s);
				if alone.is_none() {
					eprintln!("MACHINERY: worker for batch {bi} died in case {idx} ({how}) but the case alone completes: {}", specs[idx].label());
					std::process::exit(2);
				}
				let class = if matches!(d, Death::Hang) { "hang" } else { "abort" };
				let sig = format!("{class}|{}|{:?}", specs[idx].codec.name(), specs[idx].sk);
				extra.push(json!({"class": class, "what": format!("{}: executing this case (write, independent parse, read back) in a worker process: {how}; alone again: {}", specs[idx].label(), alone.unwrap()), "replay": {"check": "C05", "spec": specs[idx], "reader": Value::Null, "params": params, "subprocess": true, "sig": sig}, "sig": sig}));
				skip.push(idx);
				if skip.len() > 50 {
					eprintln!("MACHINERY: more than 50 worker deaths in batch {bi}");
					std::process::exit(2);
				}
			}
		}
	}
}

/// Some(description of the death) if the case kills / hangs a fresh process, None if it completes.
fn run_single_in_subprocess(spec: &FileSpec, params: &Params, horizon_s: u64) -> Option<String> {
	let dir = std::env::temp_dir().join(format!("vcheck-c05-single-{}-{:016x}", std::process::id(), hash64(spec)));
	let _ = std::fs::create_dir_all(&dir);
	let bf = dir.join("batch.json");
	std::fs::write(&bf, serde_json::to_string(&json!({"params": params, "specs": [spec]})).unwrap()).ok()?;
	let mut child = std::process::Command::new(std::env::current_exe().ok()?)
		.args(["worker", "C05"])
		.arg(&bf)
		.arg(dir.join("out.json"))
		.arg(dir.join("progress"))
		.stdout(std::process::Stdio::null())
		.stderr(std::process::Stdio::null())
		.spawn()
		.ok()?;
	let t0 = std::time::Instant::now();
	let res = loop {
		match child.try_wait() {
			Ok(Some(st)) => break if st.success() { None } else { Some(format!("{st}")) },
			Ok(None) => {
				if t0.elapsed().as_secs() > horizon_s {
					let _ = child.kill();
					let _ = child.wait();
					break Some(format!("no completion within {horizon_s} s (killed)"));
				}
				std::thread::sleep(std::time::Duration::from_millis(15));
			}
			Err(e) => break Some(format!("wait failed: {e}")),
		}
	};
	let _ = std::fs::remove_dir_all(&dir);
	res
}

// ---------------------------------------------------------------------------------------------

pub fn run(rep: &mut Report) {
	let thorough = rep.thorough();
	let params = Params { full_sweep_max: if thorough { 400 } else { 300 }, thorough };
	let mut cover = Cover::default();
	let mut cal = Vec::new();
	let specs = all_specs(thorough, &mut cover, &mut cal);
	rep.extra.insert("sizes_located_by_bisection".into(), json!(cal));
	rep.rule = format!(
		"HIST+SAE, every case executed in a single-threaded worker subprocess. A case = one container file: (codec in null/deflate/bzip2/snappy/xz/zstandard, level, schema in bytes/long/string/record/null, approx_block_size, operation history) written by the crate's Writer with the sync marker pinned, parsed by the independent parser (vmodel::cf_parse + own datum decoder; values must equal those written), then read by the crate's Reader through slice, &[u8]-as-BufRead, BufReader capacity 1/7/8192 and ChunkedBufRead with every uniform refill size 1..=|file| (files <= {} bytes) or {{1,2,3,7,4096,8191,8192,8193{}}} (larger files); each reader must yield exactly the written values, then Ok(None) twice. Family 'histories': ALL operation sequences of length <= {} over {{serialize(small), push_serialized(2 objects), finish_block{}}} x approx_block_size in {} x 6 codecs (default level) x 5 schemas. Family 'sizes': datum/block sizes on the buffer boundaries — uncompressed block length 8 Ki/16 Ki/32 Ki/64 Ki +-{} (+128 Ki+1{}), and, per codec and level ({}), sizes located by bisection at which the STORED (compressed) block length reaches 32 Ki/64 Ki/128 Ki, +-{} — as one big datum (bytes, string) or as a run of small datums (bytes, long, record), incompressible (xorshift) or compressible, in the templates [X] (approx_block_size=s), [S,X,S] (s+1), [X,finish,X] (64 Ki), [push(X),S] (s), [X,S] (0){}; plus approx_block_size=u32::MAX. Family 'growing blocks' (every codec; every level for zstandard{}): incompressible datums of 10 / 600 / 5000 / 70000 / 140000 bytes in successive blocks — [S,finish,X], [S,X] at approx_block_size 0, [S,finish,push(X)], small->medium->large with finish_block or approx_block_size 0 or 1000, shrinking-then-growing ([5000,F,10,F,70000], [600,F,10,F,600,F,5000], [70000,10,140000]), runs of longs 600/5000/70000, records 5x1000 then 60x1000. Family 'collections': schemas array<long> and record{{xs:array<int>,m:map<string>}} with values of {} elements (map also that large in a variant), as [V] / [S,V,S] at approx_block_size 0 / [push(V),S,V], [V(1000),finish,V(1001)], and all histories of length <= {} on these schemas, every codec. Family 'API variants' (6 codecs x 7 schemas x {} histories, plus block-boundary histories): the same history written (a) without sync_marker() — must equal the pinned file byte for byte outside the 16-byte marker positions, all positions holding the same 16 bytes, (b) with serialize_all on every run of serialize calls, (c) with write_all (serialize-only histories; against the 64 KiB pinned file modulo marker), (d) with with_owned_config, (e) with allow_slow_sequence_to_bytes set on a borrowed config / an owned config / through WriterBuilder::serializer_config() and bytes presented as a sequence, (f) into a sink observed through inner()/inner_mut() after every call; and the pinned file read through Reader::deserialize() (iterator; slice, &[u8], BufReader 7, chunked 3 / 4096; also on the file cut by 1 and 17 bytes, where the iterator must yield the same Ok/Err sequence as the deserialize_next loop), deserialize_next_borrowed / deserialize_borrowed with borrowing targets (&[u8], &str, struct with &str; null codec: Ok, equal, pointing into the file; other codecs: no panic, Ok => equal) and Reader::schema() (json and fingerprint of the writer schema). Family 'leaf kinds' (in-process): 14 schemas — float, double, duration, fixed, decimal over bytes / over fixed, uuid, date, enum, union[null,float,double,fixed(16),string], array<double>, map<float>, a record of float/double/duration/fixed/union/boolean, union[duration,float,date] — x {} boundary values each (shared value alphabet incl. NaN payload bit patterns) x 6 codecs x {{one block, one block per value, [v0,finish,v1..,push(last)]}}, parsed by the independent parser + reference datum decoder and read back through deserialize_seed_next (observation modes Any and Hinted, floats by bits) via slice, &[u8], BufReader 1/7/8192, chunked 3. states = writer states after each call + reader runs; transitions = writer calls + values read. Non-trivial (distinct file specifications): the file has >= 2 blocks, or a block whose stored size exceeds 32 KiB, or a block whose uncompressed size is a non-zero multiple of 8192, or a later block stored in more than twice the bytes of every earlier one, or a value holding a collection of more than 1000 elements.",
		params.full_sweep_max,
		if thorough { ",5,64,32767,32768,32769,|file|-1,|file|" } else { "" },
		if thorough { 5 } else { 3 },
		if thorough { ", push_serialized(nothing, 0)" } else { "" },
		if thorough { "{0,1,2,3,4,5,8,16,64Ki,u32::MAX}" } else { "{0,1,2,3,5,64Ki}" },
		if thorough { 5 } else { 1 },
		if thorough { "+-1, 0, 1, 2, 24 Ki, 1 Mi" } else { "" },
		if thorough { "deflate/bzip2/xz: default,1,5,9,200(clipped); zstandard: default,1,9,19,22,200" } else { "deflate/bzip2/xz: default,1,9,200(clipped); zstandard: default,1,22,200" },
		if thorough { 4 } else { 1 },
		if thorough { ", [S,X] (s-1), [X,finish,S] (u32::MAX), [X,push(X),finish,X] (64 Ki), [X,X,X] (s/2+1)" } else { "" },
		if thorough { " and every level for the other codecs" } else { "" },
		if thorough { "0/1/999/1000/1001/1002/5000/20000" } else { "0/1/1000/1001/5000" },
		if thorough { 3 } else { 2 },
		if thorough { "all <= 3-operation" } else { "9" },
		if thorough { "24 (and 3)" } else { "6" },
	);
	rep.assumptions.push("vmodel::container (libflate, streaming bzip2/xz, zstd::stream, snap + bit-serial CRC-32) implements the container framing of the Avro specification".into());
	rep.assumptions.push("the datums handed to push_serialized are produced by the crate's to_datum, as its documentation prescribes".into());
	rep.assumptions.push("the block partition is not judged (approx_block_size is approximate); only that the file parses to the written values and is read back as such".into());
	rep.extra.insert("files_in_declared_space".into(), json!(specs.len()));

	let dir = std::env::temp_dir().join(format!("vcheck-c05-{}", std::process::id()));
	std::fs::create_dir_all(&dir).expect("temp dir");
	// interleaved batches (cheap and expensive cases are mixed)
	let n_batches = (specs.len() / if thorough { 400 } else { 60 }).clamp(16, 4000);
	let mut batches: Vec<Vec<FileSpec>> = vec![Vec::new(); n_batches];
	for (i, s) in specs.iter().enumerate() {
		batches[i % n_batches].push(s.clone());
	}
	let horizon = if thorough { 300 } else { 60 };
	let _ = T0.set(std::time::Instant::now());
	let results: Vec<(Cover, Vec<Value>)> = batches.par_iter().enumerate().map(|(bi, b)| run_batch(&dir, bi, b, &params, horizon)).collect();
	let _ = std::fs::remove_dir_all(&dir);
	let mut per_sig: BTreeMap<String, usize> = BTreeMap::new();
	for (c, vs) in results {
		cover.merge(c);
		for v in vs {
			let sig = v["sig"].as_str().unwrap_or("").to_owned();
			let n = per_sig.entry(sig).or_insert(0);
			*n += 1;
			if *n <= KEEP_PER_SIG {
				rep.violation(v["class"].as_str().unwrap_or("?"), v["what"].as_str().unwrap_or("?").to_owned(), v["replay"].clone());
			}
		}
	}
	rep.extra.insert("violation_signatures".into(), json!(per_sig.iter().map(|(k, n)| json!({"signature": k, "case_groups": n})).collect::<Vec<_>>()));
	// family 'leaf kinds' (in-process, every call into the crate under catch_unwind)
	let leaf_cases = leaf::cases(thorough);
	rep.extra.insert("leaf_kind_cases".into(), json!(leaf_cases.len()));
	let leaf_results: Vec<(Cover, Vec<Violation>)> = leaf_cases
		.par_chunks(8)
		.map(|cs| {
			let mut c = Cover::default();
			let mut out = Vec::new();
			for case in cs {
				leaf::run_case(case, &mut c, &mut out, false);
			}
			(c, out)
		})
		.collect();
	for (c, vs) in leaf_results {
		cover.merge(c);
		for v in vs {
			let sig = format!("{}|{}", v.class, truncate(&digits_normalised(v.what.split(": ").next().unwrap_or("")), 120));
			let n = per_sig.entry(sig).or_insert(0);
			*n += 1;
			if *n <= KEEP_PER_SIG {
				rep.violations.push(v);
			}
		}
	}
	cover.count("worker_batches", n_batches as u64);
	cover.count("violation_signatures(class,codec,level,schema,message)", per_sig.len() as u64);
	// vacuity guards
	let guards = ["files_written", "files_with_2_or_more_blocks", "blocks_stored_gt_32KiB", "blocks_stored_gt_64KiB", "blocks_stored_gt_128KiB", "blocks_data_multiple_of_8192", "blocks_stored_within_2_of_32Ki_64Ki_128Ki", "reads_ok_slice", "reads_ok_bufreader", "reads_ok_chunked", "files_without_blocks", "blocks_with_zero_bytes_of_data", "files_partitioned_as_documented", "reads_ok_of_files_with_collections_of_more_than_1000_elements"];
	let guards: Vec<&str> = guards.iter().copied().chain(api::GUARDS.iter().copied()).chain(leaf::GUARDS.iter().copied()).collect();
	let per_codec: Vec<String> = Codec::ALL.iter().map(|c| format!("files_with_a_later_block_more_than_twice_every_earlier_one(codec={})", c.name())).collect();
	let mut guards: Vec<&str> = guards.clone();
	guards.extend(per_codec.iter().map(|s| s.as_str()));
	vacuity_guards("C05", rep, &mut cover, &guards);
	rep.cover.merge(cover);
}

/// A behaviour the check relies on was never exercised: a machinery error (exit 2) — unless the run
/// has violations that are not known findings (a defect that breaks every file also empties the
/// counters; the verdict then stands and the unmet guard is recorded as a cap).
pub fn vacuity_guards(prop: &str, rep: &mut Report, cover: &mut Cover, guards: &[&str]) {
	let known = crate::report::load_known();
	let unknown = rep.violations.iter().filter(|v| !known.iter().any(|k| k.status == "known" && k.property == prop && k.class == v.class && k.what_contains.iter().all(|c| v.what.contains(c.as_str())))).count();
	for k in guards {
		if cover.counters.get(*k).copied().unwrap_or(0) == 0 {
			if unknown == 0 {
				eprintln!("MACHINERY: {prop} never exercised `{k}`");
				std::process::exit(2);
			}
			cover.caps.push(format!("vacuity guard `{k}` not met in a run with {unknown} new violation(s)"));
		}
	}
}

pub fn replay(v: &Value) -> i32 {
	let r = &v["replay"];
	if !r["leaf"].is_null() {
		let case: leaf::LeafCase = match serde_json::from_value(r["leaf"].clone()) {
			Ok(c) => c,
			Err(e) => {
				eprintln!("bad replay token: {e}");
				return 2;
			}
		};
		println!("replaying leaf-kind case {case:?}");
		let mut out = Vec::new();
		leaf::run_case(&case, &mut Cover::default(), &mut out, true);
		for v in &out {
			println!("  [{}] {}", v.class, truncate(&v.what, 1500));
		}
		return if out.is_empty() {
			println!("  no violation");
			0
		} else {
			1
		};
	}
	let spec: FileSpec = match serde_json::from_value(r["spec"].clone()) {
		Ok(s) => s,
		Err(e) => {
			eprintln!("bad replay token: {e}");
			return 2;
		}
	};
	let params: Params = serde_json::from_value(r["params"].clone()).unwrap_or(Params { full_sweep_max: 300, thorough: false });
	println!("replaying {}", spec.label());
	if r["subprocess"].as_bool() == Some(true) {
		return match run_single_in_subprocess(&spec, &params, 300) {
			Some(d) => {
				println!("  the case kills its process again: {d}");
				1
			}
			None => {
				println!("  the case completes in a subprocess");
				0
			}
		};
	}
	if let Some((steps, expected)) = plan(&spec) {
		println!("  {} writer calls, {} values; documented partition: {} block(s)", steps.len(), expected.len(), model_blocks(&spec, &steps).len());
	}
	// whole case (every reader kind): the comparison is printed per reader
	let mut cover = Cover::default();
	let out = run_case(&spec, &params, None, &mut cover, true);
	for v in &out.violations {
		println!("  [{}] {}", v.class, truncate(&v.what, 1500));
	}
	if out.violations.is_empty() {
		println!("  no violation: the file parses and every reader kind yields the written values then end of stream");
		0
	} else {
		1
	}
}
