//! C06 — container layout and interoperability with an independent implementation.
//! W: files written by the crate are taken apart by the independent parser (`vmodel::container`)
//!    and every layout fact of the specification is checked; thorough: also read by apache-avro.
//! R: files assembled by the independent writer (every block partitioning, metadata order /
//!    layout / extra keys, `avro.codec` absent) are read by the crate's Reader.
//! A: (thorough) files written by apache-avro are read by the crate's Reader.

use crate::c05::{self, dec_block, enc, small_val, Codec, FileSpec, Op, Rk, Sk, Val, SYNC};
use crate::explore::{hash64, Cover};
use crate::report::{hex, truncate, Report, Violation};
use crate::subj::{guarded, Out};
use rayon::prelude::*;
use serde::{Deserialize, Serialize};
use serde_json::{json, Value};
use std::collections::{BTreeMap, HashMap};
use vmodel::container::{cf_parse, write_meta, MetaLayout, MAGIC};

const READERS: [Rk; 3] = [Rk::Slice, Rk::SliceBufRead, Rk::BufReader(8192)];
const DATA_LEFT_TAG: &str = " [fails exactly at the end of the first block that holds zero bytes of data]";

fn viol(out: &mut Vec<Violation>, class: &str, what: String, replay: Value) {
	if out.len() < 300 {
		out.push(Violation { class: class.to_owned(), what, replay });
	}
}

/// user metadata as the crate must report it; reserved (`avro.`-prefixed) unknown keys are not judged
fn user_part(meta: &[(String, Vec<u8>)]) -> BTreeMap<String, Vec<u8>> {
	meta.iter().filter(|(k, _)| !k.starts_with("avro.")).cloned().collect()
}

/// Read `bytes` with the crate through the three whole-buffer reader kinds and compare.
/// `blocks` = (count, data length) of the file's blocks, for labelling failures.
#[allow(clippy::too_many_arguments)]
fn crate_reads(writer: &str, label: &str, bytes: &[u8], sk: Sk, expected: &[Val], expected_user: &BTreeMap<String, Vec<u8>>, blocks: &[(u64, usize)], cover: &mut Cover, out: &mut Vec<Violation>, replay: &Value, verbose: bool) {
	for rk in READERS {
		cover.impl_runs += 1;
		cover.states += 1;
		let obs = c05::read_file(bytes, sk, rk, expected.len(), true);
		cover.transitions += obs.vals.len() as u64 + 1;
		let verdict = c05::judge_read(&obs, expected);
		if verbose {
			println!("  crate reader {:<24} -> {} value(s), {:?}, user metadata {:?}{}", rk.label(), obs.vals.len(), obs.stop, obs.meta.as_ref().map(|m| m.iter().map(|(k, v)| format!("{k}={}", hex(v))).collect::<Vec<_>>()), if verdict.is_some() { "   <-- VIOLATES" } else { "" });
		}
		match verdict {
			None => {
				cover.count(&format!("crate_reads_ok(writer={writer})"), 1);
				if expected.iter().any(|v| v.max_collection_len() > 1000) {
					cover.count(&format!("crate_reads_ok_of_collections_gt_1000_elements(writer={writer})"), 1);
				}
				if let Some(m) = &obs.meta {
					let got: BTreeMap<String, Vec<u8>> = m.iter().filter(|(k, _)| !k.starts_with("avro.")).cloned().collect();
					if &got != expected_user {
						viol(out, "user-metadata-differs", format!("writer={writer} {label}: reader {}: user metadata read as {:?}, the file holds {:?}", rk.label(), got, expected_user), replay.clone());
					}
				}
			}
			Some((stem, desc)) => {
				cover.count("crate_reads_failed", 1);
				cover.outcomes.insert(hash64(&(stem, &desc)));
				// position of the first block without data: the known decoder-not-driven failure sits exactly there
				let mut tag = "";
				if let c05::Stop::ErrAt(k, _) = &obs.stop {
					let mut acc = 0u64;
					for (count, len) in blocks {
						acc += count;
						if *len == 0 {
							if acc == *k as u64 {
								tag = DATA_LEFT_TAG;
							}
							break;
						}
					}
				}
				viol(out, stem, format!("writer={writer} {label} ({} bytes, blocks (count, data bytes) {:?}): crate reader {}: {desc}{tag}; expected the {} values then end of stream", bytes.len(), blocks, rk.label(), expected.len()), replay.clone());
			}
		}
	}
}

// ---------------------------------------------------------------------------------------------
// W: crate-written files

fn w_specs(thorough: bool) -> Vec<FileSpec> {
	let mut v = Vec::new();
	let alpha = [Op::S, Op::P, Op::F];
	let mut seqs: Vec<Vec<Op>> = vec![vec![]];
	let mut frontier: Vec<Vec<Op>> = vec![vec![]];
	for _ in 0..(if thorough { 4 } else { 3 }) {
		let mut next = Vec::new();
		for p in &frontier {
			for o in &alpha {
				let mut q = p.clone();
				q.push(o.clone());
				next.push(q);
			}
		}
		seqs.extend(next.iter().cloned());
		frontier = next;
	}
	for codec in Codec::ALL {
		for sk in Sk::ALL {
			for meta in 0..=5u8 {
				for ops in &seqs {
					v.push(FileSpec { codec, level: 0, sk, abs: 2, ops: ops.clone(), meta, api: false });
				}
			}
			for abs in [0u32, 64 * 1024] {
				for meta in if thorough { vec![0u8, 4, 5] } else { vec![0u8] } {
					for ops in &seqs {
						v.push(FileSpec { codec, level: 0, sk, abs, ops: ops.clone(), meta, api: false });
					}
				}
			}
		}
		// larger blocks (sizes that the known bzip2/xz encoder-buffer defects do not reach)
		let mut bigs = vec![(Sk::Bytes, Op::Big { s: 20000, inc: true }, 20000u32), (Sk::Long, Op::Run { s: 70000, inc: false }, 70000), (Sk::Str, Op::Big { s: 8192, inc: false }, 4096), (Sk::Rec, Op::Run { s: 9000, inc: true }, 3000)];
		if thorough {
			bigs.extend([(Sk::Bytes, Op::Run { s: 30000, inc: true }, 8192), (Sk::Str, Op::Big { s: 24000, inc: true }, 64 * 1024), (Sk::Rec, Op::Big { s: 16384, inc: false }, 16384)]);
		}
		for (sk, x, abs) in bigs {
			for meta in [0u8, 4] {
				v.push(FileSpec { codec, level: 0, sk, abs, ops: vec![Op::S, x.clone(), Op::S, Op::F, x.clone()], meta, api: false });
			}
		}
		// incompressible blocks whose STORED size crosses the encoder's 32 KiB start buffer and its
		// doublings (64 KiB, 128 KiB): one big datum, several ~1000-byte noisy datums, many small datums
		let noisy: Vec<(Sk, Op, u32)> = vec![
			(Sk::Bytes, Op::Big { s: 40000, inc: true }, 40000),
			(Sk::Bytes, Op::Mid { n: 48, len: 1000, inc: true }, 64 * 1024),
			(Sk::Str, Op::Mid { n: 60, len: 1000, inc: true }, 60000),
			(Sk::Long, Op::Run { s: 48000, inc: true }, 48000),
			(Sk::Bytes, Op::Big { s: 70000, inc: true }, 70000),
			(Sk::Bytes, Op::Mid { n: 70, len: 1000, inc: true }, 70000),
			(Sk::Rec, Op::Mid { n: 100, len: 1000, inc: true }, 100000),
			(Sk::Bytes, Op::Run { s: 80000, inc: true }, 80000),
			(Sk::Bytes, Op::Big { s: 140000, inc: true }, 140000),
			(Sk::Bytes, Op::Mid { n: 140, len: 1000, inc: true }, 140000),
			(Sk::Str, Op::Big { s: 200000, inc: true }, 200000),
		];
		for (sk, x, abs) in noisy {
			v.push(FileSpec { codec, level: 0, sk, abs, ops: vec![Op::S, x.clone(), Op::S], meta: 0, api: false });
			v.push(FileSpec { codec, level: 0, sk, abs: abs.max(64 * 1024), ops: vec![x.clone(), Op::F, x.clone()], meta: 4, api: false });
			if thorough {
				v.push(FileSpec { codec, level: 0, sk, abs: u32::MAX, ops: vec![x.clone(), x.clone(), Op::P], meta: 2, api: false });
				if codec.has_levels() {
					for level in [1u8, 9] {
						v.push(FileSpec { codec, level, sk, abs, ops: vec![x.clone()], meta: 0, api: false });
					}
				}
			}
		}
		// growing / shrinking-then-growing incompressible blocks (encoder buffers kept from earlier blocks)
		let b = |s: usize| Op::Big { s, inc: true };
		for lvl in if codec == Codec::Zstd { vec![0u8, 1, 22] } else { vec![0u8] } {
			v.push(FileSpec { codec, level: lvl, sk: Sk::Bytes, abs: 64 * 1024, ops: vec![b(10), Op::F, b(600), Op::F, b(5000), Op::F, b(70000)], meta: 0, api: false });
			v.push(FileSpec { codec, level: lvl, sk: Sk::Str, abs: 0, ops: vec![Op::S, b(600), b(10), b(5000)], meta: 0, api: false });
			v.push(FileSpec { codec, level: lvl, sk: Sk::Bytes, abs: 64 * 1024, ops: vec![b(5000), Op::F, b(10), Op::F, Op::PBig { s: 70000, inc: true }], meta: 4, api: false });
		}
		// values holding arrays / maps of 0, 1, 1000, 1001, ~5000 elements
		for sk in Sk::COLL {
			for n in if thorough { vec![0usize, 1, 999, 1000, 1001, 1002, 5000, 20000] } else { vec![0usize, 1, 1000, 1001, 5000] } {
				v.push(FileSpec { codec, level: 0, sk, abs: 64 * 1024, ops: vec![Op::S, Op::Coll { n, map: false, push: false }, Op::S], meta: 0, api: false });
				if n >= 1000 {
					v.push(FileSpec { codec, level: 0, sk, abs: 0, ops: vec![Op::Coll { n, map: true, push: false }, Op::Coll { n: 1, map: false, push: true }], meta: 4, api: false });
				}
			}
			for ops in [vec![], vec![Op::S], vec![Op::S, Op::P], vec![Op::P, Op::F, Op::S]] {
				v.push(FileSpec { codec, level: 0, sk, abs: 2, ops, meta: 2, api: false });
			}
		}
		if codec.has_levels() {
			for level in [1u8, 9, 200] {
				v.push(FileSpec { codec, level, sk: Sk::Rec, abs: 3000, ops: vec![Op::S, Op::Run { s: 9000, inc: true }, Op::P], meta: 2, api: false });
			}
		}
	}
	v
}

/// crate-written files through the other writer entry points: default sync marker, write_all
fn w_variant_specs(thorough: bool) -> Vec<(FileSpec, u8)> {
	let mut v = Vec::new();
	let alpha = [Op::S, Op::P, Op::F];
	let mut seqs: Vec<Vec<Op>> = vec![vec![]];
	for a in &alpha {
		seqs.push(vec![a.clone()]);
		for b in &alpha {
			seqs.push(vec![a.clone(), b.clone()]);
			if thorough {
				for c in &alpha {
					seqs.push(vec![a.clone(), b.clone(), c.clone()]);
				}
			}
		}
	}
	let k64 = 64 * 1024u32;
	for codec in Codec::ALL {
		for sk in Sk::ALL.into_iter().chain(Sk::COLL) {
			for ops in &seqs {
				for meta in [0u8, 4] {
					v.push((FileSpec { codec, level: 0, sk, abs: 2, ops: ops.clone(), meta, api: false }, 1));
				}
			}
			for ops in [vec![], vec![Op::S], vec![Op::S, Op::S, Op::S]] {
				v.push((FileSpec { codec, level: 0, sk, abs: k64, ops, meta: 0, api: false }, 2));
			}
		}
		for (sk, ops) in [
			(Sk::Bytes, vec![Op::Mid { n: 64, len: 1024, inc: true }]),
			(Sk::Bytes, vec![Op::S, Op::Big { s: 70000, inc: true }, Op::S]),
			(Sk::Long, vec![Op::Run { s: 65536, inc: true }]),
			(Sk::Str, vec![Op::Mid { n: 140, len: 1000, inc: true }]),
			(Sk::ArrLong, vec![Op::Coll { n: 1001, map: false, push: false }, Op::S]),
		] {
			v.push((FileSpec { codec, level: 0, sk, abs: k64, ops: ops.clone(), meta: 0, api: false }, 2));
			v.push((FileSpec { codec, level: 0, sk, abs: 3000, ops, meta: 2, api: false }, 1));
		}
	}
	v
}

fn apache_val(v: &apache_avro::types::Value) -> Option<Val> {
	use apache_avro::types::Value as A;
	Some(match v {
		A::Bytes(b) => Val::Bytes(b.clone()),
		A::Long(n) => Val::Long(*n),
		A::String(s) => Val::Str(s.clone()),
		A::Null => Val::Null,
		A::Record(fs) => match fs.as_slice() {
			[(a, A::Long(n)), (b, A::String(s))] if a == "a" && b == "b" => Val::Rec(*n, s.clone()),
			[(a, A::Array(xs)), (b, A::Map(m))] if a == "xs" && b == "m" => {
				let mut ints = Vec::new();
				for x in xs {
					match x {
						A::Int(n) => ints.push(*n),
						_ => return None,
					}
				}
				let mut mm = BTreeMap::new();
				for (k, v) in m {
					match v {
						A::String(s) => mm.insert(k.clone(), s.clone()),
						_ => return None,
					};
				}
				Val::Coll(ints, mm)
			}
			_ => return None,
		},
		A::Array(xs) => {
			let mut longs = Vec::new();
			for x in xs {
				match x {
					A::Long(n) => longs.push(*n),
					_ => return None,
				}
			}
			Val::Arr(longs)
		}
		_ => return None,
	})
}

fn to_apache(v: &Val) -> apache_avro::types::Value {
	use apache_avro::types::Value as A;
	match v {
		Val::Bytes(b) => A::Bytes(b.clone()),
		Val::Long(n) => A::Long(*n),
		Val::Str(s) => A::String(s.clone()),
		Val::Null => A::Null,
		Val::Rec(a, b) => A::Record(vec![("a".into(), A::Long(*a)), ("b".into(), A::String(b.clone()))]),
		Val::Arr(xs) => A::Array(xs.iter().map(|n| A::Long(*n)).collect()),
		Val::Coll(xs, m) => A::Record(vec![("xs".into(), A::Array(xs.iter().map(|n| A::Int(*n)).collect())), ("m".into(), A::Map(m.iter().map(|(k, v)| (k.clone(), A::String(v.clone()))).collect()))]),
	}
}

/// (values, user metadata) as apache-avro reads the file
fn apache_read(bytes: &[u8]) -> Out<(Vec<Val>, BTreeMap<String, Vec<u8>>)> {
	guarded(|| {
		let rd = apache_avro::Reader::new(bytes).map_err(|e| format!("open: {e}"))?;
		let user: BTreeMap<String, Vec<u8>> = rd.user_metadata().iter().map(|(k, v)| (k.clone(), v.clone())).collect();
		let mut vals = Vec::new();
		for (i, r) in rd.enumerate() {
			let v = r.map_err(|e| format!("value #{i}: {e}"))?;
			vals.push(apache_val(&v).ok_or_else(|| format!("value #{i}: unexpected shape {v:?}"))?);
		}
		Ok((vals, user))
	})
}

/// `var`: 0 = serialize loop, sync marker pinned; 1 = default (random) sync marker; 2 = the free function write_all
fn run_w(spec: &FileSpec, var: u8, thorough: bool, cover: &mut Cover, out: &mut Vec<Violation>, verbose: bool) {
	let label = format!("{}{}", spec.label(), match var { 1 => " [default sync marker: no sync_marker() call]", 2 => " [written by write_all(schema, compression, Vec, values)]", _ => "" });
	let replay = json!({"check": "C06", "part": "W", "spec": spec, "var": var, "thorough": thorough});
	let Some((steps, expected)) = c05::plan(spec) else { return };
	cover.evaluations += 1;
	cover.impl_runs += 1;
	cover.states += steps.len() as u64 + 1;
	cover.transitions += steps.len() as u64;
	let written = match var {
		1 => c05::api::write_variant(spec, &steps, c05::api::WVar::DefaultMarker),
		2 => c05::api::write_variant(spec, &steps, c05::api::WVar::WriteAll),
		_ => c05::write_file(spec, &steps),
	};
	let bytes = match written {
		Out::Ok(b) => b,
		Out::Err(e) => return viol(out, "write-err", format!("writer=crate {label}: {}", e.replace('\u{1}', "")), replay),
		Out::Panic(p) => return viol(out, "write-panic", format!("writer=crate {label}: panicked: {p}"), replay),
	};
	cover.count("W_files_written", 1);
	cover.outcomes.insert(hash64(&bytes));
	let f = match cf_parse(&bytes) {
		Ok(f) => f,
		Err(e) => return viol(out, "layout:unparseable", format!("writer=crate {label}: the independent parser rejects the {}-byte file: {e}{}", bytes.len(), if var == 0 { format!("; first bytes {}", hex(&bytes[..bytes.len().min(48)])) } else { String::new() }), replay),
	};
	if verbose {
		println!("  parsed: metadata keys {:?}, codec {:?}, sync {}, blocks {:?}", f.meta.iter().map(|(k, _)| k.as_str()).collect::<Vec<_>>(), f.codec, hex(&f.sync), f.blocks.iter().map(|b| (b.count, b.raw.len(), b.data.len())).collect::<Vec<_>>());
	}
	// metadata: exactly avro.schema, avro.codec and the user keys, each once
	let user = c05::user_meta(spec.meta);
	let mut want_keys: Vec<String> = vec!["avro.schema".into(), "avro.codec".into()];
	want_keys.extend(user.iter().map(|(k, _)| k.clone()));
	want_keys.sort();
	let mut got_keys: Vec<String> = f.meta.iter().map(|(k, _)| k.clone()).collect();
	got_keys.sort();
	if got_keys != want_keys {
		viol(out, "layout:metadata-keys", format!("writer=crate {label}: header metadata keys are {got_keys:?}, expected {want_keys:?}"), replay.clone());
	}
	// avro.schema
	let crate_schema: serde_avro_fast::Schema = spec.sk.json().parse().expect("schema");
	match f.meta_get("avro.schema") {
		None => viol(out, "layout:schema", format!("writer=crate {label}: no avro.schema in the header"), replay.clone()),
		Some(s) => {
			let same_json = serde_json::from_slice::<Value>(s).ok() == serde_json::from_str::<Value>(spec.sk.json()).ok();
			if !same_json || s != crate_schema.json().as_bytes() {
				viol(out, "layout:schema", format!("writer=crate {label}: avro.schema holds {:?}; the schema is {} (schema.json() = {})", String::from_utf8_lossy(s), spec.sk.json(), crate_schema.json()), replay.clone());
			}
		}
	}
	// avro.codec
	match f.meta_get("avro.codec") {
		Some(c) if c == spec.codec.name().as_bytes() => {}
		other => viol(out, "layout:codec-name", format!("writer=crate {label}: avro.codec holds {:?}; the specification's name is {:?}", other.map(String::from_utf8_lossy), spec.codec.name()), replay.clone()),
	}
	for (k, v) in &user {
		if f.meta_get(k) != Some(v.as_slice()) {
			viol(out, "layout:user-metadata", format!("writer=crate {label}: user metadata key {k:?} holds {:?}, given [{}]", f.meta_get(k).map(hex), hex(v)), replay.clone());
		}
	}
	if var != 0 {
		// any 16 bytes; the parser has checked that every block ends with the header's marker
		cover.count(if var == 1 { "W_default_marker_files_with_consistent_marker" } else { "W_write_all_files_with_consistent_marker" }, 1);
		if f.blocks.len() >= 2 {
			cover.count("W_random_marker_files_with_2_or_more_blocks", 1);
		}
	} else if f.sync != SYNC {
		viol(out, "layout:sync", format!("writer=crate {label}: header sync marker is {}, the writer was given {}", hex(&f.sync), hex(&SYNC)), replay.clone());
	}
	// blocks: count/size consistent with the datums, values equal (sync of every block = header sync: checked by the parser)
	let mut got = Vec::new();
	for (bi, b) in f.blocks.iter().enumerate() {
		if b.count == 0 {
			cover.count("W_blocks_with_count_0(not judged)", 1);
		}
		match dec_block(spec.sk, &b.data, b.count) {
			Ok(vs) => got.extend(vs),
			Err(e) => {
				viol(out, "layout:block-contents", format!("writer=crate {label}: block #{bi} (count {}, {} bytes stored, {} bytes after removing the {} framing): {e}", b.count, b.raw.len(), b.data.len(), f.codec), replay.clone());
				return;
			}
		}
	}
	if got != expected {
		let i = got.iter().zip(expected.iter()).position(|(a, b)| a != b).unwrap_or(got.len().min(expected.len()));
		viol(out, "layout:values", format!("writer=crate {label}: the independent parser finds {} values, {} were written; first difference at #{i}: {:?} vs {:?}", got.len(), expected.len(), got.get(i), expected.get(i)), replay.clone());
		return;
	}
	if spec.codec != Codec::Null || f.blocks.len() >= 2 || spec.meta != 0 {
		cover.nontrivial.insert(hash64(&("W", spec, var)));
	}
	if f.blocks.iter().any(|b| b.raw.len() > 8192) {
		cover.count("W_files_with_block_stored_gt_8KiB", 1);
	}
	for b in &f.blocks {
		for (t, name) in [(32 * 1024usize, "32KiB"), (64 * 1024, "64KiB"), (128 * 1024, "128KiB")] {
			if b.raw.len() > t {
				cover.count(&format!("W_blocks_stored_gt_{name}(codec={})", spec.codec.name()), 1);
			}
		}
	}
	if spec.meta == 4 && spec.codec == Codec::Snappy && spec.abs == 2 && spec.sk == Sk::Bytes && spec.ops == [Op::P, Op::P, Op::S] {
		cover.sample(json!({"part": "W", "file": label, "bytes": bytes.len(), "metadata_keys": f.meta.iter().map(|(k, _)| k.clone()).collect::<Vec<_>>(), "blocks": f.blocks.iter().map(|b| (b.count, b.raw.len())).collect::<Vec<_>>()}));
	}
	// the crate reads its own file incl. the user metadata
	let blocks: Vec<(u64, usize)> = f.blocks.iter().map(|b| (b.count, b.data.len())).collect();
	let user_map = user_part(&user);
	crate_reads("crate", &label, &bytes, spec.sk, &expected, &user_map, &blocks, cover, out, &replay, verbose);
	// second, foreign implementation
	if thorough && spec.sk == Sk::Null {
		// apache-avro 0.17 refuses datums that occupy zero bytes ("did not consume any bytes … avoid an
		// infinite loop", reader.rs): a limitation of that implementation, no verdict on the crate
		cover.count("W_files_not_given_to_apache_avro(zero-byte datums)", 1);
	} else if thorough {
		cover.impl_runs += 1;
		match apache_read(&bytes) {
			Out::Ok((vals, umeta)) => {
				if verbose {
					println!("  apache-avro reads {} value(s), user metadata {:?}", vals.len(), umeta);
				}
				if vals != expected {
					let i = vals.iter().zip(expected.iter()).position(|(a, b)| a != b).unwrap_or(vals.len().min(expected.len()));
					viol(out, "apache-read-differs", format!("writer=crate {label}: apache-avro reads {} values, {} were written; first difference at #{i}: {:?} vs {:?}", vals.len(), expected.len(), vals.get(i), expected.get(i)), replay.clone());
				} else if umeta != user_map {
					viol(out, "apache-read-differs", format!("writer=crate {label}: apache-avro reads user metadata {umeta:?}, given {user_map:?}"), replay.clone());
				} else {
					cover.count("W_files_read_back_by_apache_avro", 1);
				}
			}
			Out::Err(e) => viol(out, "apache-read-err", format!("writer=crate {label}: apache-avro cannot read the {}-byte file: {e}", bytes.len()), replay.clone()),
			Out::Panic(p) => viol(out, "apache-read-err", format!("writer=crate {label}: apache-avro panicked: {p}"), replay.clone()),
		}
	}
}

// ---------------------------------------------------------------------------------------------
// R: files assembled by the independent writer

#[derive(Clone, Debug, PartialEq, Eq, Hash, Serialize, Deserialize)]
pub struct Foreign {
	pub codec: Codec,
	pub sk: Sk,
	/// index of the first value in the schema's value cycle
	pub off: usize,
	/// object count of each block (0 = block without objects)
	pub blocks: Vec<usize>,
	/// Some((s, incompressible)): every datum is one of exactly s encoded bytes
	pub big: Option<(usize, bool)>,
	/// metadata keys in file order ("avro.codec" may be missing when the codec is null)
	pub meta_keys: Vec<String>,
	pub meta_blocks: Vec<usize>,
	pub meta_sized: bool,
	/// collection schemas: (elements per value, items per array/map block (0 = one block), negative counts + byte sizes, map as large as the array)
	#[serde(default)]
	pub coll: Option<(usize, usize, bool, bool)>,
}

impl Foreign {
	fn label(&self) -> String {
		format!(
			"codec={} avro.codec {} schema={} blocks(object counts)={:?}{} metadata keys in file order {:?} written as map blocks {:?}{}",
			self.codec.name(),
			if self.meta_keys.iter().any(|k| k == "avro.codec") { "present" } else { "absent" },
			self.sk.label(),
			self.blocks,
			match (self.big, self.coll) {
				(Some((s, inc)), _) => format!(" datums of {s} bytes ({})", if inc { "incompressible" } else { "compressible" }),
				(_, Some((n, chunk, sized, map))) => format!(" each value holds {n} elements{} written as {}{}", if map { " (map too)" } else { "" }, if chunk == 0 { "one block".to_owned() } else { format!("blocks of {chunk} items") }, if sized { " with negative counts + byte sizes" } else { "" }),
				_ => format!(" values #{}..", self.off),
			},
			self.meta_keys,
			self.meta_blocks,
			if self.meta_sized { " with negative counts + byte sizes" } else { "" }
		)
	}
	fn values(&self) -> Vec<Val> {
		let n: usize = self.blocks.iter().sum();
		(0..n)
			.map(|i| match (self.big, self.coll) {
				(Some((s, inc)), _) => c05::big_val(self.sk, s, inc, 77 + i as u64).expect("representable size"),
				(_, Some((n, _, _, map))) => c05::coll_val(self.sk, n, map, 500 + i as u64).expect("collection schema"),
				_ => small_val(self.sk, self.off + i),
			})
			.collect()
	}
	fn meta_pairs(&self) -> Vec<(String, Vec<u8>)> {
		self.meta_keys
			.iter()
			.map(|k| {
				let v: Vec<u8> = match k.as_str() {
					"avro.schema" => self.sk.json().as_bytes().to_vec(),
					"avro.codec" => self.codec.name().as_bytes().to_vec(),
					"k" => b"v".to_vec(),
					"avro.extra" => vec![0xff],
					"zz" => vec![],
					other => other.as_bytes().to_vec(),
				};
				(k.clone(), v)
			})
			.collect()
	}
}

type CompressCache = HashMap<(Codec, Vec<u8>), Vec<u8>>;

fn assemble(f: &Foreign, cache: &mut CompressCache) -> (Vec<u8>, Vec<Val>, Vec<(u64, usize)>) {
	let vals = f.values();
	let mut out = Vec::new();
	out.extend_from_slice(&MAGIC);
	write_meta(&f.meta_pairs(), &MetaLayout { blocks: f.meta_blocks.clone(), sized: f.meta_sized }, &mut out);
	out.extend_from_slice(&SYNC);
	let mut i = 0;
	let mut blocks = Vec::new();
	for &n in &f.blocks {
		let mut data = Vec::new();
		for v in &vals[i..i + n] {
			match f.coll {
				Some((_, chunk, sized, _)) => c05::enc_layout(v, chunk, sized, &mut data),
				None => enc(v, &mut data),
			}
		}
		i += n;
		blocks.push((n as u64, data.len()));
		let raw = cache.entry((f.codec, data.clone())).or_insert_with(|| vmodel::container::compress(f.codec.name(), &data).expect("reference compressor")).clone();
		vmodel::value::write_long(n as i64, &mut out);
		vmodel::value::write_long(raw.len() as i64, &mut out);
		out.extend_from_slice(&raw);
		out.extend_from_slice(&SYNC);
	}
	(out, vals, blocks)
}

fn compositions(n: usize) -> Vec<Vec<usize>> {
	if n == 0 {
		return vec![vec![]];
	}
	let mut out = Vec::new();
	for first in 1..=n {
		for mut rest in compositions(n - first) {
			let mut v = vec![first];
			v.append(&mut rest);
			out.push(v);
		}
	}
	out
}

/// all compositions of n datums into blocks, plus each with one empty block inserted at every position
fn partitions(n: usize) -> Vec<Vec<usize>> {
	let mut out = Vec::new();
	for c in compositions(n) {
		out.push(c.clone());
		for p in 0..=c.len() {
			let mut d = c.clone();
			d.insert(p, 0);
			out.push(d);
		}
	}
	out
}

fn permutations(items: &[String]) -> Vec<Vec<String>> {
	if items.len() <= 1 {
		return vec![items.to_vec()];
	}
	let mut out = Vec::new();
	for i in 0..items.len() {
		let mut rest = items.to_vec();
		let x = rest.remove(i);
		for mut p in permutations(&rest) {
			let mut v = vec![x.clone()];
			v.append(&mut p);
			out.push(v);
		}
	}
	out
}

/// (key order, map blocks, sized) variants for a key set
fn meta_variants(keys: &[String], all: bool) -> Vec<(Vec<String>, Vec<usize>, bool)> {
	let n = keys.len();
	let mut layouts: Vec<Vec<usize>> = vec![vec![n]];
	if n >= 2 {
		layouts.push(vec![1; n]);
		layouts.push(vec![1, n - 1]);
	}
	if n >= 3 {
		layouts.push(vec![n - 1, 1]);
	}
	let mut out = Vec::new();
	let perms = if all { permutations(keys) } else { vec![keys.to_vec(), keys.iter().rev().cloned().collect()] };
	for p in perms {
		for l in &layouts {
			for sized in [false, true] {
				out.push((p.clone(), l.clone(), sized));
			}
		}
	}
	out.dedup();
	out
}

fn r_files(codec: Codec, with_codec_key: bool, sk: Sk, thorough: bool) -> Vec<Foreign> {
	let mut v = Vec::new();
	let base: Vec<String> = if with_codec_key { vec!["avro.schema".into(), "avro.codec".into()] } else { vec!["avro.schema".into()] };
	let extras: [&[&str]; 3] = [&[], &["k"], &["k", "avro.extra"]];
	// R4: collection schemas: arrays / maps of 0, 1, 1000, 1001, ~5000 elements in every block layout
	if sk.is_coll() {
		let ns: Vec<usize> = if thorough { vec![0, 1, 999, 1000, 1001, 1002, 5000, 20000] } else { vec![0, 1, 1000, 1001, 5000] };
		for n in ns {
			for (chunk, sized) in [(0usize, false), (0, true), (400, false), (1000, true), (1, true)] {
				for map in [false, true] {
					if map && (sk == Sk::ArrLong || n < 1000) {
						continue;
					}
					for part in [vec![1usize], vec![1, 1], vec![1, 0, 1]] {
						v.push(Foreign { codec, sk, off: 0, blocks: part, big: None, meta_keys: base.clone(), meta_blocks: vec![base.len()], meta_sized: false, coll: Some((n, chunk, sized, map)) });
					}
				}
			}
		}
	}
	// R1: every partition x a few metadata variants
	let max_n = if sk.is_coll() { 2 } else if thorough { 6 } else { 4 };
	let offs: &[usize] = if thorough { &[0, 3] } else { &[0] };
	let mut few: Vec<(Vec<String>, Vec<usize>, bool)> = Vec::new();
	few.push((base.clone(), vec![base.len()], false));
	let mut k3 = base.clone();
	k3.push("k".into());
	let rev: Vec<String> = k3.iter().rev().cloned().collect();
	few.push((rev.clone(), vec![1; rev.len()], true));
	few.push((k3.clone(), vec![1, k3.len() - 1], false));
	let mut k4 = vec!["zz".to_owned()];
	k4.extend(base.iter().rev().cloned());
	k4.push("avro.extra".into());
	few.push((k4.clone(), vec![k4.len()], true));
	for n in 0..=max_n {
		for part in partitions(n) {
			for &off in offs {
				for (keys, mb, sized) in &few {
					v.push(Foreign { codec, sk, off, blocks: part.clone(), big: None, meta_keys: keys.clone(), meta_blocks: mb.clone(), meta_sized: *sized, coll: None });
				}
			}
		}
	}
	// R2: every metadata variant (all key orders of <= 4 keys, map layouts) x a few partitions
	if thorough || matches!(sk, Sk::Long | Sk::Rec) {
		let parts: Vec<Vec<usize>> = if thorough { vec![vec![], vec![2], vec![1, 1], vec![1, 0, 1], vec![2, 1]] } else { vec![vec![2], vec![1, 1], vec![1, 0, 1]] };
		for ex in extras {
			let mut keys = base.clone();
			keys.extend(ex.iter().map(|s| s.to_string()));
			for (order, mb, sized) in meta_variants(&keys, true) {
				for part in &parts {
					v.push(Foreign { codec, sk, off: 1, blocks: part.clone(), big: None, meta_keys: order.clone(), meta_blocks: mb.clone(), meta_sized: sized, coll: None });
				}
			}
		}
	}
	// R3: foreign blocks beyond the 8 KiB / 32 KiB buffers
	if matches!(sk, Sk::Bytes | Sk::Str | Sk::Rec) {
		let sizes: &[(usize, bool)] = if thorough { &[(8192, true), (8192, false), (40000, true), (40000, false), (70000, true), (140000, false)] } else { &[(8192, false), (40000, true)] };
		for &(s, inc) in sizes {
			for part in [vec![1], vec![1, 2], vec![2, 0, 1]] {
				v.push(Foreign { codec, sk, off: 0, blocks: part, big: Some((s, inc)), meta_keys: base.clone(), meta_blocks: vec![base.len()], meta_sized: false, coll: None });
			}
		}
	}
	v
}

fn run_r(f: &Foreign, cache: &mut CompressCache, cover: &mut Cover, out: &mut Vec<Violation>, verbose: bool) {
	let label = f.label();
	let replay = json!({"check": "C06", "part": "R", "file": f});
	let (bytes, vals, blocks) = assemble(f, cache);
	cover.evaluations += 1;
	cover.states += f.blocks.len() as u64 + 1;
	cover.transitions += f.blocks.len() as u64;
	// the reference file must be accepted by the reference parser (harness self-check)
	match cf_parse(&bytes) {
		Ok(p) => {
			if p.blocks.len() != f.blocks.len() {
				eprintln!("MACHINERY: reference writer/parser disagree on {label}");
				std::process::exit(2);
			}
		}
		Err(e) => {
			eprintln!("MACHINERY: reference parser rejects the reference writer's file {label}: {e}");
			std::process::exit(2);
		}
	}
	let default_meta = f.meta_keys == ["avro.schema", "avro.codec"] && f.meta_blocks == [2] && !f.meta_sized;
	if f.codec != Codec::Null || f.blocks.len() >= 2 || !default_meta {
		cover.nontrivial.insert(hash64(&("R", f)));
	}
	cover.count("R_files", 1);
	if !f.meta_keys.iter().any(|k| k == "avro.codec") {
		cover.count("R_files_without_avro.codec", 1);
	}
	if f.meta_sized {
		cover.count("R_files_metadata_negative_count_blocks", 1);
	}
	if f.meta_blocks.len() >= 2 {
		cover.count("R_files_metadata_in_several_map_blocks", 1);
	}
	if f.meta_keys.len() >= 4 {
		cover.count("R_files_4_metadata_keys", 1);
	}
	if f.blocks.contains(&0) {
		cover.count("R_files_with_a_block_of_0_objects", 1);
	}
	if f.big.is_some() {
		cover.count("R_files_with_large_blocks", 1);
	}
	if let Some((n, chunk, _, _)) = f.coll {
		if n > 1000 && chunk != 0 {
			cover.count("R_files_collections_gt_1000_elements_in_several_blocks", 1);
		}
	}
	if f.meta_keys.len() == 4 && f.meta_keys[0] == "avro.extra" && f.meta_keys[3] == "avro.schema" && f.blocks == [1, 0, 1] && f.codec == Codec::Snappy && f.sk == Sk::Long && f.meta_sized && f.meta_blocks.len() == 2 && f.meta_blocks[0] == 1 {
		cover.sample(json!({"part": "R", "file": label, "hex": truncate(&hex(&bytes), 400)}));
	}
	let pairs = f.meta_pairs();
	let label = if f.meta_keys.iter().any(|k| k == "avro.codec") { label } else { format!("{label} [avro.codec absent: the specification says absent means null]") };
	crate_reads("reference(vmodel)", &label, &bytes, f.sk, &vals, &user_part(&pairs), &blocks, cover, out, &replay, verbose);
}

// ---------------------------------------------------------------------------------------------
// A: files written by apache-avro (thorough)

#[derive(Clone, Debug, PartialEq, Eq, Hash, Serialize, Deserialize)]
pub struct ApacheFile {
	pub codec: Codec,
	pub sk: Sk,
	pub off: usize,
	/// values appended between flushes
	pub blocks: Vec<usize>,
	pub big: Option<(usize, bool)>,
	pub user: u8,
	/// collection schemas: elements per value
	#[serde(default)]
	pub coll: Option<usize>,
}

fn apache_codec(c: Codec) -> apache_avro::Codec {
	match c {
		Codec::Null => apache_avro::Codec::Null,
		Codec::Deflate => apache_avro::Codec::Deflate,
		Codec::Bzip2 => apache_avro::Codec::Bzip2,
		Codec::Snappy => apache_avro::Codec::Snappy,
		Codec::Xz => apache_avro::Codec::Xz,
		Codec::Zstd => apache_avro::Codec::Zstandard,
	}
}

fn apache_write(a: &ApacheFile) -> Out<(Vec<u8>, Vec<Val>, Vec<(String, Vec<u8>)>)> {
	guarded(|| {
		let schema = apache_avro::Schema::parse_str(a.sk.json()).map_err(|e| format!("schema: {e}"))?;
		let mut w = apache_avro::Writer::builder().schema(&schema).writer(Vec::new()).codec(apache_codec(a.codec)).block_size(1 << 30).marker(SYNC).build();
		let user: Vec<(String, Vec<u8>)> = c05::user_meta(a.user).into_iter().filter(|(k, _)| !k.starts_with("avro.")).collect();
		for (k, v) in &user {
			w.add_user_metadata(k.clone(), v).map_err(|e| format!("add_user_metadata: {e}"))?;
		}
		let mut vals = Vec::new();
		let mut i = 0usize;
		for &n in &a.blocks {
			for _ in 0..n {
				let v = match (a.big, a.coll) {
					(Some((s, inc)), _) => c05::big_val(a.sk, s, inc, 99 + i as u64).ok_or("size")?,
					(_, Some(n)) => c05::coll_val(a.sk, n, n % 2 == 1, 900 + i as u64).ok_or("collection")?,
					_ => small_val(a.sk, a.off + i),
				};
				w.append(to_apache(&v)).map_err(|e| format!("append: {e}"))?;
				vals.push(v);
				i += 1;
			}
			w.flush().map_err(|e| format!("flush: {e}"))?;
		}
		let bytes = w.into_inner().map_err(|e| format!("into_inner: {e}"))?;
		Ok((bytes, vals, user))
	})
}

fn a_files() -> Vec<ApacheFile> {
	let mut v = Vec::new();
	for codec in Codec::ALL {
		for sk in Sk::COLL {
			for n in [0usize, 1, 1000, 1001, 5000] {
				for part in [vec![1usize], vec![2, 1]] {
					v.push(ApacheFile { codec, sk, off: 0, blocks: part, big: None, user: 0, coll: Some(n) });
				}
			}
		}
		for sk in Sk::ALL {
			for n in 0..=4usize {
				for part in compositions(n) {
					for user in [0u8, 2, 4] {
						v.push(ApacheFile { codec, sk, off: 0, blocks: part.clone(), big: None, user, coll: None });
					}
				}
			}
			if matches!(sk, Sk::Bytes | Sk::Str | Sk::Rec) {
				for (s, inc) in [(8192usize, false), (40000, true), (140000, false)] {
					v.push(ApacheFile { codec, sk, off: 0, blocks: vec![1, 2], big: Some((s, inc)), user: 2, coll: None });
				}
			}
		}
	}
	v
}

fn run_a(a: &ApacheFile, cover: &mut Cover, out: &mut Vec<Violation>, verbose: bool) {
	let label = format!("codec={} schema={} values per block {:?}{}{} user_metadata=#{}", a.codec.name(), a.sk.label(), a.blocks, a.big.map(|(s, i)| format!(" datums of {s} bytes ({})", if i { "incompressible" } else { "compressible" })).unwrap_or_default(), a.coll.map(|n| format!(" each value holds {n} elements")).unwrap_or_default(), a.user);
	let replay = json!({"check": "C06", "part": "A", "file": a});
	cover.evaluations += 1;
	let (bytes, vals, user) = match apache_write(a) {
		Out::Ok(x) => x,
		Out::Err(e) | Out::Panic(e) => {
			eprintln!("MACHINERY: apache-avro cannot write {label}: {e}");
			std::process::exit(2);
		}
	};
	// block structure as the reference parser sees it (also: the two foreign implementations agree)
	let blocks: Vec<(u64, usize)> = match cf_parse(&bytes) {
		Ok(p) => p.blocks.iter().map(|b| (b.count, b.data.len())).collect(),
		Err(e) => {
			eprintln!("MACHINERY: the reference parser rejects apache-avro's file {label}: {e}");
			std::process::exit(2);
		}
	};
	cover.count("A_files(apache-avro writer)", 1);
	if a.codec != Codec::Null || blocks.len() >= 2 || a.user != 0 {
		cover.nontrivial.insert(hash64(&("A", a)));
	}
	crate_reads("apache-avro", &label, &bytes, a.sk, &vals, &user_part(&user), &blocks, cover, out, &replay, verbose);
}

// ---------------------------------------------------------------------------------------------

pub fn run(rep: &mut Report) {
	let thorough = rep.thorough();
	rep.rule = format!(
		"SAE. W (writer side): files written by the crate (sync marker pinned) for ALL operation sequences of length <= {} over {{serialize, push_serialized(2), finish_block}} x 6 codecs x 5 schemas x (approx_block_size 2 x 6 user-metadata variants [none, empty map, {{k:v}} as strings, {{a.b:0xff}}, 3 keys, non-ASCII + reserved-prefix key] + approx_block_size 0 / 64 Ki), plus multi-block files with blocks of 8-70 KB and non-default levels, plus, for every codec, INCOMPRESSIBLE (xorshift) blocks whose stored size exceeds 32 KiB, 64 KiB and 128 KiB (the encoder's start buffer and its doublings) built from one big datum, from 48-140 noisy datums of 1000 bytes, and from runs of small datums, in [S,X,S] and [X,finish,X], plus growing / shrinking-then-growing incompressible blocks (10/600/5000/70000 bytes; zstandard at levels default/1/22), plus schemas array<long> and record{{xs:array<int>,m:map<string>}} with values of 0/1/1000/1001/5000 elements; plus the same layout checks (the marker being any 16 bytes that the header and every block share) on files written WITHOUT sync_marker() (all histories of length <= 2 [thorough 3] x 7 schemas x 6 codecs x 2 metadata variants, and 64-140 KB blocks) and on files written by the free function write_all; each taken apart by the independent parser: magic, metadata keys exactly avro.schema/avro.codec/user keys, avro.schema = schema.json() and JSON-equal to the source, avro.codec = specification name, user values intact, header sync = given marker = every block's sync, per-block count/size consistent with the datums, codec framing removed by independent decoders (libflate raw deflate, snap + big-endian CRC-32 of the uncompressed data, streaming bzip2/xz, zstd), values equal; then read back (values + user metadata) by the crate through slice / &[u8] BufRead / BufReader{}. R (reader side): files assembled by the independent writer: value sequences of 0..={} datums x ALL compositions into blocks, each also with one 0-object block at every position, x 6 codecs (+ null with avro.codec ABSENT) x 5 schemas x 4 metadata variants; ALL orders of <= 4 metadata keys (avro.schema, avro.codec, k, avro.extra) x map layouts (one block / one key per block / 1+rest / rest+1) x positive or negative(+byte size) counts x partitions {}; blocks of 8 KB-{} KB; collection schemas with 0/1/1000/1001/5000 elements per value whose arrays/maps are written as one block, blocks of 400, 1000 (negative counts + byte sizes) or 1 item; read by the crate (3 reader kinds): values, end of stream twice, user metadata (non-reserved keys).{} Non-trivial: non-null codec, or >= 2 blocks, or user metadata / non-default metadata layout; distinct files.",
		if thorough { 4 } else { 3 },
		if thorough { "; every file (except zero-byte-datum files, which apache-avro refuses) is also read by apache-avro 0.17 (values and user metadata)" } else { "" },
		if thorough { 6 } else { 4 },
		if thorough { "{[],[2],[1,1],[1,0,1],[2,1]} for every schema" } else { "{[2],[1,1],[1,0,1]} for long and record" },
		if thorough { 140 } else { 40 },
		if thorough { " A: files written by apache-avro 0.17 (6 codecs x 5 schemas x all flush patterns of <= 4 values x 3 user-metadata variants, and 8-140 KB blocks) read by the crate." } else { "" },
	);
	rep.assumptions.push("vmodel::container implements the object container file layout of the Avro 1.11 specification (independent codecs: libflate, snap + bit-serial CRC-32, streaming bzip2/xz, zstd::stream)".into());
	rep.assumptions.push("reserved-prefix (avro.*) unknown metadata keys are not judged on the reading side; blocks with an object count of 0 are taken as conforming (the specification does not exclude them)".into());
	rep.assumptions.push("small-refill readers are C05/C11's subject; C06 reads through whole-buffer reader kinds".into());

	// W
	let specs = w_specs(thorough);
	rep.extra.insert("W_files".into(), json!(specs.len()));
	let specs: Vec<(FileSpec, u8)> = specs.into_iter().map(|s| (s, 0u8)).chain(w_variant_specs(thorough)).collect();
	let chunks: Vec<&[(FileSpec, u8)]> = specs.chunks(64).collect();
	let w_results: Vec<(Cover, Vec<Violation>)> = chunks
		.par_iter()
		.map(|c| {
			let mut cover = Cover::default();
			let mut out = Vec::new();
			for (s, var) in c.iter() {
				run_w(s, *var, thorough, &mut cover, &mut out, false);
			}
			(cover, out)
		})
		.collect();
	// R
	let mut units: Vec<(Codec, bool, Sk)> = Vec::new();
	for codec in Codec::ALL {
		for sk in Sk::ALL.into_iter().chain(Sk::COLL) {
			units.push((codec, true, sk));
			if codec == Codec::Null && !sk.is_coll() {
				units.push((codec, false, sk));
			}
		}
	}
	let r_results: Vec<(Cover, Vec<Violation>)> = units
		.par_iter()
		.map(|&(codec, key, sk)| {
			let mut cover = Cover::default();
			let mut out = Vec::new();
			let mut cache = CompressCache::new();
			for f in r_files(codec, key, sk, thorough) {
				run_r(&f, &mut cache, &mut cover, &mut out, false);
			}
			(cover, out)
		})
		.collect();
	// A
	let a_results: Vec<(Cover, Vec<Violation>)> = if thorough {
		let files = a_files();
		files
			.par_chunks(32)
			.map(|c| {
				let mut cover = Cover::default();
				let mut out = Vec::new();
				for a in c {
					run_a(a, &mut cover, &mut out, false);
				}
				(cover, out)
			})
			.collect()
	} else {
		vec![]
	};
	// merge; keep a bounded number of violations per (class, codec, message shape)
	let mut per_sig: BTreeMap<String, usize> = BTreeMap::new();
	for (c, vs) in w_results.into_iter().chain(r_results).chain(a_results) {
		rep.cover.merge(c);
		for v in vs {
			let codec = v.what.split("codec=").nth(1).and_then(|s| s.split(' ').next()).unwrap_or("").to_owned();
			let tail = v.what.rsplit(": ").next().unwrap_or("");
			let sig = format!("{}|{}|{}|{}", v.class, v.what.split(' ').next().unwrap_or(""), codec, truncate(&tail.chars().map(|c| if c.is_ascii_digit() { '#' } else { c }).collect::<String>(), 120));
			let n = per_sig.entry(sig).or_insert(0);
			*n += 1;
			if *n <= 3 {
				rep.violations.push(v);
			}
		}
	}
	rep.extra.insert("violation_signatures".into(), json!(per_sig.iter().map(|(k, n)| json!({"signature": k, "cases": n})).collect::<Vec<_>>()));
	let mut guards = vec!["W_default_marker_files_with_consistent_marker", "W_write_all_files_with_consistent_marker", "W_random_marker_files_with_2_or_more_blocks", "W_files_written", "W_files_with_block_stored_gt_8KiB", "crate_reads_ok(writer=crate)", "crate_reads_ok(writer=reference(vmodel))", "R_files", "R_files_without_avro.codec", "R_files_metadata_negative_count_blocks", "R_files_metadata_in_several_map_blocks", "R_files_4_metadata_keys", "R_files_with_a_block_of_0_objects", "R_files_with_large_blocks", "R_files_collections_gt_1000_elements_in_several_blocks", "crate_reads_ok_of_collections_gt_1000_elements(writer=crate)", "crate_reads_ok_of_collections_gt_1000_elements(writer=reference(vmodel))"];
	if thorough {
		guards.extend(["W_files_read_back_by_apache_avro", "A_files(apache-avro writer)", "crate_reads_ok(writer=apache-avro)", "crate_reads_ok_of_collections_gt_1000_elements(writer=apache-avro)"]);
	}
	let per_codec: Vec<String> = Codec::ALL.iter().flat_map(|c| ["32KiB", "64KiB", "128KiB"].into_iter().map(move |t| format!("W_blocks_stored_gt_{t}(codec={})", c.name()))).collect();
	guards.extend(per_codec.iter().map(|s| s.as_str()));
	let mut cover = std::mem::take(&mut rep.cover);
	c05::vacuity_guards("C06", rep, &mut cover, &guards);
	rep.cover = cover;
}

pub fn replay(v: &Value) -> i32 {
	let r = &v["replay"];
	let mut cover = Cover::default();
	let mut out = Vec::new();
	match r["part"].as_str() {
		Some("W") => {
			let spec: FileSpec = match serde_json::from_value(r["spec"].clone()) {
				Ok(s) => s,
				Err(e) => {
					eprintln!("bad replay token: {e}");
					return 2;
				}
			};
			println!("replaying W: crate writes {}", spec.label());
			run_w(&spec, r["var"].as_u64().unwrap_or(0) as u8, r["thorough"].as_bool().unwrap_or(true), &mut cover, &mut out, true);
		}
		Some("R") => {
			let f: Foreign = match serde_json::from_value(r["file"].clone()) {
				Ok(s) => s,
				Err(e) => {
					eprintln!("bad replay token: {e}");
					return 2;
				}
			};
			println!("replaying R: reference writer assembles {}", f.label());
			let (bytes, _, _) = assemble(&f, &mut CompressCache::new());
			println!("  file ({} bytes): {}", bytes.len(), truncate(&hex(&bytes), 1200));
			run_r(&f, &mut CompressCache::new(), &mut cover, &mut out, true);
		}
		Some("A") => {
			let a: ApacheFile = match serde_json::from_value(r["file"].clone()) {
				Ok(s) => s,
				Err(e) => {
					eprintln!("bad replay token: {e}");
					return 2;
				}
			};
			println!("replaying A: apache-avro writes {a:?}");
			run_a(&a, &mut cover, &mut out, true);
		}
		_ => {
			eprintln!("bad replay token: no part");
			return 2;
		}
	}
	for v in &out {
		println!("  [{}] {}", v.class, truncate(&v.what, 1500));
	}
	if out.is_empty() {
		println!("  no violation");
		0
	} else {
		1
	}
}
