//! C01 — datum round trip: decode(encode(v, S), S) = v.

use crate::envs::ChunkedBufRead;
use crate::explore::{explore, hash64, Chooser, Cover};
use crate::gen::{self, ObsMode, RecordStyle, UnionStyle};
use crate::report::{hex, Report, Violation};
use crate::subj::{self, Limits, Out};
use rayon::prelude::*;
use serde_json::json;
use vmodel::schema::{Env, RSchema};
use vmodel::value::{RValue, Verdict};

const STYLES: [(UnionStyle, RecordStyle); 3] =
	[(UnionStyle::ByTypeWhereUnambiguous, RecordStyle::Struct), (UnionStyle::ByName, RecordStyle::Struct), (UnionStyle::ByTypeWhereUnambiguous, RecordStyle::Map)];
const MODES: [ObsMode; 3] = [ObsMode::Any, ObsMode::Hinted, ObsMode::Optioned];

fn nontrivial_schema(s: &RSchema) -> bool {
	!matches!(s, RSchema::Null | RSchema::Boolean | RSchema::Int | RSchema::Long | RSchema::Float | RSchema::Double | RSchema::Bytes | RSchema::String)
}

pub struct Unit {
	pub id: usize,
	pub schema: RSchema,
}

pub fn units(level: usize) -> Vec<Unit> {
	// the shared alphabet, then (C01 only: they exercise the serializer's union lookup, which the
	// decoding checks do not depend on) every ordered triple of representative branch kinds
	let mut schemas = gen::schema_alphabet(level);
	schemas.extend(gen::triple_unions(&mut gen::Names(500_000)));
	schemas.into_iter().enumerate().map(|(id, schema)| Unit { id, schema }).collect()
}

/// One leaf: a value of the unit's schema; all styles x modes x input paths are executed.
pub fn run_leaf(u: &Unit, crate_schema: &serde_avro_fast::Schema, env: &Env, ch: &mut Chooser, max_items: usize, cover: &mut Cover, out: &mut Vec<Violation>) {
	let v: RValue = gen::gen_value(&u.schema, env, ch, true, max_items, 2);
	let choices = ch.choices();
	let schema_text = gen::schema_text(&u.schema);
	let mut viol = |class: &str, what: String, extra: serde_json::Value| {
		out.push(Violation {
			class: class.to_owned(),
			what: format!("schema {schema_text} value {v:?}: {what}"),
			replay: json!({"check": "C01", "unit": u.id, "choices": choices, "schema": schema_text, "value": format!("{v:?}"), "max_items": max_items, "detail": extra}),
		});
	};
	let mut encodings: Vec<Vec<u8>> = Vec::new();
	for (si, (us, rs)) in STYLES.iter().enumerate() {
		let p = gen::pres_of(&v, &u.schema, env, *us, *rs);
		if gen::take_undesignatable() {
			// two branches share the name the crate would be addressed with: no presentation
			// determines the branch (DESIGN.md §7)
			cover.count("values_not_designatable_by_type_or_name", 1);
			continue;
		}
		cover.impl_runs += 1;
		let bytes = match subj::ser(crate_schema, &p) {
			Out::Ok(b) => b,
			Out::Err(e) => {
				viol("ser-err", format!("to_datum failed for presentation style {si} {p:?}: {e}"), json!({"style": si}));
				continue;
			}
			Out::Panic(e) => {
				viol("ser-panic", format!("to_datum panicked for presentation style {si} {p:?}: {e}"), json!({"style": si}));
				continue;
			}
		};
		match vmodel::value::decode(&bytes, &u.schema, env) {
			Verdict::Valid(v2, n) if v2 == v && n == bytes.len() => {}
			other => {
				viol("bytes-differ", format!("presentation style {si} {p:?} gave bytes [{}] which the reference decodes as {other:?}", hex(&bytes)), json!({"style": si, "bytes": hex(&bytes)}));
				continue;
			}
		}
		if !encodings.contains(&bytes) {
			encodings.push(bytes);
		}
	}
	for bytes in &encodings {
		for (mi, mode) in MODES.iter().enumerate() {
			let hint = gen::hint_for(&v, &u.schema, env, *mode);
			// slice
			let expect_b = gen::expect_obs(&v, &u.schema, env, *mode, true);
			cover.impl_runs += 1;
			let mut padded = bytes.clone();
			padded.extend_from_slice(&[0x2a, 0x2a]);
			match subj::de_slice(crate_schema, &padded, &hint, &Limits::none()) {
				Out::Ok((o, n)) => {
					if o != expect_b {
						let class = if o.unborrowed() == expect_b.unborrowed() { "borrow-lost" } else { "de-differs" };
						viol(class, format!("slice, mode {mode:?}: bytes [{}] observed {o:?}, expected {expect_b:?}", hex(bytes)), json!({"mode": mi, "path": "slice"}));
					} else if n != bytes.len() {
						viol("consumed", format!("slice, mode {mode:?}: consumed {n} of {} bytes", bytes.len()), json!({"mode": mi, "path": "slice"}));
					}
					if crate::obs::borrowed_outside_input() {
						viol("borrow-outside-input", format!("slice, mode {mode:?}: a borrowed str/bytes does not point into the input"), json!({"mode": mi}));
					}
				}
				Out::Err(e) => viol("de-err", format!("slice, mode {mode:?}: bytes [{}] failed to decode: {e}", hex(bytes)), json!({"mode": mi, "path": "slice"})),
				Out::Panic(e) => viol("de-panic", format!("slice, mode {mode:?}: panicked: {e}"), json!({"mode": mi, "path": "slice"})),
			}
			// reader: whole, and one byte at a time
			let expect_o = gen::expect_obs(&v, &u.schema, env, *mode, false);
			for chunk in [0usize, 1] {
				cover.impl_runs += 1;
				let rd = ChunkedBufRead::uniform(&padded, chunk);
				let (r, run) = subj::de_reader(crate_schema, rd, &hint, &Limits::none());
				match r {
					Out::Ok(o) => {
						if o != expect_o {
							viol("de-differs", format!("reader chunk={chunk}, mode {mode:?}: bytes [{}] observed {o:?}, expected {expect_o:?}", hex(bytes)), json!({"mode": mi, "path": "reader", "chunk": chunk}));
						} else if run.consumed != bytes.len() {
							viol("consumed", format!("reader chunk={chunk}, mode {mode:?}: consumed {} of {} bytes", run.consumed, bytes.len()), json!({"mode": mi, "path": "reader"}));
						}
					}
					Out::Err(e) => viol("de-err", format!("reader chunk={chunk}, mode {mode:?}: bytes [{}] failed to decode: {e}", hex(bytes)), json!({"mode": mi, "path": "reader"})),
					Out::Panic(e) => viol("de-panic", format!("reader chunk={chunk}, mode {mode:?}: panicked: {e}"), json!({"mode": mi, "path": "reader"})),
				}
			}
		}
	}
	cover.evaluations += 1;
	let enc0 = encodings.first().cloned().unwrap_or_default();
	if nontrivial_schema(&u.schema) || enc0.len() >= 2 {
		cover.nontrivial.insert(hash64(&(u.id, &v)));
	}
	cover.outcomes.insert(hash64(&enc0));
	if cover.samples.len() < 2 && nontrivial_schema(&u.schema) && enc0.len() > 3 {
		cover.sample(json!({"schema": schema_text, "value": format!("{v:?}"), "bytes": hex(&enc0)}));
	}
}

fn run_unit(u: &Unit, max_items: usize, max_leaves: u64) -> (Cover, Vec<Violation>) {
	let mut cover = Cover::default();
	let mut out = Vec::new();
	let env = Env::new(&u.schema);
	let crate_schema = match gen::to_crate_schema(&u.schema) {
		Ok(s) => s,
		Err(e) => {
			out.push(Violation { class: "schema-rejected".into(), what: e, replay: json!({"check": "C01", "unit": u.id}) });
			return (cover, out);
		}
	};
	let st = explore(None, max_leaves, |ch| {
		run_leaf(u, &crate_schema, &env, ch, max_items, &mut cover, &mut out);
		out.len() < 200
	});
	cover.add_tree(&st, &format!("unit {}", u.id));
	(cover, out)
}

pub fn run(rep: &mut Report) {
	let thorough = rep.thorough();
	let us = units(if thorough { 3 } else { 2 });
	let (max_items, max_leaves) = if thorough { (3, 400_000) } else { (2, 20_000) };
	rep.rule = format!(
		"SAE: every schema of the shared alphabet Σ_S (level {}), every value from the boundary alphabet Σ_V with collections of <= {} items (odometer over the value's choice tree, per-schema leaf cap {}), each executed in 3 presentation styles (unions by type where unambiguous / by branch name; records as struct / as map), then decoded in 3 observation modes (deserialize_any / hinted enums and typed leaves / Option for nullable unions) from slice, whole-buffer reader and 1-byte-chunk reader; oracle: reference decoder returns the value and the observation equals the expected one (floats by bits, borrowed-ness on the slice path). Plus 19 families of ordinary Rust types (derived Serialize/Deserialize: structs, integer widths, Option, enums-as-unions with newtype and struct variants, unit enums, Vec/BTreeMap/HashMap, recursive types, Option of enums-as-unions over unions with and without a null branch, rust_decimal / duration / temporal logical types, plain integers under decimal schemas, serde newtype structs, tuples / [T; N] / tuple structs over arrays, borrowed &str/&[u8] checked to point into the input; Rust enums over non-union nodes, tuple variants, 128-bit integers; fixed-size sequence targets over arrays of every other length 0..4 in every block split must be refused) with exhaustive small value domains, bytes judged by the reference decoder and the decoded Rust value compared after translation to the reference value. Plus depth ladders: arrays / maps / records nested k = 1..64 deep around an int must round-trip under the default depth limit and under allowed_depth = k and k+1. Non-trivial: schema is not a bare primitive or the encoding has >= 2 bytes; distinct on (schema, value).",
		if thorough { 3 } else { 2 },
		max_items,
		max_leaves
	);
	rep.assumptions.push("reference encoder/decoder (vmodel) implements the Avro 1.11 binary encoding".into());
	rep.assumptions.push("expected observations encode the crate's documented serde mapping (decimal -> string, enum -> symbol, duration -> months/days/milliseconds)".into());
	let results: Vec<(Cover, Vec<Violation>)> = us.par_iter().map(|u| run_unit(u, max_items, max_leaves)).collect();
	rep.extra.insert("schemas".into(), json!(us.len()));
	for (c, v) in results {
		rep.cover.merge(c);
		rep.violations.extend(v);
	}
	// ordinary Rust data types (derived Serialize/Deserialize) through hand-written schemas
	let mut typed_viol = Vec::new();
	crate::c01_typed::run_all(&mut rep.cover, &mut typed_viol);
	rep.violations.extend(typed_viol);
	depth_ladders(rep);
	if thorough {
		f32_sweep(rep);
	}
}

/// "Nesting up to the depth limit": a datum nested exactly `allowed_depth` containers deep must
/// round-trip (with the default limit of 64 and with small custom limits); what lies beyond the
/// limit is C04's business.
fn depth_ladders(rep: &mut Report) {
	use vmodel::value::Canonical;
	let mut out: Vec<Violation> = Vec::new();
	for kind in ["array", "map", "record"] {
		for k in 1usize..=64 {
			// (the JSON text of k nested records is 3k levels deep: serde_json's own recursion
			// limit of 128 refuses it beyond k = 42 - not a statement about Avro)
			if kind == "record" && k > 40 {
				continue;
			}
			// schema and value nested k containers deep around an int
			let mut schema = RSchema::Int;
			let mut value = RValue::Int(-65);
			for level in 0..k {
				match kind {
					"array" => {
						schema = RSchema::array(schema);
						value = RValue::Array(vec![value]);
					}
					"map" => {
						schema = RSchema::map(schema);
						value = RValue::Map(vec![("k".to_owned(), value)]);
					}
					_ => {
						schema = RSchema::record(&format!("L{level}"), vec![("f", schema)]);
						value = RValue::Record(vec![value]);
					}
				}
			}
			let env = Env::new(&schema);
			let text = gen::schema_text(&schema);
			let cs = match gen::to_crate_schema(&schema) {
				Ok(s) => s,
				Err(e) => {
					out.push(Violation { class: "schema-rejected".into(), what: e, replay: json!({"check": "C01", "ladder": kind, "k": k}) });
					continue;
				}
			};
			let expected = vmodel::value::encode(&value, &schema, &env, &mut Canonical).unwrap();
			let p = gen::pres_of(&value, &schema, &env, UnionStyle::ByTypeWhereUnambiguous, RecordStyle::Struct);
			rep.cover.evaluations += 1;
			rep.cover.impl_runs += 1;
			let mut viol = |class: &str, what: String| {
				out.push(Violation { class: class.to_owned(), what: format!("depth ladder: {k} nested {kind}s around an int (schema of {} bytes): {what}", text.len()), replay: json!({"check": "C01", "ladder": kind, "k": k}) });
			};
			match subj::ser(&cs, &p) {
				Out::Ok(b) if b == expected => {}
				other => {
					viol("ladder-ser", format!("serialization gave {} instead of the reference bytes [{}]", match &other { Out::Ok(b) => format!("[{}]", hex(b)), o => o.kind().to_owned() }, hex(&expected)));
					continue;
				}
			}
			let expect_o = gen::expect_obs(&value, &schema, &env, ObsMode::Any, false);
			// default limit (64), and the limit set to exactly the depth of the datum
			for limit in [None, Some(k), Some(k + 1)] {
				rep.cover.impl_runs += 2;
				let limits = Limits { allowed_depth: limit, max_seq_size: None, max_alloc_size: None };
				let what_limit = limit.map_or("default allowed_depth (64)".to_owned(), |l| format!("allowed_depth = {l}"));
				match subj::de_slice(&cs, &expected, &crate::obs::Hint::Any, &limits) {
					Out::Ok((o, _)) if o.unborrowed() == expect_o => {}
					other => viol("ladder-de", format!("slice, {what_limit}: a datum exactly {k} containers deep must decode, got {}", match other { Out::Ok((o, _)) => format!("{o:?}"), Out::Err(e) => format!("Err({e})"), Out::Panic(e) => format!("panic {e}") })),
				}
				let (r, _) = subj::de_reader(&cs, ChunkedBufRead::uniform(&expected, 1), &crate::obs::Hint::Any, &limits);
				match r {
					Out::Ok(o) if o == expect_o => {}
					other => viol("ladder-de", format!("reader, {what_limit}: a datum exactly {k} containers deep must decode, got {}", match other { Out::Ok(o) => format!("{o:?}"), Out::Err(e) => format!("Err({e})"), Out::Panic(e) => format!("panic {e}") })),
				}
			}
			rep.cover.nontrivial.insert(hash64(&("ladder", kind, k)));
		}
	}
	rep.cover.count("depth_ladder_rungs", 2 * 64 + 40);
	rep.violations.extend(out);
}

/// All 2^32 f32 bit patterns through the bare `float` schema.
fn f32_sweep(rep: &mut Report) {
	let schema: serde_avro_fast::Schema = "\"float\"".parse().unwrap();
	let bad: Vec<u32> = (0u32..=255)
		.into_par_iter()
		.flat_map_iter(|hi| {
			let schema = &schema;
			let mut config = serde_avro_fast::ser::SerializerConfig::new(schema);
			let mut buf: Vec<u8> = Vec::with_capacity(8);
			let mut bad = Vec::new();
			for lo in 0u32..(1 << 24) {
				let bits = (hi << 24) | lo;
				buf.clear();
				let f = f32::from_bits(bits);
				buf = match serde_avro_fast::to_datum(&f, buf, &mut config) {
					Ok(b) => b,
					Err(_) => {
						bad.push(bits);
						Vec::new()
					}
				};
				if buf != bits.to_le_bytes() {
					bad.push(bits);
					continue;
				}
				match serde_avro_fast::from_datum_slice::<f32>(&buf, schema) {
					Ok(g) if g.to_bits() == bits => {}
					_ => bad.push(bits),
				}
			}
			bad.into_iter()
		})
		.collect();
	rep.cover.impl_runs += 2 * (1u64 << 32);
	rep.cover.evaluations += 1u64 << 32;
	rep.cover.count("f32_bit_patterns_swept", 1u64 << 32);
	for b in bad.iter().take(5) {
		rep.violation("f32-bits", format!("float bit pattern {b:#010x} does not round-trip bit-exactly"), json!({"check": "C01", "f32_bits": b}));
	}
}

pub fn replay(v: &serde_json::Value) -> i32 {
	let r = &v["replay"];
	if let Some(bits) = r["f32_bits"].as_u64() {
		let schema: serde_avro_fast::Schema = "\"float\"".parse().unwrap();
		let f = f32::from_bits(bits as u32);
		let b = serde_avro_fast::to_datum_vec(&f, &mut serde_avro_fast::ser::SerializerConfig::new(&schema));
		println!("bits {bits:#x} -> {b:?}");
		return 0;
	}
	if r["ladder"].is_string() {
		let mut rep = Report::new("C01", "quick");
		depth_ladders(&mut rep);
		let k = r["k"].as_u64().unwrap_or(0);
		let kind = r["ladder"].as_str().unwrap_or("");
		let hits: Vec<&Violation> = rep.violations.iter().filter(|v| v.replay["k"].as_u64() == Some(k) && v.replay["ladder"].as_str() == Some(kind)).collect();
		for v in &hits {
			println!("  [{}] {}", v.class, v.what);
		}
		return if hits.is_empty() { 0 } else { 1 };
	}
	if let Some(fam) = r["typed_family"].as_str() {
		let out = crate::c01_typed::replay(fam, r["value_index"].as_u64().unwrap_or(0) as usize);
		for v in &out {
			println!("  [{}] {}", v.class, v.what);
		}
		return if out.is_empty() { 0 } else { 1 };
	}
	let unit = r["unit"].as_u64().unwrap() as usize;
	let choices: Vec<usize> = r["choices"].as_array().unwrap().iter().map(|c| c.as_u64().unwrap() as usize).collect();
	for level in [2usize, 3] {
		let us = units(level);
		let Some(u) = us.get(unit) else { continue };
		if gen::schema_text(&u.schema) != r["schema"].as_str().unwrap_or("") {
			continue;
		}
		let env = Env::new(&u.schema);
		let cs = gen::to_crate_schema(&u.schema).unwrap();
		let mut ch = Chooser::replay(choices.clone());
		let mut cover = Cover::default();
		let mut out = Vec::new();
		run_leaf(u, &cs, &env, &mut ch, r["max_items"].as_u64().unwrap_or(3) as usize, &mut cover, &mut out);
		println!("replayed unit {unit} schema {}", gen::schema_text(&u.schema));
		for v in &out {
			println!("  [{}] {}", v.class, v.what);
		}
		return if out.is_empty() { 0 } else { 1 };
	}
	eprintln!("unit not found");
	2
}
