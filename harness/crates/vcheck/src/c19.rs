//! C19 — schema construction is total: parsing any text, and freezing / fingerprinting /
//! rendering as JSON / Debug-formatting any node vector assembled through the public builder
//! API returns Ok or Err — no panic, no stack overflow, no endless loop — and a schema that
//! froze can be used to serialize and deserialize safely.
//!
//! Everything that touches the crate runs in worker subprocesses (`isolate.rs`); this module
//! enumerates the families of cases (`c19_ops.rs`, `c19_nodes.rs`, `c19_texts.rs`), hands
//! contiguous index ranges to workers (main-thread 8 MiB stack and 2 MiB thread stack), and
//! turns crashes / timeouts / panics into violations.

use crate::c19_ops::{self as ops, Ctx, Fam};
use crate::explore::hash64;
use crate::isolate::{self, Entry, Job, OpOut, Spec, Stack, StepCell, WorkerResult, CODE_ABORT, CODE_ERR, CODE_NOT_RUN, CODE_OK, CODE_PANIC, CODE_SKIPPED, CODE_TIMEOUT};
use crate::report::{load_known, truncate, Known, Report, Violation};
use rayon::prelude::*;
use serde_json::json;
use std::collections::BTreeMap;

fn what_for(ctx: &Ctx, idx: u64, op: usize, step: u8, stack: Stack, observed: &str) -> String {
	let (desc, _, _) = ctx.describe(idx);
	format!("{desc} | op={} | step={} | stack={} | observed: {observed}", ctx.fam.op_name(op), ops::STEPS.get(step as usize).copied().unwrap_or("?"), stack.name())
}

fn match_known<'a>(known: &'a [Known], class: &str, what: &str) -> Option<&'a Known> {
	known.iter().find(|k| k.status == "known" && k.property == "C19" && k.class == class && k.what_contains.iter().all(|c| what.contains(c.as_str())))
}

/// crashes per listed known finding per worker after which predicted repeats are skipped
const KNOWN_CRASH_BUDGET: u32 = 24;

struct C19Job {
	ctx: Ctx,
	stack: Stack,
	known: Vec<Known>,
}

impl Job for C19Job {
	fn nops(&self) -> usize {
		self.ctx.fam.nops()
	}
	fn run(&self, idx: u64, op: usize, step: &StepCell, meta: &mut dyn FnMut(u64, u8)) -> OpOut {
		ops::run_op(&self.ctx, idx, op, step, meta)
	}
	fn known_id(&self, idx: u64, op: usize, step: u8, class: &str) -> Option<usize> {
		let what = what_for(&self.ctx, idx, op, step, self.stack, "");
		self.known.iter().position(|k| match_known(std::slice::from_ref(k), class, &what).is_some())
	}
	fn predict(&self, idx: u64, op: usize) -> Option<usize> {
		// the only prediction made: canonical_form_rabin_fingerprint / freeze on a vector in which
		// the harness-side walk meets an unnamed cycle (D5); see c19_nodes::analyze
		if self.ctx.fam.is_text() || self.ctx.fam.is_ladder() || !(op == 2 || op == 3) {
			return None;
		}
		let (_, _, flags) = self.ctx.describe(idx);
		if flags & ops::FLAG_UNNAMED_CYCLE == 0 {
			return None;
		}
		self.known_id(idx, op, if op == 2 { ops::ST_FP } else { ops::ST_FREEZE }, "abort:stack-overflow")
	}
}

/// `vcheck worker C19 <family> <lo> <hi> <stack> <tier> [<only-op>]`
pub fn worker_main(args: &[String]) -> i32 {
	let usage = || -> ! {
		eprintln!("MACHINERY: usage: vcheck worker C19 <family> <lo> <hi> <main-8MiB|thread-2MiB> <quick|thorough> [<op>|- [<start-op>]]");
		std::process::exit(2)
	};
	if args.len() < 5 {
		usage();
	}
	let Some(fam) = Fam::parse(&args[0]) else { usage() };
	let (Ok(lo), Ok(hi)) = (args[1].parse::<u64>(), args[2].parse::<u64>()) else { usage() };
	let Some(stack) = Stack::parse(&args[3]) else { usage() };
	let thorough = args[4] == "thorough";
	let only_op = args.get(5).and_then(|s| s.parse().ok());
	let start_op: usize = args.get(6).and_then(|s| s.parse().ok()).unwrap_or(0);
	let ctx = Ctx::new(fam, thorough);
	if lo > hi || hi > ctx.count() {
		eprintln!("MACHINERY: range {lo}..{hi} outside family {} of {} cases", fam.name(), ctx.count());
		return 2;
	}
	let job = C19Job { ctx, stack, known: load_known() };
	let spec = Spec { lo, hi, stack, horizon_cpu_ms: fam.horizon_ms(), stop_on_timeout: fam.stop_on_timeout(), only_op, known_budget: KNOWN_CRASH_BUDGET, start_op };
	isolate::supervise(&job, &spec)
}

#[derive(Clone, Debug)]
struct Unit {
	fam: Fam,
	lo: u64,
	hi: u64,
	stack: Stack,
}

fn timed_worker(u: &Unit, tier: &str) -> Result<WorkerResult, String> {
	let t = std::time::Instant::now(); // diagnostics only (VERIF_C19_TIMING), never part of a verdict
	let r = isolate::spawn_worker(&unit_args(u, tier, None));
	if std::env::var("VERIF_C19_TIMING").is_ok() {
		eprintln!("timing {:>8.2}s {} {}..{} {}", t.elapsed().as_secs_f64(), u.fam.name(), u.lo, u.hi, u.stack.name());
	}
	r
}

fn unit_args(u: &Unit, tier: &str, only_op: Option<usize>) -> Vec<String> {
	let mut a = vec!["C19".to_owned(), u.fam.name(), u.lo.to_string(), u.hi.to_string(), u.stack.name().to_owned(), tier.to_owned()];
	if let Some(o) = only_op {
		a.push(o.to_string());
	}
	a
}

fn families(thorough: bool) -> Vec<Fam> {
	let mut f = vec![Fam::SelfTest, Fam::DiamondNest, Fam::DiamondFwd, Fam::DiamondBuilder, Fam::RefChainText, Fam::RefChainBuilder, Fam::ArrayChainBuilder, Fam::WideText, Fam::WideBuilder];
	f.extend([Fam::Nodes(0), Fam::Nodes(1), Fam::Nodes(2), Fam::Nodes(3)]);
	if thorough {
		f.push(Fam::Nodes(4));
	}
	// the unmodified seeds (family prefix) come before their near-miss edits, so that the first reported case of a class is the smallest
	f.extend([Fam::Names, Fam::Decor, Fam::Decor2, Fam::Prefix, Fam::OddValues, Fam::Shapes, Fam::NearMiss, Fam::Nest]);
	f
}

fn code_name(c: u8) -> &'static str {
	match c {
		CODE_NOT_RUN => "not-run",
		CODE_OK => "Ok",
		CODE_ERR => "Err",
		CODE_PANIC => "panic",
		CODE_ABORT => "abort",
		CODE_TIMEOUT => "timeout",
		CODE_SKIPPED => "skipped",
		_ => "?",
	}
}

fn machinery(msg: &str) -> ! {
	eprintln!("MACHINERY: {msg}");
	std::process::exit(2)
}

/// A panic raised by the harness itself to report a verdict carries a marker; everything else is a panic of the crate.
fn classify_panic(message: &str) -> (&'static str, String) {
	if let Some(rest) = message.strip_prefix(ops::VERDICT_RUNAWAY) {
		("runaway-output", rest.to_owned())
	} else if let Some(rest) = message.strip_prefix(ops::VERDICT_DANGLING) {
		("dangling-key-after-parse", rest.to_owned())
	} else if let Some(rest) = message.strip_prefix(ops::VERDICT_NAME) {
		("name-accessors-inconsistent", rest.to_owned())
	} else if let Some(rest) = message.strip_prefix(ops::VERDICT_ROUTES) {
		("freeze-routes-differ", rest.to_owned())
	} else {
		("panic", format!("panicked: {message}"))
	}
}

/// Re-execute one operation of one case alone in a fresh worker; returns the observed class
/// ("Ok", "Err", "panic", "abort:…", "timeout") and a text.
///
/// `history = Some((case, op))`: the violation was observed to recur only when the runner's
/// history from that cursor is executed first in the same process (a death that depends on
/// process state left behind by earlier cases); then that whole history is re-executed.
fn reexec(fam: Fam, idx: u64, op: usize, stack: Stack, tier: &str, history: Option<(u64, usize, bool)>) -> (String, String) {
	let args = match history {
		None => unit_args(&Unit { fam, lo: idx, hi: idx + 1, stack }, tier, Some(op)),
		Some((from_case, from_op, _)) => {
			let mut a = unit_args(&Unit { fam, lo: from_case, hi: idx + 1, stack }, tier, None);
			a.extend(["-".to_owned(), from_op.to_string()]);
			a
		}
	};
	match isolate::spawn_worker(&args) {
		Err(e) => machinery(&e),
		Ok(r) => {
			if let Some(c) = r.crashes.iter().find(|c| c.idx == idx && c.op == op) {
				return (c.class.clone(), format!("process killed ({}); stderr: {}", c.class, c.stderr));
			}
			if let (Some((_, _, false)), Some(c)) = (history, r.crashes.iter().find(|c| c.class != "timeout")) {
				// a death whose exact point varies with the heap contents: any death while the same history runs counts as a recurrence
				return (c.class.clone(), format!("process killed ({}) while the same history was executing, this time at case {} operation {}; stderr: {}", c.class, c.idx, c.op, c.stderr));
			}
			if let Some(p) = r.panics.iter().find(|p| p.idx == idx && p.op == op) {
				let (class, obs) = classify_panic(&p.message);
				return (class.into(), obs);
			}
			let e = r.table.last().copied().unwrap_or_default();
			(code_name(e.codes[op]).to_owned(), format!("returned {} (detail bits {:#010b})", code_name(e.codes[op]), e.details[op]))
		}
	}
}

pub fn run(rep: &mut Report) {
	let thorough = rep.thorough();
	let tier = rep.tier.clone();
	let fams = families(thorough);
	let ctxs: BTreeMap<String, Ctx> = fams.iter().map(|f| (f.name(), Ctx::new(*f, thorough))).collect();
	let mut ladder_units = Vec::new();
	let mut sweep_units = Vec::new();
	for f in &fams {
		let n = ctxs[&f.name()].count();
		for stack in [Stack::Main, Stack::T2m] {
			if !thorough && *f == Fam::Nodes(3) && stack == Stack::Main {
				// quick tier: the largest sweep runs on the smaller (stricter) stack only
				continue;
			}
			if f.is_ladder() || *f == Fam::SelfTest {
				ladder_units.push(Unit { fam: *f, lo: 0, hi: n, stack });
			} else {
				let chunk: u64 = if matches!(f, Fam::Nodes(_)) { 16384 } else { 4096 };
				let mut lo = 0;
				while lo < n {
					let hi = (lo + chunk).min(n);
					sweep_units.push(Unit { fam: *f, lo, hi, stack });
					lo = hi;
				}
			}
		}
	}
	rep.rule = format!(
		"Every case runs in a worker subprocess (fork-per-attempt runners under a supervisor; per-case horizon 10 s of CPU time, 100 s wall backstop), once on the main thread (8 MiB stack) and once on a 2 MiB thread (quick tier: the 3-node sweep on the 2 MiB thread only). \
		 (a) node vectors through SchemaMut::from_nodes: every vector of 0..={} nodes over the shape alphabet (Int, Null, Array/Map with every key, Union and Record with 0, 1 and 2 keys, Enum, Fixed; keys = every in-range index, len, len+1, usize::MAX, 1<<63, (1<<63)|1; two-key nodes: all in-range pairs plus a dangling key in either position{}), \
		 plus 'decor': every node kind x every logical type incl. wrong ones (decimal scale {{0,1,28,29,u32::MAX}} x precision {{0,1,usize::MAX}}, unknown names) x names {{\"\", \".\", \"a.\", \".a\", \"a..b\", \"é.é\", '\"', a.b, X, ns.X}} x fixed sizes {{0,1,12,16,17,usize::MAX}} x enum symbol lists x record field-name lists, as root / under a union (shared) / under a namespaced record / as array items, plus 'decor2': pairs of decorated nodes under one union and one record, plus 'names': record / enum / fixed / decimal-over-fixed under 26 dotted names (leading, trailing and doubled dots, multi-byte characters next to a dot, NUL) at the root, as union variant, as array items and as record field inside a record of another / the same / the null namespace; \
		 operations per vector: Name::name/namespace/fully_qualified_name of every named node (total and mutually consistent), Debug, serde_json::to_string, canonical_form_rabin_fingerprint, and both routes to a Schema — SchemaMut::freeze() and Schema::try_from(SchemaMut) — which must agree (both Err, or both Ok with equal json() and fingerprint); for each Ok (the second of two identical results in reduced form): Debug/json/fingerprint of the Schema, 11 hostile byte strings (incl. 16 KiB runs of 0x02 and 0x00 that drive unbounded descent) x 6 deserialize hints from a slice + a recursive typed target (struct of Option<Box<Self>> fields) + 2 reader runs, 41 presentations serialized, the crate's own outputs decoded again. \
		 (b) texts through str::parse::<SchemaMut>() (then the same operations) and str::parse::<Schema>(): JSON shapes to depth {} over 12 atoms at the 11 attribute positions the parser reads and 9 wrappers, near-miss documents (every value position of 30 seed schemas (10 of them with forward references in various positions) replaced by {} shapes, deleted, duplicated), every prefix of the 30 seeds, 26 odd documents, 12 lexically-valid-but-unmaterialisable JSON values (numbers beyond f64 such as 1e999, unpaired surrogate escapes, and harmless relatives) at the holes of 56 templates (ignored attributes of every node kind, nested objects/arrays of ignored attributes, attribute keys, every modelled position), 8 nesting patterns x depths 1..=200{}. \
		 (c) scaling ladders, every rung executed in order and a ladder stopped at its first timeout: diamond chains n=1..=64 (text by nesting, text by forward reference, builder), reference chains and array chains of n in {:?} (text and builder), wide records/unions/enums of n in {:?} (text and builder). \
		 Oracle: every operation returns Ok or Err within the horizon; a panic, a death by signal or a timeout is a violation attributed to the single (case, operation) by the runner's cursor and confirmed by re-running that operation alone. \
		 Non-trivial: node vectors that are empty or contain a dangling key, a cycle, a shared node, a logical type, an unusual name or an extreme parameter, ladder vectors of > 2 nodes; texts other than the 30 unmodified seeds. Distinct on the rendered vector / the text.",
		if thorough { 4 } else { 3 },
		if thorough { "; 4-node vectors use a reduced alphabet: Int, Fixed, Array with keys {in-range, len}, Map with in-range keys, Union and Record with 0, 1 ({in-range, len}) and 2 (all in-range pairs) keys" } else { "" },
		if thorough { 3 } else { 2 },
		if thorough { "all depth-1 (about 1400)" } else { "34 small" },
		if thorough { " and 300, 10^3, 10^4, 10^5" } else { "" },
		ops::CHAIN_RUNGS,
		ops::WIDE_RUNGS
	);
	rep.assumptions.push("a timeout is 10 s of process CPU time (ITIMER_PROF), so the rung at which an exponential family trips depends on the machine's speed, not on its load".into());
	rep.assumptions.push("overflow-checks and debug-assertions are on in the crate (harness release profile), so arithmetic overflow is an observable panic".into());
	rep.assumptions.push("the harness-side structural analysis of node vectors (cycle / dangling / shared) only describes cases; it never decides a verdict".into());

	// ---- execute
	let tier_ref = &tier;
	let (ladder_res, sweep_res): (Vec<Result<WorkerResult, String>>, Vec<Result<WorkerResult, String>>) = std::thread::scope(|s| {
		let handles: Vec<_> = ladder_units.iter().map(|u| s.spawn(move || timed_worker(u, tier_ref))).collect();
		let sweep: Vec<_> = sweep_units.par_iter().map(|u| timed_worker(u, tier_ref)).collect();
		(handles.into_iter().map(|h| h.join().unwrap_or_else(|_| Err("ladder thread panicked".into()))).collect(), sweep)
	});
	let mut all: Vec<(Unit, WorkerResult)> = Vec::new();
	for (u, r) in ladder_units.iter().chain(sweep_units.iter()).zip(ladder_res.into_iter().chain(sweep_res)) {
		match r {
			Ok(r) => {
				if r.table.len() as u64 != u.hi - u.lo || r.lo != u.lo {
					machinery(&format!("worker for {u:?} returned a table of {} entries", r.table.len()));
				}
				all.push((u.clone(), r));
			}
			Err(e) => machinery(&e),
		}
	}

	// ---- machinery self-test: the isolation layer must see an overflow, a loop and a panic of the harness's own making
	for (u, r) in all.iter().filter(|(u, _)| u.fam == Fam::SelfTest) {
		let codes: Vec<u8> = r.table.iter().map(|e| e.codes[0]).collect();
		let classes: Vec<&str> = r.crashes.iter().map(|c| c.class.as_str()).collect();
		if codes != [CODE_OK, CODE_ABORT, CODE_OK, CODE_TIMEOUT, CODE_PANIC, CODE_OK] || classes != ["abort:stack-overflow", "timeout"] || r.panics.len() != 1 {
			machinery(&format!("isolation self-test on stack {} gave codes {codes:?}, crash classes {classes:?}, {} panics (expected Ok, abort:stack-overflow, Ok, timeout, panic, Ok)", u.stack.name(), r.panics.len()));
		}
		rep.cover.count("selftest_isolation_layer_passed", 1);
	}

	// ---- coverage
	let known = load_known();
	let mut fam_stats: BTreeMap<String, BTreeMap<String, u64>> = BTreeMap::new();
	let mut raw: Vec<(Violation, (Fam, u64, usize, Stack, Option<(u64, usize, bool)>))> = Vec::new();
	let mut ladders = Vec::new();
	let mut sampled: BTreeMap<String, u32> = BTreeMap::new();
	let mut skipped = 0u64;
	for (u, r) in all.iter().filter(|(u, _)| u.fam != Fam::SelfTest) {
		let ctx = &ctxs[&u.fam.name()];
		let st = fam_stats.entry(u.fam.name()).or_default();
		*st.entry("units".into()).or_insert(0) += 1;
		rep.cover.count("runner_processes_killed", r.runners_died);
		for (i, e) in r.table.iter().enumerate() {
			let idx = u.lo + i as u64;
			let ran = e.codes.iter().any(|c| *c != CODE_NOT_RUN);
			if !ran {
				*st.entry("cases not run (ladder stopped)".into()).or_insert(0) += 1;
				continue;
			}
			let e: Entry = if e.hash == 0 {
				let (_, h, f) = ctx.describe(idx);
				Entry { hash: h, flags: f, ..*e }
			} else {
				*e
			};
			rep.cover.states += 1;
			rep.cover.evaluations += 1;
			*st.entry(format!("cases/{}", u.stack.name())).or_insert(0) += 1;
			if e.flags & ops::FLAG_NONTRIVIAL != 0 {
				rep.cover.nontrivial.insert(e.hash);
			}
			for op in 0..u.fam.nops() {
				let c = e.codes[op];
				if c == CODE_NOT_RUN {
					continue;
				}
				if c == CODE_SKIPPED {
					skipped += 1;
					*st.entry("operations skipped (predicted repeat of a known finding)".into()).or_insert(0) += 1;
					continue;
				}
				rep.cover.transitions += 1;
				rep.cover.impl_runs += 1;
				rep.cover.outcomes.insert(hash64(&(u.fam.name(), op, c, e.details[op])));
				let opn = u.fam.op_name(op).split(' ').next().unwrap_or("?");
				*st.entry(format!("{opn}:{}", code_name(c))).or_insert(0) += 1;
				let d = e.details[op];
				let last = op + 1 == u.fam.nops() || u.fam.is_text();
				if c == CODE_OK && last && d & ops::D_FREEZE_OK != 0 {
					rep.cover.count("froze_ok_and_used", 1);
					if d & ops::D_DE_OK != 0 {
						rep.cover.count("use_deserialize_ok_seen", 1);
					}
					if d & ops::D_SER_OK != 0 {
						rep.cover.count("use_serialize_ok_seen", 1);
					}
					if e.flags & ops::FLAG_NAMED_CYCLE != 0 && d & ops::D_DE_ERR != 0 {
						rep.cover.count("recursive_schema_used_deserialize_err_seen", 1);
					}
				}
				if !u.fam.is_text() {
					if c == CODE_ERR && e.flags & ops::FLAG_DANGLING != 0 {
						rep.cover.count("builder_err_on_vector_with_dangling_key", 1);
					}
					if op == 1 && c == CODE_ERR && e.flags & ops::FLAG_UNNAMED_CYCLE != 0 {
						rep.cover.count("json_err_on_unnamed_cycle", 1);
					}
				}
			}
			let k = sampled.entry(u.fam.name()).or_insert(0);
			if *k < 1 && e.flags & ops::FLAG_NONTRIVIAL != 0 && u.stack == Stack::Main && i % 7 == 3 {
				*k += 1;
				let (desc, _, _) = ctx.describe(idx);
				rep.cover.samples.push(json!({"family": u.fam.name(), "idx": idx, "case": truncate(&desc, 300), "outcomes": (0..u.fam.nops()).map(|o| code_name(e.codes[o])).collect::<Vec<_>>()}));
			}
		}
		for c in &r.crashes {
			let mut obs = format!("process killed: {}; stderr: {}", c.class, c.stderr);
			if let Some((fc, fo, exact)) = c.history {
				obs.push_str(&format!(
					" | the death does not occur when this operation runs alone in a fresh process; it recurs{} whenever the cases {fc} (from operation {fo}) .. {} of the family are executed first in the same process: it depends on state left behind by earlier cases (heap contents), the mark of undefined behaviour; this is the operation that was in flight when the runner died",
					if exact { ", at this operation," } else { ", at an operation that varies from run to run," },
					c.idx
				));
			}
			let what = what_for(ctx, c.idx, c.op, c.step, u.stack, &obs);
			let mut token = json!({"check": "C19", "family": u.fam.name(), "idx": c.idx, "op": c.op, "stack": u.stack.name(), "tier": tier, "class": c.class});
			if let Some((fc, fo, exact)) = c.history {
				token["history_from"] = json!({"case": fc, "op": fo, "exact": exact});
			}
			raw.push((Violation { class: c.class.clone(), what, replay: token }, (u.fam, c.idx, c.op, u.stack, c.history)));
		}
		for p in &r.panics {
			let (class, obs) = classify_panic(&p.message);
			let what = what_for(ctx, p.idx, p.op, p.step, u.stack, &obs);
			raw.push((Violation { class: class.into(), what, replay: json!({"check": "C19", "family": u.fam.name(), "idx": p.idx, "op": p.op, "stack": u.stack.name(), "tier": tier, "class": class}) }, (u.fam, p.idx, p.op, u.stack, None)));
		}
		if u.fam.is_ladder() {
			let done = r.table.iter().filter(|e| e.codes.iter().any(|c| *c != CODE_NOT_RUN)).count();
			ladders.push(json!({"family": u.fam.name(), "stack": u.stack.name(), "rungs": r.table.len(), "rungs_executed": done,
				"failing_rungs": r.crashes.iter().map(|c| json!({"rung_index": c.idx, "op": c.op, "class": c.class})).collect::<Vec<_>>()}));
			if let Some(stop) = r.ladder_stop {
				rep.cover.caps.push(format!("ladder {} on {}: stopped at rung index {stop} (first timeout); {} later rungs not executed", u.fam.name(), u.stack.name(), r.table.len() as u64 - stop - 1));
			}
		}
	}

	if skipped > 0 {
		rep.cover.count("operations_skipped_predicted_repeat_of_known_finding", skipped);
		rep.cover.caps.push(format!("{skipped} fingerprint/freeze operations on node vectors with an unnamed cycle were not executed: each would kill a runner again through known finding D5 (budget {KNOWN_CRASH_BUDGET} crashes per finding per worker); they run once the finding is fixed"));
	}
	// ---- violations: unknown ones first (never crowded out by the volume of a known finding)
	let mut known_totals: BTreeMap<String, u64> = BTreeMap::new();
	let mut unknown = Vec::new();
	let mut known_kept = Vec::new();
	for (v, key) in raw {
		match match_known(&known, &v.class, &v.what) {
			Some(k) => {
				let n = known_totals.entry(k.id.clone()).or_insert(0);
				*n += 1;
				if *n <= 25 {
					known_kept.push(v);
				}
			}
			None => unknown.push((v, key)),
		}
	}
	// determinism guard: an unlisted violation is re-executed alone (first 8 per class) and must recur
	let mut per_class: BTreeMap<String, u32> = BTreeMap::new();
	for (v, (fam, idx, op, stack, history)) in &unknown {
		let k = per_class.entry(v.class.clone()).or_insert(0);
		*k += 1;
		if *k <= 8 && v.class != "timeout" {
			let (mut class, mut text) = reexec(*fam, *idx, *op, *stack, &tier, *history);
			if v.class == "abort" {
				// A death by a bare signal (no stack overflow, no allocation failure) typically comes from
				// undefined behaviour and may depend on the address-space layout of the process, which
				// differs in every new worker; the worker that observed it has already re-executed it
				// successfully inside its own process tree. Up to 3 fresh attempts; no recurrence is
				// recorded, not fatal.
				for _ in 0..2 {
					if class == v.class {
						break;
					}
					(class, text) = reexec(*fam, *idx, *op, *stack, &tier, *history);
				}
				if class != v.class {
					rep.cover.count("abort_violations_not_recurring_in_a_fresh_worker", 1);
					continue;
				}
			}
			if class != v.class {
				machinery(&format!("violation [{}] {} did not recur when its operation was re-executed alone ({text})", v.class, truncate(&v.what, 300)));
			}
		}
	}
	rep.extra.insert("violations_total".into(), json!(unknown.len() as u64 + known_totals.values().sum::<u64>()));
	rep.extra.insert("known_finding_cases_total".into(), json!(known_totals));
	rep.extra.insert("families".into(), json!(fam_stats));
	rep.extra.insert("ladders".into(), json!(ladders));
	let has_unknown = !unknown.is_empty();
	let mut kept_classes: BTreeMap<String, u32> = BTreeMap::new();
	for (v, _) in unknown {
		let k = kept_classes.entry(v.class.clone()).or_insert(0);
		*k += 1;
		if *k <= 300 {
			rep.violations.push(v);
		}
	}
	rep.violations.extend(known_kept);

	// ---- vacuity guards. A guard that is not met is a machinery error — unless unlisted violations are being
	// reported in this very run: then the guard failure is most likely their consequence (e.g. a valid seed
	// document that the subject now rejects or panics on), it is printed as a note and the verdict stands.
	let guard_fail = |msg: &str| {
		if has_unknown {
			eprintln!("NOTE (not a machinery error because violations are reported): {msg}");
		} else {
			machinery(msg);
		}
	};
	let need = |rep: &Report, k: &str| {
		if rep.cover.counters.get(k).copied().unwrap_or(0) == 0 {
			guard_fail(&format!("vacuity guard: counter {k} is 0 — a behaviour this check relies on was never exercised"));
		}
	};
	for k in ["selftest_isolation_layer_passed", "froze_ok_and_used", "use_deserialize_ok_seen", "use_serialize_ok_seen", "recursive_schema_used_deserialize_err_seen", "builder_err_on_vector_with_dangling_key", "json_err_on_unnamed_cycle"] {
		need(rep, k);
	}
	let stat = |f: &str, k: &str| fam_stats.get(f).and_then(|m| m.get(k)).copied().unwrap_or(0);
	for f in ["shapes", "nearmiss", "prefix", "nest", "oddvals"] {
		if stat(f, "parse-mut:Ok") == 0 || stat(f, "parse-mut:Err") == 0 || stat(f, "parse-schema:Ok") == 0 {
			guard_fail(&format!("vacuity guard: text family {f} did not see both accepted and rejected documents"));
		}
	}
	for f in ["nodes-2", "nodes-3", "decor", "decor2"] {
		if stat(f, "freeze:Ok") == 0 || stat(f, "fingerprint:Ok") == 0 || stat(f, "json:Ok") == 0 || (f != "decor2" && (stat(f, "freeze:Err") == 0 || stat(f, "json:Err") == 0)) {
			guard_fail(&format!("vacuity guard: builder family {f} did not see both outcomes of freeze / to_string"));
		}
	}
	// the seed documents are valid schemas that freeze
	{
		let ctx = &ctxs["prefix"];
		for (u, r) in all.iter().filter(|(u, _)| u.fam == Fam::Prefix) {
			for si in ctx.prefix_seed_indices() {
				if si >= u.lo && si < u.hi {
					let e = r.table[(si - u.lo) as usize];
					if e.codes[0] != CODE_OK || e.details[0] & ops::D_FREEZE_OK == 0 || e.codes[1] != CODE_OK {
						guard_fail(&format!("vacuity guard: seed document at prefix index {si} is not accepted by the crate"));
					}
					rep.cover.count("seed_documents_accepted", 1);
				}
			}
		}
		need(rep, "seed_documents_accepted");
	}
	// the first rung of every ladder is accepted
	for (u, r) in all.iter().filter(|(u, _)| u.fam.is_ladder()) {
		let e = r.table[0];
		let last = u.fam.nops() - 1;
		if e.codes[last] != CODE_OK {
			guard_fail(&format!("vacuity guard: first rung of ladder {} on {} gave {}", u.fam.name(), u.stack.name(), code_name(e.codes[last])));
		}
	}
}

pub fn replay(v: &serde_json::Value) -> i32 {
	let r = &v["replay"];
	let (Some(fam), Some(idx), Some(op), Some(stack)) = (r["family"].as_str().and_then(Fam::parse), r["idx"].as_u64(), r["op"].as_u64(), r["stack"].as_str().and_then(Stack::parse)) else {
		eprintln!("replay token lacks family/idx/op/stack");
		return 2;
	};
	let tier = r["tier"].as_str().unwrap_or("quick");
	let ctx = Ctx::new(fam, tier == "thorough");
	if idx >= ctx.count() {
		eprintln!("case index {idx} outside family {}", fam.name());
		return 2;
	}
	let (desc, _, _) = ctx.describe(idx);
	println!("case: {}", truncate(&desc, 2000));
	println!("operation: {} on stack {}", fam.op_name(op as usize), stack.name());
	println!("expected: returns Ok or Err within the horizon ({} ms of CPU), no panic, no abort", fam.horizon_ms());
	let history = match (r["history_from"]["case"].as_u64(), r["history_from"]["op"].as_u64()) {
		(Some(c), Some(o)) => {
			println!("history: the cases {c} (from operation {o}) .. {idx} of the family are executed first, in the same process");
			Some((c, o as usize, r["history_from"]["exact"].as_bool().unwrap_or(true)))
		}
		_ => None,
	};
	let (class, text) = reexec(fam, idx, op as usize, stack, tier, history);
	println!("observed: {text}");
	if class == "Ok" || class == "Err" {
		println!("=> holds");
		0
	} else {
		println!("=> VIOLATION [{class}]");
		1
	}
}
