//! Process isolation for cases that can abort the process (stack overflow, runaway allocation,
//! endless loop). Used through the `vcheck worker <PROPERTY> <spec…>` sub-command.
//!
//! Shape: the check's parent process re-invokes `current_exe()` as a *worker* for a contiguous
//! range of case indices. The worker process is a small single-threaded **supervisor**: it maps
//! a shared result table, then forks a *runner* child that executes the cases of the range in
//! order, many cases per runner. Before every operation the runner stores a cursor
//! (case, operation, step) in the shared mapping, and it arms a CPU-time timer (the per-case
//! horizon; plus a wall-clock backstop of 10x the horizon) per case. When the runner dies on a
//! signal the supervisor knows from the cursor exactly which single operation of which single
//! case was executing: no search is needed to narrow the range down. The attribution is then
//! *confirmed* by running exactly that one operation alone in a fresh runner: if it dies again
//! (timeout again, or abort again — the signal of an abort that comes from undefined behaviour
//! varies) the crash is attributed to the case (line `X`). If it does not, the runner's whole
//! history (from where that runner started, up to the operation) is re-executed in a fresh
//! runner: if that dies at the same operation, the death is deterministic and is attributed to
//! the operation in flight, with the history recorded (line `H`) for replay; if it dies
//! elsewhere it is still reported for the operation in flight, marked inexact. Only a death that
//! recurs in neither way is a machinery error (line `M`, exit status 2), never a verdict. The
//! supervisor then starts a new runner that resumes at the next operation.
//!
//! Runners are not forked by the supervisor itself but by a *zygote* forked from it before any
//! case ran, which never touches its heap: every runner starts from an identical memory image,
//! so re-executions are exact repetitions even for code that reads uninitialised heap memory.
//!
//! Line protocol on the worker's stdout (one record per line):
//!   `X <case> <op> <step> <class> <json stderr excerpt>`  crash / timeout attributed to one operation
//!   `H <case> <op> <from-case> <from-op> <exact 1|0>`     the following `X` recurs only after this history (0: at a varying point)
//!   `V <case> <op> <step> <json panic message>`           panic caught inside the runner
//!   `L <case>`                                            ladder stopped at this case (first timeout)
//!   `T <lo> <hex>`                                        result table (ENTRY bytes per case)
//!   `M <text>`                                            machinery error (worker exits with 2)
//!   `E`                                                   end of a complete run

use std::panic::{catch_unwind, AssertUnwindSafe};

pub const ENTRY: usize = 24;
pub const MAX_OPS: usize = 4;

pub const CODE_NOT_RUN: u8 = 0;
pub const CODE_OK: u8 = 1;
pub const CODE_ERR: u8 = 2;
pub const CODE_PANIC: u8 = 3;
pub const CODE_ABORT: u8 = 4;
pub const CODE_TIMEOUT: u8 = 5;
/// not executed: the operation is predicted to re-hit a listed known finding whose per-worker crash budget is spent
pub const CODE_SKIPPED: u8 = 6;

#[derive(Clone, Copy, PartialEq, Eq, Debug)]
pub enum Stack {
	/// the process's main thread (8 MiB with the default `ulimit -s`)
	Main,
	/// a spawned thread with a 2 MiB stack (Rust's default for spawned threads)
	T2m,
}
impl Stack {
	pub fn name(self) -> &'static str {
		match self {
			Stack::Main => "main-8MiB",
			Stack::T2m => "thread-2MiB",
		}
	}
	pub fn parse(s: &str) -> Option<Stack> {
		match s {
			"main-8MiB" => Some(Stack::Main),
			"thread-2MiB" => Some(Stack::T2m),
			_ => None,
		}
	}
}

/// What one operation of one case reports back.
#[derive(Clone, Copy, Default, Debug)]
pub struct OpOut {
	/// CODE_OK / CODE_ERR
	pub code: u8,
	pub detail: u8,
}

#[derive(Clone, Copy, Default, Debug, PartialEq)]
pub struct Entry {
	pub hash: u64,
	pub codes: [u8; MAX_OPS],
	pub details: [u8; MAX_OPS],
	pub flags: u8,
}
impl Entry {
	fn to_bytes(self) -> [u8; ENTRY] {
		let mut b = [0u8; ENTRY];
		b[..8].copy_from_slice(&self.hash.to_le_bytes());
		b[8..12].copy_from_slice(&self.codes);
		b[12..16].copy_from_slice(&self.details);
		b[16] = self.flags;
		b
	}
	fn from_bytes(b: &[u8]) -> Entry {
		let mut e = Entry { hash: u64::from_le_bytes(b[..8].try_into().unwrap()), ..Entry::default() };
		e.codes.copy_from_slice(&b[8..12]);
		e.details.copy_from_slice(&b[12..16]);
		e.flags = b[16];
		e
	}
}

/// The work a runner does. Implemented by the check.
pub trait Job: Sync {
	fn nops(&self) -> usize;
	/// Execute operation `op` of case `idx`. `step.set(k)` records progress inside the operation
	/// (names are the check's). `meta` is called once per case (by operation 0, or by whichever
	/// operation runs first) to record the case hash and flags.
	fn run(&self, idx: u64, op: usize, step: &StepCell, meta: &mut dyn FnMut(u64, u8)) -> OpOut;
	/// Does the violation (crash class at case/op/step) match a listed known finding? Returns the
	/// position (< 64) of the finding in the job's list. Matching crashes beyond the first 3 are
	/// not re-confirmed in isolation, and after `Spec::known_budget` crashes for one finding the
	/// operations that `predict` says would hit the same finding again are skipped
	/// (CODE_SKIPPED; the parent records that as a cap).
	fn known_id(&self, idx: u64, op: usize, step: u8, class: &str) -> Option<usize>;
	/// Harness-side prediction: would this operation re-hit known finding number k? Only consulted
	/// once some finding's budget is spent.
	fn predict(&self, idx: u64, op: usize) -> Option<usize>;
}

pub struct Spec {
	pub lo: u64,
	pub hi: u64,
	pub stack: Stack,
	pub horizon_cpu_ms: u64,
	pub stop_on_timeout: bool,
	pub only_op: Option<usize>,
	pub known_budget: u32,
	/// first operation of the first case (0 except when a recorded history is re-executed)
	pub start_op: usize,
}

/// Shared mapping: header (4 x u64: case, op, step, unused) + table.
struct Shared {
	ptr: *mut u8,
	len: usize,
}
const HDR: usize = 32;
// the mapping is shared between processes by design; within a process one thread uses it at a time
unsafe impl Sync for Shared {}
impl Shared {
	fn new(cases: usize) -> Shared {
		let len = HDR + cases * ENTRY;
		let ptr = unsafe { libc::mmap(std::ptr::null_mut(), len, libc::PROT_READ | libc::PROT_WRITE, libc::MAP_SHARED | libc::MAP_ANONYMOUS, -1, 0) };
		if ptr == libc::MAP_FAILED {
			machinery("mmap of the shared result table failed");
		}
		Shared { ptr: ptr as *mut u8, len }
	}
	fn set_u64(&self, slot: usize, v: u64) {
		unsafe { std::ptr::write_volatile((self.ptr as *mut u64).add(slot), v) }
	}
	fn get_u64(&self, slot: usize) -> u64 {
		unsafe { std::ptr::read_volatile((self.ptr as *const u64).add(slot)) }
	}
	fn entry_ptr(&self, i: usize) -> *mut u8 {
		assert!(HDR + (i + 1) * ENTRY <= self.len);
		unsafe { self.ptr.add(HDR + i * ENTRY) }
	}
	fn get_entry(&self, i: usize) -> Entry {
		let mut b = [0u8; ENTRY];
		unsafe { std::ptr::copy_nonoverlapping(self.entry_ptr(i), b.as_mut_ptr(), ENTRY) };
		Entry::from_bytes(&b)
	}
	fn set_entry(&self, i: usize, e: Entry) {
		let b = e.to_bytes();
		unsafe { std::ptr::copy_nonoverlapping(b.as_ptr(), self.entry_ptr(i), ENTRY) };
	}
}

/// Progress marker inside an operation, stored in the shared mapping.
pub struct StepCell {
	ptr: *mut u64,
}
impl StepCell {
	pub fn set(&self, step: u8) {
		unsafe { std::ptr::write_volatile(self.ptr, step as u64) }
	}
	/// for in-process use (replay printing, tests)
	pub fn detached() -> StepCell {
		StepCell { ptr: Box::leak(Box::new(0u64)) as *mut u64 }
	}
}

fn emit(line: &str) {
	let mut s = String::with_capacity(line.len() + 1);
	s.push_str(line);
	s.push('\n');
	let b = s.as_bytes();
	let mut off = 0;
	while off < b.len() {
		let n = unsafe { libc::write(1, b[off..].as_ptr() as *const libc::c_void, b.len() - off) };
		if n <= 0 {
			unsafe { libc::_exit(2) };
		}
		off += n as usize;
	}
}

fn machinery(msg: &str) -> ! {
	emit(&format!("M {msg}"));
	eprintln!("MACHINERY: {msg}");
	unsafe { libc::_exit(2) }
}

fn arm(horizon_cpu_ms: u64) {
	let tv = |ms: u64| libc::itimerval { it_interval: libc::timeval { tv_sec: 0, tv_usec: 0 }, it_value: libc::timeval { tv_sec: (ms / 1000) as libc::time_t, tv_usec: ((ms % 1000) * 1000) as libc::suseconds_t } };
	unsafe {
		libc::setitimer(libc::ITIMER_PROF, &tv(horizon_cpu_ms), std::ptr::null_mut());
		libc::setitimer(libc::ITIMER_REAL, &tv(horizon_cpu_ms.saturating_mul(10)), std::ptr::null_mut());
	}
}

fn runner_body(job: &dyn Job, spec: &Spec, shared: &Shared, from_case: u64, from_op: usize) {
	let step = StepCell { ptr: unsafe { (shared.ptr as *mut u64).add(2) } };
	let nops = job.nops();
	for idx in from_case..spec.hi {
		arm(spec.horizon_cpu_ms);
		let slot = (idx - spec.lo) as usize;
		let first_op = if idx == from_case { from_op } else { 0 };
		for op in first_op..nops {
			if spec.only_op.map_or(false, |o| o != op) {
				continue;
			}
			let mut e = shared.get_entry(slot);
			let spent = shared.get_u64(3);
			if spent != 0 && spec.only_op.is_none() {
				if let Some(k) = job.predict(idx, op) {
					if k < 64 && spent >> k & 1 == 1 {
						e.codes[op] = CODE_SKIPPED;
						shared.set_entry(slot, e);
						continue;
					}
				}
			}
			shared.set_u64(0, idx);
			shared.set_u64(1, op as u64);
			step.set(0);
			let mut meta = |h: u64, f: u8| {
				e.hash = h;
				e.flags = f;
			};
			let r = catch_unwind(AssertUnwindSafe(|| job.run(idx, op, &step, &mut meta)));
			match r {
				Ok(o) => {
					e.codes[op] = o.code;
					e.details[op] = o.detail;
				}
				Err(p) => {
					let m = crate::subj::panic_message(p);
					if m.contains("MACHINERY") {
						machinery(&m);
					}
					e.codes[op] = CODE_PANIC;
					let st = shared.get_u64(2);
					emit(&format!("V {idx} {op} {st} {}", serde_json::to_string(&crate::report::truncate(&m, 600)).unwrap()));
				}
			}
			shared.set_entry(slot, e);
		}
	}
	arm(0);
}

struct Death {
	class: String,
	stderr: String,
}
impl Death {
	/// Two deaths are of the same kind when both are timeouts or both are aborts: the signal (and
	/// the message) of a crash that comes from undefined behaviour varies with the state of the
	/// process (SIGSEGV in one run, "free(): invalid pointer" + SIGABRT in another).
	fn same_kind(&self, other: &Death) -> bool {
		(self.class == "timeout") == (other.class == "timeout")
	}
}

/// Fork a runner from the current process, run it to its end, collect its stderr (into a caller
/// provided buffer, no heap use in this process) and its wait status.
fn run_one(job: &dyn Job, spec: &Spec, shared: &Shared, from_case: u64, from_op: usize, err: &mut [u8]) -> (i32, usize) {
	let mut fds = [0i32; 2];
	if unsafe { libc::pipe(fds.as_mut_ptr()) } != 0 {
		machinery("pipe() failed");
	}
	let pid = unsafe { libc::fork() };
	if pid < 0 {
		machinery("fork() failed");
	}
	if pid == 0 {
		unsafe {
			libc::dup2(fds[1], 2);
			libc::close(fds[0]);
			libc::close(fds[1]);
		}
		// the runner is the copy of the thread that forked it: the zygote's main thread (8 MiB stack) or
		// the zygote's 2 MiB thread (see `start_zygote`)
		runner_body(job, spec, shared, from_case, from_op);
		unsafe { libc::_exit(0) };
	}
	unsafe { libc::close(fds[1]) };
	let mut len = 0usize;
	let mut sink = [0u8; 512];
	loop {
		let n = if len < err.len() {
			unsafe { libc::read(fds[0], err[len..].as_mut_ptr() as *mut libc::c_void, err.len() - len) }
		} else {
			unsafe { libc::read(fds[0], sink.as_mut_ptr() as *mut libc::c_void, sink.len()) }
		};
		if n <= 0 {
			break;
		}
		if len < err.len() {
			len += n as usize;
		}
	}
	unsafe { libc::close(fds[0]) };
	let mut status = 0i32;
	loop {
		let r = unsafe { libc::waitpid(pid, &mut status, 0) };
		if r == pid {
			break;
		}
		if r < 0 && unsafe { *libc::__errno_location() } != libc::EINTR {
			machinery("waitpid() failed");
		}
	}
	(status, len)
}

/// Request to the zygote: run the cases `from_case` (starting at `from_op`) .. `hi`.
#[repr(C)]
#[derive(Clone, Copy)]
struct Req {
	from_case: u64,
	from_op: u64,
	hi: u64,
	/// -1: all operations
	only_op: i64,
}

const ERR_CAP: usize = 8192;

fn read_full(fd: i32, buf: &mut [u8]) -> bool {
	let mut off = 0;
	while off < buf.len() {
		let n = unsafe { libc::read(fd, buf[off..].as_mut_ptr() as *mut libc::c_void, buf.len() - off) };
		if n == 0 {
			return false;
		}
		if n < 0 {
			if unsafe { *libc::__errno_location() } == libc::EINTR {
				continue;
			}
			return false;
		}
		off += n as usize;
	}
	true
}
fn write_full(fd: i32, buf: &[u8]) -> bool {
	let mut off = 0;
	while off < buf.len() {
		let n = unsafe { libc::write(fd, buf[off..].as_ptr() as *const libc::c_void, buf.len() - off) };
		if n <= 0 {
			if n < 0 && unsafe { *libc::__errno_location() } == libc::EINTR {
				continue;
			}
			return false;
		}
		off += n as usize;
	}
	true
}

/// The zygote: a child of the supervisor, forked before any case has run, that does nothing but
/// fork runners on request. It never touches the heap (requests, answers and the runners' stderr
/// go through fixed buffers on its stack), so **every runner starts from the same memory image**,
/// byte for byte and address for address. That is what makes the re-execution of an operation
/// alone, or of a runner's whole history, an exact repetition — also for code whose behaviour
/// depends on what earlier cases left on the heap (reads of uninitialised memory), and
/// independent of what the supervisor itself allocated in the meantime.
struct Zygote {
	req: i32,
	resp: i32,
}

fn zygote_loop(job: &dyn Job, spec: &Spec, shared: &Shared, req_fd: i32, resp_fd: i32) -> ! {
	let mut err = [0u8; ERR_CAP];
	loop {
		let mut r = Req { from_case: 0, from_op: 0, hi: 0, only_op: -1 };
		let raw = unsafe { std::slice::from_raw_parts_mut(&mut r as *mut Req as *mut u8, std::mem::size_of::<Req>()) };
		if !read_full(req_fd, raw) {
			unsafe { libc::_exit(0) };
		}
		let sp = Spec { lo: spec.lo, hi: r.hi, stack: spec.stack, horizon_cpu_ms: spec.horizon_cpu_ms, stop_on_timeout: false, only_op: if r.only_op < 0 { None } else { Some(r.only_op as usize) }, known_budget: u32::MAX, start_op: 0 };
		let (status, len) = run_one(job, &sp, shared, r.from_case, r.from_op as usize, &mut err);
		let mut head = [0u8; 8];
		head[..4].copy_from_slice(&status.to_le_bytes());
		head[4..].copy_from_slice(&(len as u32).to_le_bytes());
		if !write_full(resp_fd, &head) || !write_full(resp_fd, &err[..len]) {
			unsafe { libc::_exit(2) };
		}
	}
}

fn start_zygote(job: &dyn Job, spec: &Spec, shared: &Shared) -> Zygote {
	let (mut a, mut b) = ([0i32; 2], [0i32; 2]);
	if unsafe { libc::pipe(a.as_mut_ptr()) } != 0 || unsafe { libc::pipe(b.as_mut_ptr()) } != 0 {
		machinery("pipe() failed");
	}
	let pid = unsafe { libc::fork() };
	if pid < 0 {
		machinery("fork() failed");
	}
	if pid == 0 {
		unsafe {
			libc::close(a[1]);
			libc::close(b[0]);
		}
		// std seeds its HashMap keys per thread from the OS on first use: do that once in the thread
		// that forks the runners, so that every runner inherits the same keys (same hash tables, same
		// heap traffic)
		let seed = || std::hint::black_box(std::collections::hash_map::RandomState::new());
		match spec.stack {
			Stack::Main => {
				let _ = seed();
				zygote_loop(job, spec, shared, a[0], b[1])
			}
			Stack::T2m => {
				// The 2 MiB variant: the zygote loop itself runs on a thread with a 2 MiB stack; a forked
				// child consists of the forking thread only, so each runner *is* a 2 MiB thread whose
				// thread-local state was set up once, here
				std::thread::scope(|s| {
					let h = std::thread::Builder::new().stack_size(2 << 20).spawn_scoped(s, || {
						let _ = seed();
						zygote_loop(job, spec, shared, a[0], b[1])
					});
					match h {
						Ok(h) => {
							let _ = h.join();
							machinery("the 2 MiB zygote thread ended");
						}
						Err(_) => machinery("cannot spawn the 2 MiB zygote thread"),
					}
				});
				unsafe { libc::_exit(2) }
			}
		}
	}
	unsafe {
		libc::close(a[0]);
		libc::close(b[1]);
	}
	Zygote { req: a[1], resp: b[0] }
}

/// Have the zygote fork a runner. Returns None if it ran to completion, or how it died.
fn fork_runner(zy: &Zygote, spec: &Spec, from_case: u64, from_op: usize) -> Option<Death> {
	let r = Req { from_case, from_op: from_op as u64, hi: spec.hi, only_op: spec.only_op.map_or(-1, |o| o as i64) };
	let raw = unsafe { std::slice::from_raw_parts(&r as *const Req as *const u8, std::mem::size_of::<Req>()) };
	let mut head = [0u8; 8];
	if !write_full(zy.req, raw) || !read_full(zy.resp, &mut head) {
		machinery("the zygote process is gone");
	}
	let status = i32::from_le_bytes(head[..4].try_into().unwrap());
	let len = u32::from_le_bytes(head[4..].try_into().unwrap()) as usize;
	let mut err = vec![0u8; len];
	if !read_full(zy.resp, &mut err) {
		machinery("the zygote process is gone");
	}
	let stderr = String::from_utf8_lossy(&err).into_owned();
	if libc::WIFEXITED(status) {
		let code = libc::WEXITSTATUS(status);
		if code == 0 {
			return None;
		}
		machinery(&format!("runner exited with status {code}: {}", crate::report::truncate(&stderr, 400)));
	}
	let sig = if libc::WIFSIGNALED(status) { libc::WTERMSIG(status) } else { -1 };
	let class = if sig == libc::SIGPROF || sig == libc::SIGALRM {
		"timeout".to_owned()
	} else if stderr.contains("has overflowed its stack") {
		"abort:stack-overflow".to_owned()
	} else if stderr.contains("memory allocation of") {
		"abort:alloc-failure".to_owned()
	} else {
		// one class for every other death by signal; the signal is part of the observation text
		"abort".to_owned()
	};
	let stderr = if class == "abort" { format!("killed by signal {sig} | {stderr}") } else { stderr };
	Some(Death { class, stderr })
}

/// Entry point of the worker process. Returns the exit status.
pub fn supervise(job: &dyn Job, spec: &Spec) -> i32 {
	// runaway allocations must fail instead of swapping the machine
	unsafe {
		let lim = libc::rlimit { rlim_cur: 16 << 30, rlim_max: 16 << 30 };
		libc::setrlimit(libc::RLIMIT_AS, &lim);
		let core = libc::rlimit { rlim_cur: 0, rlim_max: 0 };
		libc::setrlimit(libc::RLIMIT_CORE, &core);
	}
	let n = (spec.hi - spec.lo) as usize;
	let shared = Shared::new(n.max(1));
	let nops = job.nops();
	assert!(nops <= MAX_OPS);
	let zy = start_zygote(job, spec, &shared);
	let mut from_case = spec.lo;
	let mut from_op = spec.start_op;
	let mut confirmed_known: std::collections::BTreeMap<usize, u32> = Default::default();
	while from_case < spec.hi {
		let Some(death) = fork_runner(&zy, spec, from_case, from_op) else { break };
		let (c, o, st) = (shared.get_u64(0), shared.get_u64(1) as usize, shared.get_u64(2) as u8);
		if c < from_case || c >= spec.hi || o >= nops {
			machinery(&format!("runner died ({}) with an implausible cursor case={c} op={o}: {}", death.class, crate::report::truncate(&death.stderr, 300)));
		}
		// confirm in isolation (one operation, fresh runner), except: timeouts (their cost is the
		// horizon itself) and crashes matching a known finding after the first 3 per finding
		let need_confirm = if death.class == "timeout" {
			false
		} else {
			match job.known_id(c, o, st, &death.class) {
				Some(id) => {
					let k = confirmed_known.entry(id).or_insert(0);
					*k += 1;
					if *k >= spec.known_budget && id < 64 {
						shared.set_u64(3, shared.get_u64(3) | 1 << id);
					}
					*k <= 3
				}
				None => true,
			}
		};
		if need_confirm && !(c == from_case && o == from_op) {
			// (a crash on the very first operation of a fresh runner already happened in isolation)
			let one = Spec { lo: spec.lo, hi: spec.hi.min(c + 1), stack: spec.stack, horizon_cpu_ms: spec.horizon_cpu_ms, stop_on_timeout: false, only_op: Some(o), known_budget: u32::MAX, start_op: 0 };
			let again = fork_runner(&zy, &one, c, o);
			let same = matches!(&again, Some(d) if d.same_kind(&death)) && shared.get_u64(0) == c && shared.get_u64(1) as usize == o;
			if !same {
				// The operation alone does not die: does the death recur when the runner's whole
				// history (everything it executed before, in the same order, in a fresh process) is
				// re-executed? If it dies again at the same cursor the death is deterministic and it
				// happened while this operation was executing: it is attributed to it, with the
				// history recorded (`H`) so that a replay re-executes the same history. Such deaths
				// depend on process state that earlier cases leave behind (heap contents) — the mark
				// of undefined behaviour.
				let hist = Spec { lo: spec.lo, hi: c + 1, stack: spec.stack, horizon_cpu_ms: spec.horizon_cpu_ms, stop_on_timeout: false, only_op: spec.only_op, known_budget: u32::MAX, start_op: 0 };
				let replayed = fork_runner(&zy, &hist, from_case, from_op);
				let died_again = matches!(&replayed, Some(d) if d.same_kind(&death));
				let (c2, o2) = (shared.get_u64(0), shared.get_u64(1) as usize);
				let recurs = died_again && c2 == c && o2 == o;
				if died_again && !recurs {
					// The history dies again, but at another operation (case {c2}): the death is real and
					// recurring but its exact point moves with the contents of the heap that the
					// runner inherits from this supervisor. It is reported for the operation that was
					// in flight when it was first observed, marked as not exactly reproducible.
					emit(&format!("H {c} {o} {from_case} {from_op} 0"));
				} else if !recurs {
					machinery(&format!(
						"runner died ({}) at case {c} op {o} step {st} while executing the range {}..{}, but that single operation alone gave {:?} and re-executing the runner's history from case {from_case} op {from_op} gave {:?}: the crash cannot be attributed to one case",
						death.class,
						spec.lo,
						spec.hi,
						again.map(|d| d.class),
						replayed.map(|d| d.class)
					));
				}
				if recurs {
					emit(&format!("H {c} {o} {from_case} {from_op} 1"));
				}
			}
		}
		let slot = (c - spec.lo) as usize;
		let mut e = shared.get_entry(slot);
		e.codes[o] = if death.class == "timeout" { CODE_TIMEOUT } else { CODE_ABORT };
		shared.set_entry(slot, e);
		let excerpt: String = death.stderr.lines().filter(|l| !l.trim().is_empty()).take(3).collect::<Vec<_>>().join(" | ");
		emit(&format!("X {c} {o} {st} {} {}", death.class, serde_json::to_string(&crate::report::truncate(&excerpt, 300)).unwrap()));
		if death.class == "timeout" && spec.stop_on_timeout {
			emit(&format!("L {c}"));
			break;
		}
		// resume after the offending operation
		if spec.only_op.is_some() || o + 1 >= nops {
			from_case = c + 1;
			from_op = 0;
		} else {
			from_case = c;
			from_op = o + 1;
		}
	}
	let mut hex = String::with_capacity(n * ENTRY * 2);
	for i in 0..n {
		for b in shared.get_entry(i).to_bytes() {
			hex.push_str(&format!("{b:02x}"));
		}
	}
	emit(&format!("T {} {hex}", spec.lo));
	emit("E");
	0
}

// ------------------------------------------------------------------------------------------
// parent side

#[derive(Clone, Debug)]
pub struct Crash {
	pub idx: u64,
	pub op: usize,
	pub step: u8,
	pub class: String,
	pub stderr: String,
	/// Some((case, op, exact)): the death recurs only when the runner's history from there is re-executed
	/// first; `exact = false`: it then recurs at a point that varies from run to run
	pub history: Option<(u64, usize, bool)>,
}
#[derive(Clone, Debug)]
pub struct Panic {
	pub idx: u64,
	pub op: usize,
	pub step: u8,
	pub message: String,
}
#[derive(Default, Debug)]
pub struct WorkerResult {
	pub lo: u64,
	pub table: Vec<Entry>,
	pub crashes: Vec<Crash>,
	pub panics: Vec<Panic>,
	pub ladder_stop: Option<u64>,
	pub runners_died: u64,
}

/// Spawn `current_exe() worker <args…>`, wait for it, parse its records. Any irregularity
/// (bad status, missing end marker, `M` record) is a machinery error: returns Err(text).
pub fn spawn_worker(args: &[String]) -> Result<WorkerResult, String> {
	let exe = std::env::current_exe().map_err(|e| format!("current_exe: {e}"))?;
	let out = std::process::Command::new(exe).arg("worker").args(args).stdin(std::process::Stdio::null()).output().map_err(|e| format!("cannot spawn worker: {e}"))?;
	let stdout = String::from_utf8_lossy(&out.stdout);
	let stderr = String::from_utf8_lossy(&out.stderr);
	let mut r = WorkerResult::default();
	let mut ended = false;
	let mut pending_history: Option<(u64, usize, u64, usize, bool)> = None;
	for line in stdout.lines() {
		let (tag, rest) = line.split_at(line.len().min(1));
		let rest = rest.trim_start();
		match tag {
			"X" => {
				let mut it = rest.splitn(5, ' ');
				let (a, b, c, d, e) = (it.next(), it.next(), it.next(), it.next(), it.next());
				let (Some(a), Some(b), Some(c), Some(d), Some(e)) = (a, b, c, d, e) else { return Err(format!("bad X record: {line}")) };
				r.crashes.push(Crash { idx: a.parse().map_err(|_| "bad X idx")?, op: b.parse().map_err(|_| "bad X op")?, step: c.parse().map_err(|_| "bad X step")?, class: d.to_owned(), stderr: serde_json::from_str(e).unwrap_or_default(), history: None });
				if let Some((hc, ho, fc, fo, exact)) = pending_history.take() {
					let last = r.crashes.last_mut().unwrap();
					if last.idx == hc && last.op == ho {
						last.history = Some((fc, fo, exact));
					}
				}
				r.runners_died += 1;
			}
			"H" => {
				let v: Vec<u64> = rest.split(' ').filter_map(|x| x.parse().ok()).collect();
				if v.len() != 5 {
					return Err(format!("bad H record: {line}"));
				}
				pending_history = Some((v[0], v[1] as usize, v[2], v[3] as usize, v[4] == 1));
			}
			"V" => {
				let mut it = rest.splitn(4, ' ');
				let (a, b, c, d) = (it.next(), it.next(), it.next(), it.next());
				let (Some(a), Some(b), Some(c), Some(d)) = (a, b, c, d) else { return Err(format!("bad V record: {line}")) };
				r.panics.push(Panic { idx: a.parse().map_err(|_| "bad V idx")?, op: b.parse().map_err(|_| "bad V op")?, step: c.parse().map_err(|_| "bad V step")?, message: serde_json::from_str(d).unwrap_or_default() });
			}
			"L" => r.ladder_stop = Some(rest.trim().parse().map_err(|_| "bad L record")?),
			"T" => {
				let (lo, hex) = rest.split_once(' ').unwrap_or((rest, ""));
				r.lo = lo.parse().map_err(|_| "bad T record")?;
				let bytes = crate::report::unhex(hex);
				if bytes.len() % ENTRY != 0 {
					return Err("bad T record length".into());
				}
				r.table = bytes.chunks(ENTRY).map(Entry::from_bytes).collect();
			}
			"M" => return Err(format!("worker {:?}: {rest}", args)),
			"E" => ended = true,
			_ => return Err(format!("worker {:?}: unexpected output line {:?}", args, crate::report::truncate(line, 200))),
		}
	}
	if !out.status.success() || !ended {
		return Err(format!("worker {:?} ended irregularly (status {:?}, end marker {ended}); stderr: {}", args, out.status, crate::report::truncate(&stderr, 600)));
	}
	Ok(r)
}
