//! Process isolation for cases that can abort the process (stack overflow, runaway allocation,
//! endless loop). Used through the `vcheck worker <PROPERTY> <spec…>` sub-command.
//!
//! Shape: the check's parent process re-invokes `current_exe()` as a *worker* for a contiguous
//! range of case indices. The worker process is a small single-threaded **supervisor**: it maps
//! a shared result table, then forks a *runner* child that executes the cases of the range in
//! order, many cases per runner. Before every operation the runner stores a cursor
//! (case, operation, step) in the shared mapping, and it arms a CPU-time timer (the per-case
//! horizon; plus a wall-clock backstop of 10x the horizon) per case. When the runner dies on a
//! signal the supervisor knows from the cursor exactly which single operation of which single
//! case was executing: no search is needed to narrow the range down. The attribution is then
//! *confirmed* by running exactly that one operation alone in a fresh runner: if it dies in the
//! same way the crash is attributed to the case (line `X`); if it does not, the crash depends on
//! something else than the case and is a machinery error (line `M`, exit status 2), never a
//! verdict. The supervisor then forks a new runner that resumes at the next operation.
//!
//! Line protocol on the worker's stdout (one record per line):
//!   `X <case> <op> <step> <class> <json stderr excerpt>`  crash / timeout attributed to one operation
//!   `V <case> <op> <step> <json panic message>`           panic caught inside the runner
//!   `L <case>`                                            ladder stopped at this case (first timeout)
//!   `T <lo> <hex>`                                        result table (ENTRY bytes per case)
//!   `M <text>`                                            machinery error (worker exits with 2)
//!   `E`                                                   end of a complete run

use std::panic::{catch_unwind, AssertUnwindSafe};

pub const ENTRY: usize = 24;
pub const MAX_OPS: usize = 4;

pub const CODE_NOT_RUN: u8 = 0;
pub const CODE_OK: u8 = 1;
pub const CODE_ERR: u8 = 2;
pub const CODE_PANIC: u8 = 3;
pub const CODE_ABORT: u8 = 4;
pub const CODE_TIMEOUT: u8 = 5;
/// not executed: the operation is predicted to re-hit a listed known finding whose per-worker crash budget is spent
pub const CODE_SKIPPED: u8 = 6;

#[derive(Clone, Copy, PartialEq, Eq, Debug)]
pub enum Stack {
	/// the process's main thread (8 MiB with the default `ulimit -s`)
	Main,
	/// a spawned thread with a 2 MiB stack (Rust's default for spawned threads)
	T2m,
}
impl Stack {
	pub fn name(self) -> &'static str {
		match self {
			Stack::Main => "main-8MiB",
			Stack::T2m => "thread-2MiB",
		}
	}
	pub fn parse(s: &str) -> Option<Stack> {
		match s {
			"main-8MiB" => Some(Stack::Main),
			"thread-2MiB" => Some(Stack::T2m),
			_ => None,
		}
	}
}

/// What one operation of one case reports back.
#[derive(Clone, Copy, Default, Debug)]
pub struct OpOut {
	/// CODE_OK / CODE_ERR
	pub code: u8,
	pub detail: u8,
}

#[derive(Clone, Copy, Default, Debug, PartialEq)]
pub struct Entry {
	pub hash: u64,
	pub codes: [u8; MAX_OPS],
	pub details: [u8; MAX_OPS],
	pub flags: u8,
}
impl Entry {
	fn to_bytes(self) -> [u8; ENTRY] {
		let mut b = [0u8; ENTRY];
		b[..8].copy_from_slice(&self.hash.to_le_bytes());
		b[8..12].copy_from_slice(&self.codes);
		b[12..16].copy_from_slice(&self.details);
		b[16] = self.flags;
		b
	}
	fn from_bytes(b: &[u8]) -> Entry {
		let mut e = Entry { hash: u64::from_le_bytes(b[..8].try_into().unwrap()), ..Entry::default() };
		e.codes.copy_from_slice(&b[8..12]);
		e.details.copy_from_slice(&b[12..16]);
		e.flags = b[16];
		e
	}
}

/// The work a runner does. Implemented by the check.
pub trait Job: Sync {
	fn nops(&self) -> usize;
	/// Execute operation `op` of case `idx`. `step.set(k)` records progress inside the operation
	/// (names are the check's). `meta` is called once per case (by operation 0, or by whichever
	/// operation runs first) to record the case hash and flags.
	fn run(&self, idx: u64, op: usize, step: &StepCell, meta: &mut dyn FnMut(u64, u8)) -> OpOut;
	/// Does the violation (crash class at case/op/step) match a listed known finding? Returns the
	/// position (< 64) of the finding in the job's list. Matching crashes beyond the first 3 are
	/// not re-confirmed in isolation, and after `Spec::known_budget` crashes for one finding the
	/// operations that `predict` says would hit the same finding again are skipped
	/// (CODE_SKIPPED; the parent records that as a cap).
	fn known_id(&self, idx: u64, op: usize, step: u8, class: &str) -> Option<usize>;
	/// Harness-side prediction: would this operation re-hit known finding number k? Only consulted
	/// once some finding's budget is spent.
	fn predict(&self, idx: u64, op: usize) -> Option<usize>;
}

pub struct Spec {
	pub lo: u64,
	pub hi: u64,
	pub stack: Stack,
	pub horizon_cpu_ms: u64,
	pub stop_on_timeout: bool,
	pub only_op: Option<usize>,
	pub known_budget: u32,
}

/// Shared mapping: header (4 x u64: case, op, step, unused) + table.
struct Shared {
	ptr: *mut u8,
	len: usize,
}
const HDR: usize = 32;
// the mapping is shared between processes by design; within a process one thread uses it at a time
unsafe impl Sync for Shared {}
impl Shared {
	fn new(cases: usize) -> Shared {
		let len = HDR + cases * ENTRY;
		let ptr = unsafe { libc::mmap(std::ptr::null_mut(), len, libc::PROT_READ | libc::PROT_WRITE, libc::MAP_SHARED | libc::MAP_ANONYMOUS, -1, 0) };
		if ptr == libc::MAP_FAILED {
			machinery("mmap of the shared result table failed");
		}
		Shared { ptr: ptr as *mut u8, len }
	}
	fn set_u64(&self, slot: usize, v: u64) {
		unsafe { std::ptr::write_volatile((self.ptr as *mut u64).add(slot), v) }
	}
	fn get_u64(&self, slot: usize) -> u64 {
		unsafe { std::ptr::read_volatile((self.ptr as *const u64).add(slot)) }
	}
	fn entry_ptr(&self, i: usize) -> *mut u8 {
		assert!(HDR + (i + 1) * ENTRY <= self.len);
		unsafe { self.ptr.add(HDR + i * ENTRY) }
	}
	fn get_entry(&self, i: usize) -> Entry {
		let mut b = [0u8; ENTRY];
		unsafe { std::ptr::copy_nonoverlapping(self.entry_ptr(i), b.as_mut_ptr(), ENTRY) };
		Entry::from_bytes(&b)
	}
	fn set_entry(&self, i: usize, e: Entry) {
		let b = e.to_bytes();
		unsafe { std::ptr::copy_nonoverlapping(b.as_ptr(), self.entry_ptr(i), ENTRY) };
	}
}

/// Progress marker inside an operation, stored in the shared mapping.
pub struct StepCell {
	ptr: *mut u64,
}
impl StepCell {
	pub fn set(&self, step: u8) {
		unsafe { std::ptr::write_volatile(self.ptr, step as u64) }
	}
	/// for in-process use (replay printing, tests)
	pub fn detached() -> StepCell {
		StepCell { ptr: Box::leak(Box::new(0u64)) as *mut u64 }
	}
}

fn emit(line: &str) {
	let mut s = String::with_capacity(line.len() + 1);
	s.push_str(line);
	s.push('\n');
	let b = s.as_bytes();
	let mut off = 0;
	while off < b.len() {
		let n = unsafe { libc::write(1, b[off..].as_ptr() as *const libc::c_void, b.len() - off) };
		if n <= 0 {
			unsafe { libc::_exit(2) };
		}
		off += n as usize;
	}
}

fn machinery(msg: &str) -> ! {
	emit(&format!("M {msg}"));
	eprintln!("MACHINERY: {msg}");
	unsafe { libc::_exit(2) }
}

fn arm(horizon_cpu_ms: u64) {
	let tv = |ms: u64| libc::itimerval { it_interval: libc::timeval { tv_sec: 0, tv_usec: 0 }, it_value: libc::timeval { tv_sec: (ms / 1000) as libc::time_t, tv_usec: ((ms % 1000) * 1000) as libc::suseconds_t } };
	unsafe {
		libc::setitimer(libc::ITIMER_PROF, &tv(horizon_cpu_ms), std::ptr::null_mut());
		libc::setitimer(libc::ITIMER_REAL, &tv(horizon_cpu_ms.saturating_mul(10)), std::ptr::null_mut());
	}
}

fn runner_body(job: &dyn Job, spec: &Spec, shared: &Shared, from_case: u64, from_op: usize) {
	let step = StepCell { ptr: unsafe { (shared.ptr as *mut u64).add(2) } };
	let nops = job.nops();
	for idx in from_case..spec.hi {
		arm(spec.horizon_cpu_ms);
		let slot = (idx - spec.lo) as usize;
		let first_op = if idx == from_case { from_op } else { 0 };
		for op in first_op..nops {
			if spec.only_op.map_or(false, |o| o != op) {
				continue;
			}
			let mut e = shared.get_entry(slot);
			let spent = shared.get_u64(3);
			if spent != 0 && spec.only_op.is_none() {
				if let Some(k) = job.predict(idx, op) {
					if k < 64 && spent >> k & 1 == 1 {
						e.codes[op] = CODE_SKIPPED;
						shared.set_entry(slot, e);
						continue;
					}
				}
			}
			shared.set_u64(0, idx);
			shared.set_u64(1, op as u64);
			step.set(0);
			let mut meta = |h: u64, f: u8| {
				e.hash = h;
				e.flags = f;
			};
			let r = catch_unwind(AssertUnwindSafe(|| job.run(idx, op, &step, &mut meta)));
			match r {
				Ok(o) => {
					e.codes[op] = o.code;
					e.details[op] = o.detail;
				}
				Err(p) => {
					let m = crate::subj::panic_message(p);
					if m.contains("MACHINERY") {
						machinery(&m);
					}
					e.codes[op] = CODE_PANIC;
					let st = shared.get_u64(2);
					emit(&format!("V {idx} {op} {st} {}", serde_json::to_string(&crate::report::truncate(&m, 600)).unwrap()));
				}
			}
			shared.set_entry(slot, e);
		}
	}
	arm(0);
}

struct Death {
	class: String,
	stderr: String,
}

/// Fork a runner. Returns None if it ran to completion, or how it died.
fn fork_runner(job: &dyn Job, spec: &Spec, shared: &Shared, from_case: u64, from_op: usize) -> Option<Death> {
	let mut fds = [0i32; 2];
	if unsafe { libc::pipe(fds.as_mut_ptr()) } != 0 {
		machinery("pipe() failed");
	}
	let pid = unsafe { libc::fork() };
	if pid < 0 {
		machinery("fork() failed");
	}
	if pid == 0 {
		unsafe {
			libc::dup2(fds[1], 2);
			libc::close(fds[0]);
			libc::close(fds[1]);
		}
		match spec.stack {
			Stack::Main => runner_body(job, spec, shared, from_case, from_op),
			Stack::T2m => {
				// scoped thread with an explicit 2 MiB stack; the forked child is single-threaded
				std::thread::scope(|s| {
					let h = std::thread::Builder::new().stack_size(2 << 20).spawn_scoped(s, || runner_body(job, spec, shared, from_case, from_op));
					match h {
						Ok(h) => {
							if h.join().is_err() {
								machinery("runner thread panicked outside catch_unwind");
							}
						}
						Err(_) => machinery("cannot spawn the 2 MiB runner thread"),
					}
				});
			}
		}
		unsafe { libc::_exit(0) };
	}
	unsafe { libc::close(fds[1]) };
	let mut err = Vec::new();
	let mut buf = [0u8; 4096];
	loop {
		let n = unsafe { libc::read(fds[0], buf.as_mut_ptr() as *mut libc::c_void, buf.len()) };
		if n <= 0 {
			break;
		}
		if err.len() < 16384 {
			err.extend_from_slice(&buf[..n as usize]);
		}
	}
	unsafe { libc::close(fds[0]) };
	let mut status = 0i32;
	loop {
		let r = unsafe { libc::waitpid(pid, &mut status, 0) };
		if r == pid {
			break;
		}
		if r < 0 && std::io::Error::last_os_error().kind() != std::io::ErrorKind::Interrupted {
			machinery("waitpid() failed");
		}
	}
	let stderr = String::from_utf8_lossy(&err).into_owned();
	if libc::WIFEXITED(status) {
		let code = libc::WEXITSTATUS(status);
		if code == 0 {
			return None;
		}
		machinery(&format!("runner exited with status {code}: {}", crate::report::truncate(&stderr, 400)));
	}
	let sig = if libc::WIFSIGNALED(status) { libc::WTERMSIG(status) } else { -1 };
	let class = if sig == libc::SIGPROF || sig == libc::SIGALRM {
		"timeout".to_owned()
	} else if stderr.contains("has overflowed its stack") {
		"abort:stack-overflow".to_owned()
	} else if stderr.contains("memory allocation of") {
		"abort:alloc-failure".to_owned()
	} else {
		format!("abort:signal-{sig}")
	};
	Some(Death { class, stderr })
}

/// Entry point of the worker process. Returns the exit status.
pub fn supervise(job: &dyn Job, spec: &Spec) -> i32 {
	// runaway allocations must fail instead of swapping the machine
	unsafe {
		let lim = libc::rlimit { rlim_cur: 16 << 30, rlim_max: 16 << 30 };
		libc::setrlimit(libc::RLIMIT_AS, &lim);
		let core = libc::rlimit { rlim_cur: 0, rlim_max: 0 };
		libc::setrlimit(libc::RLIMIT_CORE, &core);
	}
	let n = (spec.hi - spec.lo) as usize;
	let shared = Shared::new(n.max(1));
	let nops = job.nops();
	assert!(nops <= MAX_OPS);
	let mut from_case = spec.lo;
	let mut from_op = 0usize;
	let mut confirmed_known: std::collections::BTreeMap<usize, u32> = Default::default();
	while from_case < spec.hi {
		let Some(death) = fork_runner(job, spec, &shared, from_case, from_op) else { break };
		let (c, o, st) = (shared.get_u64(0), shared.get_u64(1) as usize, shared.get_u64(2) as u8);
		if c < from_case || c >= spec.hi || o >= nops {
			machinery(&format!("runner died ({}) with an implausible cursor case={c} op={o}: {}", death.class, crate::report::truncate(&death.stderr, 300)));
		}
		// confirm in isolation (one operation, fresh runner), except: timeouts (their cost is the
		// horizon itself) and crashes matching a known finding after the first 3 per finding
		let need_confirm = if death.class == "timeout" {
			false
		} else {
			match job.known_id(c, o, st, &death.class) {
				Some(id) => {
					let k = confirmed_known.entry(id).or_insert(0);
					*k += 1;
					if *k >= spec.known_budget && id < 64 {
						shared.set_u64(3, shared.get_u64(3) | 1 << id);
					}
					*k <= 3
				}
				None => true,
			}
		};
		if need_confirm && !(c == from_case && o == from_op) {
			// (a crash on the very first operation of a fresh runner already happened in isolation)
			let one = Spec { lo: spec.lo, hi: spec.hi.min(c + 1), stack: spec.stack, horizon_cpu_ms: spec.horizon_cpu_ms, stop_on_timeout: false, only_op: Some(o), known_budget: u32::MAX };
			let again = fork_runner(job, &one, &shared, c, o);
			let same = matches!(&again, Some(d) if d.class == death.class) && shared.get_u64(0) == c && shared.get_u64(1) as usize == o;
			if !same {
				machinery(&format!(
					"runner died ({}) at case {c} op {o} step {st} while executing the range {}..{}, but that single operation alone gave {:?}: the crash cannot be attributed to one case",
					death.class,
					spec.lo,
					spec.hi,
					again.map(|d| d.class)
				));
			}
		}
		let slot = (c - spec.lo) as usize;
		let mut e = shared.get_entry(slot);
		e.codes[o] = if death.class == "timeout" { CODE_TIMEOUT } else { CODE_ABORT };
		shared.set_entry(slot, e);
		let excerpt: String = death.stderr.lines().filter(|l| !l.trim().is_empty()).take(3).collect::<Vec<_>>().join(" | ");
		emit(&format!("X {c} {o} {st} {} {}", death.class, serde_json::to_string(&crate::report::truncate(&excerpt, 300)).unwrap()));
		if death.class == "timeout" && spec.stop_on_timeout {
			emit(&format!("L {c}"));
			break;
		}
		// resume after the offending operation
		if spec.only_op.is_some() || o + 1 >= nops {
			from_case = c + 1;
			from_op = 0;
		} else {
			from_case = c;
			from_op = o + 1;
		}
	}
	let mut hex = String::with_capacity(n * ENTRY * 2);
	for i in 0..n {
		for b in shared.get_entry(i).to_bytes() {
			hex.push_str(&format!("{b:02x}"));
		}
	}
	emit(&format!("T {} {hex}", spec.lo));
	emit("E");
	0
}

// ------------------------------------------------------------------------------------------
// parent side

#[derive(Clone, Debug)]
pub struct Crash {
	pub idx: u64,
	pub op: usize,
	pub step: u8,
	pub class: String,
	pub stderr: String,
}
#[derive(Clone, Debug)]
pub struct Panic {
	pub idx: u64,
	pub op: usize,
	pub step: u8,
	pub message: String,
}
#[derive(Default, Debug)]
pub struct WorkerResult {
	pub lo: u64,
	pub table: Vec<Entry>,
	pub crashes: Vec<Crash>,
	pub panics: Vec<Panic>,
	pub ladder_stop: Option<u64>,
	pub runners_died: u64,
}

/// Spawn `current_exe() worker <args…>`, wait for it, parse its records. Any irregularity
/// (bad status, missing end marker, `M` record) is a machinery error: returns Err(text).
pub fn spawn_worker(args: &[String]) -> Result<WorkerResult, String> {
	let exe = std::env::current_exe().map_err(|e| format!("current_exe: {e}"))?;
	let out = std::process::Command::new(exe).arg("worker").args(args).stdin(std::process::Stdio::null()).output().map_err(|e| format!("cannot spawn worker: {e}"))?;
	let stdout = String::from_utf8_lossy(&out.stdout);
	let stderr = String::from_utf8_lossy(&out.stderr);
	let mut r = WorkerResult::default();
	let mut ended = false;
	for line in stdout.lines() {
		let (tag, rest) = line.split_at(line.len().min(1));
		let rest = rest.trim_start();
		match tag {
			"X" => {
				let mut it = rest.splitn(5, ' ');
				let (a, b, c, d, e) = (it.next(), it.next(), it.next(), it.next(), it.next());
				let (Some(a), Some(b), Some(c), Some(d), Some(e)) = (a, b, c, d, e) else { return Err(format!("bad X record: {line}")) };
				r.crashes.push(Crash { idx: a.parse().map_err(|_| "bad X idx")?, op: b.parse().map_err(|_| "bad X op")?, step: c.parse().map_err(|_| "bad X step")?, class: d.to_owned(), stderr: serde_json::from_str(e).unwrap_or_default() });
				r.runners_died += 1;
			}
			"V" => {
				let mut it = rest.splitn(4, ' ');
				let (a, b, c, d) = (it.next(), it.next(), it.next(), it.next());
				let (Some(a), Some(b), Some(c), Some(d)) = (a, b, c, d) else { return Err(format!("bad V record: {line}")) };
				r.panics.push(Panic { idx: a.parse().map_err(|_| "bad V idx")?, op: b.parse().map_err(|_| "bad V op")?, step: c.parse().map_err(|_| "bad V step")?, message: serde_json::from_str(d).unwrap_or_default() });
			}
			"L" => r.ladder_stop = Some(rest.trim().parse().map_err(|_| "bad L record")?),
			"T" => {
				let (lo, hex) = rest.split_once(' ').unwrap_or((rest, ""));
				r.lo = lo.parse().map_err(|_| "bad T record")?;
				let bytes = crate::report::unhex(hex);
				if bytes.len() % ENTRY != 0 {
					return Err("bad T record length".into());
				}
				r.table = bytes.chunks(ENTRY).map(Entry::from_bytes).collect();
			}
			"M" => return Err(format!("worker {:?}: {rest}", args)),
			"E" => ended = true,
			_ => return Err(format!("worker {:?}: unexpected output line {:?}", args, crate::report::truncate(line, 200))),
		}
	}
	if !out.status.success() || !ended {
		return Err(format!("worker {:?} ended irregularly (status {:?}, end marker {ended}); stderr: {}", args, out.status, crate::report::truncate(&stderr, 600)));
	}
	Ok(r)
}
