//! C08 — fingerprint = little-endian CRC-64-AVRO of the Parsing Canonical Form.

use crate::c09;
use crate::explore::{explore, hash64, Cover};
use crate::ggen::{self, GNode};
use crate::report::{Report, Violation};
use crate::sgen::{self, AstCase, Doc, Expect, SpellTok};
use crate::subj::{guarded, Out};
use rayon::prelude::*;
use serde_avro_fast::schema::{verif_rabin_init, verif_rabin_step, SchemaMut};
use serde_json::json;
use std::cell::RefCell;
use std::collections::{BTreeMap, HashSet};
use std::sync::Mutex;
use vmodel::crc::{crc64_avro, crc64_step, fingerprint_le, EMPTY};
use vmodel::schema::{pcf, resolve_text, spell, RSchema, ResolveCfg, SpellCfg};

fn machinery(msg: String) -> ! {
	eprintln!("MACHINERY: {msg}");
	std::process::exit(2)
}

/// (fingerprint of the SchemaMut, fingerprint of the frozen Schema, hook canonical form)
type Fp = ([u8; 8], [u8; 8], Option<String>);

fn fingerprints(sm: SchemaMut) -> Out<Fp> {
	guarded(|| {
		let a = sm.canonical_form_rabin_fingerprint().map_err(|e| e.to_string())?;
		let text = sm.verif_canonical_form().ok();
		let s = sm.freeze().map_err(|e| e.to_string())?;
		Ok((a, *s.rabin_fingerprint(), text))
	})
}

fn parse_fp(text: &str) -> Out<Fp> {
	match guarded(|| text.parse::<SchemaMut>().map_err(|e| e.to_string())) {
		Out::Ok(sm) => fingerprints(sm),
		Out::Err(e) => Out::Err(e),
		Out::Panic(e) => Out::Panic(e),
	}
}

/// Per document: fingerprint equals the reference's for the AST. Returns the fingerprint.
pub fn judge_doc(doc: &Doc, cover: &mut Cover, out: &mut Vec<Violation>) -> Option<[u8; 8]> {
	if matches!(doc.case.expect, Expect::Invalid(_)) {
		return None;
	}
	cover.evaluations += 1;
	cover.impl_runs += 1;
	let text = &doc.text;
	let mut viol = |class: &str, what: String| {
		out.push(Violation { class: class.to_owned(), what: format!("document {text} [{}]: {what}", doc.case.family), replay: doc.replay("C08") });
	};
	let (fp_mut, fp_frozen, hook) = match parse_fp(text) {
		Out::Ok(x) => x,
		Out::Err(_) => {
			// rejection of a valid document is C07's verdict
			cover.count("skipped_document_rejected_by_parser", 1);
			return None;
		}
		Out::Panic(e) => {
			viol("fingerprint-panic", format!("panicked: {e}"));
			return None;
		}
	};
	if fp_mut != fp_frozen {
		viol("fingerprint-paths-differ", format!("SchemaMut::canonical_form_rabin_fingerprint {fp_mut:02x?} but Schema::rabin_fingerprint {fp_frozen:02x?}"));
		return None;
	}
	if let Some(h) = &hook {
		// the fingerprint is the checksum of the crate's own canonical text (isolates checksum from text)
		if fingerprint_le(h.as_bytes()) != fp_frozen {
			viol("checksum-differs", format!("canonical form {h} has CRC-64-AVRO {:02x?} (little-endian), the crate reports {fp_frozen:02x?}", fingerprint_le(h.as_bytes())));
			return None;
		}
	}
	if doc.case.expect == Expect::ValidForward {
		// the specification has no forward references: the "first occurrence" rule is not judged
		cover.count("forward_docs_checksum_only", 1);
		return None;
	}
	let want_text = pcf(&doc.case.ast);
	let want = fingerprint_le(want_text.as_bytes());
	if let Some(h) = &hook {
		if *h != want_text {
			viol("pcf-differs", format!("canonical form {h} expected {want_text}"));
			return None;
		}
	}
	if fp_frozen != want {
		viol("fingerprint-differs", format!("fingerprint {fp_frozen:02x?}, expected {want:02x?} = LE64(CRC-64-AVRO({want_text}))"));
		return None;
	}
	cover.count("docs_fingerprint_equal", 1);
	if doc.nontrivial() {
		cover.nontrivial.insert(hash64(text));
	}
	cover.outcomes.insert(u64::from_le_bytes(fp_frozen));
	if cover.samples.len() < 1 && doc.case.feats.named == 3 && doc.case.feats.refs >= 1 && matches!(doc.tok, SpellTok::Product(_)) {
		cover.sample(json!({"document": text, "canonical_form": want_text, "fingerprint_le": format!("{fp_frozen:02x?}")}));
	}
	Some(fp_frozen)
}

fn plain(ast: &RSchema) -> String {
	spell(ast, &mut vmodel::Zero, &SpellCfg::plain())
}

/// Difference pairs: every PCF-changing single edit changes the fingerprint, every
/// PCF-preserving one does not.
fn judge_pairs(case: &AstCase, cover: &mut Cover, out: &mut Vec<Violation>) {
	let base_text = plain(&case.ast);
	let Out::Ok((_, base_fp, _)) = parse_fp(&base_text) else { return };
	let base_pcf = pcf(&case.ast);
	let (changing, preserving) = sgen::pcf_edits(&case.ast);
	for (must_differ, list) in [(true, changing), (false, preserving)] {
		for (what, edited) in list {
			let text = plain(&edited);
			// the edit must be a valid document denoting the edited AST
			match resolve_text(&text, &ResolveCfg { allow_forward: false, allow_leading_dot: false }) {
				Ok(back) if back == edited => {}
				other => machinery(format!("edit {what} of {base_text} gives {text} which the reference resolver reads as {other:?}")),
			}
			let pcf_differs = pcf(&edited) != base_pcf;
			if pcf_differs != must_differ {
				machinery(format!("edit {what} of {base_text} -> {text}: canonical form {} by the reference, classified the other way", if pcf_differs { "differs" } else { "is the same" }));
			}
			cover.evaluations += 1;
			cover.impl_runs += 1;
			cover.states += 1;
			cover.transitions += 1;
			let fp = match parse_fp(&text) {
				Out::Ok((_, fp, _)) => fp,
				Out::Err(_) => {
					cover.count("skipped_document_rejected_by_parser", 1);
					continue;
				}
				Out::Panic(e) => {
					out.push(Violation { class: "fingerprint-panic".into(), what: format!("document {text}: panicked: {e}"), replay: json!({"check": "C08", "kind": "pair", "a": base_text, "b": text, "must_differ": must_differ}) });
					continue;
				}
			};
			cover.count(&format!("pair:{what}"), 1);
			if (fp != base_fp) != must_differ {
				out.push(Violation {
					class: if must_differ { format!("fingerprint-same-after:{what}") } else { format!("fingerprint-changed-by:{what}") },
					what: format!("documents {base_text} and {text} ({what}): fingerprints {base_fp:02x?} and {fp:02x?}, must {}", if must_differ { "differ" } else { "be equal" }),
					replay: json!({"check": "C08", "kind": "pair", "a": base_text, "b": text, "must_differ": must_differ}),
				});
			}
			cover.nontrivial.insert(hash64(&(&base_text, &text)));
		}
	}
}

/// Programmatic graph: the three fingerprints agree with the reference for the unfolded graph.
fn judge_graph(g: &[GNode], sp: ggen::NameSpell, cover: &mut Cover, out: &mut Vec<Violation>) {
	cover.evaluations += 1;
	cover.impl_runs += 1;
	let expected = ggen::unfold(g);
	let want_text = pcf(&expected);
	let want = fingerprint_le(want_text.as_bytes());
	let mut viol = |class: &str, what: String| {
		out.push(Violation { class: class.to_owned(), what: format!("graph {} ({}): {what}", ggen::describe(g), sp.origin()), replay: json!({"check": "C08", "kind": "graph", "graph": ggen::to_json(g), "names": sp.label()}) });
	};
	match fingerprints(SchemaMut::from_nodes(ggen::to_crate_spelled(g, sp))) {
		Out::Ok((a, b, hook)) => {
			if a != b {
				viol("fingerprint-paths-differ", format!("SchemaMut::canonical_form_rabin_fingerprint {a:02x?} but Schema::rabin_fingerprint {b:02x?}"));
			} else if hook.as_deref().map_or(false, |h| h != want_text) {
				viol("pcf-differs", format!("canonical form {} expected {want_text}", hook.unwrap()));
			} else if b != want {
				viol("fingerprint-differs", format!("fingerprint {b:02x?}, expected {want:02x?} = LE64(CRC-64-AVRO({want_text}))"));
			} else {
				cover.count("graphs_fingerprint_equal", 1);
				let f = sgen::feats(&expected);
				if f.refs >= 1 {
					cover.nontrivial.insert(hash64(&(g, sp)));
				}
			}
		}
		Out::Err(e) => {
			if ggen::unnamed_node_on_cycle(g) {
				cover.count("fingerprint_err_unnamed_node_on_named_cycle", 1);
				if cover.counters.get("attributed_violations").copied().unwrap_or(0) >= 20 {
					return;
				}
				cover.count("attributed_violations", 1);
				viol("fingerprint-err:unnamed-node-on-named-cycle", format!("every cycle passes through a named node (canonical form {want_text}), but fingerprint/freeze failed: {e}"));
			} else {
				viol("fingerprint-err", format!("fingerprint/freeze failed: {e}"));
			}
		}
		Out::Panic(e) => viol("fingerprint-panic", format!("panicked: {e}")),
	}
}

/// Checksum step on a GF(2) basis, all 256 table entries, and an exhaustive low-state sweep.
fn rabin_step_checks(rep: &mut Report) {
	let mut bad = |rep: &mut Report, class: &str, state: u64, byte: u8, what: String| {
		rep.violation(class, format!("checksum step (state {state:#018x}, byte {byte:#04x}): {what}"), json!({"check": "C08", "kind": "step", "state": format!("{state:#x}"), "byte": byte}));
	};
	let mut evals = 0u64;
	// initial state
	evals += 1;
	if verif_rabin_init() != EMPTY {
		rep.violation("checksum-init", format!("initial state {:#018x}, specification says {EMPTY:#018x}", verif_rabin_init()), json!({"check": "C08", "kind": "init"}));
	}
	// 73 basis vectors: (0,0), 64 unit states, 8 unit bytes
	let mut basis: Vec<(u64, u8)> = vec![(0, 0)];
	basis.extend((0..64).map(|i| (1u64 << i, 0u8)));
	basis.extend((0..8).map(|k| (0u64, 1u8 << k)));
	for &(s, b) in &basis {
		evals += 1;
		let got = verif_rabin_step(s, b);
		let want = crc64_step(s, b);
		if got != want {
			bad(rep, "checksum-step-basis", s, b, format!("{got:#018x}, bit-serial definition gives {want:#018x}"));
		}
	}
	// all 256 table entries: against the definition, and GF(2)-linear in the byte
	for b in 0..=255u8 {
		evals += 1;
		let got = verif_rabin_step(0, b);
		let want = crc64_step(0, b);
		let lin = (0..8).filter(|k| b >> k & 1 == 1).fold(0u64, |acc, k| acc ^ verif_rabin_step(0, 1 << k));
		if got != want {
			bad(rep, "checksum-table-entry", 0, b, format!("{got:#018x}, bit-serial definition gives {want:#018x}"));
		} else if got != lin {
			bad(rep, "checksum-table-not-linear", 0, b, format!("{got:#018x} is not the XOR {lin:#018x} of the single-bit entries"));
		}
	}
	// joint linearity on the basis: step(s ^ s', b ^ b') = step(s,b) ^ step(s',b') for basis pairs
	for &(s1, b1) in &basis {
		for &(s2, b2) in &basis {
			evals += 1;
			let l = verif_rabin_step(s1 ^ s2, b1 ^ b2);
			let r = verif_rabin_step(s1, b1) ^ verif_rabin_step(s2, b2);
			if l != r {
				bad(rep, "checksum-step-not-linear", s1 ^ s2, b1 ^ b2, format!("{l:#018x} differs from the XOR {r:#018x} of the steps of ({s1:#x},{b1:#x}) and ({s2:#x},{b2:#x})"));
			}
		}
	}
	// exhaustive: every state with only the low 16 bits set, and every unit high bit combined with
	// every low byte, with every input byte
	let mut states: Vec<u64> = (0..=0xffffu64).collect();
	for i in 8..64 {
		for low in 0..=255u64 {
			states.push((1u64 << i) ^ low);
		}
	}
	let fails: Vec<(u64, u8, u64, u64)> = states
		.par_iter()
		.flat_map_iter(|&s| {
			(0..=255u8).filter_map(move |b| {
				let got = verif_rabin_step(s, b);
				let want = crc64_step(s, b);
				(got != want).then_some((s, b, got, want))
			})
		})
		.collect();
	evals += states.len() as u64 * 256;
	for (s, b, got, want) in fails.into_iter().take(5) {
		bad(rep, "checksum-step", s, b, format!("{got:#018x}, bit-serial definition gives {want:#018x}"));
	}
	rep.cover.evaluations += evals;
	rep.cover.impl_runs += evals;
	rep.cover.states += evals;
	rep.cover.transitions += evals;
	rep.cover.count("checksum_step_evaluations", evals);
	rep.cover.count("checksum_basis_vectors", basis.len() as u64);
	rep.cover.count("checksum_table_entries", 256);
}

/// Hook-free: drive single characters through a type name and compare whole fingerprints.
fn name_driven_checks(rep: &mut Report) {
	let mut names: Vec<String> = (1u8..=0x7f).filter(|c| *c != b'.').map(|c| format!("N{}", c as char)).collect();
	names.extend(["é", "ÿ", "\u{800}", "\u{ffff}", "𝄞", "\u{10ffff}"].iter().map(|s| format!("N{s}")));
	for name in names {
		let g = vec![GNode::plain(ggen::GKind::Enum(name.clone(), vec![name.clone()]))];
		let want_text = pcf(&ggen::unfold(&g));
		let want = fingerprint_le(want_text.as_bytes());
		rep.cover.evaluations += 1;
		rep.cover.impl_runs += 1;
		rep.cover.states += 1;
		rep.cover.transitions += 1;
		rep.cover.count("name_driven_fingerprints", 1);
		match fingerprints(SchemaMut::from_nodes(ggen::to_crate(&g))) {
			Out::Ok((a, b, _)) if a == want && b == want => {
				rep.cover.nontrivial.insert(hash64(&name));
			}
			other => rep.violation("fingerprint-differs", format!("enum named {name:?} with symbol {name:?} (built with from_nodes): fingerprints {other:02x?}, expected {want:02x?} = LE64(CRC-64-AVRO({want_text}))"), json!({"check": "C08", "kind": "name", "name": name})),
		}
	}
}

/// Hook-free: fixed sizes at and beyond the 8 / 16 / 31 / 32-bit boundaries, built with from_nodes and parsed from text
/// (the canonical form writes the size as a JSON integer of whatever width the size has).
fn size_driven_checks(rep: &mut Report) {
	let sizes: [usize; 16] = [0, 1, 9, 10, 255, 256, 65_535, 65_536, (1 << 31) - 1, 1 << 31, 3_000_000_000, (1 << 32) - 1, 1 << 32, (1 << 32) + 1, 1_000_000_000_000, (1 << 53) - 1];
	for size in sizes {
		let g = vec![GNode::plain(ggen::GKind::Fixed("F".into(), size))];
		let want_text = pcf(&ggen::unfold(&g));
		let want = fingerprint_le(want_text.as_bytes());
		let text = format!("{{\"type\":\"fixed\",\"name\":\"F\",\"size\":{size}}}");
		for (origin, built) in [("from_nodes", Some(SchemaMut::from_nodes(ggen::to_crate(&g)))), ("parsed", text.parse::<SchemaMut>().ok())] {
			rep.cover.evaluations += 1;
			rep.cover.impl_runs += 1;
			rep.cover.states += 1;
			rep.cover.transitions += 1;
			rep.cover.count("size_driven_fingerprints", 1);
			let Some(m) = built else {
				// a size the parser refuses is C07's subject, not a fingerprint
				rep.cover.count("size_driven_parse_refused", 1);
				continue;
			};
			match fingerprints(m) {
				Out::Ok((a, b, _)) if a == want && b == want => {
					rep.cover.nontrivial.insert(hash64(&(origin, size)));
				}
				other => rep.violation("fingerprint-differs", format!("fixed \"F\" of size {size} ({origin}): fingerprints {other:02x?}, expected {want:02x?} = LE64(CRC-64-AVRO({want_text}))"), json!({"check": "C08", "kind": "graph", "graph": ggen::to_json(&g)})),
			}
		}
	}
}

pub fn run(rep: &mut Report) {
	let thorough = rep.thorough();
	let set = sgen::bases(thorough);
	let plan = sgen::Plan { escapes: 0, ..sgen::plan(thorough) };
	let levels: Vec<ggen::GBounds> = c09::levels(thorough).into_iter().filter(|b| b.n <= 3 || (thorough && b.label == "n4-ns2-canonical")).collect();
	rep.rule = format!(
		"SAE. Documents: C07's valid ASTs x spellings (tier {}; grammar families: {}; spellings: {}); per document: SchemaMut::canonical_form_rabin_fingerprint = Schema::rabin_fingerprint = LE64(crc64_avro(own canonical text)) [hook H1] and canonical text = vmodel::pcf(AST), fingerprint = LE64(crc64_avro(pcf(AST))) with a bit-serial CRC; the set of fingerprints over all spellings of one AST has one element; forward-reference variants: checksum-of-own-text only. Global: two ASTs with different canonical forms never share a fingerprint (unless the reference CRC collides too). Difference pairs for every valid AST: each single edit that changes the canonical form (wrap any node in an array, int -> long, swap union branches, rename a type, move a type to another namespace, reorder / rename fields, reorder / rename symbols, size + 1) must change the fingerprint, each edit that does not (logical type added to an int or to a named type) must not. Programmatic graphs (C09's levels {}; null-namespace names constructed both as Name::from_fully_qualified_name(\"X\") and as (\".X\") up to 3 nodes, mixed by node parity above); plus the sweep of every primitive kind — bare, with each allowed known logical type, with an unknown one — at every leaf position of one shape, and unions carrying a logical type): the two fingerprints agree with the reference for the unfolded graph. Checksum step via hook H2: initial state, the 73 basis vectors (0, 64 unit states, 8 unit bytes) and all 256 table entries against the bit-serial definition, table GF(2)-linear in the byte, joint additivity on all basis pairs — by linearity of `(s >> 8) ^ T[(s ^ b) & 0xff]` in (s, b) this determines all 2^64 x 256 pairs — plus, not relying on that argument, every (state, byte) with state < 2^16 or state = unit high bit ^ low byte, exhaustively. HIST: every history of <= {} operations from {{b = a.clone(); a.clone_from(&b); b.clone_from(&a); and for a and b: canonical_form_rabin_fingerprint(), serde_json::to_string(), freeze() (consumes the object), 5 edits through nodes_mut() (no change, rename first field, add symbol, fixed size + 1, rename first named type alternately to q.Q and to the null-namespace Q constructed as Name::from_fully_qualified_name(\".Q\"))}} on 6 base schemas (parsed with extra attributes / built with from_nodes; record+enum+fixed+recursion, array on a cycle through a record, enum without symbols, fixed), rebuilt from scratch per history (explicit-state BFS, key = history + all results); invariant after every operation: the fingerprint reported by the object / by the frozen Schema = fingerprint of the reference canonical form of the CURRENT nodes = what a fresh SchemaMut::from_nodes(current nodes) reports. Hook-free: every ASCII character and 6 multi-byte characters driven through a type name; a fixed of 16 sizes at and beyond the 8 / 16 / 31 / 32-bit boundaries (built and parsed). Non-trivial: documents with >= 1 reference or namespace transition (distinct by text), difference pairs (distinct by both texts), graphs with a shared / cyclic named node.",
		rep.tier,
		sgen::describe_grammars(thorough),
		sgen::describe_plan(&plan),
		levels.iter().map(|b| b.label).collect::<Vec<_>>().join(", "),
		if thorough { 5 } else { 4 },
	);
	rep.assumptions.push("vmodel::schema::pcf implements the specification's Parsing Canonical Form (names verbatim, as the reference Java implementation); vmodel::crc::crc64_avro is the bit-serial definition of CRC-64-AVRO".into());

	rabin_step_checks(rep);
	name_driven_checks(rep);
	size_driven_checks(rep);

	// HIST: histories on one SchemaMut (and its clone)
	let (hc, hv) = crate::shist::explore_histories("C08", if thorough { 5 } else { 4 }, crate::shist::Judge::Fingerprint);
	rep.cover.merge(hc);
	rep.violations.extend(hv);

	// (canonical form by the reference, fingerprint by the crate) per valid AST
	let table: Mutex<Vec<(u64, String)>> = Mutex::new(Vec::new());
	let (cover, viols) = sgen::par_bases(&set, &|case, cover, out| {
		if case.expect != Expect::Valid {
			return;
		}
		let seen: RefCell<HashSet<[u8; 8]>> = RefCell::new(HashSet::new());
		let first: RefCell<Option<String>> = RefCell::new(None);
		sgen::spell_and_judge(case, &plan, cover, out, &|doc, cover, out| {
			if let Some(fp) = judge_doc(doc, cover, out) {
				let mut s = seen.borrow_mut();
				if s.insert(fp) && s.len() > 1 {
					out.push(Violation { class: "fingerprint-varies-with-spelling".into(), what: format!("documents {} and {} spell the same schema, fingerprints differ", first.borrow().as_deref().unwrap_or(""), doc.text), replay: doc.replay("C08") });
				}
				if first.borrow().is_none() {
					*first.borrow_mut() = Some(doc.text.clone());
				}
			}
		});
		cover.count("asts", 1);
		if let Some(fp) = seen.borrow().iter().next() {
			table.lock().unwrap().push((u64::from_le_bytes(*fp), pcf(&case.ast)));
		}
		for fw in sgen::derived_forward(case) {
			sgen::spell_and_judge(&fw, &plan, cover, out, &|doc, cover, out| {
				judge_doc(doc, cover, out);
			});
		}
		judge_pairs(case, cover, out);
	});
	rep.cover.merge(cover);
	rep.violations.extend(viols);

	// global injectivity on the enumerated set
	let mut table = table.into_inner().unwrap();
	table.sort();
	table.dedup();
	let mut collisions = 0u64;
	for w in table.windows(2) {
		if w[0].0 == w[1].0 && w[0].1 != w[1].1 {
			if crc64_avro(w[0].1.as_bytes()) == crc64_avro(w[1].1.as_bytes()) {
				rep.cover.count("true_crc_collisions_abstained", 1);
				continue;
			}
			collisions += 1;
			rep.violation("fingerprint-collision", format!("schemas {} and {} have the same fingerprint {:#018x}", w[0].1, w[1].1, w[0].0), json!({"check": "C08", "kind": "collision", "a": w[0].1, "b": w[1].1}));
		}
	}
	rep.cover.count("distinct_canonical_forms_compared_pairwise", table.len() as u64);
	let _ = collisions;

	// programmatic graphs
	for b in &levels {
		let opts: Vec<Vec<GNode>> = (0..b.n).map(|i| ggen::node_options(i, b)).collect();
		let firsts: Vec<usize> = (0..opts[0].len()).collect();
		let results: Vec<(Cover, Vec<Violation>)> = firsts
			.par_iter()
			.map(|&first| {
				let mut cover = Cover::default();
				let mut out = Vec::new();
				let st = explore(None, u64::MAX, |ch| {
					if let Some(g) = ggen::gen_graph(ch, b, &opts, first) {
						if !ggen::has_unnamed_cycle(&g) && (out.len() as u64) < 50 + cover.counters.get("attributed_violations").copied().unwrap_or(0) {
							for sp in ggen::spellings_for(b) {
								if *sp == ggen::NameSpell::Dotted && !ggen::has_null_namespace_name(&g) {
									continue;
								}
								if *sp != ggen::NameSpell::Plain && ggen::has_null_namespace_name(&g) {
									cover.count("graphs_with_dot_constructed_null_namespace_names", 1);
								}
								judge_graph(&g, *sp, &mut cover, &mut out);
							}
						}
					}
					true
				});
				cover.add_tree(&st, &format!("graphs {} unit {first}", b.label));
				(cover, out)
			})
			.collect();
		for (c, v) in results {
			rep.cover.merge(c);
			if rep.violations.len() < 20_000 {
				rep.violations.extend(v);
			}
		}
	}

	// every primitive kind at every leaf position; unions with a logical type (the canonical form
	// ignores logical types)
	{
		let mut cover = Cover::default();
		let mut out = Vec::new();
		for (_, g) in ggen::primitive_sweep() {
			cover.states += 1;
			cover.transitions += 1;
			cover.count("primitive_sweep_graphs", 1);
			judge_graph(&g, ggen::NameSpell::Plain, &mut cover, &mut out);
		}
		for g in ggen::union_with_logical() {
			cover.states += 1;
			cover.transitions += 1;
			cover.evaluations += 1;
			cover.impl_runs += 1;
			cover.count("union_with_logical_type_graphs", 1);
			let stripped: Vec<GNode> = g.iter().map(|n| if matches!(n.kind, ggen::GKind::Union(_)) { GNode::plain(n.kind.clone()) } else { n.clone() }).collect();
			let want_text = pcf(&ggen::unfold(&stripped));
			let want = fingerprint_le(want_text.as_bytes());
			let sm = SchemaMut::from_nodes(ggen::to_crate(&g));
			match guarded(|| sm.canonical_form_rabin_fingerprint().map_err(|e| e.to_string())) {
				Out::Ok(fp) if fp == want => {}
				Out::Err(_) => cover.count("union_with_logical_type_fingerprint_err", 1),
				other => out.push(Violation {
					class: "fingerprint-differs".into(),
					what: format!("graph {} (built with from_nodes; a union node carries a logical type): canonical_form_rabin_fingerprint() = {other:02x?}, expected Err or {want:02x?} = LE64(CRC-64-AVRO({want_text}))", ggen::describe(&g)),
					replay: json!({"check": "C08", "kind": "graph", "graph": ggen::to_json(&stripped)}),
				}),
			}
		}
		rep.cover.merge(cover);
		rep.violations.extend(out);
	}

	// vacuity guards (skipped when the enumeration was cut short by violations)
	if rep.violations.len() as u64 >= 50 + rep.cover.counters.get("attributed_violations").copied().unwrap_or(0) {
		return;
	}
	let c = |k: &str| rep.cover.counters.get(k).copied().unwrap_or(0);
	let mut missing: Vec<&str> = Vec::new();
	for k in [
		"docs_fingerprint_equal",
		"graphs_fingerprint_equal",
		"forward_docs_checksum_only",
		"pair:wrapped-in-array",
		"pair:int-to-long",
		"pair:branches-swapped",
		"pair:renamed",
		"pair:namespace-changed",
		"pair:fields-reordered",
		"pair:field-renamed",
		"pair:symbols-reordered",
		"pair:symbol-renamed",
		"pair:symbol-added",
		"pair:size-changed",
		"pair:logical-type-added",
		"distinct_canonical_forms_compared_pairwise",
		"name_driven_fingerprints",
		"histories_observe_edit_observe",
		"graphs_with_dot_constructed_null_namespace_names",
		"primitive_sweep_graphs",
	] {
		if c(k) == 0 {
			missing.push(k);
		}
	}
	if !missing.is_empty() {
		machinery(format!("C08 never exercised: {missing:?}"));
	}
	let mut pairs: BTreeMap<String, u64> = BTreeMap::new();
	for (k, v) in &rep.cover.counters {
		if let Some(p) = k.strip_prefix("pair:") {
			pairs.insert(p.to_owned(), *v);
		}
	}
	rep.extra.insert("difference_pairs".into(), json!(pairs));
}

pub fn replay(v: &serde_json::Value) -> i32 {
	let r = &v["replay"];
	let mut cover = Cover::default();
	let mut out: Vec<Violation> = Vec::new();
	match r["kind"].as_str().unwrap_or("doc") {
		"step" => {
			let s = u64::from_str_radix(r["state"].as_str().unwrap_or("0x0").trim_start_matches("0x"), 16).unwrap_or(0);
			let b = r["byte"].as_u64().unwrap_or(0) as u8;
			let got = verif_rabin_step(s, b);
			let want = crc64_step(s, b);
			println!("step({s:#018x}, {b:#04x}) = {got:#018x}, bit-serial definition {want:#018x}");
			return if got == want { 0 } else { 1 };
		}
		"init" => {
			println!("init = {:#018x}, specification {EMPTY:#018x}", verif_rabin_init());
			return if verif_rabin_init() == EMPTY { 0 } else { 1 };
		}
		"name" => {
			let name = r["name"].as_str().unwrap_or("N").to_owned();
			let g = vec![GNode::plain(ggen::GKind::Enum(name.clone(), vec![name.clone()]))];
			let want_text = pcf(&ggen::unfold(&g));
			let want = fingerprint_le(want_text.as_bytes());
			let got = fingerprints(SchemaMut::from_nodes(ggen::to_crate(&g)));
			println!("canonical form {want_text}: crate {got:02x?}, reference {want:02x?}");
			return match got {
				Out::Ok((a, b, _)) if a == want && b == want => 0,
				_ => 1,
			};
		}
		"history" => return crate::shist::replay_history(r, crate::shist::Judge::Fingerprint),
		"graph" => {
			let g = ggen::from_json(&r["graph"]).unwrap_or_else(|| machinery("replay: bad graph".into()));
			println!("graph: {}", ggen::describe(&g));
			println!("reference canonical form: {}", pcf(&ggen::unfold(&g)));
			let sp = ggen::NameSpell::from_label(r["names"].as_str().unwrap_or("plain"));
			println!("names: {}", sp.origin());
			println!("crate: {:02x?}", fingerprints(SchemaMut::from_nodes(ggen::to_crate_spelled(&g, sp))));
			judge_graph(&g, sp, &mut cover, &mut out);
		}
		"pair" | "collision" => {
			let a = r["a"].as_str().unwrap_or("");
			let b = r["b"].as_str().unwrap_or("");
			if r["kind"] == "collision" {
				println!("canonical forms {a} and {b}: reference CRCs {:#018x} and {:#018x}", crc64_avro(a.as_bytes()), crc64_avro(b.as_bytes()));
				return 1;
			}
			let must_differ = r["must_differ"].as_bool().unwrap_or(true);
			let fa = parse_fp(a);
			let fb = parse_fp(b);
			println!("{a}\n  -> {fa:02x?}\n{b}\n  -> {fb:02x?}\nmust {}", if must_differ { "differ" } else { "be equal" });
			return match (fa, fb) {
				(Out::Ok(x), Out::Ok(y)) if (x.1 != y.1) == must_differ => 0,
				_ => 1,
			};
		}
		_ => {
			let text = r["text"].as_str().unwrap_or_else(|| machinery("replay file has no text".into())).to_owned();
			let expect = sgen::expect_from_str(r["expect"].as_str().unwrap_or("valid"));
			let ast = resolve_text(r["ast_plain"].as_str().unwrap_or(""), &ResolveCfg { allow_forward: true, allow_leading_dot: false }).unwrap_or(RSchema::Null);
			let feats = sgen::feats(&ast);
			let case = AstCase { family: r["family"].as_str().unwrap_or("replay").to_owned(), choices: vec![], ast, expect, feats, vary_scale: false };
			let doc = Doc { case: &case, text: text.clone(), tok: SpellTok::Diag(0), cfg: SpellCfg::plain() };
			println!("document: {text}");
			println!("reference canonical form: {}", pcf(&case.ast));
			println!("reference fingerprint: {:02x?}", fingerprint_le(pcf(&case.ast).as_bytes()));
			println!("crate (mut fingerprint, frozen fingerprint, canonical form): {:02x?}", parse_fp(&text));
			judge_doc(&doc, &mut cover, &mut out);
		}
	}
	for v in &out {
		println!("  [{}] {}", v.class, v.what);
	}
	if out.is_empty() {
		println!("no violation");
		0
	} else {
		1
	}
}
